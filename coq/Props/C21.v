(* C21 -- Remote endpoints behave exactly like local endpoints.

   Property theorems only; each is closed by [exact <lemma>] from
   Proof/Remote.v and listed under Print Assumptions at the end.

   The statement (properties.jsonl): for any sequence of endpoint operations,
   an endpoint reached through the agent protocol (delta-encoded snapshots,
   compacted staging responses, wrapped transition results) returns the same
   snapshots, staging requirements, transition results, problems and
   missing-file indications as the same endpoint used locally; snapshot
   reconstruction is exact for any history of scans.

   What is proved, about the model of client.go/server.go/protocol.go in
   Model/Remote.v, for an ARBITRARY local endpoint (any state machine whose
   answers respect the synchronization.Endpoint contract):
     c21_scan_history        every history of scans
     c21_stage_compaction    the path-list shorthand is lossless
     c21_stage_ensure_valid  what StageResponse.ensureValid accepts
     c21_transition_results  results / problems / missing-files flag
     c21_equivalence_partial every sequence of Scan/Stage/Transition
   The last one carries the hypothesis [known_c21 fixed read_only o = false]:
   with the code as it is ([fixed] = false), on a read-only endpoint Stage with
   an empty path list fails locally and "succeeds" remotely
   (c21_readonly_empty_stage_refuted); outside that class the equivalence is
   proved, and for the code as it would be after the proposed repair of
   local/endpoint.go ([fixed] = true) it is proved without exception
   (c21_equivalence_fixed).

   NOT proved (validated by the harness goharness/cmd/remote only): the
   concurrency of the completion requests (Scan/Transition/Poll send a
   completion request concurrently with receiving the response), the stream
   layer under the messages (compression, framing: C22), Poll, and the
   forwarding of rsync transmissions through the receivers of Stage/Supply. *)
From Coq Require Import List Bool Arith String.
Import ListNotations.
From Mv Require Import Model.Remote Proof.Remote.

Section C21.

Variables snapshot ancestor bytes sgn delta : Type.
Variable marshal : snapshot -> option bytes.
Variable unmarshal : bytes -> option snapshot.
Variable sig_of : bytes -> sgn.
Variable deltify : bytes -> sgn -> delta.
Variable patch : bytes -> sgn -> delta -> option bytes.
Variable of_ancestor : ancestor -> snapshot.
Variable content_nil : snapshot -> bool.
Variable snap_valid : snapshot -> bool.
Variable delta_valid : delta -> bool.
Variable delta_empty : delta -> bool.
Variable delta_nil : delta.
Variables pathT digestT fsig : Type.
Variable fsig_valid : fsig -> bool.
Variables result problem change : Type.
Variable result_valid : result -> bool.
Variable problem_valid : problem -> bool.
Variable change_valid : change -> bool.

(* Protocol Buffers: deserialising a serialisation gives the value back. *)
Hypothesis marshal_roundtrip : forall s b, marshal s = Some b -> unmarshal b = Some s.
(* rsync -- this is property C19's theorem, assumed here by name. *)
Hypothesis c19_patch_deltify :
  forall base target, patch base (sig_of base) (deltify target (sig_of base)) = Some target.
(* the engine's operations pass Operation.EnsureValid; an unset delta is
   valid and empty *)
Hypothesis deltify_valid : forall t s, delta_valid (deltify t s) = true.
Hypothesis delta_nil_valid : delta_valid delta_nil = true.
Hypothesis delta_nil_empty : delta_empty delta_nil = true.

(* ------------------------------------------------------------------ scan *)

(* For EVERY history of scans -- successes, endpoint errors with either
   try-again flag, snapshots with nil content, plain and full scans, any
   ancestors, starting from any lastSnapshotBytes -- what can be observed of
   the protocol run (the bytes the client patches against, the signature and
   the flag in the request, the result the caller gets, lastSnapshotBytes
   afterwards) is what the message-free specification says:
     - the result is the endpoint's own answer to the flag the caller passed
       (a snapshot: that very snapshot; an error: its message and try-again
       flag),
     - the baseline before each request is the endpoint's serialisation of the
       latest answered snapshot with non-nil content, else the serialised
       ancestor-based snapshot, and the request carries the signature of
       exactly these bytes (so client and server agree on the baseline
       without the server keeping one),
     - lastSnapshotBytes changes on no error path and not on nil content.
   [event_wf]: the endpoint's snapshots pass EnsureValid and serialise, its
   error messages are non-empty, the ancestors serialise. *)
Theorem c21_scan_history :
  forall (h : list (scan_event snapshot ancestor)) (last : option bytes),
    Forall (event_wf marshal of_ancestor snap_valid) h ->
    map observe
        (scan_trace marshal unmarshal sig_of deltify patch of_ancestor content_nil
                    snap_valid delta_valid delta_empty delta_nil last h)
    = spec_trace marshal sig_of of_ancestor content_nil last h.
Proof.
  exact (scan_history snapshot ancestor bytes sgn delta marshal unmarshal sig_of deltify patch
                      of_ancestor content_nil snap_valid delta_valid delta_empty delta_nil
                      marshal_roundtrip c19_patch_deltify deltify_valid delta_nil_valid
                      delta_nil_empty).
Qed.

(* Readable form: the i-th result is the endpoint's i-th answer. *)
Theorem c21_scan_snapshots_exact :
  forall (h : list (scan_event snapshot ancestor)) (last : option bytes),
    Forall (event_wf marshal of_ancestor snap_valid) h ->
    map st_result
        (scan_trace marshal unmarshal sig_of deltify patch of_ancestor content_nil
                    snap_valid delta_valid delta_empty delta_nil last h)
    = map (fun ev => lift_scan (ev_answer ev (ev_full ev))) h.
Proof.
  exact (scan_results snapshot ancestor bytes sgn delta marshal unmarshal sig_of deltify patch
                      of_ancestor content_nil snap_valid delta_valid delta_empty delta_nil
                      marshal_roundtrip c19_patch_deltify deltify_valid delta_nil_valid
                      delta_nil_empty).
Qed.

(* Readable form: before each request both sides use the same baseline. *)
Theorem c21_scan_baselines_agree :
  forall (h : list (scan_event snapshot ancestor)) (last : option bytes),
    Forall (event_wf marshal of_ancestor snap_valid) h ->
    Forall (fun st => exists b rq, st_base st = Some b /\ st_request st = Some rq
                                   /\ rq_sig rq = sig_of b)
           (scan_trace marshal unmarshal sig_of deltify patch of_ancestor content_nil
                       snap_valid delta_valid delta_empty delta_nil last h).
Proof.
  exact (scan_baselines_agree snapshot ancestor bytes sgn delta marshal unmarshal sig_of deltify
                              patch of_ancestor content_nil snap_valid delta_valid delta_empty
                              delta_nil).
Qed.

(* ----------------------------------------------------------------- stage *)

(* Expansion undoes compaction for every order-preserving subsequence of the
   request with one signature per path -- in particular for "all paths" (sent
   as an empty path list with signatures) and "no paths" (empty list, no
   signatures), the two encodings that share the empty path list. *)
Theorem c21_stage_compaction :
  forall (req paths : list pathT) (sigs : list fsig),
    subseq paths req -> List.length sigs = List.length paths ->
    expand req (compact req paths sigs) = (paths, sigs).
Proof. exact (stage_compaction pathT fsig). Qed.

(* StageResponse.ensureValid accepts exactly the responses whose expansion has
   one signature per path, no more paths than requested, valid signatures,
   and no paths next to an error. *)
Theorem c21_stage_ensure_valid :
  forall (req : list pathT) (r : stage_response pathT fsig),
    stage_response_valid fsig_valid (List.length req) r = true
    <-> (List.length (fst (expand req r)) = List.length (snd (expand req r))
         /\ List.length (fst (expand req r)) <= List.length req
         /\ forallb fsig_valid (sg_sigs r) = true
         /\ (sg_error r <> ""%string -> sg_paths r = [])).
Proof. exact (stage_valid_iff pathT fsig fsig_valid). Qed.

(* The compaction of a contract-abiding answer is accepted, and the caller
   gets exactly the endpoint's paths and signatures. *)
Theorem c21_stage_roundtrip :
  forall (req paths : list pathT) (sigs : list fsig),
    subseq paths req -> List.length sigs = List.length paths ->
    forallb fsig_valid sigs = true ->
    client_stage_finish fsig_valid req (compact req paths sigs) = GOk paths sigs.
Proof. exact (stage_roundtrip pathT fsig fsig_valid). Qed.

(* ------------------------------------------------------------ transition *)

(* Results (nil entries included, wrapped in archives on the wire), problems
   and the missing-files flag come back unchanged. *)
Theorem c21_transition_results :
  forall n (rs : list result) (ps : list problem) (m : bool),
    List.length rs = n -> forallb result_valid rs = true -> forallb problem_valid ps = true ->
    client_transition_finish result_valid problem_valid n (server_transition (TAOk rs ps m))
    = TOk rs ps m.
Proof. exact (transition_results result problem result_valid problem_valid). Qed.

(* An endpoint failure is a failure for the caller too (its text survives only
   for an empty transition list: the response is validated first). *)
Theorem c21_transition_error :
  forall n m, m <> ""%string ->
    client_transition_finish (problem := problem) result_valid problem_valid n
                             (server_transition (TAErr m))
    = if n =? 0 then TErr (ERemote m) else TErr EInvalidResponse.
Proof. exact (transition_error result problem result_valid problem_valid). Qed.

Theorem c21_transition_ensure_valid :
  forall n (r : trans_response result problem),
    trans_response_valid result_valid problem_valid n r = true
    <-> (List.length (tr_results r) = n
         /\ forallb result_valid (map ar_content (tr_results r)) = true
         /\ forallb problem_valid (tr_problems r) = true).
Proof. exact (trans_valid_iff result problem result_valid problem_valid). Qed.

(* -------------------------------------------------------------- sessions *)

(* Full statement (false as it stands, see c21_readonly_empty_stage_refuted):
   the equivalence below without the [known_c21] premise. *)
Definition full_statement : Prop :=
  forall (read_only : bool) (St : Type)
         (E : endpoint snapshot pathT digestT fsig result problem change St),
    endpoint_ok marshal snap_valid fsig_valid result_valid problem_valid change_valid
                false read_only E ->
    forall ops st last,
      Forall (op_wf marshal of_ancestor change_valid) ops ->
      Forall2 same_outcome_prop (local_run E st ops)
              (remote_run marshal unmarshal sig_of deltify patch of_ancestor content_nil
                          snap_valid delta_valid delta_empty delta_nil fsig_valid
                          result_valid problem_valid change_valid E
                          {| cl_last := last; sv_alive := true; sv_state := st |} ops).

(* For EVERY endpoint state machine that honours the Endpoint contract and
   whose Stage begins like the local endpoint's, EVERY sequence of Scan, Stage
   and Transition operations (up to and including the first failed Stage,
   after which the server's loop has ended), EVERY initial endpoint state and
   client baseline: operation by operation the endpoint behind client and
   server returns the same outcome as the endpoint used directly -- the same
   snapshot, the same paths and signatures, the same results, problems and
   missing-files flag, or a failure on both sides (for Scan with the same
   try-again flag) -- PROVIDED no operation is in the known class
   (Stage with no paths on a read-only endpoint). *)
Theorem c21_equivalence_partial :
  forall (fixed read_only : bool) (St : Type)
         (E : endpoint snapshot pathT digestT fsig result problem change St),
    endpoint_ok marshal snap_valid fsig_valid result_valid problem_valid change_valid
                fixed read_only E ->
    forall ops st last,
      Forall (op_wf marshal of_ancestor change_valid) ops ->
      Forall (fun o => known_c21 fixed read_only o = false) ops ->
      Forall2 same_outcome_prop (local_run E st ops)
              (remote_run marshal unmarshal sig_of deltify patch of_ancestor content_nil
                          snap_valid delta_valid delta_empty delta_nil fsig_valid
                          result_valid problem_valid change_valid E
                          {| cl_last := last; sv_alive := true; sv_state := st |} ops).
Proof.
  exact (session_equivalence snapshot ancestor bytes sgn delta marshal unmarshal sig_of deltify
                             patch of_ancestor content_nil snap_valid delta_valid delta_empty
                             delta_nil pathT digestT fsig fsig_valid result problem change
                             result_valid problem_valid change_valid marshal_roundtrip
                             c19_patch_deltify deltify_valid delta_nil_valid delta_nil_empty).
Qed.

(* The same for the code after the proposed repair (argument checks before
   the read-only refusal in local/endpoint.go Stage): no exception. *)
Theorem c21_equivalence_fixed :
  forall (read_only : bool) (St : Type)
         (E : endpoint snapshot pathT digestT fsig result problem change St),
    endpoint_ok marshal snap_valid fsig_valid result_valid problem_valid change_valid
                true read_only E ->
    forall ops st last,
      Forall (op_wf marshal of_ancestor change_valid) ops ->
      Forall2 same_outcome_prop (local_run E st ops)
              (remote_run marshal unmarshal sig_of deltify patch of_ancestor content_nil
                          snap_valid delta_valid delta_empty delta_nil fsig_valid
                          result_valid problem_valid change_valid E
                          {| cl_last := last; sv_alive := true; sv_state := st |} ops).
Proof.
  exact (session_equivalence_fixed snapshot ancestor bytes sgn delta marshal unmarshal sig_of
                                   deltify patch of_ancestor content_nil snap_valid delta_valid
                                   delta_empty delta_nil pathT digestT fsig fsig_valid result
                                   problem change result_valid problem_valid change_valid
                                   marshal_roundtrip c19_patch_deltify deltify_valid
                                   delta_nil_valid delta_nil_empty).
Qed.

(* ---------------------------------------------------------------- checker *)
Variable snapshot_eqb : snapshot -> snapshot -> bool.
Variable path_eqb : pathT -> pathT -> bool.
Variable fsig_eqb : fsig -> fsig -> bool.
Variable result_eqb : result -> result -> bool.
Variable problem_eqb : problem -> problem -> bool.
Hypothesis snapshot_eqb_spec : forall a b, snapshot_eqb a b = true <-> a = b.
Hypothesis path_eqb_spec : forall a b, path_eqb a b = true <-> a = b.
Hypothesis fsig_eqb_spec : forall a b, fsig_eqb a b = true <-> a = b.
Hypothesis result_eqb_spec : forall a b, result_eqb a b = true <-> a = b.
Hypothesis problem_eqb_spec : forall a b, problem_eqb a b = true <-> a = b.

(* check_c21 (applied by the harness to the real endpoints' outputs) decides
   the property's relation. *)
Theorem c21_check_sound :
  forall loc rem,
    check_c21 snapshot_eqb path_eqb fsig_eqb result_eqb problem_eqb loc rem = true
    <-> Forall2 same_outcome_prop loc rem.
Proof.
  exact (check_sound snapshot pathT fsig result problem snapshot_eqb path_eqb fsig_eqb result_eqb
                     problem_eqb snapshot_eqb_spec path_eqb_spec fsig_eqb_spec result_eqb_spec
                     problem_eqb_spec).
Qed.

(* The model's own output passes the checker. *)
Theorem c21_model_passes_check :
  forall (fixed read_only : bool) (St : Type)
         (E : endpoint snapshot pathT digestT fsig result problem change St),
    endpoint_ok marshal snap_valid fsig_valid result_valid problem_valid change_valid
                fixed read_only E ->
    forall ops st last,
      Forall (op_wf marshal of_ancestor change_valid) ops ->
      Forall (fun o => known_c21 fixed read_only o = false) ops ->
      check_c21 snapshot_eqb path_eqb fsig_eqb result_eqb problem_eqb
                (local_run E st ops)
                (remote_run marshal unmarshal sig_of deltify patch of_ancestor content_nil
                            snap_valid delta_valid delta_empty delta_nil fsig_valid
                            result_valid problem_valid change_valid E
                            {| cl_last := last; sv_alive := true; sv_state := st |} ops) = true.
Proof.
  exact (model_passes_check snapshot ancestor bytes sgn delta marshal unmarshal sig_of deltify
                            patch of_ancestor content_nil snap_valid delta_valid delta_empty
                            delta_nil pathT digestT fsig fsig_valid result problem change
                            result_valid problem_valid change_valid marshal_roundtrip
                            c19_patch_deltify deltify_valid delta_nil_valid delta_nil_empty
                            snapshot_eqb path_eqb fsig_eqb result_eqb problem_eqb
                            snapshot_eqb_spec path_eqb_spec fsig_eqb_spec result_eqb_spec
                            problem_eqb_spec).
Qed.

End C21.

(* The known finding (code as it is): on a read-only endpoint whose Stage
   begins exactly as local/endpoint.go's does, Stage with no paths and no digests fails when the
   endpoint is used directly and reports "nothing to stage" through client
   and server; the operation is in the class [known_c21]. *)
Theorem c21_readonly_empty_stage_refuted :
  ro_local = [ResStage (GErr (ERemote "endpoint is in read-only mode"))]
  /\ ro_remote = [ResStage (GOk [] [])]
  /\ known_c21 (ancestor := unit) (pathT := unit) (digestT := unit) (change := unit)
               false true (OpStage [] []) = true.
Proof. exact readonly_empty_stage_diverges. Qed.

(* Non-vacuity: the hypotheses are satisfiable together, on a history that
   exercises every branch of the baseline state machine (snapshot with
   content, endpoint error, nil content, content again). Snapshots are
   numbers (0 = nil content), bytes = the number, a signature = the bytes, a
   delta = (target, signature it was computed against). *)
Example c21_hypotheses_satisfiable :
  let marshal (s : nat) := Some s in
  let unmarshal (b : nat) := Some b in
  let sig_of (b : nat) := b in
  let deltify (t s : nat) := Some (t, s) in
  let patch (base s : nat) (d : option (nat * nat)) :=
      match d with
      | None => Some 0
      | Some (t, s') => if s =? s' then Some t else None
      end in
  let valid (d : option (nat * nat)) := true in
  let empty (d : option (nat * nat)) := match d with None => true | Some _ => false end in
  (forall s b, marshal s = Some b -> unmarshal b = Some s)
  /\ (forall base target, patch base (sig_of base) (deltify target (sig_of base)) = Some target)
  /\ (forall t s, valid (deltify t s) = true) /\ valid None = true /\ empty None = true
  /\ let h := [ {| ev_anc := 9; ev_full := false; ev_answer := fun _ => SAOk 5 |};
                {| ev_anc := 9; ev_full := true; ev_answer := fun _ => SAErr "scan failed" true |};
                {| ev_anc := 9; ev_full := false; ev_answer := fun _ => SAOk 0 |};
                {| ev_anc := 8; ev_full := false; ev_answer := fun f => if f then SAOk 1 else SAOk 7 |} ] in
     Forall (event_wf marshal (fun a : nat => a) (fun _ => true)) h
     /\ map (fun st => (st_base st, st_result st, st_last st))
            (scan_trace marshal unmarshal sig_of deltify patch (fun a : nat => a)
                        (fun s => s =? 0) (fun _ => true) valid empty None None h)
        = [ (Some 9, ROk 5, Some 5);
            (Some 5, RErr (ERemote "scan failed") true, Some 5);
            (Some 5, ROk 0, Some 5);
            (Some 5, ROk 7, Some 7) ].
Proof. exact hypotheses_satisfiable_example. Qed.

Print Assumptions c21_scan_history.
Print Assumptions c21_scan_snapshots_exact.
Print Assumptions c21_scan_baselines_agree.
Print Assumptions c21_stage_compaction.
Print Assumptions c21_stage_ensure_valid.
Print Assumptions c21_stage_roundtrip.
Print Assumptions c21_transition_results.
Print Assumptions c21_transition_error.
Print Assumptions c21_transition_ensure_valid.
Print Assumptions c21_equivalence_partial.
Print Assumptions c21_equivalence_fixed.
Print Assumptions c21_check_sound.
Print Assumptions c21_model_passes_check.
Print Assumptions c21_readonly_empty_stage_refuted.
Print Assumptions c21_hypotheses_satisfiable.
