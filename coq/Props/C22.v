(* C22 — Control-stream framing delivers every flushed message intact.

   Property text: "Any sequence of protocol messages written through the
   length-prefixed encoder and a supported compression algorithm is decoded by
   the peer as the same sequence, however the bytes are fragmented in transit.
   After a flush, everything written so far can be decoded without further
   data, and declared message sizes above the limit are rejected."

   Property theorems only; each is closed by [exact <lemma>] from
   Proof/Varint.v or Proof/Framing.v.  A message is its marshalled body; the
   compressor is abstract and its flush contract [compressor_contract] is an
   explicit premise (validated against DEFLATE and the pass-through algorithm
   on every run by goharness/cmd/framing). *)
From Coq Require Import List NArith Strings.Byte.
Import ListNotations.
From Mv Require Import Model.Varint Model.Framing Proof.Varint Proof.Framing.
Local Open Scope N_scope.

(* -- the length prefix ------------------------------------------------------- *)
(* binary.ReadUvarint inverts protowire.AppendVarint on every uint64, whatever
   follows. *)
Theorem c22_varint :
  forall n r, n < 2 ^ 64 -> read_uvarint (uvarint n ++ r) = UvOk n r.
Proof. exact read_uvarint_uvarint. Qed.

(* -- any fragmentation --------------------------------------------------------- *)
(* However the encoded stream of the messages [ms] is cut into fragments, the
   incremental decoder (started at a frame boundary, any buffer state) returns
   exactly [ms] and is back at a frame boundary; for every decoder limit below
   2^64 and all messages within the limit, of any size. *)
Theorem c22_fragmentation :
  forall cf ms frags st,
    ph st = PLen v0 -> limit cf < 2 ^ 64 ->
    Forall (fun m => lenN m <= limit cf) ms ->
    concat frags = encode_all ms ->
    exists st', feed_all cf st frags = (st', ms) /\ ph st' = PLen v0.
Proof. exact framing_fragmentation. Qed.

(* Only the concatenation of the fragments matters, on EVERY byte stream. *)
Theorem c22_fragment_independent :
  forall cf frags st, feed_all cf st frags = feed cf st (concat frags).
Proof. exact feed_all_concat. Qed.

(* On every byte stream, well formed or not, and every fragmentation, the
   incremental decoder returns the frames of the whole-stream specification
   [parse_stream] and stops for the same reason (clean end, truncated length,
   truncated body, varint overflow, size above the limit). *)
Theorem c22_feed_spec :
  forall cf frags st,
    ph st = PLen v0 ->
    exists ms e, parse_stream (limit cf) (concat frags) = Some (ms, e)
                 /\ model_raw cf st frags = (ms, dend_code e).
Proof. exact framing_feed_spec. Qed.

(* -- the size limit --------------------------------------------------------------- *)
(* A declared size above the limit (in any varint encoding) puts the decoder
   into the error state as soon as the length is complete: no message is
   returned, exactly the bytes of the length have been consumed (none of the
   body), and bufferWithSize has not been reached (cached capacity and
   allocation total unchanged). *)
Theorem c22_limit :
  forall cf l n r st,
    ph st = PLen v0 -> read_uvarint l = UvOk n r -> limit cf < n ->
    exists st', feed cf st l = (st', [])
      /\ ph st' = PErr ETooLarge /\ cap st' = cap st /\ allocated st' = allocated st
      /\ consumed st' + lenN r = consumed st + lenN l.
Proof. exact framing_limit. Qed.

(* -- the writer pipeline and the flush order ------------------------------------------ *)
Section C22_pipeline.
Variable C : Type.                                   (* compressor state *)
Variable cwrite : C -> list byte -> C * list byte.
Variable cflush : C -> C * list byte.
Variable c0 : C.
Variable decomp : list byte -> list byte.
Hypothesis contract : compressor_contract C cwrite cflush c0 decomp.

(* After any sequence of writes and flushes (earlier flushes in any order),
   MultiFlusher.Flush in the order of the code leaves both bufio layers empty
   and everything written so far recoverable from the bytes handed to the
   transport; for all buffer sizes. *)
Theorem c22_flush_delivers :
  forall n1 n2 ops,
    let st := p_run C cwrite cflush n1 n2 (p_init C c0) (ops ++ [OpFlush go_flush_order]) in
    decomp (transport st) = writes_of ops /\ outer st = [] /\ inner st = []
    /\ written st = writes_of ops.
Proof. exact (pipeline_flush_delivers C cwrite cflush c0 decomp contract). Qed.

(* At every moment the peer can have seen only a prefix of what was written. *)
Theorem c22_prefix_safe :
  forall n1 n2 ops,
    let st := p_run C cwrite cflush n1 n2 (p_init C c0) ops in
    exists rest, writes_of ops = decomp (transport st) ++ rest.
Proof. exact (pipeline_prefix_safe C cwrite cflush c0 decomp contract). Qed.

(* End to end: segments of messages, each followed by a flush in the order of
   the code; whatever the decompressor hands over, in whatever fragments, the
   decoder returns exactly the messages written, without further data. *)
Theorem c22_flush_decodes :
  forall cf n1 n2 segs frags d0,
    ph d0 = PLen v0 -> limit cf < 2 ^ 64 ->
    Forall (fun m => lenN m <= limit cf) (concat segs) ->
    concat frags
    = decomp (transport (p_run C cwrite cflush n1 n2 (p_init C c0) (ops_of_segments segs))) ->
    exists d, feed_all cf d0 frags = (d, concat segs) /\ ph d = PLen v0.
Proof. exact (pipeline_flush_decodes C cwrite cflush c0 decomp contract). Qed.

End C22_pipeline.

(* The order of the code is needed: with a lawful compressor that holds its
   input until Flush and the buffer sizes of the code, among the six orders of
   the three layers ONLY [outbound; compressor; compressedOutbound] delivers
   after every history. *)
Theorem c22_order_needed :
  forall order, In order all_orders -> (hold_delivers order <-> order = go_flush_order).
Proof. exact order_needed. Qed.

(* The counterexample for the reversed order: one byte written, flushed
   inner-first: nothing reaches the transport, the byte sits in the compressor.
   Without compression it sits in the inner buffer. *)
Theorem c22_reversed_order_counterexample :
  let st := p_run (list byte) hold_write hold_flush
                  go_control_stream_buffer go_control_stream_buffer
                  (p_init (list byte) []) [OpWrite [x2a]; OpFlush [LInner; LComp; LOuter]] in
  transport st = [] /\ written st = [x2a] /\ inner st = [] /\ comp st = [x2a].
Proof. exact reversed_order_counterexample. Qed.

Theorem c22_reversed_order_counterexample_none :
  let st := p_run unit none_write none_flush
                  go_control_stream_buffer go_control_stream_buffer
                  (p_init unit tt) [OpWrite [x2a]; OpFlush [LInner; LComp; LOuter]] in
  transport st = [] /\ written st = [x2a] /\ inner st = [x2a].
Proof. exact reversed_order_counterexample_none. Qed.

(* -- the checkers applied to the implementation's outputs ---------------------------------- *)
(* Pipeline runs: the checker accepts exactly the outputs in which, after every
   flush, the peer's decoder returned the messages of that segment, no more,
   no less, without an error and without needing further data. *)
Theorem c22_check_pipe_sound :
  forall i o, check_pipe i o = true <-> o = map (fun seg => (seg, 0)) i.
Proof. exact check_pipe_sound. Qed.

(* Raw decoder runs on arbitrary streams: accepted outputs carry exactly the
   complete in-limit frames of the stream, and if the first offending frame
   declares a size above the limit the run ended with "message size too
   large". *)
Theorem c22_check_raw_sound :
  forall lim stream o,
    check_raw lim stream o = true ->
    exists ms e, parse_stream lim stream = Some (ms, e) /\ fst o = ms
                 /\ (e = DFailed ETooLarge -> snd o = 4).
Proof. exact check_raw_sound. Qed.

(* The model's own outputs pass both checkers. *)
Theorem c22_model_passes_raw :
  forall cf st frags,
    ph st = PLen v0 -> check_raw (limit cf) (concat frags) (model_raw cf st frags) = true.
Proof. exact check_raw_model. Qed.

Theorem c22_model_passes_pipe :
  forall cf segs segfrags st,
    ph st = PLen v0 -> limit cf < 2 ^ 64 ->
    Forall (fun m => lenN m <= limit cf) (concat segs) ->
    Forall2 (fun seg fs => concat fs = encode_all seg) segs segfrags ->
    check_pipe segs (model_pipe cf st segfrags) = true.
Proof. exact check_pipe_model. Qed.

(* The accumulator version of the encoder used by the harness is the encoder. *)
Theorem c22_encode_all_fast : forall ms, encode_all_fast ms = encode_all ms.
Proof. exact encode_all_fast_spec. Qed.

(* -- non-vacuity ---------------------------------------------------------------------------- *)
(* The contract is satisfiable: the pass-through algorithm and the holding
   compressor both obey it. *)
Example c22_contract_none : compressor_contract unit none_write none_flush tt id_decomp.
Proof. exact none_contract. Qed.
Example c22_contract_hold : compressor_contract (list byte) hold_write hold_flush [] id_decomp.
Proof. exact hold_contract. Qed.

(* A concrete run: an empty message, a three-byte message and a 300-byte
   message (two-byte length), cut inside the length and inside a body, with
   the limit and the buffers of the code. *)
Example c22_example :
  let ms := [[]; [x01; x02; x03]; repeat xff 300] in
  let s := encode_all ms in
  feed_all go_dconf go_d_init [firstn 2 s; firstn 4 (skipn 2 s); skipn 6 s]
  = ({| ph := PLen v0; consumed := 307; cap := go_decoder_initial_buffer; allocated := 0 |}, ms).
Proof. exact framing_example. Qed.

Print Assumptions c22_varint.
Print Assumptions c22_fragmentation.
Print Assumptions c22_fragment_independent.
Print Assumptions c22_feed_spec.
Print Assumptions c22_limit.
Print Assumptions c22_flush_delivers.
Print Assumptions c22_prefix_safe.
Print Assumptions c22_flush_decodes.
Print Assumptions c22_order_needed.
Print Assumptions c22_reversed_order_counterexample.
Print Assumptions c22_reversed_order_counterexample_none.
Print Assumptions c22_check_pipe_sound.
Print Assumptions c22_check_raw_sound.
Print Assumptions c22_model_passes_raw.
Print Assumptions c22_model_passes_pipe.
Print Assumptions c22_encode_all_fast.
