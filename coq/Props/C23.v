(* C24 — placeholder while the harness is brought up; replaced below. *)
From Mv Require Import Model.Mux.
