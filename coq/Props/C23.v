(* C23 — Multiplexed streams deliver bytes reliably and in order.
   Property theorems only; proofs are in Proof/MuxData.v (on top of the
   invariant I_mux of Proof/Mux*.v).

   Ghost logs of the model (Model/Mux.v): [wlog e] = per stream, the bytes
   this endpoint has put into data frames (= the bytes counted by the return
   values of Write); [rlog e] = per stream, the bytes handed to callers of
   Read.  All statements are for every pair of configurations, every schedule
   and every stream identifier, with both C24 repairs on. *)
From Coq Require Import List NArith Bool.
From Coq Require Import Strings.Byte.
From Mv Require Import Model.Mux Model.MuxMon Proof.MuxInv Proof.Mux Proof.MuxData.
Import ListNotations.
Local Open Scope N_scope.

Definition reachable (ca cb : config) (st : state) : Prop :=
  cW ca <= maxU64 /\ cW cb <= maxU64 /\
  exists sched, run all_fixed sched (init ca cb) = Running st.

Lemma reachable_both ca cb st : reachable ca cb st -> Inv st /\ DInv st.
Proof. intros (Ha & Hb & sched & H). exact (reach_both ca cb sched st Ha Hb H). Qed.

(* bytes read on one side are always a prefix of the bytes written on the other *)
Theorem c23_prefix :
  forall ca cb st (s : side) (i : N), reachable ca cb st ->
    prefix_of (getL i (rlog (ep st (other s)))) (getL i (wlog (ep st s))).
Proof. intros ca cb st s i H. exact (data_prefix st s i (proj2 (reachable_both ca cb st H))). Qed.

(* isolation: while the reading side has the stream, what it has read, what it
   buffers and what is in flight for THIS stream is exactly what was written
   on THIS stream, in order; nothing of any other stream is in between *)
Theorem c23_isolation :
  forall ca cb st (s : side) (i : N) (x : stream), reachable ca cb st ->
    get i (streams (ep st (other s))) = Some x ->
    getL i (wlog (ep st s)) =
    getL i (rlog (ep st (other s))) ++ rbuf x ++ flight i (wire_to st (other s)).
Proof. intros ca cb st s i x H. exact (data_equation st s i x (proj2 (reachable_both ca cb st H))). Qed.

(* end of stream: a Read can return io.EOF only when the peer's close-write or
   close has been delivered, the buffer is empty and everything written was read *)
Theorem c23_eof :
  forall ca cb st (r : side) (i : N) res, reachable ca cb st ->
    step all_fixed st (AREof r i) = Some res ->
    exists x, get i (streams (ep st r)) = Some x /\ (rcw x || rc x) = true /\ rbuf x = [] /\
              getL i (rlog (ep st r)) = getL i (wlog (ep st (other r))).
Proof.
  intros ca cb st r i res H.
  exact (data_eof st r i res (proj1 (reachable_both ca cb st H)) (proj2 (reachable_both ca cb st H))).
Qed.

(* no duplication, no loss: at quiescence (nothing of the stream in flight,
   buffer read empty) the two logs are equal *)
Theorem c23_no_dup_no_loss :
  forall ca cb st (s : side) (i : N) (x : stream), reachable ca cb st ->
    get i (streams (ep st (other s))) = Some x -> rbuf x = [] ->
    has_data i (wire_to st (other s)) = false ->
    getL i (rlog (ep st (other s))) = getL i (wlog (ep st s)).
Proof. intros ca cb st s i x H. exact (data_quiescent st s i x (proj2 (reachable_both ca cb st H))). Qed.

(* the close-write frame comes after every data frame: on the wire no data
   frame of the stream follows its close-write frame, and from the moment the
   close-write message is handed over no Write can send any more *)
Theorem c23_closewrite_after_data :
  forall ca cb st (s : side) (i : N), reachable ca cb st ->
    cw_last i (wire_to st (other s)) = true /\
    ((has_cw i (wire_to st (other s)) = true \/ get i (wcs (ep st s)) <> None) ->
     match get i (streams (ep st s)) with
     | None => True
     | Some x => wst x = WGone
     end).
Proof. intros ca cb st s i H. exact (cw_after_data st s i (proj1 (reachable_both ca cb st H))). Qed.

(* the checker applied to the Go harness's observations is sound for what it
   is given literally, and the model's own logs pass it *)
Theorem c23_checker_sound :
  forall r w : list N, is_prefix r w = true -> exists rest, w = r ++ rest.
Proof. exact is_prefix_sound. Qed.

Theorem c23_model_passes :
  forall ca cb st (s : side) (i : N), reachable ca cb st ->
    is_prefix (map Byte.to_N (getL i (rlog (ep st (other s)))))
              (map Byte.to_N (getL i (wlog (ep st s)))) = true.
Proof. intros ca cb st s i H. exact (model_prefix_check st s i (proj2 (reachable_both ca cb st H))). Qed.

(* Non-vacuity: a reachable state in which bytes were written, partly read and
   partly still buffered. *)
Example c23_nontrivial :
  exists st, reachable {| cW := 4; cBacklog := 2 |} {| cW := 4; cBacklog := 2 |} st
             /\ getL 1 (wlog (ep st SA)) = [x61; x62; x63]
             /\ getL 1 (rlog (ep st SB)) = [x61; x62].
Proof. exact data_example. Qed.

Print Assumptions c23_prefix.
Print Assumptions c23_isolation.
Print Assumptions c23_eof.
Print Assumptions c23_no_dup_no_loss.
Print Assumptions c23_closewrite_after_data.
Print Assumptions c23_checker_sound.
Print Assumptions c23_model_passes.
