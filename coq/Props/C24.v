(* C24 — Conforming multiplexers never tear each other down.
   Property theorems only; proofs are in Proof/Mux*.v.

   Model: Model/Mux.v — two endpoints, two FIFO wires, the public API split
   into the atomic steps of the Go code, the reader loop transcribed check for
   check ([deliver]); [run fx sched st] executes a schedule (disabled actions
   are skipped) and stops with [ProtocolError s e] as soon as side s's reader
   rejects a frame.  [fx] says which of the two repairs the code carries. *)
From Coq Require Import List NArith Bool.
From Coq Require Import Strings.Byte.
From Mv Require Import Model.Mux Model.MuxCodec Model.MuxMon Proof.MuxInv Proof.Mux Proof.MuxCodec.
Import ListNotations.
Local Open Scope N_scope.

(* ---- the unchanged code violates the property, in two ways ---- *)

Definition cfg_default : config := {| cW := 65535; cBacklog := 10 |}.

(* open, accept, Write("x"), Read(nil): the zero-length read posts a zero
   window increment, the peer's reader rejects it *)
Definition witness_zero_read : list action :=
  [AOpenAlloc SA; AOpenSend SA 1; ADeliver SB; AAcceptPop SB; AAcceptSend SB 1; ADeliver SA;
   AOpenReturn SA 1;                                              (* OpenStream / AcceptStream *)
   AWrite SA 1 [x78]; AWChunk SA 1; AWEnd SA 1; ADeliver SB;       (* Write("x") *)
   ARead SB 1 0; ARConsume SB 1; ARPost SB 1;                      (* Read(nil) *)
   AFlushInc SB 1; ADeliver SA].

Theorem c24_refuted_unfixed :
  exists sched, run unfixed sched (init cfg_default cfg_default) = ProtocolError SA EZeroIncr.
Proof. exists witness_zero_read. vm_compute. reflexivity. Qed.

(* ... also with the open-order repair alone *)
Theorem c24_refuted_zero_incr :
  exists sched,
    run {| fix_zero_incr := false; fix_open_order := true |} sched (init cfg_default cfg_default)
    = ProtocolError SA EZeroIncr.
Proof. exists witness_zero_read. vm_compute. reflexivity. Qed.

(* two concurrent OpenStream calls: identifiers allocated in one order, open
   frames enqueued in the other; the peer's reader rejects the second *)
Definition witness_open_order : list action :=
  [AOpenAlloc SA; AOpenAlloc SA; AOpenSend SA 3; AOpenSend SA 1; ADeliver SB; ADeliver SB].

Theorem c24_refuted_open_order :
  exists sched,
    run {| fix_zero_incr := true; fix_open_order := false |} sched (init cfg_default cfg_default)
    = ProtocolError SB EOpenNotMonotone.
Proof. exists witness_open_order. vm_compute. reflexivity. Qed.

(* ---- with both repairs the property holds ---- *)

(* Full statement: for EVERY pair of configurations (receive windows that fit
   the wire format, any accept backlog) and EVERY schedule of API steps,
   reader steps, flushes, heartbeats, multiplexer closes and carrier failures
   on both sides, with any number of streams, no reader ever reports a
   protocol violation. *)
Theorem c24_no_protocol_error :
  forall (ca cb : config) (sched : list action) (s : side) (e : perr),
    cW ca <= maxU64 -> cW cb <= maxU64 ->
    run all_fixed sched (init ca cb) <> ProtocolError s e.
Proof. exact mux_no_protocol_error. Qed.

(* The invariant I_mux behind it (window conservation per stream and
   direction, positive increments, non-empty bounded data blocks, identifier
   parity and monotonicity, nothing after a close, at most one accept and only
   for identifiers the peer opened, ...) holds in every reachable state. *)
Theorem c24_invariant :
  forall (ca cb : config) (sched : list action) (st : state),
    cW ca <= maxU64 -> cW cb <= maxU64 ->
    run all_fixed sched (init ca cb) = Running st -> Inv st.
Proof. exact mux_reachable_inv. Qed.

(* The message level and the wire level coincide: what messageBuffer encodes
   (kind byte, uvarint identifiers and windows, big-endian uint16 data length)
   is what the reader decodes, frame by frame and for a whole byte stream. *)
Theorem c24_codec_roundtrip :
  forall (m : msg) (rest : list byte), wire_ok m = true -> decode (encode m ++ rest) = Some (m, rest).
Proof. exact mux_codec_roundtrip. Qed.

Theorem c24_codec_stream :
  forall (ms : list msg) (fuel : nat), forallb wire_ok ms = true -> (length ms <= fuel)%nat ->
    decode_all fuel (encode_all ms) = Some ms.
Proof. exact mux_codec_stream. Qed.

(* Non-vacuity: a schedule with both repairs that opens a stream, moves data,
   performs a zero-length read, half-closes and closes, and is still running. *)
Example c24_nontrivial :
  exists st,
    run all_fixed
        (witness_zero_read ++
         [ARead SB 1 4; ARConsume SB 1; ARPost SB 1; AFlushInc SB 1; ADeliver SA;
          ACloseWrite SA 1; ACWPost SA 1; AFlushCW SA 1; ADeliver SB;
          AClose SB 1; ACTakeW SB 1; ACTakeR SB 1; ACPost SB 1; AFlushClose SB 1; ADeliver SA])
        (init cfg_default cfg_default) = Running st.
Proof. eexists. vm_compute. reflexivity. Qed.

(* the trace monitor (Model/MuxMon.v) accepts the history of that model run,
   and rejects the histories of the two refutation witnesses when told the
   repairs are present *)
Definition hist_frames (r : result) : list (side * frame) :=
  match r with Running st => map (fun p => (fst p, frame_of (snd p))) (hist st) | _ => [] end.
Definition w_default (s : side) : N := 65535.

Example c24_monitor_on_model_runs :
  mon_ok all_fixed w_default
    (hist_frames (run all_fixed
       (witness_zero_read ++
        [ARead SB 1 4; ARConsume SB 1; ARPost SB 1; AFlushInc SB 1; ADeliver SA;
         ACloseWrite SA 1; ACWPost SA 1; AFlushCW SA 1; ADeliver SB;
         AClose SB 1; ACTakeW SB 1; ACTakeR SB 1; ACPost SB 1; AFlushClose SB 1; ADeliver SA])
       (init cfg_default cfg_default))) = true
  /\ mon_ok all_fixed w_default
       (hist_frames (run unfixed (removelast witness_zero_read) (init cfg_default cfg_default))) = false
  /\ mon_ok all_fixed w_default
       (hist_frames (run unfixed (removelast (removelast witness_open_order)) (init cfg_default cfg_default))) = false
  /\ mon_ok unfixed w_default
       (hist_frames (run unfixed (removelast witness_zero_read) (init cfg_default cfg_default))) = true.
Proof. vm_compute. repeat split; reflexivity. Qed.

Print Assumptions c24_refuted_unfixed.
Print Assumptions c24_refuted_zero_incr.
Print Assumptions c24_refuted_open_order.
Print Assumptions c24_no_protocol_error.
Print Assumptions c24_invariant.
Print Assumptions c24_codec_roundtrip.
Print Assumptions c24_codec_stream.
