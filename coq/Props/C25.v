(* C25 — Multiplexer operations never hang and a slow stream never blocks
   others.  Property theorems only (safety forms); proofs in Proof/MuxLive.v
   on top of the invariant I_mux.

   PARTIAL: real-time liveness ("returns ONCE the deadline passes") is not a
   safety property of the untimed model; it is validated on every run by the
   watchdog harness (check_C25: every call returns within its deadline plus
   slack), not proved.  What is proved:
   - the shared reader is never blocked by any stream's consumer and never
     meets ErrBufferFull (from the window-conservation clause of I_mux);
   - every blocking point's select, transcribed into Model/MuxWait.v, waits
     for the events C25 names (deadline expiry, local close, multiplexer
     close, remote close), so the only ways to stay blocked are the ones the
     property allows;
   - an open delivered to a full accept backlog is rejected, leaving no
     pending entry, and the backlog never exceeds its capacity;
   - a held read/write token can always be handed back. *)
From Coq Require Import List NArith Bool.
From Coq Require Import Strings.Byte.
From Mv Require Import Model.Mux Model.MuxWait Model.MuxMon Proof.MuxInv Proof.Mux Proof.MuxLive.
Import ListNotations.
Local Open Scope N_scope.

Definition reachable (ca cb : config) (st : state) : Prop :=
  cW ca <= maxU64 /\ cW cb <= maxU64 /\
  exists sched, run all_fixed sched (init ca cb) = Running st.

Lemma reachable_inv ca cb st : reachable ca cb st -> Inv st.
Proof. intros (Ha & Hb & sched & H). exact (mux_reachable_inv ca cb sched st Ha Hb H). Qed.

(* In every reachable state, whatever any stream's reader is doing (stalled,
   buffer full, closed), the reader goroutine of either side can take the next
   frame off its wire and the step succeeds. *)
Theorem c25_reader_never_blocks :
  forall ca cb st (s : side), reachable ca cb st -> wire_to st s <> [] ->
    exists st', step all_fixed st (ADeliver s) = Some (Running st').
Proof. intros ca cb st s H. exact (reader_progress st s (reachable_inv ca cb st H)). Qed.

(* ring.ErrBufferFull never surfaces: a data frame at the head of the wire
   always fits the receive buffer of its stream. *)
Theorem c25_no_buffer_full :
  forall ca cb st (s : side) (i : N) (d : list byte) (t : list msg) (x : stream),
    reachable ca cb st -> wire_to st s = MData i d :: t -> get i (streams (ep st s)) = Some x ->
    len (rbuf x) + len d <= cW (cfg (ep st s)).
Proof. intros ca cb st s i d t x H. exact (buffer_never_full st s i d t x (reachable_inv ca cb st H)). Qed.

(* every blocking point waits for every event C25 requires of it *)
Theorem c25_wait_sets :
  forall (p : point) (k : wake), In k (required p) -> In k (waits p).
Proof.
  intros p k.
  exact (covers_spec p k (proj1 (forallb_forall covers all_points) wait_sets_cover p (all_points_complete p))).
Qed.

(* backlog: an open that finds the backlog full is rejected and leaves no
   pending entry; and the backlog never exceeds its capacity *)
Theorem c25_backlog_reject :
  forall (s : side) (e : endpoint) (i w : N),
    N.eqb i 0 = false -> mine s i = false -> largestIn e < i ->
    length (backlog e) = cBacklog (cfg e) ->
    exists e', deliver s e (MOpen i w) = DOk e' /\
               backlog e' = backlog e /\ streams e' = streams e /\ get i (cls e') = Some tt.
Proof. exact open_rejected. Qed.

Theorem c25_backlog_bounded :
  forall (fx : fixes) ca cb sched st (s : side),
    run fx sched (init ca cb) = Running st ->
    (length (backlog (ep st s)) <= cBacklog (cfg (ep st s)))%nat.
Proof.
  intros fx ca cb sched st s H.
  exact (backlog_run fx sched (init ca cb) st (backlog_init ca cb) H s).
Qed.

(* tokens: whoever holds a read or write token can give it back *)
Theorem c25_token :
  forall st (s : side) (i : N) (x : stream), get i (streams (ep st s)) = Some x ->
    (forall r, wst x = WHeld r -> exists st', step all_fixed st (AWEnd s i) = Some (Running st')) /\
    (forall k, rst x = RHeld k -> exists st', step all_fixed st (AREnd s i) = Some (Running st')) /\
    (forall c, rst x = RPost c -> exists st', step all_fixed st (ARPost s i) = Some (Running st')).
Proof. exact token_returnable. Qed.

(* the watchdog checker says what it claims *)
Theorem c25_checker_sound :
  forall c : tcase, check_C25 c = true ->
    (forall el lim, In (el, lim) (t_calls c) -> el <= lim) /\
    t_errA c <> IProto 13 /\ t_errB c <> IProto 13 /\
    (forall o b r p, t_backlog c = Some (o, b, r, p) -> p <= b /\ o <= r + p).
Proof. exact check_C25_sound. Qed.

(* Non-vacuity: a reachable state with a stalled, full stream 1 and a frame
   for stream 3 behind its data on the same wire. *)
Example c25_nontrivial :
  exists st, reachable {| cW := 2; cBacklog := 2 |} {| cW := 2; cBacklog := 2 |} st
             /\ length (wire_to st SB) = 2%nat.
Proof. exact live_example. Qed.

Print Assumptions c25_reader_never_blocks.
Print Assumptions c25_no_buffer_full.
Print Assumptions c25_wait_sets.
Print Assumptions c25_backlog_reject.
Print Assumptions c25_backlog_bounded.
Print Assumptions c25_token.
Print Assumptions c25_checker_sound.
