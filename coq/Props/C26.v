(* C26 — The ring buffer behaves as a bounded FIFO byte queue.
   Property theorems only: each is closed by [exact <lemma>] from Proof/Ring.v
   and followed by Print Assumptions. *)
From Coq Require Import List Arith.
Import ListNotations.
From Mv Require Import Model.Ring Proof.Ring.

Section C26.
Variable A : Type.
Variable dflt : A.
Variable eqA : A -> A -> bool.
Hypothesis eqA_spec : forall x y, eqA x y = true <-> x = y.

(* Full statement: for EVERY capacity and EVERY sequence of byte-, slice- and
   reader/writer-based operations (with peers that short-read, short-write and
   fail in any scripted way), the results the concrete buffer returns are
   exactly those a bounded FIFO queue of that capacity gives: same bytes, same
   counts, full/empty (ErrBufferFull / EOF) at the same points, and the bytes
   exchanged with a peer are exactly the bytes the peer reported. *)
Theorem c26_fifo_refinement :
  forall (n : nat) (ops : list (op A)),
    spec_check_all eqA {| cap := n; q := [] |} ops
                   (run (new_buffer dflt n) ops) = true.
Proof. exact (ring_fifo_refinement dflt eqA eqA_spec). Qed.

(* The abstraction commutes: after any history the concrete state is
   well formed and represents the queue of the specification. *)
Theorem c26_state_refines :
  forall (n : nat) (ops : list (op A)),
    let b := run_state (new_buffer dflt n) ops in
    inv b /\ size b = n /\ length (abs b) = used b /\ used b <= n.
Proof. exact (ring_state_refines dflt). Qed.

(* The fuel in the transcribed loops is never exhausted. *)
Theorem c26_no_out_of_fuel :
  forall (n : nat) (ops : list (op A)),
    ~ In (ROutOfFuel A) (run (new_buffer dflt n) ops).
Proof. exact (ring_no_out_of_fuel dflt). Qed.

(* Readable per-operation forms on an arbitrary well-formed buffer. *)
Theorem c26_write :
  forall (b : buf A) (d : list A), inv b ->
    exists b', let k := Nat.min (length d) (size b - used b) in
      write b d = Some (b', k, if Nat.ltb k (length d) then EFull else ENil)
      /\ inv b' /\ size b' = size b /\ abs b' = abs b ++ firstn k d.
Proof. exact (@ring_write_spec A). Qed.

Theorem c26_read :
  forall (b : buf A) (n : nat), inv b -> n <> 0 -> used b <> 0 ->
    exists b',
      read b n = Some (b', firstn n (abs b), ENil)
      /\ inv b' /\ size b' = size b /\ abs b' = skipn n (abs b).
Proof. exact (@ring_read_spec A). Qed.

Theorem c26_read_empty_or_zero :
  forall (b : buf A) (n : nat),
    (n = 0 -> read b n = Some (b, [], ENil)) /\
    (n <> 0 -> used b = 0 -> read b n = Some (b, [], EEOF)).
Proof. exact (@ring_read_edge A). Qed.

End C26.

(* Non-vacuity: a concrete wrapped-around state satisfies [inv], and the
   theorem's conclusion is exercised on a history that wraps and fills. *)
Example c26_inv_nontrivial :
  inv {| storage := [7; 8; 9]; size := 3; start := 2; used := 2 |}
  /\ abs {| storage := [7; 8; 9]; size := 3; start := 2; used := 2 |} = [9; 7].
Proof. exact ring_inv_example. Qed.

Print Assumptions c26_fifo_refinement.
Print Assumptions c26_state_refines.
Print Assumptions c26_no_out_of_fuel.
Print Assumptions c26_write.
Print Assumptions c26_read.
Print Assumptions c26_read_empty_or_zero.
