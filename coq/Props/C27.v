(* C27 — Persistent session files are replaced atomically.
   Property theorems only: each is closed by [exact <lemma>] from
   Proof/AtomicWrite.v and followed by Print Assumptions.

   Statement (properties.jsonl): writing a session, archive or cache file
   leaves, after a crash at any point, either the complete previous content or
   the complete new content at the target path, never a partial file.  A failed
   write leaves no stray files other than Mutagen temporary files, which scans
   ignore.

   The model (Model/AtomicWrite.v) is WriteFileAtomic as its sequence of
   primitives; [oracle] decides for EVERY primitive issued (create, each retry
   of create, write, close, chmod, rename, and the unlink/rmdir of every
   clean-up path) whether it succeeds, fails, or the process dies there, before
   or after taking effect, a dying or failing write having put out any number
   of bytes.  The theorems quantify over all oracles, hence over every crash
   point, every fault point and every combination of them.

   Assumed of the operating system (written into os_create ... os_unlink, not
   proved): rename(2) replaces the target in one step also with respect to
   process death; a failing primitive has no effect (a failing write may have
   appended a prefix).  Power loss is out of scope.

   Premise [prefix atomic_prefix target = false]: the target is not itself
   named like an atomic-write temporary (session, archive and cache files are
   named by identifiers). *)
From Coq Require Import List Arith NArith String Bool.
Import ListNotations.
From Mv Require Import Model.AtomicWrite Proof.AtomicWrite.

(* After ANY run (crashed anywhere, failed anywhere, or completed) the target
   holds the complete previous content (absent if it was absent) or exactly
   the new data: never a mixture, never absent if it existed. *)
Theorem c27_crash :
  forall (o : oracle) (sufs : list string) (target : name) (data : bytes) (perm : nat) (d : dir),
    prefix atomic_prefix target = false ->
    let r := write_file_atomic o sufs target data perm d in
    content target (r_dir r) = content target d
    \/ content target (r_dir r) = Some data.
Proof. exact wfa_content. Qed.

(* The same with file modes, plus what each way of ending means. [d] is ANY
   initial directory: it may hold arbitrary leftovers of interrupted earlier
   writes under temporary-prefixed names (of any length and content); they
   never influence the result, because the temporary is a fresh, empty file.
   Names that are neither the target nor an atomic-write temporary are never
   touched; nil = the new file (with the requested mode) is in place and
   nothing else changed; error = the target is as it was; and at most one
   name other than the target differs from before, a fresh prefixed one. *)
Theorem c27_all_oracles :
  forall (o : oracle) (sufs : list string) (target : name) (data : bytes) (perm : nat) (d : dir),
    prefix atomic_prefix target = false ->
    wfa_post target data perm d (write_file_atomic o sufs target data perm d).
Proof. exact wfa_all_oracles. Qed.

(* Crash at primitive k (before or after it took effect, with any cut of the
   write): the instance of c27_crash the property text names. *)
Theorem c27_crash_at :
  forall (k : nat) (done : bool) (cut : nat) (sufs : list string)
         (target : name) (data : bytes) (perm : nat) (d : dir),
    prefix atomic_prefix target = false ->
    let r := write_file_atomic (only_at k (Crash done cut)) sufs target data perm d in
    content target (r_dir r) = content target d
    \/ content target (r_dir r) = Some data.
Proof. intros k done cut. exact (wfa_content (only_at k (Crash done cut))). Qed.

(* Exactly primitive k fails (with any error, EEXIST included, a write having
   put out any number of bytes) and nothing else goes wrong: the process does
   not die, every name other than the target is as before (the temporary is
   removed), and if an error is returned the target is as it was. *)
Theorem c27_fail :
  forall (k : nat) (eexist : bool) (cut : nat) (sufs : list string)
         (target : name) (data : bytes) (perm : nat) (d : dir),
    prefix atomic_prefix target = false ->
    let r := write_file_atomic (only_at k (Fail eexist cut)) sufs target data perm d in
    r_result r <> RCrashed
    /\ (forall n, n <> target -> lookup n (r_dir r) = lookup n d)
    /\ (r_result r = RErr -> lookup target (r_dir r) = lookup target d).
Proof. exact wfa_fail_at. Qed.

(* Whatever the oracle does (clean-up failing or dying included): any name
   other than the target whose entry differs from before begins with
   TemporaryNamePrefix (indeed with the atomic-write prefix), and a scan does
   not show it. *)
Theorem c27_stray_prefixed :
  forall (o : oracle) (sufs : list string) (target : name) (data : bytes) (perm : nat) (d : dir)
         (n : name),
    prefix atomic_prefix target = false ->
    let r := write_file_atomic o sufs target data perm d in
    n <> target -> lookup n (r_dir r) <> lookup n d ->
    prefix temporary_name_prefix n = true /\ prefix atomic_prefix n = true
    /\ scan_visible n = false.
Proof. exact wfa_stray_prefixed. Qed.

(* The checker applied to the implementation's observed outcomes is sound for
   the property as a proposition, and every outcome of the model passes it. *)
Theorem c27_check_sound :
  forall target data before after scanned,
    check_C27 target data before after scanned = true ->
    holds_C27 target data before after scanned.
Proof. exact check_C27_sound. Qed.

Theorem c27_check_model :
  forall (o : oracle) (sufs : list string) (target : name) (data : bytes) (perm : nat) (d : dir),
    prefix atomic_prefix target = false ->
    let r := write_file_atomic o sufs target data perm d in
    check_C27 target data d (r_dir r) (scan_names (r_dir r)) = true.
Proof. exact check_C27_model. Qed.

(* Non-vacuity: the premise holds for a session-like name; a chmod failure
   followed by a failing unlink leaves the old target and a prefixed stray with
   the complete data; the fault-free run installs the data; a crash right
   after the rename took effect shows the new data; a crash that cut the write
   after two bytes leaves them in the temporary only. *)
Example c27_nontrivial :
  let d := [("session"%string, (420, [1; 2; 3]%N)); ("other"%string, (384, [9]%N))] in
  let o := fun i => match i with 3 => Fail false 0 | 4 => Fail false 0 | _ => Ok end in
  let r := write_file_atomic o ["77"%string] "session"%string [4; 5; 6; 7]%N 384 d in
  prefix atomic_prefix "session"%string = false
  /\ r_result r = RErr
  /\ content "session"%string (r_dir r) = Some [1; 2; 3]%N
  /\ content (atomic_prefix ++ "77")%string (r_dir r) = Some [4; 5; 6; 7]%N
  /\ r_result (write_file_atomic (fun _ => Ok) ["77"%string] "session"%string [4; 5; 6; 7]%N 384 d) = RNil
  /\ content "session"%string
       (r_dir (write_file_atomic (only_at 4 (Crash true 0)) ["77"%string] "session"%string [4; 5; 6; 7]%N 384 d))
     = Some [4; 5; 6; 7]%N
  /\ content (atomic_prefix ++ "77")%string
       (r_dir (write_file_atomic (only_at 1 (Crash false 2)) ["77"%string] "session"%string [4; 5; 6; 7]%N 384 d))
     = Some [4; 5]%N.
Proof. exact wfa_example. Qed.

Print Assumptions c27_crash.
Print Assumptions c27_all_oracles.
Print Assumptions c27_crash_at.
Print Assumptions c27_fail.
Print Assumptions c27_stray_prefixed.
Print Assumptions c27_check_sound.
Print Assumptions c27_check_model.
