(* C28 — At most one daemon holds the daemon lock.
   Property theorems only; each is closed by [exact <lemma>] from
   Proof/DaemonLock.v and listed under Print Assumptions at the end.

   PARTIAL BY NATURE.  The exclusion between processes is fcntl's: the
   operating-system lock table [os_setlk] / [os_drop] of Model/DaemonLock.v IS
   the assumption (whole-file F_WRLCK: exclusive across processes; dropped by
   F_UNLCK, by closing any descriptor of the file, by process exit including
   SIGKILL).  What is proved is the wrapper: the Locker's held flag, Lock /
   Unlock / Close, daemon.AcquireLock / Release and their failure paths keep
   "believes it holds" in step with that table, for every schedule of any
   number of processes (each lock operation and each witness record a separate
   step, SIGKILL at any point), and that the witness log of every such run
   passes the checker that is applied to the logs of real processes. *)
From Coq Require Import List Arith Bool.
Import ListNotations.
From Mv Require Import Model.DaemonLock Proof.DaemonLock.

(* for every schedule, at most one process believes it holds the lock, and it
   is the one the lock table names *)
Theorem c28_mutex : forall ks sched s, run (sys0 ks) sched = Some s ->
  (forall p q, p < length (procs s) -> q < length (procs s) ->
     believes (getp s p) = true -> believes (getp s q) = true -> p = q)
  /\ length (holders s) <= 1
  /\ (forall p, tbl s = Some p -> p < length (procs s) /\ believes (getp s p) = true)
  /\ (forall p, p < length (procs s) -> believes (getp s p) = true -> tbl s = Some p).
Proof. exact daemon_lock_mutex. Qed.

(* in every reachable state: the holder's release, and the holder's death by
   SIGKILL at whatever point, empty the table; and with the table empty the
   next attempt, by anyone, succeeds *)
Theorem c28_release : forall ks sched s, run (sys0 ks) sched = Some s ->
  (forall p s1, p < length (procs s) -> p_pc (getp s p) = Releasing ->
     step s (SEff p) = Some s1 -> tbl s1 = None /\ p_pc (getp s1 p) = Released)
  /\ (forall p s1, p < length (procs s) -> believes (getp s p) = true ->
        step s (SKill p) = Some s1 -> tbl s1 = None /\ p_pc (getp s1 p) = Dead)
  /\ (forall q, q < length (procs s) -> tbl s = None -> p_pc (getp s q) = Trying ->
        exists s1, step s (SEff q) = Some s1 /\ p_pc (getp s1 q) = Got /\ tbl s1 = Some q).
Proof. exact daemon_lock_release. Qed.

(* Lock on a Locker that already holds errors without touching the table *)
Theorem c28_no_double : forall t p l, l_held l = true -> lk_lock t p l = (t, l, EHeld).
Proof. exact lock_while_held. Qed.

(* the witness log of every run passes the checker and the replay *)
Theorem c28_model_passes : forall ks sched s, run (sys0 ks) sched = Some s ->
  check_C28 (rev (wl s)) = true /\ replay_ok ks (rev (wl s)) = true.
Proof. exact model_log_passes. Qed.

(* soundness of the checker applied to the logs of real processes *)
Theorem c28_check_sound : forall l, check_C28 l = true ->
  (forall l1 p l2 q l3,
     l = l1 ++ (p, LAcqOk) :: l2 ++ (q, LAcqOk) :: l3 ->
     existsb (is_rec p LKillCall) l1 = false ->
     gives_up p l2 = true)
  /\ (forall l1 q e l2, l = l1 ++ (q, LAcqFail e) :: l2 -> e = EAgain).
Proof. exact check_C28_sound. Qed.

Theorem c28_check_refusals : forall l, check_C28 l = true ->
  forall l1 q e l2, l = l1 ++ (q, LAcqFail e) :: l2 ->
    exists la lb, l1 = la ++ (q, LAcqCall) :: lb
      /\ (others q (maybe_of [] la) = true \/ exists p, p <> q /\ In (p, LAcqCall) lb).
Proof. exact check_C28_refusals. Qed.

(* Non-vacuity: two processes of both kinds contend, one is killed while it
   holds, the other then gets the lock; the log of that run is as expected. *)
Example c28_run_nontrivial :
  option_map (fun s => (tbl s, rev (wl s)))
    (run (sys0 [KDaemon; KLocker])
       [SLog 0; SLog 1; SEff 0; SEff 1; SLog 0; SLog 1; SKillCall 0; SKill 0;
        SLog 1; SEff 1; SLog 1; SDeadLog 0])
  = Some (Some 1,
          [(0, LAcqCall); (1, LAcqCall); (0, LAcqOk); (1, LAcqFail EAgain); (0, LKillCall);
           (1, LAcqCall); (1, LAcqOk); (0, LDead)]).
Proof. vm_compute. reflexivity. Qed.

(* the checker is not vacuous: overlapping holders and an unjustified refusal
   are rejected *)
Example c28_checker_rejects :
  check_C28 [(0, LAcqCall); (0, LAcqOk); (1, LAcqCall); (1, LAcqOk)] = false
  /\ check_C28 [(0, LAcqCall); (0, LAcqFail EAgain)] = false
  /\ check_C28 [(0, LAcqCall); (0, LAcqOk); (0, LRelCall); (1, LAcqCall); (1, LAcqOk)] = true.
Proof. vm_compute. auto. Qed.

(* The POSIX caveat that keeps the discipline "one daemon lock per process"
   outside the theorem: two Lockers in ONE process do not exclude each other,
   and closing one drops the lock the other believes it has. *)
Example c28_two_lockers_in_one_process :
  let '(t1, a, e1) := lk_lock None 0 lk_new in
  let '(t2, b, e2) := lk_lock t1 0 lk_new in
  let '(t3, _) := lk_close t2 0 a in
  let '(t4, c, e3) := lk_lock t3 1 lk_new in
  (e1, e2, e3, l_held b, l_held c, t4) = (ENone, ENone, ENone, true, true, Some 1).
Proof. vm_compute. reflexivity. Qed.

Print Assumptions c28_mutex.
Print Assumptions c28_release.
Print Assumptions c28_no_double.
Print Assumptions c28_model_passes.
Print Assumptions c28_check_sound.
Print Assumptions c28_check_refusals.
