(* C29 -- Session lifecycle commands take effect exactly as documented.
   Property theorems only; the machine is Model/Controller.v, the checkers
   (monitors over observable events) are Model/ControllerCheck.v. Every theorem
   quantifies over the session's mode and watch configuration and over every
   schedule of the machine: commands called at any time and overlapping in any
   way, every environment outcome (connection results, poll events, scan,
   staging and transition results, timers). *)
From Coq Require Import List Bool Arith String.
Import ListNotations.
From Mv Require Import Model.Entry Model.Reconcile Model.Safety Model.Controller Model.ControllerCheck
     Proof.ControllerBase Proof.ControllerPause Proof.ControllerTerminate Proof.ControllerFlush Proof.ControllerReset Proof.Controller.
Local Open Scope list_scope.

(* After Pause (or Create paused) returns nil -- no Resume having been active
   during its interval -- no Connect and no endpoint method entry or exit
   occurs and the persisted session never shows Paused = false, until a Resume
   is called; a manager restart in between changes nothing (the pause monitor
   keeps its conclusion across Nm). *)
Theorem c29_pause_quiet_persists : forall md manual sched st tr,
  run (init_state md manual) sched = Some (st, tr) -> check_pause tr = true.
Proof. exact run_pause. Qed.

(* After Terminate returns nil: the session file is absent, no endpoint
   activity ever occurs again, every command called afterwards fails, a new
   manager does not load the session -- and the archive file is absent as well
   unless a Reset overlapped the Terminate (lenient form). *)
Theorem c29_terminate_partial : forall md manual sched st tr,
  run (init_state md manual) sched = Some (st, tr) -> check_terminate false tr = true.
Proof. exact run_terminate_lenient. Qed.

(* full statement: also the archive file is absent after Terminate *)
Definition c29_terminate_full_statement : Prop :=
  forall md manual sched st tr,
    run (init_state md manual) sched = Some (st, tr) -> check_terminate true tr = true.

(* it holds outside the known class (no Reset interval overlapped the interval
   of a Terminate that returned nil) ... *)
Theorem c29_terminate_outside_known_class : forall md manual sched st tr,
  run (init_state md manual) sched = Some (st, tr) -> reset_overlapped_terminate tr = false ->
  check_terminate true tr = true.
Proof. exact run_terminate_strict. Qed.

(* ... and is refuted inside it: controller.reset writes the archive without
   looking at c.disabled, so a Reset that selected the controller before the
   Terminate finished leaves an archive file behind *)
Theorem c29_terminate_refuted :
  exists st tr, run (init_state TwoWaySafe true) race_schedule = Some (st, tr)
                /\ check_terminate true tr = false /\ reset_overlapped_terminate tr = true
                /\ arch_file st = Some None /\ sess_file st = None.
Proof. exact terminate_strict_refuted. Qed.

(* Flush(wait) returns nil only if, after its call, a full scan (the flush flag
   forces full = true) was entered on alpha and on beta and both returned
   successfully. *)
Theorem c29_flush_wait : forall md manual sched st tr,
  run (init_state md manual) sched = Some (st, tr) -> check_flush tr = true.
Proof. exact run_flush. Qed.

(* Reset is safe. (a) In every reachable state, the step on which a Reset
   writes the archive is taken while no loop exists, and what it writes is the
   empty archive. (b) No step of a command thread (Reset included) enters or
   leaves an endpoint method; only loop steps do. (c) Observable form, checked
   on the recorded histories as well: after an undisturbed Reset returns nil,
   with no scan entered during its interval, the archive file holds the empty
   archive until the next scan is entered, and the next scan on each side is
   given the empty ancestor. *)
Theorem c29_reset_safe_write : forall md manual sched st tr a st' evs x,
  run (init_state md manual) sched = Some (st, tr) ->
  step st a = Some (st', evs) -> In (IWriteArchive true x) evs ->
  loop st = None /\ x = None /\ arch_file st' = Some None.
Proof. exact run_reset_write. Qed.

Theorem c29_reset_safe_no_endpoint_call : forall st a st' evs,
  step st a = Some (st', evs) -> (forall la, a <> ALoop la) ->
  forallb (fun e => negb (endpoint_method_event e)) evs = true.
Proof. exact thread_steps_call_no_endpoint. Qed.

Theorem c29_reset_safe : forall md manual sched st tr,
  run (init_state md manual) sched = Some (st, tr) -> check_reset tr = true.
Proof. exact run_reset. Qed.

Print Assumptions c29_pause_quiet_persists.
Print Assumptions c29_reset_safe_write.
Print Assumptions c29_reset_safe_no_endpoint_call.
Print Assumptions c29_reset_safe.
Print Assumptions c29_flush_wait.
Print Assumptions c29_terminate_partial.
Print Assumptions c29_terminate_outside_known_class.
Print Assumptions c29_terminate_refuted.
