(* C29 -- Session lifecycle commands take effect exactly as documented.

   Property theorems only. The machine is Model/Controller.v (controller.go and
   the part of manager.go that drives it, as a transition system); the checkers
   are the monitors of Model/ControllerCheck.v, which read observable events
   only and are the functions applied to the histories recorded from the real
   Manager. Every "for every schedule" theorem quantifies over the session's
   mode, the watch configuration and every schedule of the machine: commands
   called at any time and overlapping in any way, every environment outcome
   (connection results, poll events, scan / staging / transition results,
   timers, failures).

   Shape: (1) every trace of the machine passes each monitor; (2) what passing
   a monitor means, stated on the event list (soundness of the checker);
   (3) model-level statements that need internal events. *)
From Coq Require Import List Bool Arith String.
Import ListNotations.
From Mv Require Import Model.Entry Model.Reconcile Model.Safety Model.Controller Model.ControllerCheck
     Proof.ControllerBase Proof.ControllerPause Proof.ControllerTerminate Proof.ControllerFlush
     Proof.ControllerReset Proof.ControllerSaved Proof.ControllerSound
     Proof.ControllerFlushTx Proof.ControllerFlushTxSound Proof.Controller
     Model.TerminateFiles Proof.TerminateFiles.
Local Open Scope list_scope.

(* ---------------------------------------------------------------- pause *)

(* c29_pause_quiet + c29_pause_persists. For every schedule the trace passes
   the pause monitor: after Pause (or Create paused) returns nil -- no Resume
   having been active during its interval -- there is no Connect and no
   endpoint method entry or exit, and the persisted session is never seen with
   Paused = false, until a Resume is called; a manager restart in between (Nm)
   does not end this. After a Resume the monitor claims nothing, and
   NewManager starts a loop exactly when the persisted flag says unpaused
   (Model/Controller.v, ANewManager). *)
Theorem c29_pause_quiet_persists : forall md manual sched st tr,
  run (init_state md manual) sched = Some (st, tr) -> check_pause tr = true.
Proof. exact run_pause. Qed.

(* what passing the pause monitor means *)
Theorem c29_pause_sound : forall pre t c mid1 mid2,
  check_pause (pre ++ Ca t c :: mid1 ++ Rt t c true :: mid2) = true ->
  is_pause c = true ->
  any_active is_resume (acts pre) = false ->
  no_resume_call (mid1 ++ mid2) ->
  (forall c' ok, ~ In (Rt t c' ok) mid1) -> (forall c', ~ In (Ca t c') mid1) ->
  forall e, In e mid2 -> is_endpoint e = false /\ e <> ObS true (Some false).
Proof. exact pause_sound. Qed.

(* ---------------------------------------------------------------- flush *)

(* c29_flush_wait. For every schedule: Flush(wait) returns nil only after full
   scans of both endpoints, entered after its call, have returned successfully
   (the request is taken in the polling select only, and sets the full-scan
   flag). *)
Theorem c29_flush_wait : forall md manual sched st tr,
  run (init_state md manual) sched = Some (st, tr) -> check_flush tr = true.
Proof. exact run_flush. Qed.

Theorem c29_flush_sound : forall pre t mid post,
  check_flush (pre ++ Ca t (CFlush true) :: mid ++ Rt t (CFlush true) true :: post) = true ->
  (forall ok, ~ In (Rt t (CFlush true) ok) mid) -> (forall c, ~ In (Ca t c) mid) ->
  (exists a, In (Sn Alpha true a) mid) /\ (exists a, In (Sn Beta true a) mid) /\
  (exists r c, In (Sx Alpha true r c) mid) /\ (exists r c, In (Sx Beta true r c) mid).
Proof. exact flush_sound. Qed.

(* ... and the answered cycle ran to the save step before the answer: once
   Flush(wait) has returned nil after exactly one scan per side since its call
   and with no lifecycle command active, the archive file does not change any
   more until the next scan is entered or a lifecycle command is called. *)
Theorem c29_flush_saved_before_answer : forall md manual sched st tr,
  run (init_state md manual) sched = Some (st, tr) -> check_saved tr = true.
Proof. exact run_saved. Qed.

(* ... and the answered cycle completed: Flush(wait) returns nil only if the
   Transition calls of the cycle whose full scans served the request have all
   returned, none of them with an error (the loop returns the error of a
   failed Transition call from the cycle before it answers the request).
   c29_flush_completed_cycle: every trace of the machine passes the monitor.
   c29_flush_completed_cycle_sound: what an accepted trace guarantees - the
   events between the call and the nil return split into m1 ++ w ++ m3 where
   the monitor's scan flags of this flush are complete after m1 (by
   c29_flush_scans_served: full scans were entered on both sides and scans
   returned without error on both sides within m1), the window w contains no
   scan entry, no Transition call that returned an error, and no Transition
   call that was entered and has not returned, and w ends at the next scan
   entry or at the return. *)
Theorem c29_flush_completed_cycle : forall md manual sched st tr,
  run (init_state md manual) sched = Some (st, tr) -> check_flushtx tr = true.
Proof. exact run_flushtx. Qed.

Theorem c29_flush_completed_cycle_sound : forall pre t mid post,
  check_flushtx (pre ++ Ca t (CFlush true) :: mid ++ Rt t (CFlush true) true :: post) = true ->
  (forall c ok, ~ In (Rt t c ok) mid) -> (forall c, ~ In (Ca t c) mid) ->
  exists m1 w m3, mid = m1 ++ w ++ m3 /\
    f_complete (x_f (x_run m1 (x_fresh t))) = true /\
    (forall s f a, ~ In (Sn s f a) w) /\
    (forall s r, ~ In (Tx s false r) w) /\
    open_side Alpha w = false /\ open_side Beta w = false /\
    (m3 = [] \/ exists s f a m3', m3 = Sn s f a :: m3').
Proof. exact flushtx_sound. Qed.

Theorem c29_flush_scans_served : forall t l,
  f_complete (x_f (x_run l (x_fresh t))) = true ->
  (exists a, In (Sn Alpha true a) l) /\ (exists a, In (Sn Beta true a) l) /\
  (exists r c, In (Sx Alpha true r c) l) /\ (exists r c, In (Sx Beta true r c) l).
Proof. exact x_complete_events. Qed.

(* ------------------------------------------------------------ terminate *)

(* c29_terminate (full). For every schedule of the machine that models the
   code as it is: after Terminate returns nil the session file AND the archive
   file are absent, no endpoint activity ever occurs again, every command
   called afterwards fails, and a new manager does not load the session --
   whatever other commands overlapped the Terminate. *)
Theorem c29_terminate : forall md manual sched st tr,
  run (init_state md manual) sched = Some (st, tr) -> check_terminate true tr = true.
Proof. exact run_terminate_strict. Qed.

(* The code as it was before commit 34fa8c4 (controller.reset did not look at
   c.disabled; the machine with cfg_fixed = false): a Reset that had selected
   the controller before the Terminate finished wrote the archive afterwards.
   On the code as it is, the same schedule ends with the Reset refused and
   nothing left behind. *)
Theorem c29_terminate_refuted_unfixed :
  exists st tr, run (init_state_unfixed TwoWaySafe true) race_schedule = Some (st, tr)
                /\ check_terminate true tr = false /\ reset_overlapped_terminate tr = true
                /\ In (Rt 3 CReset true) tr
                /\ arch_file st = Some None /\ sess_file st = None.
Proof. exact terminate_strict_refuted_unfixed. Qed.

Example c29_race_schedule_on_repaired_code :
  exists st tr, run (init_state TwoWaySafe true) race_schedule = Some (st, tr)
                /\ In (Rt 3 CReset false) tr /\ check_terminate true tr = true
                /\ arch_file st = None /\ sess_file st = None.
Proof. exact race_schedule_fixed. Qed.

Theorem c29_terminate_sound : forall strict pre t post,
  check_terminate strict (pre ++ Rt t CTerminate true :: post) = true ->
  forall e, In e post ->
    is_endpoint e = false /\ (forall s, e <> ObS true (Some s)) /\ e <> Nm true /\
    (strict = true -> forall a n, e <> ObA true (Some a) n).
Proof. exact terminate_sound. Qed.

Theorem c29_terminate_sound_later_commands_fail : forall strict pre t mid t' c post,
  check_terminate strict (pre ++ Rt t CTerminate true :: mid ++ Ca t' c :: post) = true ->
  c <> CShutdown -> forall c', ~ In (Rt t' c' true) post.
Proof. exact terminate_sound_late. Qed.

(* c29_terminate_removal_faults. The machine above assumes that the data
   directory is writable (both removals of halt(terminate) succeed). Under
   file-system faults at the archive path (missing, or a directory that cannot
   be unlinked) and a missing session file, the removal step still removes the
   session record - both removals are attempted whatever the other does - so
   no new manager loads the session; Terminate returns nil exactly when both
   removals succeeded. Tied to the real Manager by goharness/cmd/controller
   -prop C29T (Harness/TerminateH.v). *)
Theorem c29_terminate_removal_faults : forall a sess, check_term (term_model a sess) = true.
Proof. exact term_model_removes. Qed.

Theorem c29_terminate_removal_check_sound : forall o,
  check_term o = true -> to_session o = false /\ to_loaded o = false.
Proof. exact check_term_sound. Qed.

Theorem c29_terminate_removal_nil : forall a sess,
  to_nil (term_model a sess) = true <-> sess = true /\ a = ArchFile.
Proof. exact term_model_nil. Qed.

(* ---------------------------------------------------------------- reset *)

(* c29_reset_safe. (a) In every reachable state, the step on which a Reset
   writes the archive is taken while no loop exists, and it writes the empty
   archive. (b) No step of a command thread (Reset included) enters or leaves
   an endpoint method; only loop steps do. (c) For every schedule the trace
   passes the reset monitor: after an undisturbed Reset returns nil, no scan
   having been entered during its interval, the archive file holds the empty
   archive until the next scan is entered and the next scan on each side is
   given the empty ancestor. (That the following two-way-safe cycle, whose
   ancestor is empty, plans no deletion or overwrite is C01 with anc = None.) *)
Theorem c29_reset_safe_write : forall md manual sched st tr a st' evs x,
  run (init_state md manual) sched = Some (st, tr) ->
  step st a = Some (st', evs) -> In (IWriteArchive true x) evs ->
  loop st = None /\ x = None /\ arch_file st' = Some None.
Proof. exact run_reset_write. Qed.

Theorem c29_reset_safe_no_endpoint_call : forall st a st' evs,
  step st a = Some (st', evs) -> (forall la, a <> ALoop la) ->
  forallb (fun e => negb (endpoint_method_event e)) evs = true.
Proof. exact thread_steps_call_no_endpoint. Qed.

Theorem c29_reset_safe : forall md manual sched st tr,
  run (init_state md manual) sched = Some (st, tr) -> check_reset tr = true.
Proof. exact run_reset. Qed.

(* ------------------------------------------------- the checker as a whole *)

(* the model's own traces pass the checker that is applied to the recorded
   histories (all five monitors, the terminate monitor in its strict form) *)
Theorem c29_model_passes_checker : forall md manual sched st tr,
  run (init_state md manual) sched = Some (st, tr) -> check_c29_events md tr = true.
Proof. exact run_check_c29. Qed.

(* the hypotheses are satisfiable on a non-trivial execution: create, a cycle,
   pause while polling, a flush refused while paused, restart, resume, a
   waiting flush answered after a full cycle, terminate, a resume refused *)
Example c29_example :
  exists st tr, run (init_state TwoWaySafe false) lifecycle_schedule = Some (st, tr)
                /\ In (Rt 2 CPause true) tr /\ In (Rt 3 (CFlush true) false) tr /\ In (Nm true) tr
                /\ In (Rt 5 CResume true) tr /\ In (Rt 6 (CFlush true) true) tr /\ In (Rt 7 CTerminate true) tr
                /\ In (Rt 8 CResume false) tr
                /\ sess_file st = None /\ arch_file st = None /\ loop st = None
                /\ check_c29_events TwoWaySafe tr = true.
Proof. exact lifecycle_example. Qed.

Print Assumptions c29_pause_quiet_persists.
Print Assumptions c29_pause_sound.
Print Assumptions c29_flush_wait.
Print Assumptions c29_flush_sound.
Print Assumptions c29_flush_saved_before_answer.
Print Assumptions c29_flush_completed_cycle.
Print Assumptions c29_flush_completed_cycle_sound.
Print Assumptions c29_flush_scans_served.
Print Assumptions c29_terminate_removal_faults.
Print Assumptions c29_terminate_removal_check_sound.
Print Assumptions c29_terminate_removal_nil.
Print Assumptions c29_terminate.
Print Assumptions c29_terminate_refuted_unfixed.
Print Assumptions c29_terminate_sound.
Print Assumptions c29_terminate_sound_later_commands_fail.
Print Assumptions c29_reset_safe_write.
Print Assumptions c29_reset_safe_no_endpoint_call.
Print Assumptions c29_reset_safe.
Print Assumptions c29_model_passes_checker.
