(* C30 -- State-change long-polls never miss an update.
   Property theorems only: each is closed by [exact <lemma>] from
   Proof/Tracker.v and followed by Print Assumptions.

   The model (Model/Tracker.v) is a transition system whose actions are the
   atomic steps of pkg/state/tracker.go and lock.go (mutex acquire/release,
   Cond.Wait / Cond.Signal, the buffered response channel, trackDone, context
   cancellation).  [run (init_state i0 n) acts = Some s] says: the schedule
   [acts] -- ANY interleaving of n client goroutines and the tracking
   goroutine, starting with index i0 -- is executable and leads to s.  All
   theorems quantify over every such schedule. *)
From Coq Require Import List Arith NArith Bool.
Import ListNotations.
From Mv Require Import Model.Tracker Proof.Tracker.

(* c30_no_missed: no lost wake-up.
   (1) whenever the tracking goroutine has work (termination to process, or a
       registered request whose previous index differs from the index) it is
       runnable (not parked in Cond.Wait), or a goroutine that holds the mutex
       is just about to Signal;
   (2) one iteration of the loop answers every such request, with the current
       index;
   (3) a state in which no goroutine can move contains only idle goroutines
       and waiters that legitimately wait (previous index = index, not
       terminated, not cancelled, no response pending). *)
Theorem c30_no_missed :
  forall i0 n s, reachable i0 n s ->
    (needs_run s = true -> tk_runnable (tk s) = true \/ signal_pending s) /\
    (forall s' t q, tk s = TkHold -> step s ATrack = Some s' -> In (t, q) (reqs s) ->
       q <> index s \/ terminated s = true ->
       aget (resp s') t = Some (index s, terminated s) /\ ~ In (t, q) (reqs s')) /\
    (quiescent s = true ->
       forall t p c, nth_error (thr s) t = Some (p, c) -> blocked_ok s t p c).
Proof. exact tracker_no_missed. Qed.

(* whoever has to signal, and the runnable tracking goroutine, can always take
   their next step (the mutex holder is never blocked) *)
Theorem c30_progress :
  forall i0 n s, reachable i0 n s ->
    (forall h, mu s = Some (OThread h) -> step s (AStep h) <> None) /\
    (mu s = Some OTracker -> step s ATrack <> None) /\
    (mu s = None -> tk_runnable (tk s) = true -> step s ATrack <> None).
Proof. exact tracker_progress. Qed.

(* c30_immediate: a request registered with previous index <> index is
   answered without any further notification: in every continuation in which
   no notification takes effect, the wait does not survive to quiescence.
   A wait with previous index 0 never blocks on anything but the mutex and
   returns the index it reads. *)
Theorem c30_immediate :
  forall i0 n s t q acts s', reachable i0 n s -> In (t, q) (reqs s) -> q <> index s ->
    run s acts = Some s' -> cnt s' = cnt s -> quiescent s' = true ->
    forall cf, nth_error (thr s') t <> Some (WSel q, cf).
Proof. exact tracker_immediate. Qed.

Theorem c30_immediate_zero :
  forall i0 n s t p c, reachable i0 n s -> nth_error (thr s) t = Some (p, c) ->
    (p = W0Acq -> mu s = None -> step s (AStep t) <> None) /\
    (p = W0Read -> exists s', step s (AStep t) = Some s' /\
        nth_error (thr s') t = Some (WRelRet (index s) (err_of_term (terminated s)), c)) /\
    (forall i e, p = WRelRet i e -> exists s', step s (AStep t) = Some s' /\
        log s' = ERet t (RWait i e) 0 :: log s).
Proof. exact tracker_wait0_never_blocks. Qed.

(* The property on histories (call/return/cancel/quiescence events):
   no stale answer, returned indices never move backwards, every notifying
   call (NotifyOfChange, TrackingLock.Unlock) advances the index, nothing is
   missed at quiescence.  [nowrap]: fewer notifications than it takes the
   index to wrap. *)
Theorem c30_model_histories :
  forall i0 n acts s, run (init_state i0 n) acts = Some s -> C30_holds i0 (history s).
Proof. exact model_C30_holds. Qed.

(* c30_monotone, spelled out for the model *)
Theorem c30_monotone :
  forall i0 n acts s, run (init_state i0 n) acts = Some s ->
    nowrap i0 (history s) ->
    forall A t1 i1 e1 tm1 B t2 p2 tm2 C i2 e2 tm3 D,
      history s = A ++ ERet t1 (RWait i1 e1) tm1 :: B ++ ECall t2 (OWait p2) tm2 :: C
                    ++ ERet t2 (RWait i2 e2) tm3 :: D ->
      untouched t2 C -> (i1 <= i2)%N.
Proof. exact (fun i0 n acts s H => proj1 (proj2 (model_C30_holds i0 n acts s H))). Qed.

(* c30_unlock_advances: the index moves only in NotifyOfChange's update (so
   never in UnlockWithoutNotify), there by exactly one [next_index] step
   (2^64-1 wraps to 1, never to 0); and on histories a wait that starts after a
   TrackingLock.Unlock returned sees a strictly larger index than a wait that
   had returned before that Unlock was called. *)
Theorem c30_index_steps :
  forall s a s', step s a = Some s' ->
    (index s' = index s /\ cnt s' = cnt s) \/
    (index s' = next_index (index s) /\ cnt s' = S (cnt s) /\ terminated s = false /\
     exists t c, a = AStep t /\ nth_error (thr s) t = Some (NUpd, c)).
Proof. exact tracker_index_steps. Qed.

Theorem c30_next_index : forall i, next_index i <> i /\ next_index i <> 0%N.
Proof. exact (fun i => conj (next_index_neq i) (next_index_pos i)). Qed.

Theorem c30_unlock_advances :
  forall i0 n acts s, run (init_state i0 n) acts = Some s -> hist_unlock_advances i0 (history s).
Proof. exact (fun i0 n acts s H => proj1 (proj2 (proj2 (model_C30_holds i0 n acts s H)))). Qed.

(* The checker applied to the histories recorded from the Go code: soundness
   (an accepted history has the property) and the model's own histories pass,
   whatever the slack. *)
Theorem c30_checker_sound :
  forall i0 slack evs, check_C30 i0 slack evs = true -> C30_holds i0 evs.
Proof. exact check_C30_sound. Qed.

Theorem c30_model_passes :
  forall i0 n slack acts s, run (init_state i0 n) acts = Some s ->
    check_C30 i0 slack (history s) = true.
Proof. exact model_histories_accepted. Qed.

(* Non-vacuity: a schedule in which a waiter is parked, a TrackingLock.Unlock
   wakes it with index 2, it waits again on 2 and stays blocked at quiescence;
   and five histories the checker rejects (stale answer, Unlock that did not
   advance, missed update at quiescence, late answer, spurious termination). *)
Example c30_example_run :
  exists s, run (init_state 1 2) example_schedule = Some s /\
    history s = [ ECall 0 (OWait 1) 0; ECall 1 OUnlock 0; ERet 1 RUnit 0; ERet 0 (RWait 2 WOk) 0;
                  ECall 0 (OWait 2) 0; EQuiesce 0 ] /\
    reqs s = [(0, 2%N)] /\ index s = 2%N /\ tk s = TkWaiting /\
    check_C30 1 (Some 5%N) (history s) = true.
Proof. exact example_run. Qed.

Example c30_example_rejects :
  check_C30_code 1 None [ECall 0 (OWait 1) 0; ECall 1 ONotify 0; ERet 1 RUnit 0; ERet 0 (RWait 1 WOk) 0] = 2
  /\ check_C30_code 1 None [ECall 1 OUnlock 0; ERet 1 RUnit 0; ECall 0 (OWait 0) 0; ERet 0 (RWait 1 WOk) 0] = 2
  /\ check_C30_code 1 None [ECall 0 (OWait 1) 0; ECall 1 ONotify 0; ERet 1 RUnit 0; EQuiesce 0] = 2
  /\ check_C30_code 1 (Some 10%N) [ECall 0 (OWait 1) 0; ECall 1 ONotify 5; ERet 1 RUnit 6; ERet 0 (RWait 2 WOk) 100] = 2
  /\ check_C30_code 1 None [ECall 0 (OWait 1) 0; ERet 0 (RWait 1 WTerminated) 0] = 2.
Proof. exact example_rejects. Qed.

Print Assumptions c30_no_missed.
Print Assumptions c30_progress.
Print Assumptions c30_immediate.
Print Assumptions c30_immediate_zero.
Print Assumptions c30_model_histories.
Print Assumptions c30_monotone.
Print Assumptions c30_index_steps.
Print Assumptions c30_next_index.
Print Assumptions c30_unlock_advances.
Print Assumptions c30_checker_sound.
Print Assumptions c30_model_passes.
