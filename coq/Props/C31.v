(* C31 -- Coalesced signals are never lost.
   Property theorems only: each is closed by [exact <lemma>] from
   Proof/Coalescer.v and followed by Print Assumptions.

   The model (Model/Coalescer.v) is a discrete-time automaton of
   pkg/state/coalescer.go: the rendezvous on c.strobes, the resettable timer
   and its channel, the loop's non-blocking send into the single-slot signals
   channel, the consumer, cancel(), the loop's exit, plus the passage of time.
   [crun w listen cinit acts = Some s] says that the schedule [acts] -- ANY
   interleaving of these steps with time steps, for window w, with a consumer
   that is always listening ([listen = true]) or not -- is executable and leads
   to s.  Time may not pass while the timer is due or its tick is unhandled
   (ideal timing); how closely the real scheduler approximates this is sampled
   by the harness, with slack and only in the direction the property states. *)
From Coq Require Import List Arith NArith Bool.
Import ListNotations.
From Mv Require Import Model.Coalescer Proof.Coalescer.

(* c31_at_most_one: the signals channel never holds more than one signal. *)
Theorem c31_at_most_one :
  forall w listen s, creachable w listen s -> buf s <= 1.
Proof. exact coalescer_at_most_one. Qed.

(* c31_delivered: if the last strobe was received at t, more than w time units
   have passed and Terminate was not called, then the timer case has run for
   that strobe (nothing is owed) and a signal is in the channel or has been
   received since. *)
Theorem c31_delivered :
  forall w listen s t, creachable w listen s -> cancelled s = false -> last s = Some t ->
    (t + w < now s)%N ->
    owed s = false /\ (buf s = 1 \/ cons_since s = true).
Proof. exact coalescer_delivered. Qed.

(* ... also for a slow consumer: a strobe arms the timer whether or not an older
   signal is still sitting in the channel, so [c31_delivered] applies to it. *)
Theorem c31_strobe_arms :
  forall w listen s, cdone s = false ->
    exists s', cstep w listen s AStrobe = Some s' /\ timer s' = Some (now s + w)%N /\ owed s' = true /\
               last s' = Some (now s) /\ buf s' = buf s.
Proof. exact coalescer_strobe_arms. Qed.

(* c31_burst: the timer case runs exactly once per burst (attempts + the burst
   still owed = bursts); signals placed <= attempts; nothing is created or lost
   in the channel; a strobe less than w after the previous one joins its burst,
   one more than w after it starts a new one. *)
Theorem c31_burst :
  forall w listen s, creachable w listen s ->
    attempts s + b2n (owed s) = bursts s /\ put s <= attempts s /\ taken s + buf s = put s /\
    (forall t, last s = Some t -> owed s = false -> (t + w <= now s)%N) /\
    (forall t, last s = Some t -> owed s = true -> cdone s = false -> (now s <= t + w)%N).
Proof. exact coalescer_burst. Qed.

Theorem c31_burst_gap :
  forall w listen s s' t, creachable w listen s -> cancelled s = false -> last s = Some t ->
    cstep w listen s AStrobe = Some s' ->
    ((now s < t + w)%N -> bursts s' = bursts s) /\
    ((t + w < now s)%N -> bursts s' = S (bursts s)).
Proof. exact coalescer_burst_gap. Qed.

(* c31_after_terminate: once the loop has exited, Strobe returns without any
   effect and no signal is ever placed again (only buffered ones are left). *)
Theorem c31_after_terminate :
  forall w listen s, cdone s = true ->
    (exists s', cstep w listen s AStrobe = Some s' /\ buf s' = buf s /\ timer s' = timer s /\
                put s' = put s /\ clog s' = ES (now s) (now s) :: clog s) /\
    (forall acts s', crun w listen s acts = Some s' ->
       cdone s' = true /\ put s' = put s /\ buf s' <= buf s).
Proof. exact coalescer_after_terminate. Qed.

(* The checker applied to the timed histories recorded from the Go code.
   Soundness: in an accepted history (1) at no point have more signals been
   received than the strobes so far can form bursts, and (2) after a strobe
   (before any Terminate) the next strobe / Terminate / end of observation /
   signal of a listening consumer comes no later than the strobe's return +
   window + slack, and a later look at the channel never finds it empty.  Only
   a signal that can be the strobe's own -- received no earlier than (call of
   the strobe) + window - slack -- discharges it ([quiet_for]): an older signal
   taken by a slow consumer after the strobe does not. *)
Theorem c31_checker_sound :
  forall w listen sl evs, check_C31 w sl listen evs = true ->
    (forall P Q, evs = P ++ Q -> count_sig P <= bursts_upper w sl None false P) /\
    (forall A c r B x D', evs = A ++ ES c r :: B ++ x :: D' ->
       forallb (fun e => negb (is_tc e)) A = true -> forallb (quiet_for w sl c) B = true ->
       within w listen sl c (r + w + sl)%N x).
Proof. exact check_C31_sound. Qed.

(* every history of the automaton is accepted, whatever the slack *)
Theorem c31_model_passes :
  forall w listen sl acts s, crun w listen cinit acts = Some s ->
    check_C31 w sl listen (chistory s) = true.
Proof. exact coalescer_histories_accepted. Qed.

(* Non-vacuity: a run with a burst of two strobes, a second burst, termination
   and a strobe after it; and histories the checker rejects / accepts. *)
Example c31_example_run :
  exists s, crun 3 true cinit coalescer_example = Some s /\
    chistory s = [ES 0 0; ES 1 1; EG 4; ES 8 8; EG 11; ETc 11; ETr 11; ES 11 11; EEnd 15] /\
    bursts s = 2 /\ attempts s = 2 /\ taken s = 2 /\ buf s = 0 /\
    check_C31 3 0 true (chistory s) = true.
Proof. exact coalescer_example_run. Qed.

Example c31_example_rejects :
  check_C31_code 30 15 true [ES 0 1; ES 10 11; ES 200 201; EEnd 400] = 2 /\
  check_C31_code 30 15 true [ES 0 1; EG 2; ES 5 6; EG 7; EEnd 400] = 2 /\
  check_C31_code 30 15 false [ES 0 1; EP 100; EEnd 400] = 2 /\
  check_C31_code 30 15 true [ES 0 1; EG 300; EEnd 400] = 2 /\
  check_C31_code 30 15 true [ES 0 1; ES 20 21; EG 60; ES 100 101; EG 140; EEnd 400] = 0.
Proof. exact coalescer_example_rejects. Qed.

Example c31_example_slow_consumer :
  (exists s, crun 3 false cinit coalescer_slow_consumer = Some s /\
     chistory s = [ES 0 0; ES 7 7; EG 8; EG 12; EEnd 12] /\
     put s = 2 /\ taken s = 2 /\ check_C31 3 0 false (chistory s) = true) /\
  check_C31_code 30 5 false [ES 0 1; ES 100 101; EG 110; EP 200; EEnd 300] = 2 /\
  check_C31_code 30 5 true [ES 0 1; ES 100 101; EG 110; EEnd 300] = 2 /\
  check_C31_code 30 5 false [ES 0 1; ES 100 101; EG 150; EP 200; EEnd 300] = 0 /\
  check_C31_code 30 5 false [ES 0 1; ES 100 101; EG 110; EG 200; EEnd 300] = 0.
Proof. exact (conj coalescer_slow_consumer_run coalescer_slow_consumer_rejects). Qed.

(* Strobe is a blocking rendezvous: a strobe issued at any moment -- time 0
   included -- is received by the loop and delivered. *)
Example c31_example_strobe_at_zero :
  (exists s, crun 3 true cinit [AStrobe; ATick; ATick; ATick; AFire; AHandle; ATake; ATick; AEnd] = Some s /\
     chistory s = [ES 0 0; EG 3; EEnd 4] /\ last s = Some 0%N /\ owed s = false /\ taken s = 1 /\
     check_C31 3 0 true (chistory s) = true) /\
  check_C31_code 5000 15000 true [ES 0 3; EEnd 300000] = 2 /\
  check_C31_code 5000 15000 false [ES 0 3; EP 300000; EEnd 300001] = 2 /\
  check_C31_code 1500 15000 false [ES 10 12; EG 1600; ES 1600 1601; EP 400000; EEnd 400001] = 2.
Proof. exact coalescer_strobe_at_zero. Qed.

Print Assumptions c31_at_most_one.
Print Assumptions c31_strobe_arms.
Print Assumptions c31_delivered.
Print Assumptions c31_burst.
Print Assumptions c31_burst_gap.
Print Assumptions c31_after_terminate.
Print Assumptions c31_checker_sound.
Print Assumptions c31_model_passes.
