(* C32 -- Prompting is serialized, ends at unregistration, and hides secrets.
   Property theorems only: each is closed by [exact <lemma>] from
   Proof/Prompting.v and followed by Print Assumptions.

   The registry model (Model/Prompting.v) is a transition system whose actions
   are the atomic steps of pkg/prompting/registry.go: RLock/RUnlock/Lock/Unlock
   of registryLock, map lookup/insert/delete, and receive / send / close on the
   single-slot holder channel.  [prun (pinit n k) acts = Some s]: the schedule
   [acts] -- ANY interleaving of k goroutines calling RegisterPrompter-
   WithIdentifier, Message/Prompt and UnregisterPrompter on n identifiers -- is
   executable and leads to s.  A prompter is identified with its identifier. *)
From Coq Require Import List Arith Bool.
Import ListNotations.
From Mv Require Import Model.Prompting Proof.Prompting.

(* c32_serial: at most one invocation of a given prompter is in progress. *)
Theorem c32_serial :
  forall n k s, preachable n k s ->
    forall t1 t2 id, nth_error (pthr s) t1 = Some (MInvoke id) ->
                     nth_error (pthr s) t2 = Some (MInvoke id) -> t1 = t2.
Proof. exact registry_serial. Qed.

(* c32_no_panic: no send on (and no second close of) a closed holder ever
   happens; whoever is about to send the prompter back, or to close the holder,
   finds the holder open and empty. *)
Theorem c32_no_panic :
  forall n k s, preachable n k s ->
    panicked s = false /\
    (forall t id, nth_error (pthr s) t = Some (MPut id) -> hst (get_slot s id) = HEmpty) /\
    (forall t id, nth_error (pthr s) t = Some (UClose id) -> hst (get_slot s id) = HEmpty).
Proof. exact registry_no_panic. Qed.

(* c32_serial / c32_after_unregister on histories: in every history of the
   model, between two beginnings of invocations of the same prompter lies the
   end of the first, after the return of UnregisterPrompter(id) no invocation
   of that prompter begins, and none is still in progress when it returns. *)
Theorem c32_after_unregister :
  forall n k acts s, prun (pinit n k) acts = Some s ->
    hist_serial (phistory s) /\ hist_after_unregister (phistory s) /\
    hist_ends_at_unregister (phistory s).
Proof. exact registry_histories_hold. Qed.

(* once a holder is closed it stays closed and no step begins an invocation *)
Theorem c32_closed_is_final :
  forall s a s' id, PInv s -> pstep s a = Some s' -> hst (get_slot s id) = HClosed ->
    hst (get_slot s' id) = HClosed /\ (forall t, plog s' <> PBegin t id :: plog s).
Proof. exact closed_stays. Qed.

(* c32_echo_iff: the response is echoed exactly for prompts that end with one
   of the four literal OpenSSH yes/no suffixes (otherwise it is read without
   echo: the mode is secret); the list is the literal list. *)
Theorem c32_echo_iff :
  forall prompt,
    (determine_mode prompt = mode_echo <-> echoed prompt) /\
    (determine_mode prompt = mode_echo \/ determine_mode prompt = mode_secret).
Proof. exact response_mode_echo_iff. Qed.

Theorem c32_echo_suffixes :
  echo_suffixes =
  [ [40; 121; 101; 115; 47; 110; 111; 41; 63; 32];                      (* "(yes/no)? " *)
    [40; 121; 101; 115; 47; 110; 111; 41; 58; 32];                      (* "(yes/no): " *)
    [40; 121; 101; 115; 47; 110; 111; 47; 91; 102; 105; 110; 103; 101; 114; 112; 114; 105; 110; 116;
     93; 41; 63; 32];                                                   (* "(yes/no/[fingerprint])? " *)
    [80; 108; 101; 97; 115; 101; 32; 116; 121; 112; 101; 32; 39; 121; 101; 115; 39; 44; 32; 39; 110;
     111; 39; 32; 111; 114; 32; 116; 104; 101; 32; 102; 105; 110; 103; 101; 114; 112; 114; 105; 110;
     116; 58; 32] ].           (* "Please type 'yes', 'no' or the fingerprint: " *)
Proof. exact echo_suffixes_literal. Qed.

(* The checkers applied to the real code's outputs. *)
Theorem c32_trace_checker_sound :
  forall evs, check_C32_trace evs = true ->
    hist_serial evs /\ hist_after_unregister evs /\ hist_ends_at_unregister evs.
Proof. exact check_trace_sound. Qed.

Theorem c32_trace_model_passes :
  forall n k acts s, prun (pinit n k) acts = Some s -> check_C32_trace (phistory s) = true.
Proof. exact registry_histories_accepted. Qed.

Theorem c32_echo_checker_sound :
  forall prompt mode, check_C32_echo prompt mode = true -> (mode = mode_echo <-> echoed prompt).
Proof. exact check_echo_sound. Qed.

Theorem c32_echo_model_passes :
  forall prompt, check_C32_echo prompt (determine_mode prompt) = true.
Proof. exact check_echo_model. Qed.

(* Non-vacuity. *)
Example c32_example_run :
  exists s, prun (pinit 1 3) registry_example = Some s /\
    phistory s = [ PCall 0 (ORegister 0); PRet 0 (ORegister 0) ROk; PCall 1 (OInvoke 0); PBegin 1 0;
                   PCall 2 (OInvoke 0); PCall 0 (OUnregister 0); PEnd 1 0; PRet 1 (OInvoke 0) ROk;
                   PRet 0 (OUnregister 0) ROk; PRet 2 (OInvoke 0) RClosed ] /\
    hst (get_slot s 0) = HClosed /\ panicked s = false /\ check_C32_trace (phistory s) = true.
Proof. exact registry_example_run. Qed.

Example c32_example_rejects :
  check_C32_trace_code [PCall 1 (OInvoke 0); PCall 2 (OInvoke 0); PBegin 1 0; PBegin 2 0] = 2 /\
  check_C32_trace_code [PCall 1 (OInvoke 0); PRet 0 (OUnregister 0) ROk; PBegin 1 0] = 2 /\
  check_C32_trace_code [PCall 1 (OInvoke 0); PBegin 1 0; PRet 0 (OUnregister 0) ROk] = 2 /\
  check_C32_trace_code [PCall 1 (OInvoke 0); PRet 1 (OInvoke 0) ROk] = 1.
Proof. exact registry_example_rejects. Qed.

Print Assumptions c32_serial.
Print Assumptions c32_no_panic.
Print Assumptions c32_after_unregister.
Print Assumptions c32_closed_is_final.
Print Assumptions c32_echo_iff.
Print Assumptions c32_echo_suffixes.
Print Assumptions c32_trace_checker_sound.
Print Assumptions c32_trace_model_passes.
Print Assumptions c32_echo_checker_sound.
Print Assumptions c32_echo_model_passes.
