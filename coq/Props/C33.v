(* C33 — Forwarded connections relay both directions exactly.
   Property theorems only; each is closed by [exact <lemma>] from
   Proof/Forward.v and listed under Print Assumptions at the end.

   The statements quantify over EVERY list of labels the transition system of
   Model/Forward.v accepts.  A label carries which goroutine moved and what the
   environment answered (Read: any bytes with nil/EOF/error, Write: any count
   up to the length with or without an error, cancellation at any moment), so
   this is "every schedule and every behaviour of the two connections".
   Sockets, the Go scheduler and channels are assumed (see the model's header);
   the tie to the real ForwardAndClose / controller.forward is the trace
   validation in Harness/ForwardH.v. *)
From Coq Require Import List Arith Bool.
From Coq.Init Require Import Byte.
Import ListNotations.
From Mv Require Import Model.Forward Proof.Forward.

(* Bytes.  (1) At every moment of every run the bytes delivered to a side are
   a prefix of the bytes read from the other side: same bytes, same order,
   nothing invented.  (2) Nothing is lost up to the failure point: unless the
   direction has failed, everything read has been delivered, except the one
   chunk in flight.  (3) CloseWrite reaches a side only after a clean EOF on
   the other side, after the last byte, and no byte follows it.  (4) A
   direction that ended without failure has forwarded the half-close. *)
Theorem c33_bytes : forall tr s, run init tr = Some s ->
  (forall tr1 tr2, tr = tr1 ++ tr2 ->
     forall c, exists r, readfrom (other c) tr1 = delivered c tr1 ++ r)
  /\ (forall c, match ph (dir_of s c) with
                | PWrite d _ => readfrom (other c) tr = delivered c tr ++ d
                | PEnd true => True
                | _ => delivered c tr = readfrom (other c) tr
                end)
  /\ (forall c tr1 tr2, tr = tr1 ++ ECW c :: tr2 ->
        delivered c tr1 = readfrom (other c) tr1
        /\ eof_last (other c) false tr1 = true
        /\ has_wr c tr2 = false)
  /\ (forall c, ph (dir_of s c) = PEnd false ->
        has_cw c tr = true /\ eof_last (other c) false tr = true
        /\ delivered c tr = readfrom (other c) tr).
Proof. exact forward_bytes. Qed.

(* Closing.  A Close happens only after cancellation, a failure, or both
   half-closes; the second connection is closed only after the first; when
   nothing of the forward is running any more both are closed. *)
Theorem c33_closed : forall tr s, run init tr = Some s ->
  (forall c tr1 tr2, tr = tr1 ++ ECl c :: tr2 ->
     has_cancel tr1 = true \/ fail_in tr1 = true
     \/ (has_cw Fi tr1 = true /\ has_cw Se tr1 = true))
  /\ has_cl Fi tr = closedF s /\ has_cl Se tr = closedS s
  /\ (closedF s = true -> may_close s = true)
  /\ (closedS s = true -> closedF s = true)
  /\ (quiescent s = true -> has_cl Fi tr = true /\ has_cl Se tr = true).
Proof. exact forward_closed. Qed.

(* ... and exactly then: once both directions have ended, one has failed, or
   the context is cancelled, closing the first and then the second connection
   are the waiting goroutine's only moves, and they are enabled; before that
   neither Close is possible. *)
Theorem c33_closed_exactly_when : forall s,
  (mp s = MWait -> may_close s = true -> step s (ECl Fi) = Some (set_mp s MClose2))
  /\ (mp s = MWait -> may_close s = false -> step s (ECl Fi) = None /\ step s (ECl Se) = None)
  /\ (mp s = MClose2 -> step s (ECl Se) = Some (set_mp s MDone) /\ step s (ECl Fi) = None)
  /\ (mp s = MDone -> step s (ECl Fi) = None /\ step s (ECl Se) = None)
  /\ (ended (da s) = true -> ended (db s) = true -> may_close s = true)
  /\ (failed (da s) = true \/ failed (db s) = true \/ canc s = true -> may_close s = true).
Proof. exact forward_progress. Qed.

(* Counters, for every interleaving of the counter updates of any number of
   concurrent forwards: TotalConnections = opens; OpenConnections = forwards
   still running = opens - returns, hence 0 when none runs; the data totals
   are the sums of the audited amounts. *)
Theorem c33_stats : forall sched s, srun sst0 sched = Some s ->
  c_total (cn s) = count_opens sched
  /\ c_open (cn s) = length (running s)
  /\ c_open (cn s) + count_dones sched = count_opens sched
  /\ (running s = [] -> c_open (cn s) = 0)
  /\ c_in (cn s) = sched_sum Fi sched
  /\ c_out (cn s) = sched_sum Se sched.
Proof. exact session_counters. Qed.

(* ... and the audited amounts are the bytes actually delivered: whatever the
   interleaving, TotalInboundData (TotalOutboundData) is the number of bytes
   the forwards delivered to their incoming (outgoing) connections. *)
Theorem c33_stats_bytes : forall (trs : list (list ev)) sched s,
  srun sst0 sched = Some s ->
  sched_ids_below (length trs) sched = true ->
  (forall id, id < length trs -> auds_of_sched id sched = auds_of_trace (nth id trs [])) ->
  (forall tr, In tr trs -> exists f, run init tr = Some f) ->
  c_in (cn s) = list_sum (map (fun tr => length (delivered Fi tr)) trs)
  /\ c_out (cn s) = list_sum (map (fun tr => length (delivered Se tr)) trs).
Proof. exact session_bytes. Qed.

(* Soundness of the checker applied to the implementation's observed runs. *)
Theorem c33_check_trace_sound : forall complete tr,
  check_trace complete tr = true -> trace_property complete tr.
Proof. exact check_trace_sound. Qed.

Theorem c33_check_sound : forall x, check_C33 x = true -> case_property x.
Proof. exact check_C33_sound. Qed.

(* The model's own behaviour passes the checker. *)
Theorem c33_model_passes : forall tr s, run init tr = Some s ->
  check_trace false tr = true /\ (quiescent s = true -> check_trace true tr = true).
Proof. exact model_passes_check. Qed.

Theorem c33_model_counters : forall trs id s,
  sinv s -> (forall j, In j (opened s) -> j < id) ->
  exists s', srun s (seq_sched id trs) = Some s'
    /\ c_open (cn s') = c_open (cn s)
    /\ c_total (cn s') = c_total (cn s) + length trs
    /\ c_in (cn s') = c_in (cn s) + list_sum (map (audited Fi) trs)
    /\ c_out (cn s') = c_out (cn s) + list_sum (map (audited Se) trs)
    /\ running s' = running s.
Proof. exact seq_sched_counters. Qed.

(* Non-vacuity: a run with chunked bytes in both directions, a short read
   script, both half-closes and both closes is accepted, ends quiescent and
   passes the complete-trace checker; a run cut by a failed write closes too;
   and a two-connection interleaved schedule is accepted. *)
Example c33_run_nontrivial :
  let tr := [ERd Fi [x01; x02; x03] RNil; ERd Se [x0a] RNil; EWr Se [x01; x02; x03] 3 true;
             EWr Fi [x0a] 1 true; ERd Fi [x04] REOF; EWr Se [x04] 1 true; ECW Se;
             ERd Se [] REOF; ECW Fi; ECl Fi; ECl Se] in
  option_map quiescent (run init tr) = Some true
  /\ check_trace true tr = true
  /\ delivered Se tr = [x01; x02; x03; x04] /\ delivered Fi tr = [x0a].
Proof. vm_compute. auto. Qed.

Example c33_run_failure :
  let tr := [ERd Fi [x01; x02; x03] RNil; EWr Se [x01; x02; x03] 2 false; ECl Fi;
             ERd Se [] RErr; ECl Se] in
  option_map quiescent (run init tr) = Some true /\ check_trace true tr = true
  /\ delivered Se tr = [x01; x02].
Proof. vm_compute. auto. Qed.

Example c33_sched_nontrivial :
  option_map cn (srun sst0 [SOpen 0; SOpen 1; SAud 1 Fi 3; SAud 0 Se 2; SDone 0; SAud 0 Fi 4; SDone 1])
  = Some {| c_open := 0; c_total := 2; c_in := 7; c_out := 2 |}.
Proof. vm_compute. reflexivity. Qed.

Print Assumptions c33_bytes.
Print Assumptions c33_closed.
Print Assumptions c33_closed_exactly_when.
Print Assumptions c33_stats.
Print Assumptions c33_stats_bytes.
Print Assumptions c33_check_trace_sound.
Print Assumptions c33_check_sound.
Print Assumptions c33_model_passes.
Print Assumptions c33_model_counters.
