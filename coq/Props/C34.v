(* C34 — Version and magic-number handshakes agree on both sides.

   Property text: "An agent connection is accepted by both client and server
   exactly when both sides send the expected magic numbers and identical
   major, minor and patch versions.  Any mismatch, truncated or corrupted
   handshake makes both sides fail rather than proceed."

   Property theorems only, each closed by [exact <lemma>] from
   Proof/Handshake.v.  [conf] is what one build believes (both magic numbers
   and its version triple); [client c inp] / [server c inp] are the two sides
   as functions of the bytes they receive before the stream ends; [joint] runs
   both against each other through one fault per direction.

   About "both sides fail": for a mismatch (different builds) both sides fail
   (c34_mismatch_both).  For a corrupted or truncated message its RECEIVER
   fails (c34_corrupt_or_short, c34_receiver_rejects_client, c34_receiver_rejects_server) and then closes the
   stream, so the sender's next read ends; the sender's own handshake function
   can already have returned nil when the damaged message was one of the two
   version messages, because the client sends its version before comparing and
   the client's version is the last message (c34_late_corruption_sender_succeeds
   is the proved witness).  No protocol can make the sender of its last message
   fail, so the literal "both fail" for every corruption is not provable; the
   statement proved is the one of DESIGN.md section 8, C34. *)
From Coq Require Import List NArith Strings.Byte.
Import ListNotations.
From Mv Require Import Model.Varint Model.Handshake Proof.Handshake.
Local Open Scope N_scope.

(* Both sides accept exactly when each received the other's expected magic
   number and the version triples are equal (two arbitrary builds, faithful
   channel). *)
Theorem c34_accept_iff :
  forall cc sc, wf_conf cc -> wf_conf sc ->
    (joint cc sc NoFault NoFault = (HOk, HOk)
     <-> c_smagic cc = c_smagic sc /\ c_cmagic cc = c_cmagic sc /\ c_ver cc = c_ver sc).
Proof. exact handshake_accept_iff. Qed.

(* Any disagreement (either magic number, or any of major/minor/patch) makes
   BOTH sides fail: each compares against its own constants, and the client
   sends its version before comparing. *)
Theorem c34_mismatch_both :
  forall cc sc, wf_conf cc -> wf_conf sc ->
    ~ (c_smagic cc = c_smagic sc /\ c_cmagic cc = c_cmagic sc /\ c_ver cc = c_ver sc) ->
    fst (joint cc sc NoFault NoFault) <> HOk /\ snd (joint cc sc NoFault NoFault) <> HOk.
Proof. exact handshake_mismatch_both. Qed.

(* One side against ANY byte-level peer: it accepts exactly when the complete
   15 bytes it expects (magic number, big-endian version triple) arrived
   intact at the head of its input.  Hence every truncation and every
   corruption (not only single-byte ones) makes the receiver fail. *)
Theorem c34_receiver_rejects_client :
  forall c inp, wf_conf c ->
    (snd (client c inp) = HOk <-> exists rest, inp = client_expects c ++ rest).
Proof. exact client_accept_iff. Qed.

Theorem c34_receiver_rejects_server :
  forall c inp, wf_conf c ->
    (snd (server c inp) = HOk <-> exists rest, inp = server_expects c ++ rest).
Proof. exact server_accept_iff. Qed.

(* Both real sides of one build through a faulty channel: a single altered
   byte (any position, any different value) or a truncation at any point of
   either direction makes the receiver of that direction fail, whatever
   happens in the other direction. *)
Theorem c34_corrupt_or_short :
  forall c fsc fcs, wf_conf c ->
    (effective fsc (client_expects c) = true -> fst (joint c c fsc fcs) <> HOk)
    /\ (effective fcs (server_expects c) = true -> snd (joint c c fsc fcs) <> HOk).
Proof. exact handshake_fault_receiver_fails. Qed.

(* Faults that change nothing leave the handshake successful. *)
Theorem c34_ineffective_faults_accept :
  forall c fsc fcs, wf_conf c ->
    effective fsc (client_expects c) = false -> effective fcs (server_expects c) = false ->
    joint c c fsc fcs = (HOk, HOk).
Proof. exact joint_ineffective. Qed.

(* The wire form of the version is injective, and decoding inverts it. *)
Theorem c34_be_injective :
  forall a b, a < 2 ^ 32 -> b < 2 ^ 32 -> be32 a = be32 b -> a = b.
Proof. exact be32_inj. Qed.

Theorem c34_version_injective :
  forall v w, wf_version v -> wf_version w -> enc_version v = enc_version w -> v = w.
Proof. exact enc_version_inj. Qed.

Theorem c34_version_roundtrip :
  (forall v, wf_version v -> dec_version (enc_version v) = v)
  /\ (forall l, length l = 12%nat -> enc_version (dec_version l) = l).
Proof. exact (conj dec_enc_version enc_dec_version). Qed.

(* The sender of a damaged version message can have succeeded already. *)
Theorem c34_late_corruption_sender_succeeds :
  effective (Alter 14 xff) (client_expects go_conf) = true
  /\ joint go_conf go_conf (Alter 14 xff) NoFault = (HVersionMismatch, HOk)
  /\ effective (Alter 14 xff) (server_expects go_conf) = true
  /\ joint go_conf go_conf NoFault (Alter 14 xff) = (HOk, HVersionMismatch).
Proof. exact late_corruption_sender_succeeds. Qed.

(* -- the checkers applied to the implementation's outputs ---------------------------- *)
Theorem c34_check_side_sound :
  forall E inp r, check_side E inp r = true -> (r = HOk <-> exists rest, inp = E ++ rest).
Proof. exact check_side_sound. Qed.

Theorem c34_check_joint_sound :
  forall c fsc fcs r, check_joint c fsc fcs r = true ->
    (effective fsc (client_expects c) = true -> fst r <> HOk)
    /\ (effective fcs (server_expects c) = true -> snd r <> HOk)
    /\ (effective fsc (client_expects c) = false -> effective fcs (server_expects c) = false ->
        r = (HOk, HOk)).
Proof. exact check_joint_sound. Qed.

(* The model's own outputs pass the checkers. *)
Theorem c34_model_passes_client :
  forall c inp, wf_conf c -> check_side (client_expects c) inp (snd (client c inp)) = true.
Proof. exact check_side_client. Qed.

Theorem c34_model_passes_server :
  forall c inp, wf_conf c -> check_side (server_expects c) inp (snd (server c inp)) = true.
Proof. exact check_side_server. Qed.

Theorem c34_model_passes_joint :
  forall c fsc fcs, wf_conf c -> check_joint c fsc fcs (joint c c fsc fcs) = true.
Proof. exact check_joint_model. Qed.

(* -- non-vacuity: the constants of the code form a well-formed build, and the
   handshake between two such builds succeeds with the expected bytes -------- *)
Example c34_go_conf_wf : wf_conf go_conf.
Proof. exact go_conf_wf. Qed.

Example c34_example :
  joint go_conf go_conf NoFault NoFault = (HOk, HOk)
  /\ client go_conf (client_expects go_conf)
     = (go_client_magic ++ enc_version go_version, HOk)
  /\ enc_version go_version = [x00; x00; x00; x00; x00; x00; x00; x13; x00; x00; x00; x00].
Proof. exact handshake_example. Qed.

Print Assumptions c34_accept_iff.
Print Assumptions c34_mismatch_both.
Print Assumptions c34_receiver_rejects_client.
Print Assumptions c34_receiver_rejects_server.
Print Assumptions c34_corrupt_or_short.
Print Assumptions c34_ineffective_faults_accept.
Print Assumptions c34_be_injective.
Print Assumptions c34_version_injective.
Print Assumptions c34_version_roundtrip.
Print Assumptions c34_late_corruption_sender_succeeds.
Print Assumptions c34_check_side_sound.
Print Assumptions c34_check_joint_sound.
Print Assumptions c34_model_passes_client.
Print Assumptions c34_model_passes_server.
Print Assumptions c34_model_passes_joint.
