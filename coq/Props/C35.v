(* C35 — Closing an agent connection always terminates the agent.
   Property theorems only; each is closed by [exact <lemma>] from
   Proof/AgentClose.v and listed under Print Assumptions at the end.

   Quantification: every termination delay, EVERY process behaviour (exits by
   itself at any time or never; reacts to its input closing after any delay or
   never; reacts to SIGTERM after any delay or never; leaves a descendant
   behind that keeps its standard error open, or not), every lateness of the
   three timers and every resolution of exit/timer ties in the selects.
   Assumed (explicit): the process does die of SIGKILL ([p_kill p <> None],
   POSIX: SIGKILL cannot be caught or ignored) and Cmd.Wait returns once the
   child has exited.  The wait durations (termination delay, 1 s, 1 s) are tied
   to the code by the harness, which checks on real processes that no signal
   arrives earlier than these waits allow and that the return is not later than
   the model's plus slack. *)
From Coq Require Import NArith List Bool.
Import ListNotations.
From Mv Require Import Model.AgentClose Proof.AgentClose.
Open Scope N_scope.

(* Close reaches its return for every process and every timing, and the
   process has exited by then: [o_exit] is the earliest exit of this process
   under exactly the signals that were sent, and it is not after the return. *)
Theorem c35_returns_and_dead : forall d p e, p_kill p <> None ->
  exists o, close_run d p e = Some o
    /\ earliest_exit p (o_stdin_at o) (o_term_at o) (o_kill_at o) = Some (o_exit o)
    /\ o_exit o <= o_ret o.
Proof. exact close_returns_dead. Qed.

(* [p] ranges over processes with and without a lingering descendant that
   inherited standard error ([p_linger]); explicitly, that parameter is
   irrelevant: the wrapper does not wait for the end of the error stream, so
   the run is the same whether or not such a descendant exists. *)
Theorem c35_lingering_descendant_irrelevant : forall d p e b,
  close_run d (with_linger b p) e = close_run d p e.
Proof. exact close_linger_irrelevant. Qed.

(* ... within the sum of the waits (termination delay + 1 s + 1 s, each as
   long as its timer really took) plus the time the process takes to die of
   SIGKILL; and an agent that goes at an earlier stage is not escalated on. *)
Theorem c35_bound : forall d p e o k, p_kill p = Some k -> close_run d p e = Some o ->
  o_ret o <= d + j0 e + w_stdin + j1 e + w_term + j2 e + k
  /\ match o_stage o with
     | StSelf => o_ret o <= d + j0 e /\ o_stdin_at o = None /\ o_term_at o = None /\ o_kill_at o = None
     | StStdin => o_ret o <= d + j0 e + w_stdin + j1 e /\ o_term_at o = None /\ o_kill_at o = None
     | StTerm => o_ret o <= d + j0 e + w_stdin + j1 e + w_term + j2 e /\ o_kill_at o = None
     | StKill => True
     end.
Proof. exact close_bound. Qed.

Theorem c35_no_force_on_cooperative : forall d p e t, p_self p = Some t -> t < d ->
  exists o, close_run d p e = Some o /\ o_stage o = StSelf /\ o_ret o = t
            /\ o_stdin_at o = None /\ o_term_at o = None /\ o_kill_at o = None.
Proof. exact close_no_force. Qed.

(* checker soundness, and the model's own outcome passes *)
Theorem c35_check_sound : forall o, check_C35 o = true -> ob_returned o = true /\ ob_dead o = true.
Proof. exact check_C35_sound. Qed.

Theorem c35_model_passes : forall d p e o, close_run d p e = Some o -> check_C35 (obs_of p o) = true.
Proof. exact model_passes_C35. Qed.

(* Non-vacuity.  An agent that ignores everything is killed after d + 2 s; the
   hypothesis about SIGKILL is needed (without it the last wait never ends);
   an agent that is slow on stdin but honours SIGTERM goes at the third stage. *)
Example c35_never_is_killed :
  option_map (fun o => (o_stage o, o_ret o, o_kill_at o))
    (close_run 300 {| p_self := None; p_stdin := None; p_term := None; p_kill := Some 5; p_linger := true |} env0)
  = Some (StKill, 2305, Some 2300).
Proof. vm_compute. reflexivity. Qed.

Example c35_sigkill_needed :
  close_run 300 {| p_self := None; p_stdin := None; p_term := None; p_kill := None; p_linger := false |} env0 = None.
Proof. vm_compute. reflexivity. Qed.

Example c35_term_stage :
  option_map (fun o => (o_stage o, o_ret o))
    (close_run 0 {| p_self := None; p_stdin := Some 1500; p_term := Some 100; p_kill := Some 0; p_linger := true |} env0)
  = Some (StTerm, 1100).
Proof. vm_compute. reflexivity. Qed.

Print Assumptions c35_returns_and_dead.
Print Assumptions c35_lingering_descendant_irrelevant.
Print Assumptions c35_bound.
Print Assumptions c35_no_force_on_cooperative.
Print Assumptions c35_check_sound.
Print Assumptions c35_model_passes.
