(* C36 -- Endpoint URL components are never treated as command-line options.

   Statement (properties.jsonl): user names, host names and container names
   taken from endpoint URLs are always passed to the ssh, scp and docker
   commands as operands, never interpreted as options, whatever characters they
   start with. A URL whose component could only be passed as an option is
   rejected before any command runs.

   Models: Model/Argv.v transcribes the argument vectors built by
   sshTransport.Command / Copy and dockerTransport.command / Copy /
   changeContainerStatus (with ssh.ConnectTimeoutFlag, ServerAliveFlags,
   CompressionFlag and docker DaemonConnectionFlags.ToFlags), and defines a
   getopt-style parser (one-letter options with and without argument, clusters,
   long options, "--", permuting and non-permuting operand handling) with the
   option tables of OpenSSH ssh and scp and of docker / docker exec / cp /
   stop / start; that parser is what "passed as an operand" MEANS here (trusted:
   that the real programs parse this way). Model/Url.v is the URL parser and
   validator; [fx_dash] = true is the proposed repair (user, host and
   container names beginning with '-' are rejected by Parse and EnsureValid).

   The theorems are about fx_dash = true (either value of the two C38
   switches); [c36_refuted_unfixed] shows that the statement is FALSE of the
   code as it is (witness: -oProxyCommand=x:path).

   Property theorems only: each closed by [exact <lemma>] from Proof/Argv.v. *)
From Coq Require Import List Bool NArith String.
From Coq.Strings Require Import Byte.
Import ListNotations.
From Mv Require Import Common.Str Model.Url Model.Argv Proof.Url Proof.Argv.
Open Scope N_scope.

(* ---- a component that begins with '-' makes validation fail ---- *)

Theorem c36_rejects :
  forall (fx : fixes) (u : url),
    fx_dash fx = true -> u_proto u <> PLocal ->
    starts_with_dash (u_user u) || starts_with_dash (u_host u) = true ->
    url_valid fx u = false.
Proof. exact dash_rejected. Qed.

(* ... so every accepted SSH / Docker URL has a non-empty host (container) and
   neither user nor host (container) begins with '-' *)
Theorem c36_accepted_components :
  forall (fx : fixes) (u : url),
    fx_dash fx = true -> url_valid fx u = true -> u_proto u <> PLocal ->
    starts_with_dash (u_user u) = false /\ starts_with_dash (u_host u) = false
    /\ u_host u <> [].
Proof. exact valid_no_dash. Qed.

(* ---- ssh: for every timeout, user, host, port and command, the argument
   vector parses into exactly the fixed options, the destination [user@]host
   as the first operand, and the command ---- *)
Theorem c36_operand_ssh :
  forall (timeout : N) (user host : str) (port : N) (command : str),
    starts_with_dash (ssh_target user host) = false -> starts_with_dash command = false ->
    ssh_parse (ssh_argv timeout user host port command)
    = {| sshp_opts := ssh_expected_opts timeout port;
         sshp_dest := Some (ssh_target user host);
         sshp_opts2 := []; sshp_command := [command] |}.
Proof. exact ssh_parse_argv. Qed.

(* ---- scp: under BOTH getopt flavours the options are the fixed ones and
   the operands are the source file and [user@]host:remote ---- *)
Theorem c36_operand_scp :
  forall (permute : bool) (timeout : N) (user host : str) (port : N) (base remote : str),
    starts_with_dash base = false ->
    starts_with_dash (scp_destination user host remote) = false ->
    getopt (scp_spec permute) (scp_argv timeout user host port base remote)
    = scp_expected_opts timeout port
      ++ [IOperand base; IOperand (scp_destination user host remote)].
Proof. exact scp_getopt. Qed.

(* ---- docker exec: for every set of daemon connection flags, the global
   options are consumed with their values, "exec" is the subcommand, --user and
   --workdir consume the following word as their argument (whatever it looks
   like), the container is the first operand and the command words follow ---- *)
Theorem c36_operand_docker_exec :
  forall (f : dflags) (container t_user command workdir user_override : str),
    starts_with_dash container = false ->
    docker_parse (docker_exec_argv (to_flags f) container t_user command workdir user_override)
    = {| dkp_global := dflag_items f; dkp_sub := Some s_exec;
         dkp_items := exec_expected_items container t_user command workdir user_override |}.
Proof. exact docker_exec_parse. Qed.

Theorem c36_operand_docker_cp :
  forall (f : dflags) (container home local_path remote : str) (windows : bool),
    starts_with_dash local_path = false -> starts_with_dash container = false -> container <> [] ->
    docker_parse (docker_cp_argv (to_flags f) container home local_path remote windows)
    = {| dkp_global := dflag_items f; dkp_sub := Some s_cp;
         dkp_items :=
           [IOperand local_path;
            IOperand (container ++ c_colon :: home ++ (if windows then c_bslash else c_slash) :: remote)] |}.
Proof. exact docker_cp_parse. Qed.

Theorem c36_operand_docker_status :
  forall (f : dflags) (container : str) (stop : bool),
    starts_with_dash container = false ->
    docker_parse (docker_status_argv (to_flags f) container stop)
    = {| dkp_global := dflag_items f; dkp_sub := Some (if stop then s_stop else s_start);
         dkp_items := [IOperand container] |}.
Proof. exact docker_status_parse. Qed.

(* ---- the property, assembled: every argument vector the transports build
   from an ACCEPTED URL passes the per-invocation check (components are
   operands) ---- *)
Theorem c36_operand :
  forall (fx : fixes) (u : url),
    fx_dash fx = true -> url_valid fx u = true -> u_proto u <> PLocal ->
    (forall timeout command, starts_with_dash command = false ->
       record_ok (u_user u) (u_host u)
         (TSsh, ssh_argv timeout (u_user u) (u_host u) (transport_port u) command) = true)
    /\ (forall timeout base remote, starts_with_dash base = false ->
          record_ok (u_user u) (u_host u)
            (TScp, scp_argv timeout (u_user u) (u_host u) (transport_port u) base remote) = true)
    /\ (forall f command workdir user_override,
          user_override = [] \/ user_override = s_root ->
          record_ok (u_user u) (u_host u)
            (TDocker, docker_exec_argv (to_flags f) (u_host u) (u_user u) command workdir user_override) = true)
    /\ (forall f home local_path remote windows, starts_with_dash local_path = false ->
          record_ok (u_user u) (u_host u)
            (TDocker, docker_cp_argv (to_flags f) (u_host u) home local_path remote windows) = true)
    /\ (forall f stop,
          record_ok (u_user u) (u_host u)
            (TDocker, docker_status_argv (to_flags f) (u_host u) stop) = true).
Proof. exact accepted_records_ok. Qed.

(* ---- parsing: with the repair, Parse itself never yields such a component
   (so validation never has to catch it), for every input ---- *)
Section C36Parse.
Variable normalize : str -> option str.
Hypothesis normalize_abs : forall s n, normalize s = Some n -> is_abs n = true.

Theorem c36_parse_no_dash :
  forall (fx : fixes) (raw : str) (k : kind) (env : list (str * str)) (u : url),
    fx_dash fx = true -> parse normalize fx raw k env = inr u -> u_proto u <> PLocal ->
    starts_with_dash (u_user u) = false /\ starts_with_dash (u_host u) = false
    /\ u_host u <> [].
Proof. exact (parsed_no_dash normalize normalize_abs). Qed.
End C36Parse.

(* ---- soundness of the checker applied to the recorded invocations ---- *)
Theorem c36_check_sound :
  forall (out : perr + url) (valid : bool) (recs : list record),
    check_C36 out valid recs = true ->
    (forall u, out = inr u -> u_proto u <> PLocal -> valid = true ->
               starts_with_dash (u_user u) = false /\ starts_with_dash (u_host u) = false
               /\ forall r, In r recs -> record_ok (u_user u) (u_host u) r = true)
    /\ ((forall u, out = inr u -> valid = false) -> recs = []).
Proof. exact check_C36_sound. Qed.

(* ---- the code as it is REFUTES the statement: -oProxyCommand=x:path parses
   and validates, its host reaches ssh as the option -o ProxyCommand=x, and
   the agent command becomes the destination ---- *)
Theorem c36_refuted_unfixed :
  exists u,
    parse no_normalize unfixed witness_raw KSync [] = inr u
    /\ url_valid unfixed u = true
    /\ u_host u = B "-oProxyCommand=x"
    /\ let p := ssh_parse (ssh_argv 5 (u_user u) (u_host u) (transport_port u) witness_cmd) in
       In (IOptArg "o"%byte (B "ProxyCommand=x")) (sshp_opts p)
       /\ sshp_dest p = Some witness_cmd
       /\ record_ok (u_user u) (u_host u)
            (TSsh, ssh_argv 5 (u_user u) (u_host u) (transport_port u) witness_cmd) = false.
Proof. exact unfixed_option_injection. Qed.

(* the same for a user name, and for a Docker container name *)
Theorem c36_refuted_unfixed_user_and_docker :
  (exists u, parse no_normalize unfixed (B "-luser@host:path") KSync [] = inr u
             /\ url_valid unfixed u = true
             /\ record_ok (u_user u) (u_host u)
                  (TSsh, ssh_argv 5 (u_user u) (u_host u) (transport_port u) witness_cmd) = false)
  /\ (exists u, parse no_normalize unfixed (B "docker://--privileged/path") KSync [] = inr u
                /\ url_valid unfixed u = true
                /\ record_ok (u_user u) (u_host u)
                     (TDocker, docker_exec_argv [] (u_host u) (u_user u) (B "env") [] []) = false).
Proof. exact unfixed_option_injection_user_and_docker. Qed.

Theorem c36_fixed_rejects_witnesses :
  parse no_normalize fixed_all witness_raw KSync [] = inl EDash
  /\ parse no_normalize fixed_all (B "-luser@host:path") KSync [] = inl EDash
  /\ parse no_normalize fixed_all (B "docker://--privileged/path") KSync [] = inl EDash
  /\ parse no_normalize fixed_all (B "docker://-u@c/path") KSync [] = inl EDash.
Proof. exact fixed_rejects_injection. Qed.

(* Non-vacuity: with the repair an ordinary URL with user and port is accepted
   and its components arrive as the destination and as the argument of -p. *)
Example c36_accepted_nontrivial :
  exists u,
    parse no_normalize fixed_all (B "user@example.com:2222:~/proj") KSync [] = inr u
    /\ url_valid fixed_all u = true
    /\ sshp_dest (ssh_parse (ssh_argv 5 (u_user u) (u_host u) (transport_port u) witness_cmd))
       = Some (B "user@example.com")
    /\ In (IOptArg "p"%byte (B "2222"))
          (sshp_opts (ssh_parse (ssh_argv 5 (u_user u) (u_host u) (transport_port u) witness_cmd))).
Proof. exact accepted_example. Qed.

Print Assumptions c36_rejects.
Print Assumptions c36_accepted_components.
Print Assumptions c36_operand_ssh.
Print Assumptions c36_operand_scp.
Print Assumptions c36_operand_docker_exec.
Print Assumptions c36_operand_docker_cp.
Print Assumptions c36_operand_docker_status.
Print Assumptions c36_operand.
Print Assumptions c36_parse_no_dash.
Print Assumptions c36_check_sound.
Print Assumptions c36_refuted_unfixed.
Print Assumptions c36_refuted_unfixed_user_and_docker.
Print Assumptions c36_fixed_rejects_witnesses.
