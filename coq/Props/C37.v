(* C37 — Accepted session configurations are valid for every endpoint.
   Property theorems only: each is closed by [exact <lemma>] from
   Proof/Config.v and followed by Print Assumptions.

   Model/Config.v carries a boolean [fixed] in [creation_accepts]:
     fixed = false  what session creation (CreationSpecification.ensureValid)
                    and session loading (Session.EnsureValid) check AS THE CODE
                    IS: the session part with EnsureValid(false), the two
                    endpoint-specific parts with EnsureValid(true) - which
                    validates the default file mode against the zero permissions
                    mode;
     fixed = true   the same plus the proposed repair: the two merged
                    per-endpoint configurations are validated with
                    EnsureValid(false), exactly as a remote endpoint will.
   The property is proved for fixed = true and refuted for fixed = false. The
   harness decides on every run which one the implementation is and applies
   check_C37 to what the real creation path and the real endpoint checks did. *)
From Coq Require Import List String Bool NArith.
Import ListNotations.
From Mv Require Import Model.Config Proof.Config.
Local Open Scope string_scope.
Local Open Scope list_scope.
Local Open Scope N_scope.

(* every accepted combination yields, for each endpoint, a configuration the
   endpoint's own checks accept (remote: InitializeSynchronizationRequest
   .ensureValid; local: NewEndpoint's dispatch on the effective modes) *)
Theorem c37_accepted_implies_endpoint_ok :
  forall c a b, creation_accepts true c a b = true ->
    endpoint_accepts (merge c a) = true /\ endpoint_accepts (merge c b) = true.
Proof. exact accepted_implies_endpoint_ok. Qed.

(* in particular: under portable permissions (explicit or by default) the
   default file mode an endpoint runs with has no executable bit *)
Theorem c37_portable_no_exec_bits :
  forall c a b, creation_accepts true c a b = true ->
    portable_no_exec (merge c a) = true /\ portable_no_exec (merge c b) = true.
Proof. exact accepted_portable_no_exec_bits. Qed.

(* the code as it is: ConfigurationAlpha{DefaultFileMode: 0755} with default
   (= portable) permissions is accepted at creation, rejected by a remote
   endpoint, and a local endpoint runs with executable default bits *)
Theorem c37_refuted_unfixed :
  exists c a b,
    creation_accepts false c a b = true
    /\ endpoint_accepts (merge c a) = false
    /\ portable_no_exec (merge c a) = false.
Proof. exact refuted_unfixed. Qed.

Theorem c37_refuted_unfixed_explicit_portable :
  exists c a b,
    c_permissions_mode c = perm_portable
    /\ creation_accepts false c a b = true
    /\ remote_request_check (merge c b) = 23
    /\ local_handles (merge c b) = true
    /\ portable_no_exec (merge c b) = false.
Proof. exact refuted_unfixed_explicit_portable. Qed.

(* the repair rejects nothing that both endpoints accept, and accepts nothing
   the code did not accept before *)
Theorem c37_repair_conservative :
  forall c a b, creation_accepts true c a b = true -> creation_accepts false c a b = true.
Proof. exact fixed_implies_unfixed. Qed.

Theorem c37_repair_minimal :
  forall c a b, creation_accepts false c a b = true ->
    endpoint_accepts (merge c a) = true -> endpoint_accepts (merge c b) = true ->
    creation_accepts true c a b = true.
Proof. exact unfixed_plus_endpoints_implies_fixed. Qed.

(* endpoint-specific values override session-wide ones field by field:
   [merge lo hi] takes [hi] unless it is default / zero / empty *)
Theorem c37_override :
  forall lo hi, override_spec lo hi (merge lo hi).
Proof. exact merge_override. Qed.

(* ignore lists are concatenated in order (session first) *)
Theorem c37_ignores_concat :
  forall lo hi,
    c_default_ignores (merge lo hi) = c_default_ignores lo ++ c_default_ignores hi
    /\ c_ignores (merge lo hi) = c_ignores lo ++ c_ignores hi.
Proof. exact merge_ignores_concat. Qed.

Theorem c37_accepted_ignores :
  forall fixed c a b, creation_accepts fixed c a b = true ->
    c_ignores (merge c a) = c_ignores c /\ c_ignores (merge c b) = c_ignores c
    /\ c_default_ignores (merge c a) = c_default_ignores c
    /\ c_default_ignores (merge c b) = c_default_ignores c.
Proof. exact accepted_ignores. Qed.

(* every mode written as text is read back as the same value: for each of the
   eleven enumerations and each supported value (indeed each declared
   non-default value) *)
Theorem c37_text_roundtrip :
  forall e, In e all_enums -> forall v, supported e v = true ->
    exists t, marshal e v = Some t /\ unmarshal e t = Some v.
Proof. exact supported_roundtrip. Qed.

Theorem c37_text_roundtrip_known :
  forall e, In e all_enums -> forall v t s, row_of v (rows e) = Some (t, s) ->
    exists t', marshal e v = Some t' /\ unmarshal e t' = Some v.
Proof. exact known_value_roundtrip. Qed.

(* the checker applied to the implementation is sound, the repaired model
   passes it on every input, the model of the code as it is does not *)
Theorem c37_check_sound :
  forall c a b created oa ob, check_C37 c a b created oa ob = true -> prop_C37 c a b created oa ob.
Proof. exact check_sound. Qed.

Theorem c37_model_passes :
  forall c a b,
    check_C37 c a b (creation_accepts true c a b) (model_obs (merge c a)) (model_obs (merge c b)) = true.
Proof. exact model_passes. Qed.

Theorem c37_refuted_unfixed_check :
  exists c a b,
    check_C37 c a b (creation_accepts false c a b) (model_obs (merge c a)) (model_obs (merge c b)) = false.
Proof. exact model_unfixed_fails_check. Qed.

(* Endpoint initialization as a whole also consults the endpoint's environment
   (ignore patterns must compile under the effective syntax, owner and group
   must resolve in the endpoint's user database). Creation cannot decide that
   and by the code's own comments does not try; with the environment as a
   parameter the full statement is [full_statement env], it is equivalent to
   "the environment rejects no validated configuration"
   (c37_full_statement_iff_env), and what is proved is the statement restricted
   to environments that accept the two merged configurations. *)
Theorem c37_endpoint_init_partial :
  forall (env_accepts : config -> bool) c a b, creation_accepts true c a b = true ->
    env_accepts (merge c a) = true -> env_accepts (merge c b) = true ->
    endpoint_init_accepts env_accepts (merge c a) = true
    /\ endpoint_init_accepts env_accepts (merge c b) = true.
Proof. exact endpoint_init_partial. Qed.

Theorem c37_full_statement_iff_env :
  forall env_accepts : config -> bool,
    full_statement env_accepts <->
    (forall c a b, creation_accepts true c a b = true ->
       env_accepts (merge c a) = true /\ env_accepts (merge c b) = true).
Proof. exact full_statement_iff_env. Qed.

(* the hypotheses are satisfiable by a non-trivial state: a session with every
   field set and an endpoint-specific file mode of 0755 under manual
   permissions is accepted; the same file mode under default permissions is not *)
Example c37_nontrivial :
  let c := merge empty_config witness_alpha in
  let c' := {| c_sync_mode := 3; c_hashing := 2; c_max_entry_count := 10; c_max_staging_file_size := 0;
     c_probe_mode := 1; c_scan_mode := 2; c_stage_mode := 2; c_symlink_mode := 2;
     c_watch_mode := 2; c_watch_polling_interval := 5; c_ignore_syntax := 2;
     c_default_ignores := []; c_ignores := ["*.o"; "!keep.o"]; c_ignore_vcs_mode := 1;
     c_permissions_mode := 2; c_default_file_mode := 420; c_default_directory_mode := 493;
     c_default_owner := "id:1000"; c_default_group := "staff"; c_compression := 2 |} in
  creation_accepts true c' witness_alpha empty_config = true
  /\ c_default_file_mode (merge c' witness_alpha) = 493
  /\ c_ignores (merge c' witness_alpha) = ["*.o"; "!keep.o"]
  /\ creation_accepts true c empty_config empty_config = false.
Proof. exact example_accepts. Qed.

Print Assumptions c37_accepted_implies_endpoint_ok.
Print Assumptions c37_portable_no_exec_bits.
Print Assumptions c37_refuted_unfixed.
Print Assumptions c37_refuted_unfixed_explicit_portable.
Print Assumptions c37_repair_conservative.
Print Assumptions c37_repair_minimal.
Print Assumptions c37_override.
Print Assumptions c37_ignores_concat.
Print Assumptions c37_accepted_ignores.
Print Assumptions c37_text_roundtrip.
Print Assumptions c37_text_roundtrip_known.
Print Assumptions c37_check_sound.
Print Assumptions c37_model_passes.
Print Assumptions c37_refuted_unfixed_check.
Print Assumptions c37_endpoint_init_partial.
Print Assumptions c37_full_statement_iff_env.
Print Assumptions c37_nontrivial.
