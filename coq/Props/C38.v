(* C38 -- Endpoint URLs round-trip through their text form.

   Statement (properties.jsonl): every URL produced by parsing user input is
   valid, and formatting it and parsing the result again yields the same URL,
   for local, SSH and Docker URLs of both synchronization and forwarding kinds.

   The model (Model/Url.v) transcribes url.Parse (parse.go, parse_ssh.go,
   parse_docker.go, parse_local.go), Format("") (format.go), EnsureValid
   (url.go) and forwarding.Parse on byte strings, with one switch per defect
   ([fixes]; false = the code as it is in the repository):
     fx_port0  formatSSH prints a zero port when omitting it would
               change how the text parses (path begins with digits
               and ':', or the text would be a Docker URL); parsing
               itself is unchanged                               (repair, C38)
     fx_duser  an empty Docker user name before '@' is rejected  (repair, C38)
     fx_dash   user/host/container beginning with '-' rejected   (repair, C36)
   filesystem.Normalize is a Section variable with two stated hypotheses
   (results are absolute; a normalized path normalizes to itself); the Docker
   environment captured at parse time is an argument. POSIX build;
   extension.EnvironmentIsExtension() = false.

   The round-trip theorem needs fx_port0 and fx_duser and holds for either value
   of fx_dash; validity holds for every combination. [c38_refuted_unfixed] and
   its companions show that the statement is FALSE of the code as it is and
   that each of the two repairs is needed on its own.

   Property theorems only: each closed by [exact <lemma>] from Proof/Url.v. *)
From Coq Require Import List Bool NArith String.
From Coq.Strings Require Import Byte.
Import ListNotations.
From Mv Require Import Common.Str Model.Url Proof.Url.
Open Scope N_scope.

Section C38.
Variable normalize : str -> option str.
Hypothesis normalize_abs : forall s n, normalize s = Some n -> is_abs n = true.
Hypothesis normalize_idem : forall s n, normalize s = Some n -> normalize n = Some n.

(* Every URL produced by parsing is valid: all raw strings, both kinds, all
   three protocols, every environment, every combination of repairs. *)
Theorem c38_valid :
  forall (fx : fixes) (raw : str) (k : kind) (env : list (str * str)) (u : url),
    parse normalize fx raw k env = inr u -> url_valid fx u = true.
Proof. exact (parse_valid normalize normalize_abs). Qed.

(* Formatting a parsed URL and parsing the text again yields the same URL. *)
Theorem c38_roundtrip :
  forall (fx : fixes) (raw : str) (k : kind) (env : list (str * str)) (u : url),
    fx_port0 fx = true -> fx_duser fx = true ->
    parse normalize fx raw k env = inr u ->
    parse normalize fx (format fx u) k env = inr u.
Proof. exact (parse_roundtrip normalize normalize_abs normalize_idem). Qed.

(* The repaired model passes the checker that is applied to the
   implementation's outputs, on every input. *)
Theorem c38_model_passes_check :
  forall (fx : fixes) (raw : str) (k : kind) (env : list (str * str)),
    fx_port0 fx = true -> fx_duser fx = true ->
    let out1 := parse normalize fx raw k env in
    check_C38 out1
      (match out1 with inr u => url_valid fx u | inl _ => false end)
      (match out1 with inr u => parse normalize fx (format fx u) k env | inl e => inl e end) = true.
Proof. exact (check_C38_model_passes normalize normalize_abs normalize_idem). Qed.

End C38.

(* Soundness of the checker: it accepts an observation (result of Parse,
   validity of the parsed URL, result of Parse after Format) only if the parsed
   URL is valid and comes back unchanged. *)
Theorem c38_check_sound :
  forall (out1 : perr + url) (valid1 : bool) (out2 : perr + url),
    check_C38 out1 valid1 out2 = true ->
    forall u, out1 = inr u -> valid1 = true /\ out2 = inr u.
Proof. exact check_C38_sound. Qed.

(* The code as it is REFUTES the statement. [refutes fx raw k]: raw parses to a
   valid URL u whose formatted text parses to a different URL. *)
Theorem c38_refuted_unfixed : refutes unfixed (B "host:0:22:foo") KSync.
Proof. exact refuted_port_zero. Qed.

(* the same defect can even change the protocol: SSH -> Docker *)
Theorem c38_refuted_unfixed_protocol_change : refutes unfixed (B "docker:0://x/y") KSync.
Proof. exact refuted_port_zero_docker. Qed.

(* a second, independent defect (found by this check, not listed in DESIGN §9):
   an empty Docker user name *)
Theorem c38_refuted_unfixed_docker_user : refutes unfixed (B "docker://@a@b/p") KSync.
Proof. exact refuted_docker_empty_user. Qed.

(* each repair alone is not enough *)
Theorem c38_refuted_port0_repair_only : refutes port0_only (B "docker://@a@b/p") KSync.
Proof. exact refuted_docker_empty_user_port0_only. Qed.

Theorem c38_refuted_duser_repair_only : refutes duser_only (B "host:0:22:foo") KSync.
Proof. exact refuted_port_zero_duser_only. Qed.

(* with the repairs: the port-zero witnesses parse exactly as before (upstream
   deliberately accepts an explicit port 0) and now come back unchanged because
   Format prints the zero port; where it is not needed it is still omitted
   (host:00:path -> host:path); the Docker witness is rejected by the parser *)
Theorem c38_fixed_witnesses :
  (exists u, parse no_normalize fixed_all (B "host:0:22:foo") KSync [] = inr u
             /\ u_port u = 0 /\ u_path u = B "22:foo"
             /\ format fixed_all u = B "host:0:22:foo"
             /\ parse no_normalize fixed_all (format fixed_all u) KSync [] = inr u)
  /\ (exists u, parse no_normalize fixed_all (B "docker:0://x/y") KSync [] = inr u
                /\ u_proto u = PSSH
                /\ format fixed_all u = B "docker:0://x/y"
                /\ parse no_normalize fixed_all (format fixed_all u) KSync [] = inr u)
  /\ (exists u, parse no_normalize fixed_all (B "host:00:path") KSync [] = inr u
                /\ format fixed_all u = B "host:path"
                /\ parse no_normalize fixed_all (format fixed_all u) KSync [] = inr u)
  /\ parse no_normalize fixed_all (B "docker://@a@b/p") KSync [] = inl EEmptyUser.
Proof. exact fixed_witnesses. Qed.

(* the two conditions of the format rule are independent (each witness
   triggers exactly one of them); an empty digit run counts (path ":x") *)
Theorem c38_format_rule_conditions_independent :
  port_like_prefix (B "22:foo") = true /\ is_docker_url (B "host:22:foo") = false
  /\ port_like_prefix (B "//x/y") = false /\ is_docker_url (B "docker://x/y") = true
  /\ port_like_prefix (B ":x") = true.
Proof. exact format_rule_conditions_independent. Qed.

(* Non-vacuity: the hypotheses on Normalize are satisfiable, and with the
   repairs in place URLs of every protocol and kind do parse (a port with
   leading zeros, a user, a Windows path behind "/~", captured environment, a
   normalized socket path, an SSH forwarding URL). *)
Example c38_normalize_hypotheses_satisfiable :
  (forall s n, demo_normalize s = Some n -> is_abs n = true)
  /\ (forall s n, demo_normalize s = Some n -> demo_normalize n = Some n).
Proof. exact demo_normalize_ok. Qed.

Example c38_parses_nontrivial :
  (exists u, parse demo_normalize fixed_all (B "user@example.com:0022:~/proj") KSync [] = inr u
             /\ u_port u = 22 /\ format fixed_all u = B "user@example.com:22:~/proj")
  /\ (exists u, parse demo_normalize fixed_all (B "DOCKER://root@box/~C:\data") KSync
                      [(B "DOCKER_HOST", B "tcp://h:1")] = inr u
                /\ u_path u = B "C:\data" /\ format fixed_all u = B "docker://root@box/C:\data")
  /\ (exists u, parse demo_normalize fixed_all (B "unix:run/s.sock") KFwd [] = inr u
                /\ format fixed_all u = B "unix:/run/s.sock")
  /\ (exists u, parse demo_normalize fixed_all (B "h:tcp:localhost:80") KFwd [] = inr u
                /\ u_proto u = PSSH).
Proof. exact parse_examples. Qed.

Print Assumptions c38_valid.
Print Assumptions c38_roundtrip.
Print Assumptions c38_model_passes_check.
Print Assumptions c38_check_sound.
Print Assumptions c38_refuted_unfixed.
Print Assumptions c38_refuted_unfixed_protocol_change.
Print Assumptions c38_refuted_unfixed_docker_user.
Print Assumptions c38_refuted_port0_repair_only.
Print Assumptions c38_refuted_duser_repair_only.
Print Assumptions c38_fixed_witnesses.
Print Assumptions c38_format_rule_conditions_independent.
