(* C39 — Session identifiers are well formed and distinct.
   Property theorems only: each is closed by [exact <lemma>] from
   Proof/Identifier.v and followed by Print Assumptions.

   The base-x encoder of github.com/eknkc/basex is the section variable [enc];
   what is assumed of it is [enc_spec]: it returns, for k leading zero bytes
   (at most len-1 counted), k '0's followed by the base-62 digits of the
   big-endian value.  The harness compares encoding.EncodeBase62 with
   [basex_spec] on every run. *)
From Coq Require Import List Arith NArith.
Import ListNotations.
From Mv Require Import Model.Identifier Proof.Identifier.

Section C39.
Variable enc : list nat -> list nat.
Hypothesis enc_spec : forall bs, basex_spec bs = Some (enc bs).

(* For EVERY 32-byte random value and every 4-letter lower-case prefix, New
   returns (no error, no panic) an identifier of length 48 = prefix, '_', 43
   characters of the base-62 alphabet; it is accepted by the identifier
   matcher; its 43-digit numeral denotes the random value. *)
Theorem c39_shape :
  forall p r, prefix_ok p = true -> length r = 32 -> bytes_ok r = true ->
    exists id, new_id enc p r = IdOk id
      /\ length id = 48 /\ firstn 4 id = p /\ nth 4 id 0 = USCORE
      /\ forallb is_alnum (skipn 5 id) = true
      /\ matcher id = true
      /\ value62 (skipn 5 id) = bytes_to_N r.
Proof. exact (new_id_shape enc enc_spec). Qed.

(* ... it is valid, and its truncated display form is its first 13 characters. *)
Theorem c39_valid :
  forall p r, prefix_ok p = true -> length r = 32 -> bytes_ok r = true ->
    exists id, new_id enc p r = IdOk id /\ is_valid id = true
      /\ truncated id = firstn 13 id /\ length (truncated id) = 13.
Proof. exact (new_id_truncated enc enc_spec). Qed.

(* Distinct 32-byte values give distinct identifiers (whatever the prefixes):
   zero padding and the encoder's leading-zero rule both denote the same
   43-digit numeral. *)
Theorem c39_injective :
  forall p1 p2 r1 r2 id,
    prefix_ok p1 = true -> prefix_ok p2 = true ->
    length r1 = 32 -> length r2 = 32 -> bytes_ok r1 = true -> bytes_ok r2 = true ->
    new_id enc p1 r1 = IdOk id -> new_id enc p2 r2 = IdOk id -> r1 = r2.
Proof. exact (new_id_injective enc enc_spec). Qed.

(* A prefix of the wrong length or with a character outside a-z is refused. *)
Theorem c39_bad_prefix :
  forall p r, prefix_ok p = false -> new_id enc p r = IdErr.
Proof. exact (new_id_bad_prefix enc). Qed.

End C39.

(* 43 base-62 digits are enough for 256 bits (why New never panics). *)
Theorem c39_capacity : (2 ^ 256 < 62 ^ 43)%N.
Proof. exact capacity. Qed.

(* The hypothesis on the encoder is satisfiable: the specification itself. *)
Theorem c39_enc_spec_satisfiable : forall bs, basex_spec bs = Some (spec_enc bs).
Proof. exact spec_enc_total. Qed.

(* Truncated of ANY string is a prefix of it, and non-empty for valid ones. *)
Theorem c39_truncated_prefix : forall s, starts_with (truncated s) s = true.
Proof. exact truncated_prefix. Qed.

Theorem c39_truncated_valid : forall s, is_valid s = true -> truncated s <> [].
Proof. exact truncated_valid. Qed.

(* Every name that matches either identifier form (UUID shape or
   prefix_43 characters), or is the reserved word, is rejected. *)
Theorem c39_names :
  forall n, legacy_matcher n = true \/ matcher n = true \/ n = defaults ->
    ensure_name_valid n <> NOk.
Proof. exact names_rejected. Qed.

(* The checker is sound for the property and the model's own outputs pass. *)
Theorem c39_check_sound : forall c, check_c39 c = true -> c39_prop c.
Proof. exact check_c39_sound_all. Qed.

Theorem c39_model_passes :
  forall c, in_domain_c39 c = true -> model_agrees_c39 c = true -> check_c39 c = true.
Proof. exact model_passes_c39. Qed.

(* Non-vacuity: 31 leading zero bytes; the encoder's rule on 0 0 1 0; a UUID. *)
Example c39_examples :
  new_id spec_enc [115; 121; 110; 99] (repeat 0 31 ++ [5])
    = IdOk ([115; 121; 110; 99; 95] ++ repeat 48 42 ++ [53])
  /\ prefix_ok [115; 121; 110; 99] = true /\ bytes_ok (repeat 0 31 ++ [5]) = true
  /\ basex_spec [0; 0; 1; 0] = Some [48; 48; 52; 56]
  /\ legacy_matcher [97;98;99;100;101;102;49;50;45;49;50;51;52;45;49;50;51;52;45;49;50;51;52;45;
                     49;50;51;52;53;54;55;56;57;48;97;98] = true.
Proof. exact identifier_examples. Qed.

Print Assumptions c39_shape.
Print Assumptions c39_valid.
Print Assumptions c39_injective.
Print Assumptions c39_bad_prefix.
Print Assumptions c39_capacity.
Print Assumptions c39_enc_spec_satisfiable.
Print Assumptions c39_truncated_prefix.
Print Assumptions c39_truncated_valid.
Print Assumptions c39_names.
Print Assumptions c39_check_sound.
Print Assumptions c39_model_passes.
