(* C40 — Session selection and listing are exact.
   Property theorems only: each is closed by [exact <lemma>] from
   Proof/Selection.v and followed by Print Assumptions. *)
From Coq Require Import List Bool Arith String NArith Permutation Sorted.
Import ListNotations.
From Mv Require Import Model.Entry Model.Selection Proof.Selection.
Open Scope string_scope.

(* fastpath.Less, transcribed on raw strings with its loop, equals on every
   pair of root-relative paths ("" or non-empty '/'-free components joined by
   '/') the depth-first order of the component lists; the loop's fuel is never
   exhausted there. *)
Theorem c40_less_is_dfs_order :
  forall a b, valid_raw a = true -> valid_raw b = true ->
    less a b = Some (path_ltb (split_path a) (split_path b)).
Proof. exact less_valid. Qed.

(* the same, starting from component lists *)
Theorem c40_less_join :
  forall p q, path_ok p = true -> path_ok q = true -> less (join p) (join q) = Some (path_ltb p q).
Proof. exact less_join. Qed.

(* It is a strict total order: irreflexive, total, transitive, asymmetric ... *)
Theorem c40_less_total :
  forall a b c, valid_raw a = true -> valid_raw b = true -> valid_raw c = true ->
    lessb a a = false
    /\ (a = b \/ lessb a b = true \/ lessb b a = true)
    /\ (lessb a b = true -> lessb b c = true -> lessb a c = true)
    /\ (lessb a b = true -> lessb b a = false).
Proof. exact lessb_order. Qed.

(* ... in which a directory comes before everything below it and siblings
   are ordered bytewise (whatever lies below them). *)
Theorem c40_parent_first : forall p x q, path_ltb p (p ++ x :: q)%list = true.
Proof. exact pl_parent_first. Qed.

Theorem c40_siblings_bytewise :
  forall p x y q r, String.ltb x y = true -> path_ltb (p ++ x :: q)%list (p ++ y :: r)%list = true.
Proof. exact pl_siblings. Qed.

(* Sorting and truncation (the block of Manager.List), for EVERY list of
   conflicts / problems with root-relative paths: the output is the first
   min(10, n) elements of the sorted list, the reported excess is
   n - min(10, n), and the sorted list is a sorted permutation of the input. *)
Theorem c40_sorted_truncated :
  forall l : list item, Forall ivalid l ->
    let n := List.length l in
    let '(out, ex) := sort_truncate l in
    out = firstn (Nat.min MAXLIST n) (sort_items l) /\ ex = n - Nat.min MAXLIST n
    /\ Permutation (sort_items l) l /\ StronglySorted ile (sort_items l).
Proof. exact sort_truncate_spec. Qed.

(* nothing that was cut off belongs before anything that was kept *)
Theorem c40_truncated_are_last :
  forall (l : list item) k, StronglySorted ile l ->
    forall o e, In o (firstn k l) -> In e (skipn k l) -> ile o e.
Proof. exact sorted_firstn_skipn. Qed.

(* Selection by identifier or name: either every specification matches a
   session and the result is exactly the sessions matching at least one
   specification (no duplicates), or the error names the first specification
   that matches nothing. *)
Theorem c40_spec_exact :
  forall ss specs,
    match select_by_spec ss specs with
    | SelOk r =>
      (forall sp, In sp specs -> exists s, In s ss /\ spec_match s sp = true)
      /\ (forall s, In s r <-> In s ss /\ exists sp, In sp specs /\ spec_match s sp = true)
      /\ (NoDup ss -> NoDup r)
    | SelErr (Some sp) =>
      exists pre post, specs = (pre ++ sp :: post)%list
        /\ (forall s, In s ss -> spec_match s sp = false)
        /\ (forall x, In x pre -> exists s, In s ss /\ spec_match s x = true)
    | SelErr None => False
    end.
Proof. exact select_by_spec_exact. Qed.

(* Selection by label selector: exactly the sessions whose labels satisfy every
   requirement, with the meaning of each requirement spelled out. *)
Theorem c40_label_exact :
  forall ss rs,
    exists r, select_by_label ss (Some rs) = SelOk r
      /\ (forall s, In s r <-> In s ss /\ forall q, In q rs -> req_holds (slabels s) q)
      /\ (NoDup ss -> NoDup r).
Proof. exact select_by_label_exact. Qed.

Theorem c40_requirement_meaning : forall ls r, req_sat ls r = true <-> req_holds ls r.
Proof. exact req_sat_spec. Qed.

(* Listing: what List returns for a query is the selection, ordered by
   creation time (oldest first). *)
Theorem c40_listing :
  forall ss q,
    match run_query ss q with
    | QOk ids => exists r, ids = map sid r /\ StronglySorted cle r
                   /\ match q with
                      | QAll => Permutation r ss
                      | QSpecs specs =>
                        (forall sp, In sp specs -> exists s, In s ss /\ spec_match s sp = true)
                        /\ (forall s, In s r <-> In s ss /\ exists sp, In sp specs /\ spec_match s sp = true)
                        /\ (NoDup ss -> NoDup r)
                      | QLabel None => False
                      | QLabel (Some rs) =>
                        (forall s, In s r <-> In s ss /\ forall x, In x rs -> req_holds (slabels s) x)
                        /\ (NoDup ss -> NoDup r)
                      end
    | QErr (Some sp) =>
      exists specs pre post, q = QSpecs specs /\ specs = (pre ++ sp :: post)%list
        /\ (forall s, In s ss -> spec_match s sp = false)
        /\ (forall x, In x pre -> exists s, In s ss /\ spec_match s x = true)
    | QErr None => q = QLabel None
    end.
Proof. exact run_query_spec. Qed.

(* The checker applied to the implementation's outputs is sound; the model's
   Less passes it on every input. *)
Theorem c40_check_sound : forall c, check_c40 c = true -> c40_prop c.
Proof. exact check_c40_sound_all. Qed.

Theorem c40_model_less_passes :
  forall a b r, model_agrees_c40 (CLess a b r) = true -> check_c40 (CLess a b r) = true.
Proof. exact model_less_passes. Qed.

(* Non-vacuity: '/' sorts as a separator, not as a byte; a list of 12 is cut
   to its first 10 with 2 excluded; selection by name, by identifier, an
   unmatched specification, a label selector. *)
Example c40_examples :
  less "a/b" "a.b" = Some true /\ String.ltb "a/b" "a.b" = false
  /\ valid_raw "a/b" = true /\ valid_raw "a//b" = false
  /\ sort_truncate [("b", 0); ("a/x", 1); ("", 2); ("a", 3); ("a.b", 4); ("c", 5); ("a/x/y", 6);
                    ("d", 7); ("e", 8); ("f", 9); ("g", 10); ("h", 11)]
     = ([("", 2); ("a", 3); ("a/x", 1); ("a/x/y", 6); ("a.b", 4); ("b", 0); ("c", 5); ("d", 7);
         ("e", 8); ("f", 9)], 2)
  /\ run_query [ {| sid := "s1"; sname := "web"; slabels := [("env", "prod")]; sctime := 5 |};
                 {| sid := "s2"; sname := "web"; slabels := []; sctime := 3 |};
                 {| sid := "s3"; sname := "db"; slabels := [("env", "dev")]; sctime := 4 |} ]
               (QSpecs ["web"; "s3"]) = QOk ["s2"; "s3"; "s1"]
  /\ run_query [ {| sid := "s1"; sname := "web"; slabels := [("env", "prod")]; sctime := 5 |} ]
               (QSpecs ["s1"; "nope"; "zip"]) = QErr (Some "nope")
  /\ run_query [ {| sid := "s1"; sname := "web"; slabels := [("env", "prod")]; sctime := 5 |};
                 {| sid := "s2"; sname := "web"; slabels := []; sctime := 3 |} ]
               (QLabel (Some [RNotIn "env" ["dev"]])) = QOk ["s2"; "s1"].
Proof. exact selection_examples. Qed.

Print Assumptions c40_less_is_dfs_order.
Print Assumptions c40_less_join.
Print Assumptions c40_less_total.
Print Assumptions c40_parent_first.
Print Assumptions c40_siblings_bytewise.
Print Assumptions c40_sorted_truncated.
Print Assumptions c40_truncated_are_last.
Print Assumptions c40_spec_exact.
Print Assumptions c40_label_exact.
Print Assumptions c40_requirement_meaning.
Print Assumptions c40_listing.
Print Assumptions c40_check_sound.
Print Assumptions c40_model_less_passes.
