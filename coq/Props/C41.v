(* C41 — Staging requests only what is missing and enforces limits.
   Property theorems only: each is closed by [exact <lemma>] from
   Proof/LocalEndpoint.v (or Proof/Staging.v) and followed by Print Assumptions.

   The model (Model/LocalEndpoint.v) carries a boolean [fixed]:
     stage H false = Stage AS THE CODE IS: the limit test
         (maximumEntryCount - lastScanEntryCount) < len(paths)
       is evaluated in uint64 and wraps when the last scan counted more
       entries than the maximum (a Scan that failed for that very reason, or
       a background scan, leaves such a count behind);
     stage H true  = Stage with the proposed repair.
   The limit part of the property is proved of [true] for every history and
   refuted of [false] (c41_limit_refuted_unfixed); everything else is proved
   for both. The hash function H is arbitrary (no assumption). *)
From Coq Require Import List Bool Arith NArith String.
Import ListNotations.
From Mv Require Model.Entry.
From Mv Require Import Model.Staging Proof.Staging Model.LocalEndpoint Proof.LocalEndpoint.
Local Open Scope string_scope.
Local Open Scope list_scope.

Section C41.
Variable H : bytes -> digest.
Variable fixed : bool.

(* Stage returns an order-preserving subsequence of the request, in every
   state (hence after every history) *)
Theorem c41_subsequence :
  forall e ps ds ks e' needed,
    stage H fixed e ps ds ks = (e', StOk needed) -> subseq needed ps.
Proof. exact (stage_subsequence H fixed). Qed.

(* ... and the controller's filteredPathsAreSubset accepts it *)
Theorem c41_subset_accepted :
  forall e ps ds ks e' needed,
    stage H fixed e ps ds ks = (e', StOk needed) -> is_subseq needed ps = true.
Proof. exact (stage_subset_accepted H fixed). Qed.

(* Exact account of what is left out: [loop_ok] relates the store before, the
   request, the mask (false = omitted) and the store after. An omitted
   (path, digest) was in the store at its turn ([lo_have]) or a file of the
   root whose content has that digest NOW was copied into the store under
   (digest, path) and found there ([lo_copied]); nothing else is omitted. *)
Theorem c41_omitted_available :
  forall e ps ds ks e' needed,
    stage H fixed e ps ds ks = (e', StOk needed) -> ps <> [] ->
    exists m, needed = select m ps
              /\ loop_ok H (mxsize e) (dfiles (dsk e)) (sto e) (combine ps ds) m (sto e').
Proof. exact (stage_omitted_available H fixed). Qed.

(* ... and after the call the store provides, for every omitted item, content
   with exactly the requested digest *)
Theorem c41_omitted_provided :
  forall mx root s req m s',
    loop_ok H mx root s req m s' -> store_ok H s ->
    forall i p d, nth_error req i = Some (p, d) -> nth_error m i = Some false ->
      exists c, provide s' p d = Some c /\ H c = d.
Proof. exact (loop_ok_omitted_provided H). Qed.

(* the store invariant holds after every history of a fresh endpoint *)
Theorem c41_store_ok :
  forall readonly mx mxs d ops,
    store_ok H (sto (run_state H fixed (new_ep readonly mx mxs d) ops)).
Proof. exact (run_store_ok_fresh H fixed). Qed.

(* Guards: two Stage calls (with non-empty, well-formed requests) without a
   Scan call in between: the second is refused; likewise Transition; and
   before the first Scan nothing is accepted. *)
Theorem c41_guards_stage :
  forall e ps1 ds1 ks1 mid ps2 ds2 ks2,
    no_scan mid = true ->
    ps1 <> [] -> List.length ps1 = List.length ds1 ->
    ps2 <> [] -> List.length ps2 = List.length ds2 ->
    let e1 := run_state H fixed e (OStage ps1 ds1 ks1 :: mid) in
    snd (stage H fixed e1 ps2 ds2 ks2) = StErr ENoScan
    \/ snd (stage H fixed e1 ps2 ds2 ks2) = StErr EReadOnly.
Proof. exact (guards_stage H fixed). Qed.

Theorem c41_guards_transition :
  forall e chs1 env1 mid chs2 env2,
    no_scan mid = true ->
    let e1 := run_state H fixed e (OTransition chs1 env1 :: mid) in
    snd (transition e1 chs2 env2) = TrErr TNoScan \/ snd (transition e1 chs2 env2) = TrErr TReadOnly.
Proof. exact (guards_transition H fixed). Qed.

Theorem c41_guards_initial :
  forall readonly mx mxs d ops,
    no_scan ops = true ->
    let e := run_state H fixed (new_ep readonly mx mxs d) ops in
    (forall ps ds ks, ps <> [] -> List.length ps = List.length ds ->
       snd (stage H fixed e ps ds ks) = StErr ENoScan \/ snd (stage H fixed e ps ds ks) = StErr EReadOnly)
    /\ (forall chs env,
       snd (transition e chs env) = TrErr TNoScan \/ snd (transition e chs env) = TrErr TReadOnly).
Proof. exact (guards_initial H fixed). Qed.

(* Limit, Scan: a successful Scan never reports more than the maximum *)
Theorem c41_limit_scan :
  forall e ok e' n,
    scan H e ok = (e', ScOk n) ->
    n = dcount (dsk e) /\ (n <= maxc e)%N /\ lastc e' = n /\ since_stage e' = true
    /\ since_trans e' = true /\ maxc e' = maxc e /\ dsk e' = dsk e /\ sto e' = sto e
    /\ ro e' = ro e /\ mxsize e' = mxsize e /\ cache e' = cache_of H (dsk e).
Proof. exact (scan_ok_inv H). Qed.

(* Limit, Transition: when the resulting count would exceed the maximum,
   nothing is applied: root and store unchanged, every result is the old entry *)
Theorem c41_limit_transition :
  forall e chs env r,
    ro e = false -> since_trans e = true -> (maxc e <> 0)%N ->
    resulting (lastc e) chs = Some r -> (maxc e < r)%N ->
    exists e', transition e chs env = (e', TrLimit (map Entry.cold chs))
               /\ dsk e' = dsk e /\ sto e' = sto e.
Proof. exact transition_over_limit. Qed.

(* ... and core.Transition is reached only within the limit *)
Theorem c41_limit_transition_done :
  forall e chs env e' rs np ms,
    transition e chs env = (e', TrDone rs np ms) ->
    ro e = false /\ since_trans e = true
    /\ ((maxc e = 0)%N \/ exists r, resulting (lastc e) chs = Some r /\ (r <= maxc e)%N)
    /\ dsk e' = tpost env /\ sto e' = [] /\ since_trans e' = false.
Proof. exact transition_done_inv. Qed.

(* any refused Transition leaves root and store alone *)
Theorem c41_refused_transition_applies_nothing :
  forall e chs env e' r,
    transition e chs env = (e', r) -> (forall rs np ms, r <> TrDone rs np ms) ->
    dsk e' = dsk e /\ sto e' = sto e.
Proof. exact transition_not_applied. Qed.

(* Limit, Stage. FULL STATEMENT: [limit_statement H fixed] — in every history
   of an endpoint with a maximum, an accepted non-empty request satisfies
   lastScanEntryCount + |request| <= maximumEntryCount. *)
Theorem c41_limit_stage : limit_statement H true.
Proof. exact (limit_fixed H). Qed.

(* The code as it is satisfies it only outside the class [above_max]. *)
Theorem c41_limit_stage_unfixed_partial :
  forall e ps ds ks e' needed,
    (maxc e <> 0)%N -> (maxc e < two64)%N -> above_max e = false ->
    stage H false e ps ds ks = (e', StOk needed) -> ps <> [] ->
    (lastc e + N.of_nat (List.length ps) <= maxc e)%N.
Proof. exact (limit_unfixed_partial H). Qed.

(* soundness of the checker applied to what the implementation returned *)
Theorem c41_check_sound :
  forall ops e obs, check_C41 H fixed e ops obs = true -> prop_C41 H fixed e ops obs.
Proof. exact (check_C41_sound H fixed). Qed.

(* the repaired model passes it on every well-formed history *)
Theorem c41_model_passes :
  forall ops e, ep_wf H e -> ops_wf H true e ops ->
    check_C41 H true e ops (run_results H true e ops) = true.
Proof. exact (model_passes H). Qed.

End C41.

(* ---------- the defect, on the model of the code as it is ----------
   (witness in Proof/LocalEndpoint.v: maximum 3; the root has 2 entries; Scan
   succeeds; three files appear; the next Scan fails with "exceeded allowed
   entry count" (count 5) but leaves scannedSinceLastStageCall set; Stage of
   two files is then ACCEPTED, and the checker rejects that history) *)
Theorem c41_refuted_unfixed :
  run_results Hid false c41_witness_ep c41_witness
  = [RScan (ScOk 2); REdit; RScan (ScExceeded 5); RStage (StOk ["x"; "y"])]
  /\ check_C41 Hid false c41_witness_ep c41_witness
       (run_results Hid false c41_witness_ep c41_witness) = false.
Proof. exact refuted_unfixed_witness. Qed.

Theorem c41_limit_refuted_unfixed : ~ limit_statement Hid false.
Proof. exact limit_refuted. Qed.

(* with the repair the same history is refused *)
Example c41_witness_fixed :
  run_results Hid true c41_witness_ep c41_witness
  = [RScan (ScOk 2); REdit; RScan (ScExceeded 5); RStage (StErr ELimit)].
Proof. exact witness_fixed. Qed.

(* the hypotheses are satisfiable on a non-trivial history: a copy of "a"
   requested at "k" is staged from the root and omitted, the rest is needed,
   a second Stage without Scan is refused, a Transition over the limit
   applies nothing *)
Example c41_nontrivial :
  run_results Hid true (new_ep false 4 (two64 - 1) c41_witness_disk0)
    [OScan true; OStage ["k"; "n"] ["c1"; "c7"] [0; 0]; OStage ["z"] ["c1"] [];
     OTransition [Entry.Build_change ["d"] None
                    (Some (Entry.EDir [("f0", Entry.EFile false "c7"); ("f1", Entry.EFile false "c7")]))]
                 {| tpost := c41_witness_disk0; tresults := []; tnproblems := 0; tmiss := false |}]
  = [RScan (ScOk 2); RStage (StOk ["n"]); RStage (StErr ENoScan); RTransition (TrLimit [None])].
Proof. exact nontrivial_example. Qed.

Print Assumptions c41_subsequence.
Print Assumptions c41_subset_accepted.
Print Assumptions c41_omitted_available.
Print Assumptions c41_omitted_provided.
Print Assumptions c41_store_ok.
Print Assumptions c41_guards_stage.
Print Assumptions c41_guards_transition.
Print Assumptions c41_guards_initial.
Print Assumptions c41_limit_scan.
Print Assumptions c41_limit_transition.
Print Assumptions c41_limit_transition_done.
Print Assumptions c41_refused_transition_applies_nothing.
Print Assumptions c41_limit_stage.
Print Assumptions c41_limit_stage_unfixed_partial.
Print Assumptions c41_check_sound.
Print Assumptions c41_model_passes.
Print Assumptions c41_refuted_unfixed.
Print Assumptions c41_limit_refuted_unfixed.
Print Assumptions c41_witness_fixed.
Print Assumptions c41_nontrivial.
