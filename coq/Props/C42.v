(* C42 — Poll-based watching never serves a stale snapshot and always notices
   changes. Property theorems only: each is closed by [exact <lemma>] from
   Proof/Watch.v / Proof/WatchObs.v and followed by Print Assumptions.

   Model/Watch.v is a transition system over atomic actions of the polling
   goroutine, the controller (Scan / Transition) and the outside world
   (external edits, ticks); [reachable fixed d s] = some schedule leads from
   an initial state (acceleration allowed by the scan mode or not, root
   content d) to s. The theorems hold for EVERY
   schedule. The model carries a boolean [fixed]:
     fixed = false : watchPoll / Transition AS THE CODE IS;
     fixed = true  : with the proposed repair (Transition sets
                     pollNotifyForced when it changed the disk; the next
                     successful poll scan consumes it and strobes).
   "Not stale" is proved of both. "Noticed" is proved of [true] and refuted
   of [false] (c42_noticed_refuted_unfixed): after Transition's own strobe has
   been consumed by the controller's rescan, an external edit that exactly
   undoes the transition is invisible to the polling loop, whose baseline is
   still the pre-transition snapshot.

   PARTIAL with respect to time: "within a polling interval" is rendered as
   "by the compare of the next poll scan" (discrete ticks); real time is only
   sampled by the harness (check_C42, window = interval + slack). *)
From Coq Require Import List Bool Arith NArith.
Import ListNotations.
From Mv Require Import Model.Watch Proof.Watch Model.WatchObs Proof.WatchObs.

(* NOT STALE. Every time Scan returns the cached snapshot the log records
   [EvScanCached c b lt]: the content, the step at which the scan that took it
   BEGAN, and the step at which the last Transition that changed the disk
   ended (0 = none). In every reachable state, every such record has lt < b. *)
Theorem c42_not_stale :
  forall fixed d s c b lt,
    reachable fixed d s -> In (EvScanCached c b lt) (log s) -> lt < b.
Proof. exact not_stale_log. Qed.

(* the same at the step itself: with accelerate set, a non-full Scan returns
   the cached snapshot and that snapshot's scan began after the last changing
   Transition ended *)
Theorem c42_not_stale_step :
  forall fixed d s full s',
    reachable fixed d s -> step fixed s (AScan full) = Some s' ->
    accel s = true -> full = false ->
    exists i, snap s = Some i /\ last_tend s < sbegan i
              /\ log s' = EvScanCached (scontent i) (sbegan i) (last_tend s) :: log s.
Proof. exact not_stale_step. Qed.

(* a Transition that changed the disk leaves accelerate off and strobes *)
Theorem c42_transition_end :
  forall fixed s s',
    step fixed s ATEnd = Some s' -> cc s = TRunning true ->
    accel s' = false /\ exists e, hd_error (log s') = Some (EvStrobe SrcTransition e).
Proof. exact tend_clears. Qed.

(* NOTICED. FULL STATEMENT [noticed_statement fixed]: in every reachable state
   in which the polling loop is about to compare the snapshot of a scan that
   closed a window (since the previous successful poll scan read the root)
   containing exactly one content-changing external edit, with a baseline
   established: this compare strobes, or a strobe already happened after that
   edit (a failed poll scan, or a Transition that ended after the edit), or a
   Transition that changed the disk is still running (and will strobe when it
   ends: c42_transition_end). *)
Theorem c42_noticed : noticed_statement true.
Proof. exact noticed_fixed. Qed.

(* the code as it is: the same, outside the class "a changing Transition ended
   in the window before the edit" (wtbe) *)
Theorem c42_noticed_unfixed_partial :
  forall d s c ign fz w,
    reachable false d s -> pc s = PCompare c ign fz w ->
    wbased w = true -> ign = false -> wedits w = 1 -> wtbe w = false ->
    compare_strobes s = true \/ wsa w = true \/ cc s = TRunning true.
Proof. exact noticed_unfixed_partial. Qed.

Theorem c42_noticed_refuted_unfixed : ~ noticed_statement false.
Proof. exact noticed_refuted_unfixed. Qed.

(* REVERSAL: the poll scan sees exactly the content of its previous snapshot
   because the one external edit of the window undid what a Transition had
   done; with the repair this is noticed all the same (the forced flag, a
   strobe after the edit, or the Transition still running) *)
Theorem c42_reversal :
  forall d s c ign fz w,
    reachable true d s -> pc s = PCompare c ign fz w ->
    wbased w = true -> ign = false -> wedits w = 1 -> c = pprev s ->
    fz = true \/ wsa w = true \/ cc s = TRunning true.
Proof. exact reversal_fixed. Qed.

(* ... and as the code is, it is not: the witness schedule (root content 5;
   baseline poll scan; Transition to 7, strobe; controller rescan sees 7; the
   user restores 5; next poll scan sees 5 again) ends about to compare without
   strobing, no strobe after the edit, nothing running *)
Theorem c42_reversal_refuted_unfixed :
  exists s c ign fz w,
    run false (init true 5) reversal_schedule = Some s /\ pc s = PCompare c ign fz w
    /\ wbased w = true /\ ign = false /\ wedits w = 1
    /\ compare_strobes s = false /\ wsa w = false /\ cc s = CIdle
    /\ hd_error (log s) = Some (EvScanFull 7 8).
Proof. exact reversal_unnoticed_unfixed. Qed.

(* the same schedule with the repair: the compare strobes *)
Example c42_reversal_witness_fixed :
  exists s, run true (init true 5) (reversal_schedule ++ [APollCompare]) = Some s
            /\ hd_error (log s) = Some (EvStrobe SrcPoll 16).
Proof. exact reversal_noticed_fixed. Qed.

(* soundness of the checker applied to what is observed of the real endpoint *)
Theorem c42_check_sound :
  forall W warm tend c0 evs,
    check_C42 W warm tend c0 evs = true -> prop_C42 W warm tend c0 evs.
Proof. exact check_C42_sound. Qed.

Print Assumptions c42_not_stale.
Print Assumptions c42_not_stale_step.
Print Assumptions c42_transition_end.
Print Assumptions c42_noticed.
Print Assumptions c42_noticed_unfixed_partial.
Print Assumptions c42_noticed_refuted_unfixed.
Print Assumptions c42_reversal.
Print Assumptions c42_reversal_refuted_unfixed.
Print Assumptions c42_reversal_witness_fixed.
Print Assumptions c42_check_sound.
