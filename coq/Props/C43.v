(* C43 — Housekeeping removes only stale artifacts.
   Property theorems only: each is closed by [exact <lemma>] from
   Proof/Housekeep.v and followed by Print Assumptions.
   Ages are nanoseconds (time.Duration); 30 days = 2592000000000000 ns,
   7 days = 604800000000000 ns. *)
From Coq Require Import List String Bool ZArith.
Import ListNotations.
From Mv Require Import Model.Housekeep Proof.Housekeep.
Local Open Scope string_scope.
Local Open Scope list_scope.
Local Open Scope Z_scope.

(* the thresholds of the model are 30 days / 7 days / 7 days (the harness
   requires the constants of the real code to equal the model's) *)
Theorem c43_thresholds :
  maximum_agent_idle_period = 30 * (24 * 60 * 60 * 1000000000)
  /\ maximum_cache_age = 7 * (24 * 60 * 60 * 1000000000)
  /\ maximum_staging_root_age = 7 * (24 * 60 * 60 * 1000000000).
Proof. exact thresholds_days. Qed.

(* removed = exactly the direct children of the three directories whose age
   (access time of the agent binary; modification time otherwise) exceeds
   30 d / 7 d / 7 d and which the removal primitive can remove *)
Theorem c43_exact :
  forall O (s : state O) n, sidecar s = false ->
    (In ("agents", n) (removals s) <->
       exists c, listed (agents s) c /\ name c = n /\ removable c = true
                 /\ exists a, age c = Some a /\ a > 2592000000000000)
    /\ (In ("caches", n) (removals s) <->
       exists c, listed (caches s) c /\ name c = n /\ removable c = true
                 /\ exists a, age c = Some a /\ a > 604800000000000)
    /\ (In ("staging", n) (removals s) <->
       exists c, listed (staging s) c /\ name c = n /\ removable c = true
                 /\ exists a, age c = Some a /\ a > 604800000000000).
Proof. intros O. exact housekeep_exact. Qed.

(* it never removes anything at most as old as the threshold (and, in a sidecar
   container, no agent at all) *)
Theorem c43_keeps_recent :
  forall O (s : state O) c,
    (listed (agents s) c -> (forall a, age c = Some a -> a <= 2592000000000000) -> listed (agents (housekeep s)) c)
    /\ (listed (caches s) c -> (forall a, age c = Some a -> a <= 604800000000000) -> listed (caches (housekeep s)) c)
    /\ (listed (staging s) c -> (forall a, age c = Some a -> a <= 604800000000000) -> listed (staging (housekeep s)) c)
    /\ (sidecar s = true -> listed (agents s) c -> listed (agents (housekeep s)) c).
Proof. intros O. exact housekeep_keeps_recent. Qed.

(* the state afterwards: exactly the children that were not removed *)
Theorem c43_after :
  forall O (s : state O) c,
    (listed (agents (housekeep s)) c <-> listed (agents s) c /\ goes (agents_test s) c = false)
    /\ (listed (caches (housekeep s)) c <-> listed (caches s) c /\ goes cache_too_old c = false)
    /\ (listed (staging (housekeep s)) c <-> listed (staging s) c /\ goes staging_root_too_old c = false).
Proof. intros O. exact housekeep_after. Qed.

(* every removed path is a direct child of one of the three directories, the
   rest of the world is untouched, nothing appears *)
Theorem c43_confined :
  forall O (s : state O),
    outside (housekeep s) = outside s
    /\ (forall d n, In (d, n) (removals s) ->
          (d = "agents" /\ exists c, listed (agents s) c /\ name c = n)
          \/ (d = "caches" /\ exists c, listed (caches s) c /\ name c = n)
          \/ (d = "staging" /\ exists c, listed (staging s) c /\ name c = n))
    /\ (forall c, listed (agents (housekeep s)) c -> listed (agents s) c)
    /\ (forall c, listed (caches (housekeep s)) c -> listed (caches s) c)
    /\ (forall c, listed (staging (housekeep s)) c -> listed (staging s) c).
Proof. intros O. exact housekeep_confined. Qed.

(* the age tests are monotone, so clock readings taken before and after the
   call bracket the decision the code made *)
Theorem c43_tests_monotone :
  forall a b, a <= b ->
    (agent_idle_too_long a = true -> agent_idle_too_long b = true)
    /\ (cache_too_old a = true -> cache_too_old b = true)
    /\ (staging_root_too_old a = true -> staging_root_too_old b = true).
Proof. exact tests_monotone. Qed.

(* soundness of the checker applied to the real Housekeep(), and the model's own
   behaviour passes it (and the correspondence test) on every state with
   distinct names *)
Theorem c43_check_sound : forall o, check_C43 o = true -> prop_C43 o.
Proof. exact check_sound. Qed.

Theorem c43_model_passes :
  forall O (s : state O) p, sidecar s = false ->
    NoDup (names_of (agents s)) -> NoDup (names_of (caches s)) -> NoDup (names_of (staging s)) ->
    check_C43 (model_observation p s) = true /\ corr_C43 (model_observation p s) = true.
Proof. exact model_passes. Qed.

(* a non-trivial state: one second (or one nanosecond) either side of each
   threshold, exactly at the threshold, an entry without an agent binary, a
   non-empty directory among the caches, a timestamp in the future *)
Example c43_nontrivial :
  removals example_state = [("agents", "v0.18.0"); ("caches", "sync_a"); ("staging", "sync_a_alpha")]
  /\ names_of (agents (housekeep example_state)) = ["v0.18.1"; "v0.17.0"; "empty"]
  /\ names_of (caches (housekeep example_state)) = ["sync_b"; "dir"]
  /\ names_of (staging (housekeep example_state)) = ["sync_b_beta"].
Proof. exact example_run. Qed.

Print Assumptions c43_thresholds.
Print Assumptions c43_exact.
Print Assumptions c43_keeps_recent.
Print Assumptions c43_after.
Print Assumptions c43_confined.
Print Assumptions c43_tests_monotone.
Print Assumptions c43_check_sound.
Print Assumptions c43_model_passes.
Print Assumptions c43_nontrivial.
