(* C44 — Log output is one neutralized line per record.
   Property theorems only: each is closed by [exact <lemma>] from
   Proof/Logging.v and followed by Print Assumptions.

   A record is the argument of one Write on the log sink.  [ts] is the opaque
   rendered timestamp of "now"; the hypotheses on it ([clean ts]: no LF, CR,
   ESC) and on the logger's scope ([scope_ok]: word characters and dots, which
   is what Sublogger's validation guarantees, see c44_sublogger) are explicit
   premises. *)
From Coq Require Import List Arith ZArith.
Import ListNotations.
From Mv Require Import Model.Stream Model.Logging Proof.Logging.

(* Logger.write, for EVERY message (any bytes: embedded LF, CR, ESC, forged
   prefixes): the record ends with LF and contains exactly that one LF. *)
Theorem c44_one_line :
  forall (ts : list nat) (lg : logger) (level : nat) (msg : list nat) (r : record),
    clean ts -> scope_ok (scope lg) = true ->
    log_write ts lg level msg = Some r -> one_line r.
Proof. exact log_write_one_line. Qed.

(* ... contains no CR and no ESC byte ... *)
Theorem c44_no_controls :
  forall (ts : list nat) (lg : logger) (level : nat) (msg : list nat) (r : record),
    clean ts -> scope_ok (scope lg) = true ->
    log_write ts lg level msg = Some r -> no_controls r.
Proof. exact log_write_no_controls. Qed.

(* ... and begins "<timestamp> [<L>] " followed by "[<scope>] " for a scoped
   logger. *)
Theorem c44_prefix :
  forall (ts : list nat) (lg : logger) (level : nat) (msg : list nat) (r : record),
    clean ts -> scope_ok (scope lg) = true ->
    log_write ts lg level msg = Some r ->
    exists rest, r = ts ++ [32; 91] ++ [abbrev level] ++ [93; 32] ++ scope_part (scope lg) ++ rest.
Proof. exact log_write_prefix. Qed.

(* A log call (Error/Warn/.../Tracef with one string) never reaches the panic
   branch of write, writes at most one record, none above the logger's level,
   and the record is a single neutralized prefixed line. *)
Theorem c44_log_call :
  forall (ts : list nat) (lg : logger) (level : nat) (s : list nat),
    clean ts -> scope_ok (scope lg) = true ->
    exists rs, log_msg ts (Some lg) level s = Recs rs /\ length rs <= 1
      /\ Forall (good_record ts (scope lg)) rs /\ (lvl lg < level -> rs = []).
Proof. exact log_msg_total. Qed.

(* The relay writer (Logger.Writer), for EVERY byte stream cut into ANY
   sequence of writes: the line splitter terminates and has the C47 property
   [lp_prop] (callbacks = exactly the lines each write completes; a partial
   line yields nothing until completed); every write's records are those of
   the lines it completed, at most one per line (none if filtered by level,
   c44_relay_filtered); every record is one LF-terminated line without CR/ESC
   carrying a timestamp-and-level prefix (and the scope). *)
Theorem c44_relay :
  forall (ts : list nat) (lg : logger) (level : nat) (ws : list (list nat)),
    clean ts -> scope_ok (scope lg) = true ->
    exists lo rs, lp_run 0 ws = LOut lo /\ lp_prop 0 ws lo
      /\ relay_run ts (Some lg) level ws = ROut rs
      /\ Forall2 (fun (l : lres) (r : rres) =>
           fst r = fst l /\ relay_lines ts lg level (snd l) = Recs (snd r)
           /\ length (snd r) <= length (snd l)
           /\ Forall (good_record ts (scope lg)) (snd r)) lo rs.
Proof. exact relay_run_spec. Qed.

Theorem c44_relay_line :
  forall (ts : list nat) (lg : logger) (level : nat) (line : list nat),
    clean ts -> scope_ok (scope lg) = true -> ~ In LF line ->
    exists rs, relay_cb ts lg level line = Recs rs /\ length rs <= 1
      /\ Forall (good_record ts (scope lg)) rs.
Proof. exact relay_cb_spec. Qed.

Theorem c44_relay_filtered :
  forall (ts : list nat) (lg : logger) (level : nat) (line m0 : list nat) (c ll : nat),
    match_prefix line = Some (m0, c) -> abbrev_to_level c = Some ll -> lvl lg < ll ->
    relay_cb ts lg level line = Recs [].
Proof. exact relay_cb_filtered. Qed.

(* Loggers reachable from NewLogger through Sublogger have scopes made of word
   characters and dots; a rejected name yields the nil logger and at most one
   (well-formed) warning record. *)
Theorem c44_sublogger :
  forall (ts : list nat) (names : list (list nat)) (lv : nat) (sc : list nat),
    clean ts -> scope_ok sc = true ->
    exists b, subloggers ts (Some {| lvl := lv; scope := sc |}) names
              = (match scope_of sc names with
                 | Some s => Some {| lvl := lv; scope := s |}
                 | None => None
                 end, Recs b)
      /\ length b <= 1 /\ Forall (good_record ts (warn_scope sc names)) b
      /\ (forall s, scope_of sc names = Some s -> scope_ok s = true).
Proof. exact subloggers_spec. Qed.

(* The checker applied to the implementation's records is sound, and the
   model's own output has the property. *)
Theorem c44_check_sound : forall (ts : list nat) (c : lcase), check_c44 ts c = true -> c44_holds ts c.
Proof. exact check_c44_sound_all. Qed.

Theorem c44_model_holds :
  forall (ts : list nat) (lv : nat) (names : list (list nat)) (a : action), clean ts ->
    c44_holds ts {| c_lvl := lv; c_names := names; c_act := a; c_obs := run_case ts lv names a |}.
Proof. exact model_holds_all. Qed.

(* Non-vacuity: the hypotheses hold for a concrete timestamp and scope, and
   CR / ESC in a message are truncated / neutralized as computed. *)
Example c44_examples :
  let ts := [48] in
  log_msg ts (Some {| lvl := 3; scope := [120] |}) 3 [97; 13; 98; 10; 99]
    = Recs [[48; 32; 91; 73; 93; 32; 91; 120; 93; 32; 97; 46; 46; 46; 10]]
  /\ log_msg ts (Some {| lvl := 3; scope := [] |}) 1 [27; 91; 51; 49; 109]
    = Recs [[48; 32; 91; 69; 93; 32; 94; 91; 91; 51; 49; 109; 10]]
  /\ clean ts /\ scope_ok [120; 46; 121] = true.
Proof. exact logging_examples. Qed.

Print Assumptions c44_one_line.
Print Assumptions c44_no_controls.
Print Assumptions c44_prefix.
Print Assumptions c44_log_call.
Print Assumptions c44_relay.
Print Assumptions c44_relay_line.
Print Assumptions c44_relay_filtered.
Print Assumptions c44_sublogger.
Print Assumptions c44_check_sound.
Print Assumptions c44_model_holds.
