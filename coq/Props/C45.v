(* C45 — The LRU cache matches its model.
   Property theorems only: each is closed by [exact <lemma>] from Proof/Lru.v
   and followed by Print Assumptions. *)
From Coq Require Import List Arith Sorting.Sorted.
Import ListNotations.
From Mv Require Import Model.Lru Proof.Lru.

Section C45.
Variables K V : Type.
Variable eqK : K -> K -> bool.
Hypothesis eqK_spec : forall x y, eqK x y = true <-> x = y.

Notation run_state := (run_state eqK).
Notation grun_state := (grun_state eqK).
Notation step := (step eqK).
Notation lookup := (lookup eqK).

(* every reachable state: keys are unique *)
Theorem c45_keys_unique :
  forall n (ops : list (op K V)),
    NoDup (map fst (order (run_state (new_cache K V n) ops))).
Proof. exact (lru_keys_unique eqK eqK_spec). Qed.

(* every reachable state: a bounded cache never holds more than its capacity *)
Theorem c45_capacity :
  forall n (ops : list (op K V)), n <> 0 ->
    length (order (run_state (new_cache K V n) ops)) <= n.
Proof. exact (lru_capacity eqK eqK_spec). Qed.

(* the ghost-stamped model erases to the plain model, for every history *)
Theorem c45_ghost_erases :
  forall n (ops : list (op K V)),
    erase (grun_state (new_gcache K V n) ops) = run_state (new_cache K V n) ops.
Proof. exact (lru_ghost_erases eqK). Qed.

(* every reachable state: the order is strictly by recency of last use
   (front = most recent), stamps being the index of the last Add / hit Get *)
Theorem c45_recency_sorted :
  forall n (ops : list (op K V)),
    StronglySorted (fun a b => snd a > snd b)
                   (gorder (grun_state (new_gcache K V n) ops)).
Proof. exact (lru_recency_sorted eqK eqK_spec). Qed.

(* the entry evicted for capacity is the least recently used one *)
Theorem c45_evicts_lru :
  forall n (ops : list (op K V)) k v e,
    let c := grun_state (new_gcache K V n) ops in
    In e (snd (gstep eqK c (OAdd k v))) ->
    In e (gorder c) /\ forall e', In e' (gorder c) -> snd e <= snd e'.
Proof. exact (lru_evicts_lru eqK eqK_spec). Qed.

(* the callback is invoked exactly once for every entry that leaves the cache,
   with the value it held, and for nothing else: per step, for every reachable
   state *)
Theorem c45_callback_exact :
  forall n (ops : list (op K V)) (o : op K V),
    let c := run_state (new_cache K V n) ops in
    let c' := fst (step c o) in
    let ev := evicted_of (snd (step c o)) in
    NoDup (map fst ev)
    /\ (forall k v, In (k, v) ev <-> (lookup (order c) k = Some v /\ lookup (order c') k = None)).
Proof. exact (lru_callback_exact eqK eqK_spec). Qed.

(* lookups behave like a finite map updated by the history *)
Theorem c45_add_front :
  forall n (ops : list (op K V)) k v,
    let c := run_state (new_cache K V n) ops in
    hd_error (order (fst (step c (OAdd k v)))) = Some (k, v).
Proof. exact (lru_add_front eqK eqK_spec). Qed.

Theorem c45_get :
  forall n (ops : list (op K V)) k,
    let c := run_state (new_cache K V n) ops in
    snd (step c (OGet V k)) = RGet K (lookup (order c) k)
    /\ (forall v, lookup (order c) k = Some v ->
          hd_error (order (fst (step c (OGet V k)))) = Some (k, v))
    /\ (lookup (order c) k = None -> fst (step c (OGet V k)) = c).
Proof. exact (lru_get_spec eqK eqK_spec). Qed.

(* frame: an operation on key k changes the binding of another key k' only by
   evicting it (and then the callback reports it, see c45_callback_exact) *)
Theorem c45_frame :
  forall n (ops : list (op K V)) (o : op K V) k',
    let c := run_state (new_cache K V n) ops in
    let c' := fst (step c o) in
    (match o with OAdd k _ | OGet _ k | ORemove _ k => k <> k' | OLen _ _ => True end) ->
    lookup (order c') k' = lookup (order c) k' \/ lookup (order c') k' = None.
Proof. exact (lru_frame eqK eqK_spec). Qed.

End C45.

Example c45_nontrivial :
  run Nat.eqb (new_cache nat nat 2) [OAdd 1 10; OAdd 2 20; OGet _ 1; OAdd 3 30; OGet _ 2; OLen _ _]
  = [RAdd []; RAdd []; RGet _ (Some 10); RAdd [(2, 20)]; RGet _ None; RLen _ _ 2].
Proof. exact lru_example. Qed.

Print Assumptions c45_keys_unique.
Print Assumptions c45_capacity.
Print Assumptions c45_ghost_erases.
Print Assumptions c45_recency_sorted.
Print Assumptions c45_evicts_lru.
Print Assumptions c45_callback_exact.
Print Assumptions c45_add_front.
Print Assumptions c45_get.
Print Assumptions c45_frame.
Print Assumptions c45_nontrivial.
