(* C46 — Agent bundle lookup honours search order and extracts exactly.
   Property theorems only: each is closed by [exact <lemma>] from
   Proof/Bundle.v and followed by Print Assumptions.

   The model (Model/Bundle.v) carries a boolean [fixed]:
     run false = ExecutableForPlatform AS THE CODE IS (the search loop has no
                 [break], so a later search path overrides an earlier one and a
                 later unopenable path turns a hit into an error);
     run true  = the same function with the proposed one-line repair.
   The property is proved of [run true] and refuted of [run false]
   (c46_refuted_unfixed); the harness decides on every run which of the two
   the implementation is, and applies check_C46 to what it really returned. *)
From Coq Require Import List String Bool.
Import ListNotations.
From Mv Require Import Model.Bundle Proof.Bundle.
Local Open Scope string_scope.
Local Open Scope list_scope.

(* The bundle used is the one in the first directory of [exe_dir; libexec] that
   holds one: whenever [f] is held by the first location holding a bundle file
   (nothing being present at the bundle path in earlier locations), the result
   is exactly the extraction from [f]. *)
Theorem c46_first_wins :
  forall i f, first_holder (search_dirs i) f ->
              run true i = extract f (goos i) (goarch i).
Proof. exact bundle_first_wins. Qed.

(* ... and conversely the search settles on [f] only in that situation *)
Theorem c46_first_wins_iff :
  forall dirs f, locate true dirs = LFound f <-> first_holder dirs f.
Proof. exact locate_fixed_found. Qed.

(* the executable's directory takes precedence over libexec, whatever libexec
   holds (another bundle, a directory, something unopenable) *)
Theorem c46_exe_precedence :
  forall i f, exe_slot i = SFile f -> run true i = extract f (goos i) (goarch i).
Proof. exact bundle_exe_precedence. Qed.

Theorem c46_libexec_second :
  forall i f, exe_slot i = SAbsent -> in_bin i = true -> lib_slot i = SFile f ->
              run true i = extract f (goos i) (goarch i).
Proof. exact bundle_libexec_second. Qed.

(* libexec is consulted only in a bin/ + libexec/ layout (true of both loops) *)
Theorem c46_libexec_only_in_bin :
  forall fixed i, in_bin i = false -> exe_slot i = SAbsent -> run fixed i = OErr ENotFound.
Proof. exact bundle_libexec_only_in_bin. Qed.

(* byte-for-byte: a successful result is the content of the first entry named
   goos_goarch of the archive held by the first location holding a bundle *)
Theorem c46_bytes :
  forall i b x, run true i = OOk b x ->
    exists a, first_holder (search_dirs i) (FArchive a)
              /\ find_entry (platform_name (goos i) (goarch i)) a = Some b
              /\ x = negb (String.eqb (goos i) "windows").
Proof. exact bundle_bytes. Qed.

Theorem c46_find_entry_first :
  forall n a b, find_entry n a = Some b <->
    exists a1 a2, a = a1 ++ (n, b) :: a2 /\ ~ In n (map fst a1).
Proof. exact find_entry_spec. Qed.

(* an explicit output path that already holds a file (longer, shorter, anything)
   ends up holding exactly the entry: the result does not depend on what was
   there *)
Theorem c46_output_replaced :
  forall fixed i p, run fixed (with_pre i p) = run fixed i.
Proof. exact output_replaced. Qed.

Theorem c46_bytes_over_existing :
  forall i old b x, run true (with_pre i (Some old)) = OOk b x ->
    exists a, first_holder (search_dirs i) (FArchive a)
              /\ find_entry (platform_name (goos i) (goarch i)) a = Some b.
Proof. exact bundle_bytes_over_existing. Qed.

(* unknown platforms are rejected *)
Theorem c46_unknown :
  forall i a, first_holder (search_dirs i) (FArchive a) ->
    ~ In (platform_name (goos i) (goarch i)) (map fst a) ->
    run true i = OErr EUnsupported.
Proof. exact bundle_unknown. Qed.

(* with or without the repair, bytes never come from anywhere but an entry
   named for the platform in a bundle that is present *)
Theorem c46_bytes_any :
  forall fixed i b x, run fixed i = OOk b x ->
    exists a, In (SFile (FArchive a)) (search_dirs i)
              /\ In (platform_name (goos i) (goarch i), b) a.
Proof. exact bundle_bytes_any. Qed.

(* soundness of the checker applied to the implementation's outcomes, and the
   repaired model passes it on every input *)
Theorem c46_check_sound :
  forall i o, check_C46 i o = true -> prop_C46 i o.
Proof. exact check_sound. Qed.

Theorem c46_model_passes :
  forall i, check_C46 i (run true i) = true.
Proof. exact model_passes. Qed.

(* the loop as the code is refutes the property: bundles in both places, the
   later (libexec) one is used *)
Theorem c46_refuted_unfixed :
  exists i, check_C46 i (run false i) = false.
Proof. exact refuted_unfixed_check. Qed.

Theorem c46_refuted_unfixed_statement :
  exists i f, first_holder (search_dirs i) f /\ run false i <> extract f (goos i) (goarch i).
Proof. exact refuted_unfixed_statement. Qed.

(* the hypotheses are satisfiable on a non-trivial state: both locations hold a
   bundle with an entry for the platform, with distinct contents *)
Example c46_nontrivial :
  run true witness_both = OOk "EXE" true /\ run false witness_both = OOk "LIB" true
  /\ first_holder (search_dirs witness_both) (FArchive [("linux_amd64", "EXE")]).
Proof. exact example_fixed. Qed.

Print Assumptions c46_first_wins.
Print Assumptions c46_first_wins_iff.
Print Assumptions c46_exe_precedence.
Print Assumptions c46_libexec_second.
Print Assumptions c46_libexec_only_in_bin.
Print Assumptions c46_bytes.
Print Assumptions c46_find_entry_first.
Print Assumptions c46_output_replaced.
Print Assumptions c46_bytes_over_existing.
Print Assumptions c46_unknown.
Print Assumptions c46_bytes_any.
Print Assumptions c46_check_sound.
Print Assumptions c46_model_passes.
Print Assumptions c46_refuted_unfixed.
Print Assumptions c46_refuted_unfixed_statement.
Print Assumptions c46_nontrivial.
