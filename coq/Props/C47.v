(* C47 — Stream helper writers honour their contracts.
   Property theorems only: each is closed by [exact <lemma>] from
   Proof/Stream.v and followed by Print Assumptions.

   Every theorem quantifies over ALL write sequences and ALL downstream
   behaviours: a downstream is a script of answers (k, e), the i-th Write(p)
   is answered (min k (len p), e), i.e. any (n <= len p, err). *)
From Coq Require Import List Arith ZArith.
Import ListNotations.
From Mv Require Import Model.Stream Proof.Stream.

(* Cutoff writer.  For every cutoff N, every downstream and every sequence of
   writes: at most N bytes reach the downstream; if the downstream honours the
   Write contract (a short write carries an error) it receives EXACTLY the
   first N of the bytes reported as written; once N bytes went through every
   later write is reported fully written with no error and nothing more
   reaches the downstream; a successful write reports all its bytes. *)
Theorem c47_cutoff :
  forall (N : nat) (s : script) (ws : list (list nat)),
    cutoff_prop N ws (cutoff_run N s ws).
Proof. exact cutoff_correct. Qed.

(* ... and with a downstream that never fails: exactly the first N bytes of
   the stream are forwarded and every write reports all its bytes. *)
Theorem c47_cutoff_reliable :
  forall (ws : list (list nat)) (N : nat),
    let out := cutoff_run N [] ws in
    sink_of (all_calls out) = firstn N (concat ws)
    /\ Forall2 (fun d (r : wres) => fst (fst r) = length d /\ snd (fst r) = ENil) ws out.
Proof. exact cutoff_reliable. Qed.

(* Line splitter.  For every MaximumBufferSize and every sequence of writes
   the transcribed loop terminates (no out-of-fuel) and: a write that would
   make the buffered rest exceed the cap is refused with
   ErrMaximumBufferSizeExceeded, delivers nothing and buffers nothing; every
   other write is fully accepted and delivers exactly the lines it completes
   (a partial line yields nothing until its LF arrives); over the whole run
   the callbacks are the LF-separated lines of the accepted stream, each with
   one trailing CR removed, and the rest after the last LF has produced none. *)
Theorem c47_lines :
  forall (max : Z) (ws : list (list nat)),
    exists out, lp_run max ws = LOut out /\ lp_prop max ws out.
Proof. exact lp_correct. Qed.

(* [complete_lines]/[unfinished] is THE cut of a stream at LF: any
   decomposition into LF-free lines and an LF-free rest is that one. *)
Theorem c47_lines_cut_unique :
  forall (ls : list (list nat)) (rest : list nat),
    Forall no_lf ls -> no_lf rest ->
    complete_lines (join_lines ls rest) = ls /\ unfinished (join_lines ls rest) = rest.
Proof. exact cut_unique. Qed.

(* Hashing writer: every write goes to the downstream unchanged and its result
   is returned verbatim; the hasher's input is exactly the bytes the
   downstream accepted = the concatenation of the acknowledged prefixes. *)
Theorem c47_hashed :
  forall (s : script) (ws : list (list nat)),
    hashed_prop ws (fst (hashed_run s ws)) (snd (hashed_run s ws)).
Proof. exact hashed_correct. Qed.

(* Auditing writer: pass-through, and the auditor sees the count of every write. *)
Theorem c47_audit :
  forall (s : script) (ws : list (list nat)),
    audit_prop ws (fst (audit_run s ws)) (snd (audit_run s ws)).
Proof. exact audit_correct. Qed.

(* What pass-through means: the downstream sees exactly the writes, and the
   caller sees exactly the downstream's answers. *)
Theorem c47_passthrough_meaning :
  forall (ws : list (list nat)) (out : list wres), all_passthrough ws out = true ->
    map (fun c : call => fst (fst c)) (all_calls out) = ws
    /\ map (fun r : wres => (fst (fst r), snd (fst r))) out
       = map (fun c : call => (snd (fst c), snd c)) (all_calls out).
Proof. exact all_passthrough_calls. Qed.

(* Preemptable writer.  For every interval, every downstream, every sequence
   of writes and every cancellation point: without cancellation all writes
   pass through; the writes before the cancellation pass through; of the
   writes after it at most [interval] pass through (none if interval = 0) and
   all following ones return (0, ErrWritePreempted) without touching the
   downstream. *)
Theorem c47_preempt :
  forall (interval : nat) (s : script) (ops : list pop),
    pre_prop interval ops (pre_run interval 0 false s ops).
Proof. exact pre_correct. Qed.

(* Valve writer.  Open and never shut: pass-through.  Created on a nil writer:
   every write reports success and nothing reaches a downstream.  Shut after
   the writes of [before]: those pass through, every later write reports
   (len, nil) and makes no downstream call. *)
Theorem c47_valve :
  forall (open : bool) (s : script) (ops : list vop),
    valve_prop open ops (valve_run open s ops).
Proof. exact valve_correct. Qed.

(* Valve writer under concurrency (schedules).  Write = Lock; nil test;
   underlying Write; Unlock.  Shut = Lock; writer = nil; Unlock.  For ANY number
   of writer and shutter goroutines and EVERY interleaving of their steps:
   whenever a Shut returns, every underlying Write that began has ended, and
   afterwards no underlying Write begins or ends -- nothing reaches the
   downstream once Shut has returned.  (Underlying Writes also never overlap:
   valve_concurrent_serial.) *)
Theorem c47_valve_concurrent :
  forall (open : bool) (nw ns : nat) (sched : list nat),
    trace_safe (cevs (crun (cinit open nw ns) sched)).
Proof. exact valve_concurrent. Qed.

Theorem c47_valve_concurrent_serial :
  forall (open : bool) (nw ns : nat) (sched : list nat),
    trace_serial (cevs (crun (cinit open nw ns) sched)) = true.
Proof. exact valve_concurrent_serial. Qed.

(* the checker used on observed event sequences decides that contract *)
Theorem c47_trace_check_sound : forall tr, trace_ok tr = true -> trace_safe tr.
Proof. exact trace_ok_safe. Qed.

(* Multi closer: every closer is closed exactly once, in the order given, and
   the first error (if any) is the one returned. *)
Theorem c47_multi_closer :
  forall cl : list err, mc_prop cl (fst (mc_close cl)) (snd (mc_close cl)).
Proof. exact mc_correct. Qed.

(* Multi flusher: flushes in order and stops at the first failure, which it returns. *)
Theorem c47_multi_flusher :
  forall fl : list err, mf_prop fl (fst (mf_flush fl)) (snd (mf_flush fl)).
Proof. exact mf_correct. Qed.

(* The checker applied to the implementation's outputs is sound for the
   property, and the model's own output always passes it. *)
Theorem c47_check_sound : forall c : wcase, check_c47 c = true -> c47_prop c.
Proof. exact c47_check_sound_all. Qed.

Theorem c47_model_passes : forall c : wcase, model_agrees c = true -> check_c47 c = true.
Proof. exact c47_model_passes_all. Qed.

(* Non-vacuity: concrete runs with a failing downstream, CR LF lines, the
   size cap, a cancellation, failing closers. *)
Example c47_examples :
  cutoff_run 3 [(5, ENil); (1, ED 7)] [[1; 2]; [3; 4; 5]; [6]]
    = [(2, ENil, [([1; 2], 2, ENil)]); (1, ED 7, [([3], 1, ED 7)]); (1, ENil, [])]
  /\ check_c47 (CCutoff 3 [[1; 2]; [3; 4; 5]; [6]] [(5, ENil); (1, ED 7)]
        (cutoff_run 3 [(5, ENil); (1, ED 7)] [[1; 2]; [3; 4; 5]; [6]])) = true
  /\ lp_run 0 [[97; 13; 10; 98]; [99; 10]]
     = LOut [(4, ENil, [[97]]); (2, ENil, [[98; 99]])]
  /\ lp_run 3 [[97; 98]; [99; 100]; [10]]
     = LOut [(2, ENil, []); (0, EMax, []); (1, ENil, [[97; 98]])]
  /\ pre_run 2 0 false [] [PW [1]; PCancel; PW [2]; PW [3]; PW [4]]
     = [(1, ENil, [([1], 1, ENil)]); (1, ENil, [([2], 1, ENil)]); (0, EPre, []); (0, EPre, [])]
  /\ mc_close [ENil; ED 1; ED 2] = ([0; 1; 2], ED 1)
  /\ mf_flush [ENil; ED 1; ED 2] = ([0; 1], ED 1).
Proof. exact stream_examples. Qed.

(* Non-vacuity for the concurrent valve: a writer enters the underlying Write,
   a shutter tries (and waits), the write finishes, the shutter shuts, a second
   writer is discarded; and an event sequence in which Shut returns while an
   underlying Write is in flight is rejected by the checker. *)
Example c47_valve_concurrent_example :
  cevs (crun (cinit true 2 1) [0; 0; 0; 2; 2; 0; 0; 2; 2; 2; 1; 1; 1])
    = [EvFwdBegin 0; EvFwdEnd 0; EvShutRet 2]
  /\ trace_ok [EvFwdBegin 0; EvShutRet 2; EvFwdEnd 0] = false
  /\ trace_ok [EvFwdBegin 0; EvFwdEnd 0; EvShutRet 2; EvFwdBegin 1] = false.
Proof. exact valve_concurrent_examples. Qed.

Print Assumptions c47_cutoff.
Print Assumptions c47_cutoff_reliable.
Print Assumptions c47_lines.
Print Assumptions c47_lines_cut_unique.
Print Assumptions c47_hashed.
Print Assumptions c47_audit.
Print Assumptions c47_passthrough_meaning.
Print Assumptions c47_preempt.
Print Assumptions c47_valve.
Print Assumptions c47_valve_concurrent.
Print Assumptions c47_valve_concurrent_serial.
Print Assumptions c47_trace_check_sound.
Print Assumptions c47_multi_closer.
Print Assumptions c47_multi_flusher.
Print Assumptions c47_check_sound.
Print Assumptions c47_model_passes.
