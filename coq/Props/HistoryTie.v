(* History tie (addendum to C01, C04, C05, C18): what the history checkers of
   Model/CheckHistory.v, applied by Harness/HistoryH.v to recorded histories
   of real sessions (goharness/cmd/history), establish about a history that
   passes. Property theorems only: each is closed by [exact <lemma>] from
   Proof/History.v and followed by Print Assumptions.

   A history is the list of recorded synchronization cycles of one session
   (across pauses, resumes and manager restarts). [track m None cs] pairs every
   cycle with the state the archive should hold before it, computed by the
   model of one iteration of controller.synchronize from the observed
   snapshots and the observed transition results only (the update recipe of
   Model/Outcomes.v), starting from the empty archive that Create writes. *)
From Coq Require Import List Bool Arith String.
Import ListNotations.
From Mv Require Import Model.Entry Model.Reconcile Model.Outcomes Model.C04Cycle Model.Exec
  Model.Safety Model.CheckHistory Proof.EntryFacts Proof.History.
Local Open Scope list_scope.

(* C05 on histories: after every cycle the archive on disk is the state the
   update recipe gives for the observed snapshots and results. *)
Theorem hist_tie_c05_disk : forall h, check_hist_c05 h = true ->
  forall anc c, In (anc, c) (track (h_mode h) None (h_cycles h)) ->
    k_disk c = expected_anc (h_mode h) anc c.
Proof. exact hist_c05_sound. Qed.

(* A cycle that ended before the Transition calls leaves the archive alone. *)
Theorem hist_tie_c05_early : forall h, check_hist_c05 h = true ->
  forall anc c, In (anc, c) (track (h_mode h) None (h_cycles h)) ->
    reached c = false -> k_disk c = anc.
Proof. exact hist_c05_early. Qed.

(* A cycle that reached them, with inputs in C05's domain and reports in the
   outcome set: the archive on disk is Apply(ancestor, ancestor changes ++
   results), it is synchronizable, and at every transitioned path it holds
   exactly what the endpoint reported - whether or not the cycle was
   cancelled, failed or only partly applied afterwards. *)
Theorem hist_tie_c05_faithful : forall h, check_hist_c05 h = true ->
  forall anc c, In (anc, c) (track (h_mode h) None (h_cycles h)) ->
    reached c = true ->
    inputs_ok anc (fst (exec_prop anc c)) (snd (exec_prop anc c)) = true ->
    side_ok (alpha_ch (plan_of (h_mode h) anc c)) (olist (k_ra c)) = true ->
    side_ok (beta_ch (plan_of (h_mode h) anc c)) (olist (k_rb c)) = true ->
    update anc (plan_of (h_mode h) anc c) (olist (k_ra c)) (olist (k_rb c)) = FOk (k_disk c)
    /\ wf true (k_disk c) = true
    /\ forall r, In r (olist (k_ra c) ++ olist (k_rb c)) -> at_path (k_disk c) (cpath r) = cnew r.
Proof. exact hist_c05_faithful. Qed.

(* C01 on histories (two-way-safe): a file version (path, digest) that a root
   held right before a cycle is still there after the cycle, or is on the
   other root, or is the content the last-synchronized state held at that
   path (so it was unchanged since the last successful synchronization). The
   last-synchronized state is tracked across loop and manager restarts. *)
Theorem hist_tie_c01 : forall h, h_mode h = TwoWaySafe -> check_hist_c01 h = true ->
  forall anc c, In (anc, c) (track (h_mode h) None (h_cycles h)) ->
    (forall p x d, at_path (k_wa0 c) p = Some (EFile x d) ->
       holds_file (k_wa c) p d \/ holds_file (k_wb c) p d \/ holds_file anc p d)
    /\ (forall p x d, at_path (k_wb0 c) p = Some (EFile x d) ->
       holds_file (k_wb c) p d \/ holds_file (k_wa c) p d \/ holds_file anc p d).
Proof. exact hist_c01_sound. Qed.

(* C04 on histories: when a cycle completed with every transition reported as
   applied exactly and nothing was edited before the next cycle (the walks
   agree), the next cycle calls neither Stage nor Transition and leaves the
   archive on disk unchanged. *)
Theorem hist_tie_c04 : forall h, check_hist_c04 h = true ->
  forall c1 c2, adjacent c1 c2 (h_cycles h) -> quiet c1 c2 = true ->
    k_stage c2 = false /\ k_ta c2 = None /\ k_tb c2 = None /\ k_disk c2 = k_disk c1.
Proof. exact hist_c04_sound. Qed.

Theorem hist_tie_c04_quiet : forall c1 c2, quiet c1 c2 = true ->
  complete c1 = true /\ k_wa0 c2 = k_wa c1 /\ k_wb0 c2 = k_wb c1.
Proof. exact quiet_spec. Qed.

(* C18 on histories (one wrapper reports no executability): with verdict 0,
   in every cycle no transition sent to the preserving endpoint changes the
   bit of a file that is on both sides, and no such bit changed on its disk. *)
Theorem hist_tie_c18 : forall h na, h_n h = Some na -> c18_hist_verdict h = 0 ->
  forall c, In c (h_cycles h) ->
    (forall ch, In ch (p_trans na c) -> change_keeps_bits (p_snap na c) (n_snap na c) ch = true)
    /\ walk_keeps_bits (p_walk0 na c) (p_walk na c) (n_snap na c) = true.
Proof. exact hist_c18_sound. Qed.

(* The known-finding verdict is only given when every failing cycle lies in
   the class known_C18 of Model/Exec.v. *)
Theorem hist_tie_c18_known_only : forall h na, h_n h = Some na -> c18_hist_verdict h = 6 ->
  forall c, In c (h_cycles h) -> c18_cycle na c = false ->
    known_C18 (c18_input (h_mode h) na c) = true.
Proof. exact hist_c18_known_only. Qed.

(* Non-vacuity: a recorded four-cycle history (creation, twin deletion,
   manager restart, re-creation, one quiescent step) passes every check; a
   recorded history with one non-preserving wrapper and Docker-style ignores
   has its only failing cycle in the known class. *)
Example hist_tie_nontrivial :
  wf_hist ex_hist = true /\ plain_hist ex_hist = true /\ corr_hist ex_hist = true
  /\ check_hist_c05 ex_hist = true /\ check_hist_c01 ex_hist = true /\ check_hist_c04 ex_hist = true
  /\ List.length (h_cycles ex_hist) = 4 /\ quiet_steps (h_cycles ex_hist) = 1
  /\ wf_hist ex_hist_n = true /\ check_hist_c04 ex_hist_n = true /\ c18_hist_verdict ex_hist_n = 6
  /\ map (c18_cycle_verdict (h_mode ex_hist_n) true) (h_cycles ex_hist_n) = [0; 0; 6; 0].
Proof. exact ex_hist_passes. Qed.

Print Assumptions hist_tie_c05_disk.
Print Assumptions hist_tie_c05_early.
Print Assumptions hist_tie_c05_faithful.
Print Assumptions hist_tie_c01.
Print Assumptions hist_tie_c04.
Print Assumptions hist_tie_c04_quiet.
Print Assumptions hist_tie_c18.
Print Assumptions hist_tie_c18_known_only.
Print Assumptions hist_tie_nontrivial.
