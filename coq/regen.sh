#!/bin/sh
# regenerate _CoqProject and Makefile from the .v files on disk
cd "$(dirname "$0")"
(cat _CoqProject.head; find . -name '*.v' -not -path './cases/*' -not -path './.work/*' | sed 's|^\./||' | sort) > _CoqProject.new
if ! cmp -s _CoqProject.new _CoqProject || [ ! -f Makefile ]; then
  mv _CoqProject.new _CoqProject
  coq_makefile -f _CoqProject -o Makefile >/dev/null
else
  rm -f _CoqProject.new
fi
