// Harness for C35: runs the real transport.Stream.Close against fake agent
// processes. The harness binary re-executes itself as the child (environment
// variable VERIF_C35_CHILD): the child reports when it sees its standard input
// close and when it receives SIGTERM (monotonic clock, appended to a report
// file), and exits by itself after a delay, a delay after stdin closes, a delay
// after SIGTERM, or never (it then only dies of SIGKILL). The stream is built
// the way the transports build it (transport.NewStream with a standard error
// receiver), and half of the agents first start a descendant that inherits
// their standard error, detaches into its own session and outlives them (like
// a backgrounded helper of an SSH or Docker transport); the harness kills it
// when the case is over. After Close returns
// the child must be gone: reaped by Wait and no such pid. A watchdog far beyond
// the sum of the waits turns a Close that does not return into an observation
// instead of a hang.
package main

import (
	"bufio"
	"encoding/json"
	"fmt"
	"os"
	"os/exec"
	"os/signal"
	"path/filepath"
	"strconv"
	"strings"
	"sync"
	"syscall"
	"time"

	"golang.org/x/sys/unix"

	"github.com/mutagen-io/mutagen/pkg/agent/transport"

	"verifharness/internal/hx"
)

// Case is the behaviour of one fake agent and the termination delay, in ms
// (-1 = never).
type Case struct {
	D     int `json:"d"`
	Self  int `json:"self"`
	Stdin int `json:"stdin"`
	Term  int `json:"term"`
	// Linger: the agent leaves a descendant behind that keeps standard error open.
	Linger bool `json:"linger,omitempty"`
}

// lockedBuffer receives the agent's standard error.
type lockedBuffer struct {
	mu sync.Mutex
	n  int
}

func (b *lockedBuffer) Write(p []byte) (int, error) {
	b.mu.Lock()
	b.n += len(p)
	b.mu.Unlock()
	return len(p), nil
}

func mono() int64 {
	var ts unix.Timespec
	if err := unix.ClockGettime(unix.CLOCK_MONOTONIC, &ts); err != nil {
		panic(err)
	}
	return ts.Nano()
}

// child is the fake agent.
func child(spec string) {
	var c Case
	var report string
	for _, kv := range strings.Split(spec, ",") {
		k, v, _ := strings.Cut(kv, "=")
		n, _ := strconv.Atoi(v)
		switch k {
		case "self":
			c.Self = n
		case "stdin":
			c.Stdin = n
		case "term":
			c.Term = n
		case "report":
			report = v
		case "linger":
			c.Linger = n == 1
		}
	}
	rf, err := os.OpenFile(report, os.O_WRONLY|os.O_APPEND|os.O_CREATE, 0o600)
	if err != nil {
		os.Exit(3)
	}
	if c.Linger {
		// a descendant that inherits only our standard error, lives in its own
		// session and outlives us
		d := exec.Command(os.Args[0])
		d.Env = append(os.Environ(), "VERIF_C35_CHILD=lingerer")
		d.Stderr = os.Stderr
		d.SysProcAttr = &syscall.SysProcAttr{Setsid: true}
		if err := d.Start(); err != nil {
			os.Exit(6)
		}
		fmt.Fprintf(rf, "L %d\n", d.Process.Pid)
	}
	sig := make(chan os.Signal, 4)
	signal.Notify(sig, syscall.SIGTERM)
	// scheduling-noise probe: how late do 5 ms sleeps wake up in this process
	go func() {
		worst := int64(0)
		for {
			t := mono()
			time.Sleep(5 * time.Millisecond)
			if late := (mono() - t - 5e6) / 1e6; late > worst+20 {
				worst = late
				fmt.Fprintf(rf, "J %d %d\n", mono(), late)
			}
		}
	}()
	eof := make(chan struct{})
	base := make(chan int64, 1)
	go func() {
		// the first line on standard input is the parent's clock reading just
		// before it calls Close; after that only the end of input matters
		rd := bufio.NewReader(os.Stdin)
		if l, err := rd.ReadString('\n'); err == nil {
			n, _ := strconv.ParseInt(strings.TrimSpace(l), 10, 64)
			base <- n
		}
		buf := make([]byte, 256)
		for {
			if _, err := rd.Read(buf); err != nil {
				close(eof)
				return
			}
		}
	}()
	os.Stdout.WriteString("ready\n")
	var self <-chan time.Time
	t0 := <-base
	if c.Self >= 0 {
		self = time.After(time.Duration(t0+int64(c.Self)*1e6-mono()) * time.Nanosecond)
	}
	// the agent exits at the earliest of the moments its causes give
	var exitAt <-chan time.Time
	var exitDeadline int64
	arm := func(ms int) {
		if ms < 0 {
			return
		}
		if dl := mono() + int64(ms)*1e6; exitAt == nil || dl < exitDeadline {
			exitDeadline = dl
			exitAt = time.After(time.Duration(ms) * time.Millisecond)
		}
	}
	for {
		select {
		case <-self:
			os.Exit(0)
		case <-exitAt:
			os.Exit(0)
		case <-eof:
			fmt.Fprintf(rf, "E %d\n", mono())
			eof = nil
			arm(c.Stdin)
		case <-sig:
			fmt.Fprintf(rf, "T %d\n", mono())
			arm(c.Term)
		}
	}
}

var (
	selfExe   string
	reportDir string
)

// A Close that has not returned 30 s after it should at the latest is
// recorded as "did not return" (a real hang never returns, so the limit only
// has to be far beyond any scheduling delay).
const watchdogMS = 2000 + 30000

type result struct {
	returned, dead, killed bool
	ret                    int64
	eof, term              int64 // -1 = not reported
	noise                  int64 // worst probe lateness (ms) in parent and child during the case
}

// parentNoise records when the harness' own 5 ms probe sleeps woke up late.
var parentNoise struct {
	sync.Mutex
	events [][2]int64 // (monotonic ns at wake-up, lateness ms)
}

func noiseProbe() {
	for {
		t := mono()
		time.Sleep(5 * time.Millisecond)
		now := mono()
		if late := (now - t - 5e6) / 1e6; late >= 20 {
			parentNoise.Lock()
			parentNoise.events = append(parentNoise.events, [2]int64{now, late})
			parentNoise.Unlock()
		}
	}
}

func parentNoiseBetween(a, b int64) int64 {
	parentNoise.Lock()
	defer parentNoise.Unlock()
	worst := int64(0)
	for _, e := range parentNoise.events {
		if e[0] >= a && e[0]-e[1]*1e6 <= b && e[1] > worst {
			worst = e[1]
		}
	}
	return worst
}

func runCase(c Case, idx int, barrier func()) result {
	report := filepath.Join(reportDir, fmt.Sprintf("r%d", idx))
	os.Remove(report)
	defer os.Remove(report)
	// whatever happens, the lingering descendant (if any) is killed at the end
	defer func() {
		if b, err := os.ReadFile(report); err == nil {
			for _, l := range strings.Split(string(b), "\n") {
				if f := strings.Fields(l); len(f) == 2 && f[0] == "L" {
					if pid, err := strconv.Atoi(f[1]); err == nil && pid > 1 {
						syscall.Kill(pid, syscall.SIGKILL)
					}
				}
			}
		}
	}()
	cmd := exec.Command(selfExe)
	linger := 0
	if c.Linger {
		linger = 1
	}
	cmd.Env = append(os.Environ(), fmt.Sprintf("VERIF_C35_CHILD=self=%d,stdin=%d,term=%d,linger=%d,report=%s", c.Self, c.Stdin, c.Term, linger, report))
	// as the transports do: with a receiver for the agent's standard error
	errorOutput := &lockedBuffer{}
	stream, err := transport.NewStream(cmd, errorOutput)
	if err != nil {
		panic(err)
	}
	if err := cmd.Start(); err != nil {
		panic(err)
	}
	pid := cmd.Process.Pid
	line, err := bufio.NewReader(stream).ReadString('\n')
	if err != nil || line != "ready\n" {
		cmd.Process.Kill()
		panic(fmt.Sprintf("fake agent did not start: %q %v", line, err))
	}
	stream.SetTerminationDelay(time.Duration(c.D) * time.Millisecond)
	// Wait until every child of the batch has been exec'd: a child that is still
	// between fork and exec holds copies of the other children's pipe ends, which
	// would delay the end-of-input the agents are waiting for.
	barrier()
	done := make(chan int64, 1)
	// all times are measured from this reading, taken just before Close is
	// called and handed to the child as the origin of its own delays
	t0 := mono()
	if _, err := fmt.Fprintf(stream, "%d\n", t0); err != nil {
		cmd.Process.Kill()
		panic(fmt.Sprintf("fake agent does not take input: %v", err))
	}
	go func() {
		stream.Close()
		done <- mono()
	}()
	var r result
	r.eof, r.term = -1, -1
	select {
	case t := <-done:
		r.returned = true
		r.ret = (t - t0) / 1e6
		// the child must be gone now: reaped (ProcessState recorded by Wait)
		// and no process with that pid
		ps := cmd.ProcessState
		r.dead = ps != nil && syscall.Kill(pid, 0) == syscall.ESRCH
		if ps != nil {
			if ws, ok := ps.Sys().(syscall.WaitStatus); ok && ws.Signaled() && ws.Signal() == syscall.SIGKILL {
				r.killed = true
			}
		}
	case <-time.After(time.Duration(c.D+watchdogMS) * time.Millisecond):
		r.ret = int64(c.D + watchdogMS)
		r.dead = syscall.Kill(pid, 0) == syscall.ESRCH
	}
	tEnd := mono()
	// clean up whatever is left (os.Process refuses once the child was reaped)
	cmd.Process.Kill()
	if !r.returned {
		select {
		case <-done:
		case <-time.After(2 * time.Second):
		}
	}
	if b, err := os.ReadFile(report); err == nil {
		for _, l := range strings.Split(string(b), "\n") {
			f := strings.Fields(l)
			if len(f) < 2 {
				continue
			}
			if f[0] == "L" {
				continue
			}
			ns, _ := strconv.ParseInt(f[1], 10, 64)
			if f[0] == "J" {
				// a stall of the child's probe that ended after Close was called
				if late, _ := strconv.ParseInt(f[len(f)-1], 10, 64); len(f) == 3 && ns >= t0 && late > r.noise {
					r.noise = late
				}
				continue
			}
			ms := (ns - t0) / 1e6
			if ms < 0 {
				ms = 0
			}
			if f[0] == "E" && r.eof < 0 {
				r.eof = ms
			}
			if f[0] == "T" && r.term < 0 {
				r.term = ms
			}
		}
	}
	time.Sleep(12 * time.Millisecond) // let the probe report a stall that covered the end
	if pn := parentNoiseBetween(t0, tEnd+10e6); pn > r.noise {
		r.noise = pn
	}
	return r
}

func optN(v int64) string {
	if v < 0 {
		return "No"
	}
	return fmt.Sprintf("(So %d)", v)
}

func b(x bool) string {
	if x {
		return "T"
	}
	return "N_"
}

func render(c Case, r result) (string, bool, []string) {
	coq := fmt.Sprintf("(%d, Pr %s %s %s %s, Ob %s %s %d %s %s %s %d)", c.D,
		optN(int64(c.Self)), optN(int64(c.Stdin)), optN(int64(c.Term)), b(c.Linger),
		b(r.returned), b(r.dead), r.ret, optN(r.eof), optN(r.term), b(r.killed), r.noise)
	stage := "self"
	switch {
	case r.killed:
		stage = "kill"
	case r.term >= 0:
		stage = "term"
	case r.eof >= 0:
		stage = "stdin"
	}
	tags := []string{"stage:" + stage}
	if c.Self < 0 && c.Stdin < 0 && c.Term < 0 {
		tags = append(tags, "agent:never")
	}
	if c.Self >= 0 {
		tags = append(tags, "agent:self")
	}
	if c.Stdin >= 0 {
		tags = append(tags, "agent:stdin")
	}
	if c.Term >= 0 {
		tags = append(tags, "agent:term")
	}
	if !r.returned {
		tags = append(tags, "no-return")
	}
	if c.Linger {
		tags = append(tags, "lingering-descendant-holds-stderr")
	}
	if r.noise > 250 {
		tags = append(tags, "noisy(stage-not-compared)")
	}
	return coq, stage != "self", tags
}

const header = "From Coq Require Import List NArith.\nImport ListNotations.\nFrom Mv Require Import Model.AgentClose Harness.AgentCloseH.\nOpen Scope N_scope."

func main() {
	if spec := os.Getenv("VERIF_C35_CHILD"); spec == "lingerer" {
		// the descendant: holds the inherited standard error and does nothing
		signal.Ignore(syscall.SIGTERM, syscall.SIGHUP)
		time.Sleep(90 * time.Second)
		return
	} else if spec != "" {
		child(spec)
		return
	}
	cfg := hx.Parse()
	var err error
	if selfExe, err = os.Executable(); err != nil {
		panic(err)
	}
	if reportDir, err = os.MkdirTemp("", "verif-c35-"); err != nil {
		panic(err)
	}
	defer os.RemoveAll(reportDir)
	w := hx.NewWriter(cfg, header, "acase", "agent_failures", 400)
	w.Rule = "a case = (termination delay, behaviour given to the fake agent process, observation of one real Stream.Close on it); distinct = distinct Coq terms; non-trivial = Close had to escalate (stdin close, SIGTERM or kill)"

	var cases []Case
	var origins []string
	if cfg.Replay != "" {
		bts, err := os.ReadFile(cfg.Replay)
		if err != nil {
			panic(err)
		}
		var wrapper struct {
			Case Case `json:"case"`
		}
		if err := json.Unmarshal(bts, &wrapper); err != nil {
			panic(err)
		}
		cases, origins = append(cases, wrapper.Case), append(origins, "replay")
	} else {
		for _, raw := range hx.LoadCorpus(cfg.Corpus) {
			var c Case
			if json.Unmarshal(raw, &c) == nil {
				cases, origins = append(cases, c), append(origins, "corpus")
			}
		}
		// Small scope: each kind of agent on its own at characteristic delays,
		// with and without a termination delay.
		for _, d := range []int{0, 150} {
			for _, c := range []Case{
				{Self: -1, Stdin: -1, Term: -1},
				{Self: 0, Stdin: -1, Term: -1}, {Self: d + 500, Stdin: -1, Term: -1},
				{Self: d + 1500, Stdin: -1, Term: -1}, {Self: d + 2600, Stdin: -1, Term: -1},
				{Self: -1, Stdin: 0, Term: -1}, {Self: -1, Stdin: 500, Term: -1},
				{Self: -1, Stdin: 1500, Term: -1}, {Self: -1, Stdin: 2600, Term: -1},
				{Self: -1, Stdin: -1, Term: 0}, {Self: -1, Stdin: -1, Term: 500},
				{Self: -1, Stdin: -1, Term: 1600},
				{Self: -1, Stdin: 1500, Term: 100},
			} {
				c.D = d
				for _, lg := range []bool{false, true} {
					c.Linger = lg
					cases, origins = append(cases, c), append(origins, "exhaustive")
				}
			}
		}
		w.Extra["exhaustive_scope"] = "13 characteristic agents (never; self/stdin/term at delays inside and beyond each wait; stdin too slow + term) x termination delay {0, 150 ms} x {no descendant, a descendant that keeps standard error open}"
		n := 160
		if cfg.Thorough() {
			n = 2500
		}
		r := cfg.Rand
		delay := func(max int) int {
			if r.Intn(3) == 0 {
				return -1
			}
			return r.Intn(max)
		}
		for i := 0; i < n; i++ {
			c := Case{D: []int{0, 0, 20, 100, 300, 600, 1500}[r.Intn(7)]}
			switch r.Intn(6) {
			case 0:
				c.Self, c.Stdin, c.Term = -1, -1, -1
			case 1:
				c.Self, c.Stdin, c.Term = r.Intn(c.D+2800), -1, -1
			case 2:
				c.Self, c.Stdin, c.Term = -1, []int{r.Intn(60), r.Intn(2500)}[r.Intn(2)], -1
			case 3:
				c.Self, c.Stdin, c.Term = -1, -1, []int{r.Intn(60), r.Intn(1600)}[r.Intn(2)]
			default:
				c.Self, c.Stdin, c.Term = delay(c.D+2800), delay(2500), delay(1600)
			}
			c.Linger = r.Intn(2) == 0
			cases, origins = append(cases, c), append(origins, "random")
		}
	}

	go noiseProbe()
	// The cases spend their time sleeping: run them concurrently.
	results := make([]result, len(cases))
	failed := make([]any, len(cases))
	const batch = 24
	for lo := 0; lo < len(cases); lo += batch {
		hi := min(lo+batch, len(cases))
		var spawned, wg sync.WaitGroup
		release := make(chan struct{})
		spawned.Add(hi - lo)
		for i := lo; i < hi; i++ {
			wg.Add(1)
			go func(i int) {
				defer wg.Done()
				var once sync.Once
				arrive := func() { once.Do(spawned.Done) }
				defer func() {
					failed[i] = recover()
					arrive()
				}()
				results[i] = runCase(cases[i], i, func() { arrive(); <-release })
			}(i)
		}
		spawned.Wait()
		close(release)
		wg.Wait()
	}
	for i, c := range cases {
		if failed[i] != nil {
			// a panic of the code under test (or of the harness around it) is
			// recorded as a failing input
			f := failed[i]
			w.Guard(c, time.Second, func() { panic(f) })
			continue
		}
		coq, nt, tags := render(c, results[i])
		w.Add(hx.Case{Coq: coq, Replay: c, Nontrivial: nt, Tags: tags, Origin: origins[i]})
	}
	w.Extra["traces_validated_against_impl"] = w.Total()
	w.Close()
	fmt.Println("cases", w.Total())
}
