// Harness for C05 (the saved ancestor stays valid and faithful under any
// transition outcome): replays the controller's recipe
// (pkg/synchronization/controller.go, synchronize) on the real code:
// core.Reconcile, then core.Apply(ancestor, ancestorChanges ++ one result
// change per transition) with each result drawn from the outcome set
// {new, old, nothing, a prefix-closed sub-tree of old or of new}, then
// EnsureValid(true). A side whose Transition call fails as a whole contributes
// no changes.
package main

import (
	"encoding/json"
	"fmt"
	"math/rand"
	"os"
	"sort"
	"time"

	"github.com/mutagen-io/mutagen/pkg/synchronization/core"

	"verifharness/internal/coretree"
	"verifharness/internal/hx"
)

// Case is the replay form of one case. Results are keyed by transition path
// (transition roots are pairwise distinct), because core.Reconcile returns
// transitions in map order.
type Case struct {
	Mode  int                    `json:"mode"`
	Anc   *coretree.J            `json:"anc"`
	Alpha *coretree.J            `json:"alpha"`
	Beta  *coretree.J            `json:"beta"`
	FailA bool                   `json:"failA"`
	FailB bool                   `json:"failB"`
	Res   map[string]*coretree.J `json:"res"`
	Kinds map[string]string      `json:"kinds,omitempty"`
}

var modeNames = map[int]string{1: "TwoWaySafe", 2: "TwoWayResolved", 3: "OneWaySafe", 4: "OneWayReplica"}

func runCase(c Case) (string, bool, []string) {
	anc, alpha, beta := coretree.FromJ(c.Anc), coretree.FromJ(c.Alpha), coretree.FromJ(c.Beta)
	if anc.EnsureValid(true) != nil || alpha.EnsureValid(false) != nil || beta.EnsureValid(false) != nil {
		panic("harness generated an invalid tree")
	}
	ancStr, alphaStr, betaStr := coretree.Entry(anc), coretree.Entry(alpha), coretree.Entry(beta)
	ancCh, alphaTr, betaTr, conflicts := core.Reconcile(anc, alpha, beta, core.SynchronizationMode(c.Mode))
	planStr := fmt.Sprintf("(mkplan %s %s %s %s)", coretree.Changes(ancCh), coretree.Changes(alphaTr),
		coretree.Changes(betaTr), coretree.Conflicts(conflicts))

	results := func(trs []*core.Change, fail bool) []*core.Change {
		if fail {
			return nil
		}
		var out []*core.Change
		for _, t := range trs {
			out = append(out, &core.Change{Path: t.Path, New: coretree.FromJ(c.Res[t.Path])})
		}
		return out
	}
	ra, rb := results(alphaTr, c.FailA), results(betaTr, c.FailB)
	raStr, rbStr := coretree.Changes(ra), coretree.Changes(rb)

	// The controller's recipe.
	all := append(append(append([]*core.Change{}, ancCh...), ra...), rb...)
	newAnc := anc
	var applyErr error
	if len(all) > 0 {
		newAnc, applyErr = core.Apply(anc, all)
	}
	appliedStr, valid := "FErrParent", "false"
	if applyErr == nil {
		appliedStr = "(FOk " + coretree.Entry(newAnc) + ")"
		if newAnc.EnsureValid(true) == nil {
			valid = "true"
		}
	}

	coq := fmt.Sprintf("(%s, %s, %s, %s, %s, %s, %s, %s, %s)", modeNames[c.Mode],
		ancStr, alphaStr, betaStr, planStr, raStr, rbStr, appliedStr, valid)

	tags := []string{"mode:" + modeNames[c.Mode]}
	if len(ancCh) > 0 {
		tags = append(tags, "plan:ancestor-changes")
	}
	switch n := len(alphaTr) + len(betaTr); {
	case n == 0:
		tags = append(tags, "transitions:0")
	case n == 1:
		tags = append(tags, "transitions:1")
	default:
		tags = append(tags, "transitions:2+")
	}
	if c.FailA && len(alphaTr) > 0 || c.FailB && len(betaTr) > 0 {
		tags = append(tags, "outcome:side-failed")
	}
	for _, r := range append(append([]*core.Change{}, ra...), rb...) {
		if k, ok := c.Kinds[r.Path]; ok {
			tags = append(tags, "outcome:"+k)
		}
	}
	return coq, len(ra)+len(rb) > 0, tags
}

// randomSub returns a random prefix-closed sub-tree of e (possibly nil).
func randomSub(r *rand.Rand, e *core.Entry, top bool) *core.Entry {
	if e == nil || (top && r.Intn(5) == 0) {
		return nil
	}
	c := e.Copy(core.EntryCopyBehaviorSlim)
	for n, ch := range e.Contents {
		if r.Intn(2) == 0 {
			if c.Contents == nil {
				c.Contents = map[string]*core.Entry{}
			}
			c.Contents[n] = randomSub(r, ch, false)
		}
	}
	return c
}

// allSubs enumerates every prefix-closed sub-tree of e (including nil), up to
// the given cap; ok is false if the cap was exceeded.
func allSubs(e *core.Entry, cap int) (subs []*core.Entry, ok bool) {
	if e == nil {
		return []*core.Entry{nil}, true
	}
	names := make([]string, 0, len(e.Contents))
	for n := range e.Contents {
		names = append(names, n)
	}
	sort.Strings(names)
	partial := []*core.Entry{e.Copy(core.EntryCopyBehaviorSlim)}
	for _, n := range names {
		childSubs, ok := allSubs(e.Contents[n], cap)
		if !ok {
			return nil, false
		}
		var next []*core.Entry
		for _, p := range partial {
			for _, cs := range childSubs {
				q := p.Copy(core.EntryCopyBehaviorShallow)
				if cs != nil {
					if q.Contents == nil {
						q.Contents = map[string]*core.Entry{}
					}
					q.Contents[n] = cs
				}
				next = append(next, q)
			}
		}
		if len(next) > cap {
			return nil, false
		}
		partial = next
	}
	return append([]*core.Entry{nil}, partial...), true
}

type choice struct {
	kind string
	res  *core.Entry
}

func randomChoice(r *rand.Rand, t *core.Change) choice {
	switch r.Intn(5) {
	case 0:
		return choice{"new", t.New}
	case 1:
		return choice{"old", t.Old}
	case 2:
		return choice{"nothing", nil}
	case 3:
		return choice{"sub-tree-of-old", randomSub(r, t.Old, true)}
	default:
		return choice{"sub-tree-of-new", randomSub(r, t.New, true)}
	}
}

const header = "From Coq Require Import List String.\nImport ListNotations.\nOpen Scope string_scope.\nFrom Mv Require Import Common.Bytes Model.Entry Model.Reconcile Model.Outcomes Harness.C05H."

func main() {
	cfg := hx.Parse()
	w := hx.NewWriter(cfg, header, "acase", "anc_failures", 200)
	w.Rule = "a case = (mode, ancestor, alpha, beta, plan returned by core.Reconcile, result changes for alpha and beta with each New drawn from {new, old, nil, prefix-closed sub-tree of old or new} or the whole side failed, result of core.Apply(ancestor, ancestorChanges ++ results), EnsureValid(true)); distinct = distinct Coq terms; non-trivial = at least one result change is applied"
	add := func(c Case, origin string) {
		if w.Aborted {
			return
		}
		var coq string
		var nt bool
		var tags []string
		if w.Guard(c, 5*time.Second, func() { coq, nt, tags = runCase(c) }) {
			w.Add(hx.Case{Coq: coq, Replay: c, Nontrivial: nt, Tags: tags, Origin: origin})
		}
	}
	if cfg.Replay != "" {
		b, err := os.ReadFile(cfg.Replay)
		if err != nil {
			panic(err)
		}
		var wrapper struct {
			Case Case `json:"case"`
		}
		if err := json.Unmarshal(b, &wrapper); err != nil {
			panic(err)
		}
		add(wrapper.Case, "replay")
		w.Close()
		return
	}
	for _, raw := range hx.LoadCorpus(cfg.Corpus) {
		var c Case
		if json.Unmarshal(raw, &c) == nil && c.Mode != 0 {
			add(c, "corpus")
		}
	}
	r := cfg.Rand
	sides, ancestors := coretree.SmallScope()

	// one reconciliation input with randomly chosen outcomes
	randomOutcomes := func(mode int, anc, alpha, beta *core.Entry, origin string) {
		_, alphaTr, betaTr, _ := core.Reconcile(anc, alpha, beta, core.SynchronizationMode(mode))
		c := Case{Mode: mode, Anc: coretree.ToJ(anc), Alpha: coretree.ToJ(alpha), Beta: coretree.ToJ(beta),
			Res: map[string]*coretree.J{}, Kinds: map[string]string{}}
		c.FailA = len(alphaTr) > 0 && r.Intn(8) == 0
		c.FailB = len(betaTr) > 0 && r.Intn(8) == 0
		// sort for a seed-stable sequence of random draws
		trs := append(append([]*core.Change{}, alphaTr...), betaTr...)
		sort.Slice(trs, func(i, j int) bool { return trs[i].Path < trs[j].Path })
		for _, t := range trs {
			ch := randomChoice(r, t)
			c.Res[t.Path] = coretree.ToJ(ch.res)
			c.Kinds[t.Path] = ch.kind
		}
		add(c, origin)
	}

	// every combination of outcomes (all sub-trees) for inputs with few transitions
	allOutcomes := func(mode int, anc, alpha, beta *core.Entry, limit int) bool {
		_, alphaTr, betaTr, _ := core.Reconcile(anc, alpha, beta, core.SynchronizationMode(mode))
		trs := append(append([]*core.Change{}, alphaTr...), betaTr...)
		if len(trs) == 0 || len(trs) > 3 {
			return false
		}
		sort.Slice(trs, func(i, j int) bool { return trs[i].Path < trs[j].Path })
		options := make([][]*core.Entry, len(trs))
		total := 1
		for i, t := range trs {
			so, ok1 := allSubs(t.Old, limit)
			sn, ok2 := allSubs(t.New, limit)
			if !ok1 || !ok2 {
				return false
			}
			options[i] = append(so, sn...)
			total *= len(options[i])
			if total > limit {
				return false
			}
		}
		idx := make([]int, len(trs))
		for {
			c := Case{Mode: mode, Anc: coretree.ToJ(anc), Alpha: coretree.ToJ(alpha), Beta: coretree.ToJ(beta),
				Res: map[string]*coretree.J{}}
			for i, t := range trs {
				c.Res[t.Path] = coretree.ToJ(options[i][idx[i]])
			}
			add(c, "exhaustive-outcomes")
			k := 0
			for k < len(idx) {
				idx[k]++
				if idx[k] < len(options[k]) {
					break
				}
				idx[k] = 0
				k++
			}
			if k == len(idx) {
				break
			}
		}
		return true
	}

	pickSide := func(anc *core.Entry) *core.Entry {
		if r.Intn(3) == 0 {
			return sides[r.Intn(len(sides))]
		}
		return coretree.Mutate(r, anc, 2, true)
	}
	w.Extra["exhaustive_scope"] = fmt.Sprintf("inputs sampled from the scope of %d ancestors x %d alphas x %d betas x 4 modes (names {a,b}/{c}, depth <= 2, every entry kind); for sampled inputs with 1-3 transitions and at most 48 outcome combinations, EVERY combination of outcomes (all prefix-closed sub-trees of old and of new, incl. nil/old/new) is enumerated", len(ancestors), len(sides), len(sides))
	nEnum, nScope, nRandom := 40, 1000, 700
	if cfg.Thorough() {
		nEnum, nScope, nRandom = 800, 12000, 9000
	}
	for i, tries := 0, 0; i < nEnum && tries < 50*nEnum; tries++ {
		anc := ancestors[r.Intn(len(ancestors))]
		if allOutcomes(1+r.Intn(4), anc, pickSide(anc), pickSide(anc), 48) {
			i++
		}
	}
	for i := 0; i < nScope; i++ {
		anc := ancestors[r.Intn(len(ancestors))]
		randomOutcomes(1+r.Intn(4), anc, pickSide(anc), pickSide(anc), "scope-sample")
	}
	for i := 0; i < nRandom; i++ {
		var anc *core.Entry
		if r.Intn(8) != 0 {
			anc = coretree.RandomEntry(r, 3, true)
		}
		alpha := coretree.Mutate(r, anc, 3, true)
		beta := coretree.Mutate(r, anc, 3, true)
		if r.Intn(6) == 0 {
			beta = coretree.Mutate(r, alpha, 3, true)
		}
		randomOutcomes(1+r.Intn(4), anc, alpha, beta, "random")
	}
	w.Close()
	fmt.Printf("cases %d\n", w.Total())
}
