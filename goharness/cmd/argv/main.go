// Harness for C36 (URL components are never treated as command-line options).
//
// Recording fake `ssh`, `scp` and `docker` executables (small shell scripts in
// a temporary directory named by MUTAGEN_SSH_PATH / MUTAGEN_DOCKER_PATH) log
// the argument vector of every invocation. For each raw URL the harness runs
// the real url.Parse and EnsureValid and, when the URL is accepted (as the
// daemon does before it connects),
//   - the real protocol handler registered for the URL's protocol
//     (pkg/{synchronization,forwarding}/protocols/{ssh,docker}), i.e. the real
//     path URL -> transport -> agent.Dial -> exec, and
//   - the real transports' Command and Copy with the URL's components (as the
//     handlers construct them), which also exercises scp and docker cp.
//
// Every case is emitted with the recorded argument vectors as a Coq term for
// Harness/ArgvH.v.
package main

import (
	"bytes"
	"context"
	"encoding/json"
	"flag"
	"fmt"
	"io"
	"os"
	"path/filepath"
	"strconv"
	"strings"
	"time"

	dockertransport "github.com/mutagen-io/mutagen/pkg/agent/transport/docker"
	sshtransport "github.com/mutagen-io/mutagen/pkg/agent/transport/ssh"
	"github.com/mutagen-io/mutagen/pkg/forwarding"
	_ "github.com/mutagen-io/mutagen/pkg/forwarding/protocols/docker"
	_ "github.com/mutagen-io/mutagen/pkg/forwarding/protocols/ssh"
	"github.com/mutagen-io/mutagen/pkg/logging"
	"github.com/mutagen-io/mutagen/pkg/synchronization"
	_ "github.com/mutagen-io/mutagen/pkg/synchronization/protocols/docker"
	_ "github.com/mutagen-io/mutagen/pkg/synchronization/protocols/ssh"
	"github.com/mutagen-io/mutagen/pkg/url"

	"verifharness/internal/bstr"
	"verifharness/internal/hx"
	"verifharness/internal/urlcoq"
)

// Case is the replay form of one case.
type Case struct {
	Raw    bstr.JStr         `json:"raw"`
	Kind   int               `json:"kind"`             // 0 synchronization, 1 forwarding
	Env    map[string]string `json:"env,omitempty"`    // Docker variables set while parsing
	Params [][2]string       `json:"params,omitempty"` // URL parameters set after parsing
}

const fakeScript = `#!/bin/sh
# recording fake for ssh / scp / docker (verification harness, property C36)
{
  printf '%d\0%s\0' "$#" "${0##*/}"
  for a in "$@"; do printf '%s\0' "$a"; done
} >> "$VERIF_ARGV_LOG"
case "${0##*/}" in
docker)
  last=""; prev=""; user="root"; nextuser=0; cp=0; exec=0
  for a in "$@"; do
    if [ "$nextuser" = 1 ]; then user="$a"; nextuser=0; fi
    if [ "$a" = "--user" ]; then nextuser=1; fi
    if [ "$a" = "cp" ]; then cp=1; fi
    if [ "$a" = "exec" ]; then exec=1; fi
    prev="$last"; last="$a"
  done
  if [ "$last" = "env" ]; then echo "HOME=/root"; exit 0; fi
  if [ "$prev $last" = "id -un" ]; then printf '%s\n' "$user"; exit 0; fi
  if [ "$prev $last" = "id -gn" ]; then echo "root"; exit 0; fi
  if [ "$cp" = 1 ] && [ "$exec" = 0 ]; then exit 0; fi
  exit 1;;
scp) exit 0;;
*) exit 1;;
esac
`

type record struct {
	tool string
	args []string
}

var fakeDir, logPath string
var thorough bool

// learning: during the two probe connections the agent invocation strings are
// collected so that they can be abbreviated.
var learning = true
var learned []string

func setupFakes() {
	d, err := os.MkdirTemp("", "verif-")
	if err != nil {
		panic(err)
	}
	fakeDir = d
	for _, name := range []string{"ssh", "scp", "docker"} {
		if err := os.WriteFile(filepath.Join(d, name), []byte(fakeScript), 0o755); err != nil {
			panic(err)
		}
	}
	logPath = filepath.Join(d, "argv.log")
	os.Setenv("VERIF_ARGV_LOG", logPath)
	os.Setenv("MUTAGEN_SSH_PATH", d)
	os.Setenv("MUTAGEN_DOCKER_PATH", d)
	if err := os.MkdirAll(filepath.Join(d, "src"), 0o755); err != nil {
		panic(err)
	}
	os.WriteFile(filepath.Join(d, "src", "agent-file"), []byte("x"), 0o644)
}

// takeLog returns and clears what the fakes recorded.
func takeLog() []record {
	b, _ := os.ReadFile(logPath)
	os.Remove(logPath)
	var out []record
	fields := bytes.Split(b, []byte{0})
	i := 0
	for i < len(fields) {
		if len(fields[i]) == 0 {
			i++
			continue
		}
		n, err := strconv.Atoi(string(fields[i]))
		if err != nil || i+1+n >= len(fields)+1 {
			break
		}
		r := record{tool: string(fields[i+1])}
		for k := 0; k < n; k++ {
			r.args = append(r.args, string(fields[i+2+k]))
		}
		out = append(out, r)
		i += 2 + n
	}
	return out
}

// fakeUser mirrors what the fake docker prints for "id -un": the word after
// the first "--user" (scanning as the script does), else "root".
func fakeUser(args []string) string {
	user, next := "root", false
	for _, a := range args {
		if next {
			user, next = a, false
		}
		if a == "--user" {
			next = true
		}
	}
	return user
}

// Abbreviations: strings that recur in every recorded argument vector are
// defined once in the header of each case file (Definition xN := B "...") and
// referred to by name; Coq reads an identifier far faster than a literal.
var abbrevNames = map[string]string{}
var abbrevOrder []string

func addAbbrev(s string) {
	if _, ok := abbrevNames[s]; ok || s == "" {
		return
	}
	abbrevNames[s] = fmt.Sprintf("x%d", len(abbrevOrder))
	abbrevOrder = append(abbrevOrder, s)
}

func ab(s string) string {
	if n, ok := abbrevNames[s]; ok {
		return n
	}
	return bstr.B(s)
}

func abs(ss []string) string {
	items := make([]string, len(ss))
	for i, s := range ss {
		items[i] = ab(s)
	}
	return "[" + strings.Join(items, "; ") + "]"
}

func abbrevHeader() string {
	var sb strings.Builder
	for _, s := range abbrevOrder {
		fmt.Fprintf(&sb, "\nDefinition %s : str := %s.", abbrevNames[s], bstr.B(s))
	}
	return sb.String()
}

var toolCoq = map[string]string{"ssh": "TSsh", "scp": "TScp", "docker": "TDocker"}

func connectTimeout() uint64 {
	if t, err := strconv.ParseUint(os.Getenv("MUTAGEN_SSH_CONNECT_TIMEOUT"), 10, 64); err == nil && t > 0 {
		return t
	}
	return 5
}

const (
	directCommand = "agent-cmd arg --flag=x"
	remoteName    = "remote-name"
)

func runCase(c Case) (string, bool, []string) {
	raw := c.Raw.Get()
	kind := url.Kind_Synchronization
	if c.Kind == 1 {
		kind = url.Kind_Forwarding
	}
	restore := urlcoq.SetDockerEnv(c.Env)
	u, err := url.Parse(raw, kind, true)
	restore()
	out := urlcoq.Result(u, err)
	tags := []string{"kind:" + kind.String()}
	valid := "false"
	var recs []string
	add := func(tag string, r record) {
		recs = append(recs, fmt.Sprintf("%s %s", tag, abs(r.args)))
		tags = append(tags, "exec:"+r.tool)
	}
	addAny := func(rs []record) {
		for _, r := range rs {
			if learning && len(r.args) > 0 {
				learned = append(learned, r.args[len(r.args)-1])
			}
			if r.tool == "ssh" && len(r.args) > 0 {
				// the command is whatever agent.Dial computed: the last word
				add("Rs "+ab(r.args[len(r.args)-1]), r)
			} else {
				add("Ra "+toolCoq[r.tool], r)
			}
		}
	}
	nontrivial := false
	if err == nil {
		tags = append(tags, "parsed:"+u.Protocol.String())
		if len(c.Params) > 0 {
			u.Parameters = map[string]string{}
			for _, kv := range c.Params {
				u.Parameters[kv[0]] = kv[1]
			}
		}
		if strings.HasPrefix(u.User, "-") || strings.HasPrefix(u.Host, "-") {
			tags = append(tags, "component-begins-with-dash")
		}
		verr := u.EnsureValid()
		if verr == nil {
			valid = "true"
		}
		if verr == nil && u.Protocol != url.Protocol_Local {
			nontrivial = true
			takeLog()
			logger := logging.NewLogger(logging.LevelDisabled, io.Discard)
			ctx, cancel := context.WithTimeout(context.Background(), 20*time.Second)
			// (a) the real protocol handler (for Docker URLs in the quick tier
			// only every third one: it repeats the three probe invocations)
			if u.Protocol == url.Protocol_Docker && !thorough && len(raw)%3 != 0 {
				// skipped
			} else if kind == url.Kind_Synchronization {
				if h := synchronization.ProtocolHandlers[u.Protocol]; h != nil {
					h.Connect(ctx, logger, u, "", "session", synchronization.Version_Version1, &synchronization.Configuration{}, true)
				}
			} else {
				if h := forwarding.ProtocolHandlers[u.Protocol]; h != nil {
					h.Connect(ctx, logger, u, "", "session", forwarding.Version_Version1, &forwarding.Configuration{}, true)
				}
			}
			cancel()
			addAny(takeLog())
			// (b) the transports, constructed as the handlers construct them
			local := filepath.Join(fakeDir, "src", "agent-file")
			switch u.Protocol {
			case url.Protocol_SSH:
				if t, terr := sshtransport.NewTransport(u.User, u.Host, uint16(u.Port), ""); terr == nil {
					if cmd, cerr := t.Command(directCommand); cerr == nil {
						cmd.Run()
						for _, r := range takeLog() {
							add("Rs "+ab(directCommand), r)
						}
					}
					t.Copy(local, remoteName)
					for _, r := range takeLog() {
						add("Rc "+ab("agent-file")+" "+ab(remoteName), r)
					}
				}
			case url.Protocol_Docker:
				if t, terr := dockertransport.NewTransport(u.Host, u.User, u.Environment, u.Parameters, ""); terr == nil {
					cmd, cerr := t.Command(directCommand)
					if cerr == nil {
						cmd.Run()
					}
					rs := takeLog()
					probe := []string{"env", "id -un", "id -gn"}
					containerUser := "root"
					if len(rs) >= 2 {
						containerUser = strings.TrimSpace(fakeUser(rs[1].args))
					}
					for i, r := range rs {
						switch {
						case i < 3 && len(rs) >= 3:
							add(fmt.Sprintf("Re %s E0 E0", ab(probe[i])), r)
						case i == 3 && cerr == nil:
							add(fmt.Sprintf("Re %s %s E0", ab(directCommand), ab("/root")), r)
						default:
							add("Ra "+toolCoq[r.tool], r)
						}
					}
					if cerr == nil {
						t.Copy(local, remoteName)
						rs = takeLog()
						owner := containerUser
						for i, r := range rs {
							switch i {
							case 0:
								add(fmt.Sprintf("Rp %s %s %s", ab("/root"), ab(local), ab(remoteName)), r)
							case 1:
								add(fmt.Sprintf("Re %s %s %s", ab("chown "+strings.TrimSpace(owner)+":root "+remoteName), ab("/root"), ab("root")), r)
							default:
								add("Ra "+toolCoq[r.tool], r)
							}
						}
					}
				} else {
					tags = append(tags, "docker-transport-rejected-parameters")
				}
			}
		}
	} else {
		tags = append(tags, "err:"+urlcoq.ErrName(err))
	}
	if len(recs) > 0 {
		tags = append(tags, "commands-run")
	}
	coq := fmt.Sprintf("AC %s %s %s %s %s %s %s %d%%N %s", bstr.B(raw), urlcoq.Kind(kind), urlcoq.KV(urlcoq.EnvList(c.Env)),
		urlcoq.NormalizeOracle(raw, u, err), urlcoq.KV(c.Params), out, valid, connectTimeout(), hx.List(recs))
	return coq, nontrivial, tags
}

func main() {
	fixed := flag.String("fixed", "", "repairs the implementation is expected to contain: 38, 36, or 36,38 (also: all)")
	cfg := hx.Parse()
	failFn := urlcoq.FailFn("argv_failures", *fixed)
	header := "From Coq Require Import List String NArith.\nFrom Coq.Strings Require Import Byte.\nImport ListNotations.\nOpen Scope string_scope.\nFrom Mv Require Import Common.Bytes Common.Str Model.Url Model.Argv Harness.UrlH Harness.ArgvH.\nOpen Scope nat_scope."
	thorough = cfg.Thorough()
	os.Chdir("/")
	setupFakes()
	defer os.RemoveAll(fakeDir)
	for _, x := range []string{fmt.Sprintf("-oConnectTimeout=%d", connectTimeout()), "-oServerAliveInterval=10", "-oServerAliveCountMax=1",
		"-C", "-p", "-P", "22", "exec", "--interactive", "--user", "--workdir", "/root", "env", "id", "-un", "-gn", "cp", "root",
		directCommand, "agent-cmd", "arg", "--flag=x", "agent-file", remoteName, filepath.Join(fakeDir, "src", "agent-file"),
		"/root/" + remoteName, "chown", "root:root", "chown root:root " + remoteName, "a", "-a", "-oProxyCommand=x", "--", "a-b",
		"a:" + remoteName, "-a:" + remoteName, "path", "tcp:localhost:80", "/path"} {
		addAbbrev(x)
	}
	// learn the agent invocation strings agent.Dial uses (they contain the
	// mutagen version) from two probe connections
	for kind := 0; kind < 2; kind++ {
		raw := "probe-host:path"
		if kind == 1 {
			raw = "probe-host:tcp:localhost:80"
		}
		runCase(Case{Raw: bstr.J(raw), Kind: kind})
	}
	for _, x := range learned {
		addAbbrev(x)
	}
	learning = false
	header += abbrevHeader()
	w := hx.NewWriter(cfg, header, "acase", failFn, 40)
	w.Rule = "a case = one raw URL and kind with the results of the real Parse and EnsureValid and the argument vectors recorded by fake ssh/scp/docker executables while the real protocol handler connected and the real transports ran Command and Copy; distinct = distinct Coq terms; non-trivial = the URL was accepted as SSH or Docker, so commands were run"
	w.Extra["model_variant"] = failFn
	w.Extra["tied"] = "url.Parse, URL.EnsureValid; argument vectors of sshTransport.Command/Copy and dockerTransport.command/Copy (docker exec, docker cp) as executed, recorded by fake executables; invocations made inside agent.Dial via the registered protocol handlers. Not reached: dockerTransport.changeContainerStatus (docker stop/start needs a Windows container and a prompter)."

	add := func(c Case, origin string) {
		if w.Aborted {
			return
		}
		var coq string
		var nt bool
		var tags []string
		if w.Guard(c, 60*time.Second, func() { coq, nt, tags = runCase(c) }) {
			w.Add(hx.Case{Coq: coq, Replay: c, Nontrivial: nt, Tags: tags, Origin: origin})
		}
	}

	if cfg.Replay != "" {
		b, err := os.ReadFile(cfg.Replay)
		if err != nil {
			panic(err)
		}
		var wrapper struct {
			Case Case `json:"case"`
		}
		if err := json.Unmarshal(b, &wrapper); err != nil {
			panic(err)
		}
		add(wrapper.Case, "replay")
		w.Close()
		return
	}

	for _, raw := range hx.LoadCorpus(cfg.Corpus) {
		var c Case
		if json.Unmarshal(raw, &c) == nil && c.Raw.Get() != "" {
			add(c, "corpus")
		}
	}

	// Exhaustive small scope: user x host x port x kind for SSH, user x
	// container x kind for Docker, over components that begin with '-', contain
	// option-like text, or are ordinary.
	comps := []string{"a", "-a", "-oProxyCommand=x", "--", "a-b"}
	if cfg.Thorough() {
		comps = append(comps, "-", "-l", "--user", "-p22", "a b")
	}
	n := 0
	userSet := append([]string{""}, comps...)
	if !cfg.Thorough() {
		userSet = []string{"", "a", "-a", "-oProxyCommand=x"}
	}
	for _, us := range userSet {
		for _, h := range comps {
			for _, port := range []string{"", "22:"} {
				for kind := 0; kind < 2; kind++ {
					raw := h + ":" + port
					if us != "" {
						raw = us + "@" + raw
					}
					if kind == 0 {
						raw += "path"
					} else {
						raw += "tcp:localhost:80"
					}
					add(Case{Raw: bstr.J(raw), Kind: kind}, "exhaustive")
					n++
				}
			}
			for kind := 0; kind < 2; kind++ {
				raw := "docker://"
				if us != "" {
					raw += us + "@"
				}
				raw += h
				if kind == 0 {
					raw += "/path"
				} else {
					raw += ":tcp:localhost:80"
				}
				add(Case{Raw: bstr.J(raw), Kind: kind}, "exhaustive")
				n++
			}
		}
	}
	w.Extra["exhaustive_scope"] = fmt.Sprintf("users %q x hosts/containers %q x {no port, 22} x both kinds, SSH and Docker (%d URLs)", userSet, comps, n)

	// Random URLs from the shared grammar, biased to SSH and Docker.
	g := urlcoq.NewGen(cfg.Rand)
	nRandom := 250
	if cfg.Thorough() {
		nRandom = 4000
	}
	paramValues := []string{"tcp://1.2.3.4:2376", "ctx", "/certs/ca.pem", "-x", "v"}
	for i := 0; i < nRandom; i++ {
		raw, kind, env := g.RawURL()
		c := Case{Raw: bstr.J(raw), Kind: kind, Env: env}
		if strings.HasPrefix(strings.ToLower(raw), "docker://") && cfg.Rand.Intn(4) == 0 {
			for _, name := range urlcoq.ParameterNames {
				if cfg.Rand.Intn(4) != 0 {
					continue
				}
				v := paramValues[cfg.Rand.Intn(len(paramValues))]
				if name == "tls" || name == "tlsverify" {
					v = ""
				}
				c.Params = append(c.Params, [2]string{name, v})
			}
			if cfg.Rand.Intn(12) == 0 {
				c.Params = append(c.Params, [2]string{"tlsverify", "yes"})
			}
		}
		add(c, "random")
	}
	w.Close()
	fmt.Printf("cases %d\n", w.Total())
}
