// Harness for C27 (persistent session files are replaced atomically).
//
// The harness re-executes itself in `-child` mode, where it performs exactly
// one real filesystem.WriteFileAtomic (mode raw) or
// encoding.MarshalAndSaveProtobuf (mode pb), and runs that child under
//
//	strace -f -o log -e trace=<file calls> -e inject=<syscall>:signal=SIGKILL:when=<n>
//	strace -f -o log -e trace=<file calls> -e inject=<syscall>:error=<E>:when=<n>
//
// for every primitive of the write (and of its clean-up paths) and small
// combinations. No hook in the code under test is needed: Go issues raw system
// calls, so the injection is exact. Afterwards the parent reads the strace log
// (which primitives the child issued on the directory, which one failed or
// was killed), lists the directory, reads every file, scans the directory with
// core.Scan, and emits all of it as one Coq case; Harness/AtomicWriteH.v runs
// the model with the same faults and applies check_C27 to the observation.
package main

import (
	"context"
	"crypto/sha1"
	"encoding/hex"
	"encoding/json"
	"fmt"
	"os"
	"os/exec"
	"path/filepath"
	"runtime"
	"sort"
	"strconv"
	"strings"
	"sync"
	"time"

	"google.golang.org/protobuf/proto"

	"github.com/mutagen-io/mutagen/pkg/encoding"
	"github.com/mutagen-io/mutagen/pkg/filesystem"
	"github.com/mutagen-io/mutagen/pkg/filesystem/behavior"
	"github.com/mutagen-io/mutagen/pkg/synchronization/core"
	mutagenignore "github.com/mutagen-io/mutagen/pkg/synchronization/core/ignore/mutagen"

	"verifharness/internal/coretree"
	"verifharness/internal/hx"
	"verifharness/internal/stracelog"
)

// ---------------------------------------------------------------- child

func init() {
	// In child mode the write must run on the process's main thread: strace
	// counts `when=` per thread.
	if len(os.Args) > 1 && os.Args[1] == "-child" {
		runtime.LockOSThread()
	}
}

// pbMessage is the message a pb-mode child saves: an archive whose content is
// one file entry carrying the payload as its digest.
func pbMessage(payload []byte) proto.Message {
	return &core.Archive{Content: &core.Entry{Kind: core.EntryKind_File, Digest: payload}}
}

// child performs one atomic write: -child <raw|pb> <path> <perm octal> <hex>.
// Exit status: 0 = returned nil, 3 = returned an error.
func child() {
	mode, path := os.Args[2], os.Args[3]
	perm, _ := strconv.ParseUint(os.Args[4], 8, 32)
	data, err := hex.DecodeString(os.Args[5])
	if err != nil {
		os.Exit(9)
	}
	switch mode {
	case "raw":
		err = filesystem.WriteFileAtomic(path, data, os.FileMode(perm))
	case "pb":
		err = encoding.MarshalAndSaveProtobuf(path, pbMessage(data))
	default:
		os.Exit(9)
	}
	if err != nil {
		fmt.Fprintln(os.Stderr, err)
		os.Exit(3)
	}
	os.Exit(0)
}

// ---------------------------------------------------------------- cases

// FileJ is a file of the directory before the write.
type FileJ struct {
	Name string `json:"name"`
	Perm int    `json:"perm"`
	Data []byte `json:"data"`
}

// Fault is one strace injection: the Nth call (1-based, counted from the
// start of the atomic write) of system call Sys is killed or fails with Kind.
type Fault struct {
	Sys  string `json:"sys"`
	Kind string `json:"kind"` // "kill" or an errno name
	Nth  int    `json:"nth"`
}

// Case is the replay form of one case.
type Case struct {
	Mode   string  `json:"mode"` // raw | pb
	Perm   int     `json:"perm"` // raw only; pb always 0600
	Target string  `json:"target"`
	Before []FileJ `json:"before"` // may or may not contain the target
	Data   []byte  `json:"data"`   // raw: the bytes; pb: the payload
	Faults []Fault `json:"faults"`
	// Prior, if set, is an EARLIER write to the same target that is run first
	// (with its own injected faults, typically a SIGKILL after its write and
	// before its rename); whatever it leaves behind is part of the directory
	// the write under test starts from.
	Prior *PriorWrite `json:"prior,omitempty"`
}

// PriorWrite is an interrupted earlier write (see Case.Prior).
type PriorWrite struct {
	Data   []byte  `json:"data"`
	Faults []Fault `json:"faults"`
}

const traceSet = "openat,open,creat,write,pwrite64,writev,close,fchmodat,fchmod,chmod,renameat,renameat2,rename,unlinkat,unlink,rmdir,link,linkat,symlinkat,mkdirat,truncate,ftruncate,exit_group"

// bases[sys] = number of calls of sys the child's main thread issues before
// the atomic write starts (runtime start-up), measured on this machine by a
// fault-free run.
type baseline struct {
	before map[string]int
	inside map[string]int
}

var (
	selfExe   string
	baselines = map[string]*baseline{}
)

type observation struct {
	events     []string // Coq event terms
	hitInside  int      // injected/killed calls inside the write
	hitOutside int      // ... outside it (misaligned injection)
	counts     map[string]int
	countsPre  map[string]int
}

// observe turns a log into the primitive sequence the child's main thread
// issued on dir.
func observe(log *stracelog.Log, dir string) *observation {
	ob := &observation{counts: map[string]int{}, countsPre: map[string]int{}}
	fds := map[string]bool{}
	started := false
	under := func(arg string) (string, bool) {
		p, ok := stracelog.Unquote(arg)
		if !ok || !strings.HasPrefix(p, dir+"/") {
			return "", false
		}
		return p[len(dir)+1:], true
	}
	status := func(r *stracelog.Record) string {
		switch {
		case r.Died():
			return "k"
		case r.Failed():
			return "f"
		}
		return "o"
	}
	for i := range log.Records {
		r := &log.Records[i]
		if r.Pid != log.FirstPid || r.Name == "???" {
			continue
		}
		ev := ""
		switch r.Name {
		case "openat":
			if len(r.Args) >= 3 {
				if n, ok := under(r.Args[1]); ok {
					fl := r.Args[2]
					if strings.Contains(fl, "O_CREAT") && strings.Contains(fl, "O_EXCL") && !strings.Contains(n, "/") {
						ev = fmt.Sprintf("Cr %s", coretree.Str(n))
					} else {
						ev = fmt.Sprintf("Ot %s", coretree.Str("openat "+n+" "+fl))
					}
					if !r.Failed() && !r.Died() {
						fds[r.Ret] = true
					}
				}
			}
		case "write":
			if len(r.Args) >= 3 && fds[r.Args[0]] {
				ev = "Wr " + r.Args[2]
			}
		case "close":
			if len(r.Args) >= 1 && fds[r.Args[0]] {
				ev = "Cl"
				if !r.Failed() && !r.Died() {
					delete(fds, r.Args[0])
				}
			}
		case "fchmodat":
			if len(r.Args) >= 3 {
				if n, ok := under(r.Args[1]); ok {
					m, err := strconv.ParseUint(r.Args[2], 8, 32)
					if err == nil && r.Args[0] == "AT_FDCWD" && len(r.Args) == 3 {
						ev = fmt.Sprintf("Ch %s %d", coretree.Str(n), m)
					} else {
						ev = fmt.Sprintf("Ot %s", coretree.Str("fchmodat "+strings.Join(r.Args, ",")))
					}
				}
			}
		case "renameat", "renameat2":
			if len(r.Args) >= 4 {
				a, oka := under(r.Args[1])
				b, okb := under(r.Args[3])
				if oka && okb && r.Name == "renameat" {
					ev = fmt.Sprintf("Rn %s %s", coretree.Str(a), coretree.Str(b))
				} else if oka || okb {
					ev = fmt.Sprintf("Ot %s", coretree.Str(r.Name+" "+strings.Join(r.Args, ",")))
				}
			}
		case "unlinkat":
			if len(r.Args) >= 3 {
				if n, ok := under(r.Args[1]); ok {
					switch r.Args[2] {
					case "0":
						ev = fmt.Sprintf("Ul %s", coretree.Str(n))
					case "AT_REMOVEDIR":
						ev = fmt.Sprintf("Rd %s", coretree.Str(n))
					default:
						ev = fmt.Sprintf("Ot %s", coretree.Str("unlinkat "+strings.Join(r.Args, ",")))
					}
				}
			}
		case "exit_group":
			// not a directory primitive
		default:
			// any other traced call that names the directory or one of its
			// descriptors is foreign to the model
			for _, a := range r.Args {
				if _, ok := under(a); ok || fds[a] {
					ev = fmt.Sprintf("Ot %s", coretree.Str(r.Name+" "+strings.Join(r.Args, ",")))
					break
				}
			}
		}
		if ev != "" {
			started = true
			ob.events = append(ob.events, ev+" "+status(r))
		}
		if started {
			ob.counts[r.Name]++
		} else {
			ob.countsPre[r.Name]++
		}
		if r.Injected || (r.Died() && r.Name != "exit_group") {
			if ev != "" {
				ob.hitInside++
			} else {
				ob.hitOutside++
			}
		}
	}
	return ob
}

func readDir(dir string) []FileJ {
	ents, err := os.ReadDir(dir)
	if err != nil {
		panic(err)
	}
	var out []FileJ
	for _, e := range ents {
		info, err := os.Lstat(filepath.Join(dir, e.Name()))
		if err != nil {
			panic(err)
		}
		if !info.Mode().IsRegular() {
			panic("unexpected non-regular entry " + e.Name())
		}
		b, err := os.ReadFile(filepath.Join(dir, e.Name()))
		if err != nil {
			panic(err)
		}
		out = append(out, FileJ{Name: e.Name(), Perm: int(info.Mode().Perm()), Data: b})
	}
	sort.Slice(out, func(i, j int) bool { return out[i].Name < out[j].Name })
	return out
}

// nbytes prints a byte slice as a list of N (the scope key keeps the case
// file's default scope nat, so that the verdict list prints as plain pairs).
func nbytes(b []byte) string { return hx.Bytes(b) + "%N" }

func dirCoq(fs []FileJ) string {
	items := make([]string, len(fs))
	for i, f := range fs {
		items[i] = fmt.Sprintf("Fi %s %d %s", coretree.Str(f.Name), f.Perm, nbytes(f.Data))
	}
	return hx.List(items)
}

// scanNames returns the names core.Scan shows at the top of dir.
func scanNames(dir string) []string {
	ignorer, err := mutagenignore.NewIgnorer(nil)
	if err != nil {
		panic(err)
	}
	snap, _, _, err := core.Scan(context.Background(), dir, nil, nil, sha1.New(), nil, ignorer, nil,
		behavior.ProbeMode_ProbeModeAssume, core.SymbolicLinkMode_SymbolicLinkModePortable,
		core.PermissionsMode_PermissionsModePortable)
	if err != nil {
		panic(fmt.Sprintf("core.Scan failed: %v", err))
	}
	var names []string
	if snap.Content != nil {
		for n := range snap.Content.Contents {
			names = append(names, n)
		}
	}
	sort.Strings(names)
	return names
}

type outcome struct {
	coq        string
	tags       []string
	nontrivial bool
	skipped    string // non-empty: the run could not be used (why)
	panicMsg   string
}

func newData(c Case) []byte {
	if c.Mode == "pb" {
		b, err := proto.Marshal(pbMessage(c.Data))
		if err != nil {
			panic(err)
		}
		return b
	}
	return c.Data
}

// runOnce sets up the directory, runs the child under strace with the
// faults, and renders the case.
func runOnce(c Case, bl *baseline) (out outcome) {
	defer func() {
		if r := recover(); r != nil {
			out.panicMsg = fmt.Sprint(r)
		}
	}()
	root, err := os.MkdirTemp("", "verif-")
	if err != nil {
		panic(err)
	}
	defer os.RemoveAll(root)
	dir := filepath.Join(root, "d")
	if err := os.Mkdir(dir, 0o755); err != nil {
		panic(err)
	}
	for _, f := range c.Before {
		p := filepath.Join(dir, f.Name)
		if err := os.WriteFile(p, f.Data, 0o600); err != nil {
			panic(err)
		}
		if err := os.Chmod(p, os.FileMode(f.Perm)); err != nil {
			panic(err)
		}
	}
	perm := c.Perm
	if c.Mode == "pb" {
		perm = 0o600
	}
	straceOpts := func(faults []Fault) []string {
		opts := []string{"-e", "trace=" + traceSet}
		for _, f := range faults {
			n := f.Nth
			if bl != nil {
				n += bl.before[f.Sys]
			}
			if f.Kind == "kill" {
				opts = append(opts, "-e", fmt.Sprintf("inject=%s:signal=SIGKILL:when=%d", f.Sys, n))
			} else {
				opts = append(opts, "-e", fmt.Sprintf("inject=%s:error=%s:when=%d", f.Sys, f.Kind, n))
			}
		}
		return opts
	}
	if c.Prior != nil {
		// the interrupted earlier write, by the same real code
		argv := []string{selfExe, "-child", c.Mode, filepath.Join(dir, c.Target),
			strconv.FormatInt(int64(perm), 8), hex.EncodeToString(c.Prior.Data)}
		if _, err := stracelog.Run(filepath.Join(root, "log0"), straceOpts(c.Prior.Faults), argv, os.Environ()); err != nil {
			panic(err)
		}
		out.tags = append(out.tags, "prior-write")
	}
	before := readDir(dir)

	opts := []string{"-e", "trace=" + traceSet}
	for _, f := range c.Faults {
		n := f.Nth
		if bl != nil {
			n += bl.before[f.Sys]
		}
		if f.Kind == "kill" {
			opts = append(opts, "-e", fmt.Sprintf("inject=%s:signal=SIGKILL:when=%d", f.Sys, n))
		} else {
			opts = append(opts, "-e", fmt.Sprintf("inject=%s:error=%s:when=%d", f.Sys, f.Kind, n))
		}
	}
	argv := []string{selfExe, "-child", c.Mode, filepath.Join(dir, c.Target),
		strconv.FormatInt(int64(perm), 8), hex.EncodeToString(c.Data)}
	res, err := stracelog.Run(filepath.Join(root, "log"), opts, argv, os.Environ())
	if err != nil {
		panic(err)
	}
	if len(res.Log.Unparsed) > 0 {
		panic("unparsed strace lines: " + strings.Join(res.Log.Unparsed, " | "))
	}
	ob := observe(res.Log, dir)
	if ob.hitOutside > 0 {
		out.skipped = "an injection hit a call outside the atomic write (start-up call count differs from the baseline)"
		return
	}
	if bl == nil { // baseline run: hand the counts back through tags
		for k, v := range ob.countsPre {
			out.tags = append(out.tags, fmt.Sprintf("pre:%s:%d", k, v))
		}
		for k, v := range ob.counts {
			out.tags = append(out.tags, fmt.Sprintf("in:%s:%d", k, v))
		}
	}

	code := 0
	switch {
	case res.Signaled:
		code = 2
		// killed at exit_group: WriteFileAtomic had already returned
		if n := len(res.Log.Records); n > 0 {
			last := -1
			for i := range res.Log.Records {
				if res.Log.Records[i].Pid == res.Log.FirstPid {
					last = i
				}
			}
			if last >= 0 && res.Log.Records[last].Name == "exit_group" {
				code = 3
			}
		}
	case res.ExitCode == 0:
		code = 0
	case res.ExitCode == 3:
		code = 1
	default:
		panic(fmt.Sprintf("child ended with unexpected status %d: %s", res.ExitCode, res.Stderr))
	}

	after := readDir(dir)
	scanned := scanNames(dir)
	scannedCoq := make([]string, len(scanned))
	for i, n := range scanned {
		scannedCoq[i] = coretree.Str(n)
	}
	data := newData(c)
	out.coq = fmt.Sprintf("AC %s %s %d %s %s %s %d %s %s",
		coretree.Str(filesystem.TemporaryNamePrefix), coretree.Str(c.Target), perm, nbytes(data),
		dirCoq(before), hx.List(ob.events), code, dirCoq(after), hx.List(scannedCoq))
	out.nontrivial = ob.hitInside > 0
	out.tags = append(out.tags, "mode:"+c.Mode, fmt.Sprintf("exit:%d", code), fmt.Sprintf("faults-hit:%d", ob.hitInside))
	hasOld := false
	for _, f := range c.Before {
		if f.Name == c.Target {
			hasOld = true
		}
	}
	if hasOld {
		out.tags = append(out.tags, "old:present")
	} else {
		out.tags = append(out.tags, "old:absent")
	}
	for _, f := range c.Faults {
		out.tags = append(out.tags, "fault:"+f.Sys+":"+f.Kind)
	}
	if len(c.Faults) == 0 {
		out.tags = append(out.tags, "fault:none")
	}
	stray := 0
	for _, f := range after {
		if f.Name != c.Target {
			found := false
			for _, b := range before {
				if b.Name == f.Name {
					found = true
				}
			}
			if !found {
				stray++
			}
		}
	}
	out.tags = append(out.tags, fmt.Sprintf("strays:%d", stray), fmt.Sprintf("size:%d", sizeBucket(len(data))))
	return
}

func sizeBucket(n int) int {
	switch {
	case n == 0:
		return 0
	case n <= 16:
		return 16
	case n <= 256:
		return 256
	default:
		return 4096
	}
}

// measure runs the fault-free child once and records how many calls of each
// system call precede the atomic write on the main thread.
func measure(mode string) *baseline {
	c := Case{Mode: mode, Perm: 0o640, Target: "t", Data: []byte("baseline")}
	o := runOnce(c, nil)
	if o.panicMsg != "" {
		panic("baseline run failed: " + o.panicMsg)
	}
	bl := &baseline{before: map[string]int{}, inside: map[string]int{}}
	for _, t := range o.tags {
		p := strings.Split(t, ":")
		if len(p) == 3 {
			n, _ := strconv.Atoi(p[2])
			if p[0] == "pre" {
				bl.before[p[1]] = n
			} else if p[0] == "in" {
				bl.inside[p[1]] = n
			}
		}
	}
	return bl
}

// faultPlans is the systematic sweep for one configuration: a crash before
// every primitive and after the last one, an error at every primitive, and
// the combinations that reach the clean-up paths.
func faultPlans() [][]Fault {
	k := func(sys string, nth int) Fault { return Fault{Sys: sys, Kind: "kill", Nth: nth} }
	e := func(sys, errno string, nth int) Fault { return Fault{Sys: sys, Kind: errno, Nth: nth} }
	plans := [][]Fault{
		nil,
		{k("openat", 1)}, {k("write", 1)}, {k("close", 1)}, {k("fchmodat", 1)}, {k("renameat", 1)}, {k("exit_group", 1)},
		{e("openat", "EIO", 1)}, {e("openat", "EACCES", 1)}, {e("openat", "EEXIST", 1)},
		{e("write", "EIO", 1)}, {e("write", "ENOSPC", 1)},
		{e("close", "EIO", 1)},
		{e("fchmodat", "EIO", 1)}, {e("fchmodat", "EPERM", 1)},
		{e("renameat", "EIO", 1)}, {e("renameat", "EXDEV", 1)},
		{e("write", "EIO", 1), k("close", 1)}, {e("write", "EIO", 1), e("close", "EIO", 1)},
		{e("openat", "EEXIST", 1), e("openat", "EEXIST", 2)},
		{e("openat", "EEXIST", 1), k("openat", 2)},
		{e("openat", "EEXIST", 1), e("openat", "EIO", 2)},
		{e("openat", "EEXIST", 1), k("write", 1)},
	}
	for _, first := range []Fault{e("write", "EIO", 1), e("close", "EIO", 1), e("fchmodat", "EIO", 1), e("renameat", "EIO", 1)} {
		plans = append(plans,
			[]Fault{first, e("unlinkat", "EIO", 1)},
			[]Fault{first, k("unlinkat", 1)},
			[]Fault{first, e("unlinkat", "EIO", 1), k("unlinkat", 2)},
			[]Fault{first, e("unlinkat", "EBUSY", 1), e("unlinkat", "EIO", 2)})
	}
	return plans
}

func main() {
	if len(os.Args) > 1 && os.Args[1] == "-child" {
		child()
		return
	}
	cfg := hx.Parse()
	var err error
	if selfExe, err = os.Executable(); err != nil {
		panic(err)
	}
	if _, err := exec.LookPath("strace"); err != nil {
		panic("strace is not available: the C27 tie cannot run")
	}
	header := "From Coq Require Import List Arith NArith String.\nImport ListNotations.\nFrom Mv Require Import Common.Bytes Model.AtomicWrite Harness.AtomicWriteH.\nOpen Scope string_scope."
	w := hx.NewWriter(cfg, header, "acase", "atomic_failures", 250)
	w.Rule = "a case = one run of the real WriteFileAtomic/MarshalAndSaveProtobuf in a child process under strace injection: (prefix constant, target, mode bits, new data, directory before, primitives issued with status, exit, directory after, names core.Scan shows); distinct = distinct Coq terms (temporary names are random, so repeated configurations are distinct terms); non-trivial = at least one injected fault or kill hit a primitive of the write"

	for _, m := range []string{"raw", "pb"} {
		baselines[m] = measure(m)
	}
	w.Extra["strace_baseline"] = map[string]any{"raw_calls_before_write": baselines["raw"].before, "raw_calls_inside_write": baselines["raw"].inside}

	var cases []Case
	var origins []string
	push := func(c Case, origin string) { cases = append(cases, c); origins = append(origins, origin) }

	if cfg.Replay != "" {
		b, err := os.ReadFile(cfg.Replay)
		if err != nil {
			panic(err)
		}
		var wrapper struct {
			Case Case `json:"case"`
		}
		if err := json.Unmarshal(b, &wrapper); err != nil {
			panic(err)
		}
		push(wrapper.Case, "replay")
	} else {
		for _, raw := range hx.LoadCorpus(cfg.Corpus) {
			var c Case
			if json.Unmarshal(raw, &c) == nil && c.Target != "" {
				push(c, "corpus")
			}
		}
		r := cfg.Rand
		rb := func(n int) []byte {
			b := make([]byte, n)
			for i := range b {
				b[i] = byte(1 + r.Intn(255))
			}
			return b
		}
		staleTemp := FileJ{Name: filesystem.TemporaryNamePrefix + "atomic-write4242", Perm: 0o600, Data: []byte("stale")}
		other := FileJ{Name: "other", Perm: 0o644, Data: []byte("bystander")}
		// systematic configurations
		configs := []Case{
			{Mode: "raw", Perm: 0o600, Target: "session", Before: []FileJ{{Name: "session", Perm: 0o600, Data: rb(24)}, other}, Data: rb(40)},
			{Mode: "raw", Perm: 0o644, Target: "session", Before: []FileJ{other, staleTemp}, Data: rb(12)},
			{Mode: "pb", Target: "archive", Before: []FileJ{{Name: "archive", Perm: 0o600, Data: rb(60)}}, Data: rb(20)},
			{Mode: "raw", Perm: 0o640, Target: "t", Before: []FileJ{{Name: "t", Perm: 0o644, Data: rb(50)}, staleTemp}, Data: nil},
		}
		if cfg.Thorough() {
			configs = append(configs,
				Case{Mode: "pb", Target: "cache", Before: nil, Data: rb(32)},
				Case{Mode: "raw", Perm: 0o600, Target: "big", Before: []FileJ{{Name: "big", Perm: 0o600, Data: rb(3)}}, Data: rb(5000)})
			for i := 0; i < 24; i++ {
				c := Case{Mode: []string{"raw", "pb"}[r.Intn(2)], Perm: []int{0o600, 0o644, 0o640, 0o400}[r.Intn(4)], Target: fmt.Sprintf("f%d", i), Data: rb(r.Intn(300))}
				if r.Intn(3) > 0 {
					c.Before = append(c.Before, FileJ{Name: c.Target, Perm: []int{0o600, 0o644}[r.Intn(2)], Data: rb(r.Intn(300))})
				}
				if r.Intn(2) == 0 {
					c.Before = append(c.Before, other)
				}
				if r.Intn(3) == 0 {
					c.Before = append(c.Before, staleTemp)
				}
				configs = append(configs, c)
			}
		}
		// leftovers of earlier writes must never influence a write: stale files
		// under every plausible temporary name (also names DERIVED from the
		// target), longer than the new data; and two-step scenarios where the
		// real code's own earlier write was killed after its write and before
		// its rename
		pfx := filesystem.TemporaryNamePrefix
		long := func() []byte { return append(rb(40), []byte("-STALE-TAIL-STALE-TAIL-STALE-TAIL")...) }
		leftovers := func(target string) []FileJ {
			return []FileJ{
				{Name: pfx + "atomic-write-" + target, Perm: 0o600, Data: long()},
				{Name: pfx + "atomic-write" + target, Perm: 0o600, Data: long()},
				{Name: pfx + "atomic-write", Perm: 0o600, Data: long()},
				{Name: pfx + target, Perm: 0o644, Data: long()},
				{Name: pfx + "atomic-write." + target + ".tmp", Perm: 0o600, Data: long()},
				{Name: pfx + "atomic-write0", Perm: 0o600, Data: long()},
			}
		}
		killAfterWrite := []Fault{{Sys: "close", Kind: "kill", Nth: 1}}
		extra := []Case{
			{Mode: "raw", Perm: 0o600, Target: "session", Before: append([]FileJ{{Name: "session", Perm: 0o600, Data: rb(20)}}, leftovers("session")...), Data: rb(7)},
			{Mode: "pb", Target: "archive", Before: leftovers("archive"), Data: rb(4)},
			{Mode: "raw", Perm: 0o644, Target: "t", Before: append([]FileJ{{Name: "t", Perm: 0o644, Data: rb(9)}}, leftovers("t")...), Data: nil},
			{Mode: "raw", Perm: 0o600, Target: "session", Before: []FileJ{{Name: "session", Perm: 0o600, Data: rb(20)}}, Data: rb(6),
				Prior: &PriorWrite{Data: long(), Faults: killAfterWrite}},
			{Mode: "raw", Perm: 0o600, Target: "fresh", Data: rb(3),
				Prior: &PriorWrite{Data: long(), Faults: []Fault{{Sys: "renameat", Kind: "kill", Nth: 1}}}},
			{Mode: "pb", Target: "cache", Before: []FileJ{{Name: "cache", Perm: 0o600, Data: rb(30)}}, Data: rb(2),
				Prior: &PriorWrite{Data: long(), Faults: []Fault{{Sys: "fchmodat", Kind: "kill", Nth: 1}}}},
			{Mode: "raw", Perm: 0o600, Target: "session", Data: rb(5),
				Prior: &PriorWrite{Data: long(), Faults: []Fault{{Sys: "write", Kind: "kill", Nth: 1}}}},
		}
		extraPlans := [][]Fault{nil, {{Sys: "renameat", Kind: "kill", Nth: 1}}, {{Sys: "fchmodat", Kind: "EIO", Nth: 1}}, {{Sys: "exit_group", Kind: "kill", Nth: 1}}}
		for _, base := range extra {
			for _, p := range extraPlans {
				c := base
				c.Faults = p
				push(c, "exhaustive")
			}
		}
		plans := faultPlans()
		for _, base := range configs {
			for _, p := range plans {
				c := base
				c.Faults = p
				push(c, "exhaustive")
			}
		}
		w.Extra["exhaustive_scope"] = fmt.Sprintf("%d configurations (old content absent/present, raw and protobuf, empty and large data, stale temporaries, bystanders) x %d fault plans: a kill before each of create/write/close/chmod/rename and after the rename, an error at each of them (EIO, EACCES, EEXIST, ENOSPC, EPERM, EXDEV), and every error followed by a failing or dying unlink/rmdir/close of the clean-up path; plus %d leftover configurations (stale files under every plausible temporary name, also names derived from the target, longer than the new data; two-step runs where the real code's earlier write of longer data was killed after its write and before its rename) x %d plans", len(configs), len(plans), len(extra), len(extraPlans))

		// random configurations with random fault sets
		nRandom := 30
		if cfg.Thorough() {
			nRandom = 1500
		}
		syscalls := []string{"openat", "write", "close", "fchmodat", "renameat", "unlinkat"}
		errnos := []string{"EIO", "ENOSPC", "EACCES", "EEXIST", "EXDEV", "EPERM", "ENOENT", "EROFS"} // not EINTR: the retry loops of the Go runtime are not modelled
		for i := 0; i < nRandom; i++ {
			c := Case{Mode: []string{"raw", "pb"}[r.Intn(2)], Perm: []int{0o600, 0o644, 0o640, 0o666}[r.Intn(4)], Target: "s" + strconv.Itoa(r.Intn(5)), Data: rb(r.Intn(120))}
			if r.Intn(4) > 0 {
				c.Before = append(c.Before, FileJ{Name: c.Target, Perm: 0o600, Data: rb(r.Intn(120))})
			}
			if r.Intn(2) == 0 {
				c.Before = append(c.Before, other)
			}
			if r.Intn(4) == 0 {
				c.Prior = &PriorWrite{Data: rb(40 + r.Intn(80)), Faults: []Fault{{Sys: []string{"close", "fchmodat", "renameat"}[r.Intn(3)], Kind: "kill", Nth: 1}}}
			}
			for j, nf := 0, r.Intn(3); j < nf; j++ {
				f := Fault{Sys: syscalls[r.Intn(len(syscalls))], Nth: 1 + r.Intn(2)}
				if f.Sys == "write" {
					f.Nth = 1 // the second write would be the child's message on stderr
				}
				if r.Intn(3) == 0 {
					f.Kind = "kill"
				} else {
					f.Kind = errnos[r.Intn(len(errnos))]
				}
				dup := false
				for _, g := range c.Faults {
					if g.Sys == f.Sys && g.Nth == f.Nth {
						dup = true
					}
				}
				if !dup {
					c.Faults = append(c.Faults, f)
				}
			}
			push(c, "random")
		}
	}

	// run in parallel, report in order
	outs := make([]outcome, len(cases))
	var wg sync.WaitGroup
	sem := make(chan struct{}, 8)
	for i := range cases {
		wg.Add(1)
		sem <- struct{}{}
		go func(i int) {
			defer wg.Done()
			defer func() { <-sem }()
			outs[i] = runOnce(cases[i], baselines[cases[i].Mode])
			if outs[i].skipped != "" { // one retry with a fresh baseline
				outs[i] = runOnce(cases[i], measure(cases[i].Mode))
			}
		}(i)
	}
	wg.Wait()
	skipped, faults := 0, 0
	for i, o := range outs {
		if w.Aborted {
			break
		}
		if o.skipped != "" {
			skipped++
			continue
		}
		ok := w.Guard(cases[i], 5*time.Second, func() {
			if o.panicMsg != "" {
				panic(o.panicMsg)
			}
		})
		if ok {
			w.Add(hx.Case{Coq: o.coq, Replay: cases[i], Nontrivial: o.nontrivial, Tags: o.tags, Origin: origins[i]})
			faults += len(cases[i].Faults)
		}
	}
	w.Extra["faults_injected"] = faults
	w.Extra["skipped_misaligned_injections"] = skipped
	if skipped > len(cases)/10 {
		panic(fmt.Sprintf("%d of %d strace runs had misaligned injections", skipped, len(cases)))
	}
	w.Close()
	fmt.Printf("cases %d skipped %d\n", w.Total(), skipped)
}
