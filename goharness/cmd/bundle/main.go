// Harness for C46: drives the real agent.ExecutableForPlatform.
//
// os.Executable() decides where the bundle is searched, so the harness copies
// its own binary into two scratch layouts and re-executes the copies as
// children:
//
//	<root>/A/bin/h      + <root>/A/libexec/   (Filesystem Hierarchy Standard layout)
//	<root>/B/tools/h    + <root>/B/libexec/   (not in a "bin" directory)
//
// For every case the parent sends the child a description of what to place at
// <exe dir>/mutagen-agents.tar.gz and <exe dir>/../libexec/mutagen-agents.tar.gz
// (nothing, a dangling link, a link loop, a directory, a non-gzip file, a gzip
// of garbage, a real tar.gz with given entries, ...), the child builds it,
// calls agent.ExecutableForPlatform and reports the error text or the bytes and
// mode of the file produced. The parent emits (fixed, input, outcome) as a Coq
// term for Harness/BundleH.v.
package main

import (
	"archive/tar"
	"bufio"
	"bytes"
	"compress/gzip"
	"encoding/json"
	"flag"
	"fmt"
	"io"
	"os"
	"os/exec"
	"path/filepath"
	"strings"
	"time"

	"github.com/mutagen-io/mutagen/pkg/agent"

	"verifharness/internal/coretree"
	"verifharness/internal/hx"
)

// Entry is one archive member.
type Entry struct {
	Name string `json:"name"`
	Data []byte `json:"data"`
}

// Slot says what to place at a bundle path.
//
//	absent      nothing
//	dangling    symbolic link to a missing file          (open: ENOENT)
//	loop        symbolic link to itself                  (open: ELOOP)
//	notdir      libexec itself is a regular file         (open: ENOTDIR; libexec only)
//	dir         a directory named mutagen-agents.tar.gz
//	notgzip     a regular file that is not gzip (Data)
//	badtar      gzip of 1024 bytes that are no tar header
//	archive     tar.gz with Entries
//	linkarchive symbolic link to a tar.gz with Entries
type Slot struct {
	Kind    string  `json:"kind"`
	Entries []Entry `json:"entries,omitempty"`
	Data    []byte  `json:"data,omitempty"`
}

// Case is one lookup.
type Case struct {
	InBin   bool   `json:"in_bin"`
	Exe     Slot   `json:"exe"`
	Lib     Slot   `json:"lib"`
	Goos    string `json:"goos"`
	Goarch  string `json:"goarch"`
	OutPath bool   `json:"out_path"` // explicit output path instead of a temporary file
	// PreLen, if not nil and OutPath is set, is the length of a file that
	// already exists at the output path before the call (content: preContent).
	PreLen *int `json:"pre_len,omitempty"`
}

// preContent is the content of a pre-existing output file of length n: a
// pattern no archive entry of the harness contains.
func preContent(n int) []byte {
	b := make([]byte, n)
	for i := range b {
		b[i] = "<stale>"[i%7]
	}
	return b
}

// Reply is what the child observed.
type Reply struct {
	Err  string `json:"err"`
	Data []byte `json:"data"`
	Mode uint32 `json:"mode"`
	Bug  string `json:"bug,omitempty"` // harness-side failure (setup), not the code under test
}

// ---------------------------------------------------------------- child

func tarGz(entries []Entry) []byte {
	var buf bytes.Buffer
	gz := gzip.NewWriter(&buf)
	tw := tar.NewWriter(gz)
	for _, e := range entries {
		if err := tw.WriteHeader(&tar.Header{Name: e.Name, Mode: 0o755, Size: int64(len(e.Data)), Typeflag: tar.TypeReg}); err != nil {
			panic(err)
		}
		if _, err := tw.Write(e.Data); err != nil {
			panic(err)
		}
	}
	if err := tw.Close(); err != nil {
		panic(err)
	}
	if err := gz.Close(); err != nil {
		panic(err)
	}
	return buf.Bytes()
}

func place(dir string, s Slot, side string) error {
	p := filepath.Join(dir, agent.BundleName)
	switch s.Kind {
	case "absent", "notdir":
		return nil
	case "dangling":
		return os.Symlink(filepath.Join(dir, "no-such-file"), p)
	case "loop":
		return os.Symlink(p, p)
	case "dir":
		return os.Mkdir(p, 0o755)
	case "notgzip":
		return os.WriteFile(p, s.Data, 0o644)
	case "badtar":
		var buf bytes.Buffer
		gz := gzip.NewWriter(&buf)
		gz.Write(bytes.Repeat([]byte{'A'}, 1024))
		gz.Close()
		return os.WriteFile(p, buf.Bytes(), 0o644)
	case "archive":
		return os.WriteFile(p, tarGz(s.Entries), 0o644)
	case "linkarchive":
		real := filepath.Join(dir, "real-"+side+".tar.gz")
		if err := os.WriteFile(real, tarGz(s.Entries), 0o644); err != nil {
			return err
		}
		return os.Symlink(real, p)
	}
	return fmt.Errorf("unknown slot kind %q", s.Kind)
}

func child() {
	exe, err := os.Executable()
	if err != nil {
		panic(err)
	}
	exeDir := filepath.Dir(exe)
	libDir := filepath.Join(exeDir, "..", "libexec")
	outDir := filepath.Join(exeDir, "..", "out")
	os.MkdirAll(outDir, 0o755)
	in := bufio.NewReaderSize(os.Stdin, 1<<20)
	out := bufio.NewWriter(os.Stdout)
	for {
		line, err := in.ReadBytes('\n')
		if len(line) == 0 && err != nil {
			return
		}
		var c Case
		if err := json.Unmarshal(line, &c); err != nil {
			panic(err)
		}
		var r Reply
		// clean slate
		os.RemoveAll(filepath.Join(exeDir, agent.BundleName))
		os.Remove(filepath.Join(exeDir, "real-exe.tar.gz"))
		os.RemoveAll(libDir)
		if c.Lib.Kind == "notdir" {
			if err := os.WriteFile(libDir, []byte("libexec is a file"), 0o644); err != nil {
				r.Bug = err.Error()
			}
		} else if err := os.Mkdir(libDir, 0o755); err != nil {
			r.Bug = err.Error()
		}
		if err := place(exeDir, c.Exe, "exe"); err != nil {
			r.Bug = err.Error()
		}
		if c.Lib.Kind != "notdir" {
			if err := place(libDir, c.Lib, "lib"); err != nil {
				r.Bug = err.Error()
			}
		}
		if r.Bug == "" {
			outPath := ""
			if c.OutPath {
				outPath = filepath.Join(outDir, "agent-output")
				os.Remove(outPath)
				if c.PreLen != nil {
					// a previous extraction (or anything else) is already there
					if err := os.WriteFile(outPath, preContent(*c.PreLen), 0o600); err != nil {
						r.Bug = err.Error()
					}
				}
			}
			var p string
			var err error
			if r.Bug == "" {
				p, err = agent.ExecutableForPlatform(c.Goos, c.Goarch, outPath)
			}
			if r.Bug != "" {
				// harness-side failure, reported as such
			} else if err != nil {
				r.Err = err.Error()
				if p != "" {
					r.Bug = "path returned together with an error"
				}
			} else {
				if c.OutPath && p != outPath {
					r.Err = "VERIF: returned path differs from requested output path"
				} else if st, err := os.Lstat(p); err != nil {
					r.Err = "VERIF: returned path not present: " + err.Error()
				} else if !st.Mode().IsRegular() {
					r.Err = "VERIF: returned path is not a regular file"
				} else if data, err := os.ReadFile(p); err != nil {
					r.Err = "VERIF: returned path unreadable: " + err.Error()
				} else {
					r.Data = data
					r.Mode = uint32(st.Mode().Perm())
				}
				os.Remove(p)
			}
		}
		b, _ := json.Marshal(r)
		out.Write(b)
		out.WriteByte('\n')
		out.Flush()
		if err != nil {
			return
		}
	}
}

// ---------------------------------------------------------------- parent

type proc struct {
	cmd *exec.Cmd
	in  io.WriteCloser
	out *bufio.Reader
}

func copyFile(dst, src string) {
	s, err := os.Open(src)
	if err != nil {
		panic(err)
	}
	defer s.Close()
	d, err := os.OpenFile(dst, os.O_WRONLY|os.O_CREATE|os.O_TRUNC, 0o755)
	if err != nil {
		panic(err)
	}
	if _, err := io.Copy(d, s); err != nil {
		panic(err)
	}
	if err := d.Close(); err != nil {
		panic(err)
	}
}

func spawn(root, layout, dirName string) *proc {
	self, err := os.Executable()
	if err != nil {
		panic(err)
	}
	dir := filepath.Join(root, layout, dirName)
	if err := os.MkdirAll(dir, 0o755); err != nil {
		panic(err)
	}
	tmp := filepath.Join(root, layout, "tmp")
	os.MkdirAll(tmp, 0o755)
	bin := filepath.Join(dir, "h")
	copyFile(bin, self)
	cmd := exec.Command(bin, "-child")
	cmd.Env = append(os.Environ(), "TMPDIR="+tmp)
	cmd.Stderr = os.Stderr
	in, err := cmd.StdinPipe()
	if err != nil {
		panic(err)
	}
	out, err := cmd.StdoutPipe()
	if err != nil {
		panic(err)
	}
	if err := cmd.Start(); err != nil {
		panic(err)
	}
	return &proc{cmd: cmd, in: in, out: bufio.NewReaderSize(out, 1<<20)}
}

func (p *proc) ask(c Case) Reply {
	b, _ := json.Marshal(c)
	b = append(b, '\n')
	if _, err := p.in.Write(b); err != nil {
		panic(fmt.Sprintf("child gone (write): %v", err))
	}
	line, err := p.out.ReadBytes('\n')
	if err != nil {
		panic(fmt.Sprintf("child gone (read): %v", err))
	}
	var r Reply
	if err := json.Unmarshal(line, &r); err != nil {
		panic(err)
	}
	return r
}

func errCode(msg string) int {
	switch {
	case strings.HasPrefix(msg, "unable to open agent bundle"):
		return 1
	case strings.HasPrefix(msg, "agent bundle (") && strings.HasSuffix(msg, "is not a file"):
		return 2
	case strings.HasPrefix(msg, "unable to locate agent bundle"):
		return 3
	case strings.HasPrefix(msg, "unable to decompress agent bundle"):
		return 4
	case strings.HasPrefix(msg, "unable to read archive header"):
		return 5
	case msg == "unsupported platform":
		return 6
	}
	return 9
}

func slotCoq(s Slot) string {
	switch s.Kind {
	case "absent", "dangling":
		return "SA"
	case "loop", "notdir":
		return "SE"
	case "dir":
		return "SD"
	case "notgzip":
		return "SG"
	case "badtar":
		return "ST"
	case "archive", "linkarchive":
		items := make([]string, len(s.Entries))
		for i, e := range s.Entries {
			items[i] = "(" + coretree.Str(e.Name) + ", " + coretree.Str(string(e.Data)) + ")"
		}
		return "(SB " + hx.List(items) + ")"
	}
	panic("unknown slot kind " + s.Kind)
}

func coqBool(b bool) string {
	if b {
		return "true"
	}
	return "false"
}

func isFile(s Slot) bool {
	switch s.Kind {
	case "notgzip", "badtar", "archive", "linkarchive":
		return true
	}
	return false
}

// expectLen is the length of the entry a lookup is expected to extract (the
// first entry named goos_goarch of the first location holding an archive), used
// only to choose and label pre-existing output lengths; 12 if there is none.
func expectLen(c Case) int {
	name := c.Goos + "_" + c.Goarch
	slots := []Slot{c.Exe}
	if c.InBin {
		slots = append(slots, c.Lib)
	}
	for _, s := range slots {
		if s.Kind == "archive" || s.Kind == "linkarchive" {
			for _, e := range s.Entries {
				if e.Name == name {
					return len(e.Data)
				}
			}
		}
	}
	return 12
}

// withPre gives a case with an explicit output path a pre-existing output file:
// variant 0 none, 1 longer, 2 shorter (possibly empty), 3 equal length, 4 much longer.
func withPre(c Case, variant int) Case {
	if !c.OutPath || variant == 0 {
		return c
	}
	want := expectLen(c)
	var n int
	switch variant {
	case 1:
		n = want + 1 + want/2
	case 2:
		n = want / 2
	case 3:
		n = want
	default:
		n = want + 40
	}
	c.PreLen = &n
	return c
}

const header = "From Coq Require Import List String Bool.\nImport ListNotations.\nFrom Mv Require Import Common.Bytes Model.Bundle Harness.BundleH.\nLocal Open Scope string_scope.\nLocal Open Scope list_scope."

// ---------------------------------------------------------------- generation

var goosPool = []string{"linux", "windows", "darwin", "a", "a_b", "", "fakeos"}
var goarchPool = []string{"amd64", "arm64", "b", "b_c", "c", ""}

func main() {
	if len(os.Args) > 1 && os.Args[1] == "-child" {
		child()
		return
	}
	fixed := flag.Bool("fixed", false, "expect the repaired search loop (break after the first hit)")
	cfg := hx.Parse()
	if os.Getenv("VERIF_FIXED") == "1" {
		*fixed = true // same as -fixed; lets a scratch-worktree run select the repaired model without editing props/C46.json
	}
	w := hx.NewWriter(cfg, header, "bcase", "bundle_failures", 200)
	w.Rule = "a case = (expected loop variant, layout (bin/ or not), what is at the bundle path in the executable's directory and in ../libexec, goos, goarch, for an explicit output path the content it already holds (none / longer / shorter / equal length), outcome of the real agent.ExecutableForPlatform: error class or the complete bytes + owner-exec bit of the file found at the returned path); distinct = distinct Coq terms; non-trivial = libexec is searched, at least one location holds a regular file and the other is not absent (the locations interact)"

	root, err := os.MkdirTemp("", "verif-")
	if err != nil {
		panic(err)
	}
	defer os.RemoveAll(root)
	procs := map[bool]*proc{true: spawn(root, "A", "bin"), false: spawn(root, "B", "tools")}
	defer func() {
		for _, p := range procs {
			p.in.Close()
			p.cmd.Process.Kill()
			p.cmd.Wait()
		}
	}()

	add := func(c Case, origin string) {
		if w.Aborted {
			return
		}
		if c.Exe.Kind == "notdir" {
			c.Exe.Kind = "loop" // the executable's directory is always a directory
		}
		var r Reply
		if !w.Guard(c, 5*time.Second, func() { r = procs[c.InBin].ask(c) }) {
			// the child died or hung: restart it for the remaining cases
			p := procs[c.InBin]
			p.cmd.Process.Kill()
			p.cmd.Wait()
			w.Aborted = false
			if c.InBin {
				procs[true] = spawn(root, "A", "bin")
			} else {
				procs[false] = spawn(root, "B", "tools")
			}
			return
		}
		if r.Bug != "" {
			panic("harness setup failed: " + r.Bug)
		}
		var o string
		tags := []string{"exe:" + c.Exe.Kind, "lib:" + c.Lib.Kind, "in_bin:" + coqBool(c.InBin)}
		if r.Err != "" {
			code := errCode(r.Err)
			o = fmt.Sprintf("Er %d", code)
			tags = append(tags, fmt.Sprintf("result:error-%d", code))
		} else {
			o = "Ok " + coretree.Str(string(r.Data)) + " " + coqBool(r.Mode&0o100 != 0)
			tags = append(tags, "result:extracted")
		}
		if isFile(c.Exe) && isFile(c.Lib) && c.InBin {
			tags = append(tags, "both-hold-a-file")
		}
		nt := c.InBin && (isFile(c.Exe) || isFile(c.Lib)) && c.Exe.Kind != "absent" && c.Lib.Kind != "absent"
		pre := "None"
		if c.OutPath && c.PreLen != nil {
			pre = "(Some " + coretree.Str(string(preContent(*c.PreLen))) + ")"
			switch want := expectLen(c); {
			case *c.PreLen > want:
				tags = append(tags, "pre-existing-output:longer")
			case *c.PreLen < want:
				tags = append(tags, "pre-existing-output:shorter")
			default:
				tags = append(tags, "pre-existing-output:equal-length")
			}
		} else if c.OutPath {
			tags = append(tags, "output:fresh-path")
		} else {
			tags = append(tags, "output:temporary-file")
		}
		coq := fmt.Sprintf("(%s, In_ %s %s %s %s %s %s, %s)", coqBool(*fixed), coqBool(c.InBin),
			slotCoq(c.Exe), slotCoq(c.Lib), coretree.Str(c.Goos), coretree.Str(c.Goarch), pre, o)
		w.Add(hx.Case{Coq: coq, Replay: c, Nontrivial: nt, Tags: tags, Origin: origin})
	}

	finish := func() {
		w.Close()
		fmt.Printf("cases %d\n", w.Total())
	}

	if cfg.Replay != "" {
		b, err := os.ReadFile(cfg.Replay)
		if err != nil {
			panic(err)
		}
		var wrapper struct {
			Case Case `json:"case"`
		}
		if err := json.Unmarshal(b, &wrapper); err != nil {
			panic(err)
		}
		add(wrapper.Case, "replay")
		finish()
		return
	}
	for _, raw := range hx.LoadCorpus(cfg.Corpus) {
		var c Case
		if json.Unmarshal(raw, &c) == nil {
			add(c, "corpus")
		}
	}

	// Exhaustive small scope: every pair of slot kinds in both layouts, for a
	// platform present in the archives, a windows platform and an unknown one.
	mk := func(side string, kind string, has bool) Slot {
		s := Slot{Kind: kind}
		switch kind {
		case "archive", "linkarchive":
			s.Entries = []Entry{{"darwin_arm64", []byte(side + "-darwin")}}
			if has {
				s.Entries = append(s.Entries,
					Entry{"linux_amd64", []byte(side + "-linux-agent")},
					Entry{"windows_amd64", []byte(side + "-windows-agent")},
					Entry{"linux_amd64", []byte(side + "-linux-duplicate")})
			}
		case "notgzip":
			s.Data = []byte("not a gzip stream (" + side + ")")
		}
		return s
	}
	type kindSpec struct {
		kind string
		has  bool
	}
	exeKinds := []kindSpec{{"absent", false}, {"dangling", false}, {"loop", false}, {"dir", false},
		{"notgzip", false}, {"badtar", false}, {"archive", true}, {"archive", false}, {"linkarchive", true}}
	libKinds := append([]kindSpec{{"notdir", false}}, exeKinds...)
	platforms := [][2]string{{"linux", "amd64"}, {"windows", "amd64"}, {"fakeos", "amd64"}}
	n := 0
	for _, inBin := range []bool{true, false} {
		for _, ek := range exeKinds {
			for _, lk := range libKinds {
				for pi, pf := range platforms {
					n++
					add(withPre(Case{InBin: inBin, Exe: mk("EXE", ek.kind, ek.has), Lib: mk("LIB", lk.kind, lk.has),
						Goos: pf[0], Goarch: pf[1], OutPath: (n+pi)%2 == 0}, (n/2)%5), "exhaustive")
				}
			}
		}
	}
	w.Extra["exhaustive_scope"] = fmt.Sprintf("2 layouts (bin/ and tools/) x %d kinds of content at the executable-directory bundle path x %d kinds at the libexec bundle path x 3 platforms (present, windows, unknown) = %d cases; archives on the two sides carry distinct contents and a duplicate entry name; half of the cases use an explicit output path, which cyclically is fresh or already holds a longer / shorter / equal-length / much longer file",
		len(exeKinds), len(libKinds), n)

	// Random structured cases.
	r := cfg.Rand
	nRandom := 1200
	if cfg.Thorough() {
		nRandom = 6000
	}
	randBytes := func(side string) []byte {
		var n int
		// contents around one and two tar blocks are rare: a long string literal
		// costs the Coq side about a second
		switch k := r.Intn(400); {
		case k == 0:
			n = 511 + r.Intn(3)
		case k == 1:
			n = 1023 + r.Intn(3)
		case k < 12:
			n = 0
		default:
			n = r.Intn(12)
		}
		b := make([]byte, n)
		// arbitrary byte values only in short contents (a long list of numerals
		// is slow to parse on the Coq side); long contents are printable
		binary := n <= 12 && r.Intn(3) == 0
		for i := range b {
			if binary && r.Intn(2) == 0 {
				b[i] = byte(r.Intn(256))
			} else {
				b[i] = byte('a' + r.Intn(26))
			}
		}
		if r.Intn(8) != 0 {
			b = append([]byte(side+":"), b...) // distinct contents on the two sides
		}
		return b
	}
	randName := func() string {
		if r.Intn(6) == 0 {
			return []string{"linux", "amd64", "_", "linux_amd64_", "a__b", "x"}[r.Intn(6)]
		}
		return goosPool[r.Intn(len(goosPool))] + "_" + goarchPool[r.Intn(len(goarchPool))]
	}
	randSlot := func(side string, lib bool) Slot {
		switch k := r.Intn(20); {
		case k < 4:
			return Slot{Kind: "absent"}
		case k == 4:
			return Slot{Kind: "dangling"}
		case k == 5:
			return Slot{Kind: "loop"}
		case k == 6:
			if lib {
				return Slot{Kind: "notdir"}
			}
			return Slot{Kind: "loop"}
		case k == 7:
			return Slot{Kind: "dir"}
		case k == 8:
			s := Slot{Kind: "notgzip"}
			if r.Intn(2) == 0 {
				s.Data = randBytes(side)
			}
			return s
		case k == 9:
			return Slot{Kind: "badtar"}
		}
		s := Slot{Kind: "archive"}
		if r.Intn(5) == 0 {
			s.Kind = "linkarchive"
		}
		ne := r.Intn(5)
		for i := 0; i < ne; i++ {
			s.Entries = append(s.Entries, Entry{randName(), randBytes(side)})
		}
		return s
	}
	for i := 0; i < nRandom; i++ {
		c := Case{InBin: r.Intn(4) != 0, Exe: randSlot("E", false), Lib: randSlot("L", true), OutPath: r.Intn(2) == 0}
		// platform: mostly one that some archive mentions
		var names []string
		for _, e := range c.Exe.Entries {
			names = append(names, e.Name)
		}
		for _, e := range c.Lib.Entries {
			names = append(names, e.Name)
		}
		if len(names) > 0 && r.Intn(4) != 0 {
			nm := names[r.Intn(len(names))]
			// split at a random underscore, if any
			var cuts []int
			for j := 0; j < len(nm); j++ {
				if nm[j] == '_' {
					cuts = append(cuts, j)
				}
			}
			if len(cuts) > 0 {
				k := cuts[r.Intn(len(cuts))]
				c.Goos, c.Goarch = nm[:k], nm[k+1:]
			} else {
				c.Goos, c.Goarch = nm, ""
			}
		} else {
			c.Goos, c.Goarch = goosPool[r.Intn(len(goosPool))], goarchPool[r.Intn(len(goarchPool))]
		}
		// make the other side carry the same entry name sometimes
		if isFile(c.Exe) && isFile(c.Lib) && len(c.Exe.Entries) > 0 && len(c.Lib.Entries) > 0 && r.Intn(2) == 0 {
			c.Lib.Entries[r.Intn(len(c.Lib.Entries))].Name = c.Goos + "_" + c.Goarch
			c.Exe.Entries[r.Intn(len(c.Exe.Entries))].Name = c.Goos + "_" + c.Goarch
		}
		// an explicit output path already holds a file in 3 of 4 cases
		add(withPre(c, r.Intn(8)%5), "random")
	}
	finish()
}
