// Harness for C31: drives the real state.Coalescer with strobe bursts whose
// gaps lie around the coalescing window (0.3w, 0.6w, w-e, w+e, 1.8w, 3w), with
// a consumer that is blocked on Signals() or with the channel only polled, and
// with Terminate at random points; records strobe call/return times, signal
// receive times, polls, Terminate and the end of the observation, and emits
// each timed history as a Coq term. The slack handed to the checker is at least
// 15 ms and grows with the scheduling jitter measured during the run, so an
// overloaded machine leads to fewer claims, never to a false alarm.
package main

import (
	"encoding/json"
	"fmt"
	"os"
	"sort"
	"strings"
	"sync"
	"sync/atomic"
	"time"

	"github.com/mutagen-io/mutagen/pkg/state"

	"verifharness/internal/hx"
)

// Step is one action of the driving goroutine.
type Step struct {
	K   string `json:"k"`           // S strobe, T terminate, P poll (non-blocking look at Signals()), C chain
	Gap int    `json:"gap"`         // microseconds to wait before the action
	N   int    `json:"n,omitempty"` // C: repetitions of "spin until a signal is received, strobe at once"
}

// Case is one scenario.
type Case struct {
	WindowUs int    `json:"window_us"`
	Listen   bool   `json:"listen"`
	// Immediate: the first strobe is issued right after NewCoalescer returns,
	// before the run loop goroutine can be expected to be parked in its select.
	Immediate bool   `json:"immediate,omitempty"`
	Steps     []Step `json:"steps"`
}

type event struct {
	seq  uint64
	s    string
	kind byte  // S G P c(Tc) r(Tr) E
	a, b int64 // times
}

type result struct {
	coq     string
	tags    []string
	nontriv bool
	late    bool // a deadline rule of the monitor would fire (used only to decide on a re-run)
}

// lateDeadline mirrors the deadline rules of the monitor in Model/Coalescer.v
// (obligation set by a strobe, cleared by a signal, voided by Terminate). It is
// NOT a judge: it only decides whether the scenario is run again, because a
// single late wake-up of one goroutine on an overloaded machine is not a
// property violation, whereas a defect shows up every time. Whatever history is
// finally emitted is judged by the Coq monitor alone.
func lateDeadline(evs []event, w, sl int64, listen bool) bool {
	haveOb, terminated := false, false
	var from, deadline, tret int64
	tretSet := false
	for _, e := range evs {
		switch e.kind {
		case 'S':
			if haveOb && listen && deadline < e.a {
				return true
			}
			if !terminated {
				haveOb, from, deadline = true, e.a, e.b+w+sl
			}
		case 'G':
			if listen && tretSet && tret+sl < e.a {
				return true
			}
			if haveOb && e.a+sl >= from+w { // a signal that can be the strobe's own
				if listen && deadline < e.a {
					return true
				}
				haveOb = false
			}
		case 'P':
			if haveOb && deadline < e.a {
				return true
			}
		case 'c':
			if haveOb {
				if deadline < e.a {
					if listen {
						return true
					}
				} else {
					haveOb = false
				}
			}
			terminated = true
		case 'r':
			tret, tretSet = e.a, true
		case 'E':
			if haveOb && listen && deadline < e.a {
				return true
			}
		}
	}
	return false
}

func runCase(c Case) result {
	window := time.Duration(c.WindowUs) * time.Microsecond
	var co *state.Coalescer
	start := time.Now()
	us := func() int64 { return time.Since(start).Microseconds() }
	var seq atomic.Uint64
	var mu sync.Mutex
	var evs []event
	add := func(s uint64, kind byte, a, b int64) {
		var text string
		switch kind {
		case 'S':
			text = fmt.Sprintf("S %d %d", a, b)
		case 'G':
			text = fmt.Sprintf("G %d", a)
		case 'P':
			text = fmt.Sprintf("P %d", a)
		case 'c':
			text = fmt.Sprintf("Tc %d", a)
		case 'r':
			text = fmt.Sprintf("Tr %d", a)
		case 'E':
			text = fmt.Sprintf("E %d", a)
		}
		mu.Lock()
		evs = append(evs, event{s, text, kind, a, b})
		mu.Unlock()
	}

	// jitter canary: how late does a 1 ms sleep wake up while the case runs?
	var maxJitter atomic.Int64
	stopCanary := make(chan struct{})
	canaryDone := make(chan struct{})
	go func() {
		defer close(canaryDone)
		for {
			select {
			case <-stopCanary:
				return
			default:
			}
			t0 := time.Now()
			time.Sleep(time.Millisecond)
			over := time.Since(t0).Microseconds() - 1000
			if over > maxJitter.Load() {
				maxJitter.Store(over)
			}
		}
	}()

	// reference path: the same mechanism (resettable timer -> loop goroutine ->
	// single-slot channel -> consumer goroutine) driven by the same strobes,
	// built here from scratch; how late ITS signals arrive measures the
	// scheduling latency of exactly this kind of path during this scenario.
	var maxRefLate atomic.Int64
	refStrobes := make(chan struct{}, 64)
	refSignals := make(chan int64, 1)
	stopRef := make(chan struct{})
	var refWG sync.WaitGroup
	refWG.Add(2)
	go func() {
		defer refWG.Done()
		timer := time.NewTimer(time.Hour)
		timer.Stop()
		var due int64
		for {
			select {
			case <-stopRef:
				timer.Stop()
				return
			case <-refStrobes:
				timer.Stop()
				select {
				case <-timer.C:
				default:
				}
				due = us() + int64(c.WindowUs)
				timer.Reset(window)
			case <-timer.C:
				select {
				case refSignals <- due:
				default:
				}
			}
		}
	}()
	go func() {
		defer refWG.Done()
		for {
			select {
			case due := <-refSignals:
				if late := us() - due; late > maxRefLate.Load() {
					maxRefLate.Store(late)
				}
			case <-stopRef:
				return
			}
		}
	}()

	strobes, terminated := 0, false
	if c.Immediate {
		// the call time is taken before the coalescer even exists (an earlier
		// call time only weakens what the monitor may claim)
		s := seq.Add(1)
		cT := us()
		co = state.NewCoalescer(window)
		co.Strobe()
		rT := us()
		select {
		case refStrobes <- struct{}{}:
		default:
		}
		add(s, 'S', cT, rT)
		strobes++
	} else {
		co = state.NewCoalescer(window)
	}

	stopConsumer := make(chan struct{})
	consumerDone := make(chan struct{})
	signals := 0
	if c.Listen {
		go func() {
			defer close(consumerDone)
			for {
				select {
				case <-co.Signals():
					t := us()
					add(seq.Add(1), 'G', t, 0)
					signals++
				case <-stopConsumer:
					return
				}
			}
		}()
	} else {
		close(consumerDone)
	}

	for _, st := range c.Steps {
		time.Sleep(time.Duration(st.Gap) * time.Microsecond)
		switch st.K {
		case "C":
			// tight chain: spin until a signal is received, strobe at once
			for i := 0; i < st.N; i++ {
				limit := time.Now().Add(window + 300*time.Millisecond)
				got := false
				for !got && time.Now().Before(limit) {
					select {
					case <-co.Signals():
						got = true
					default:
					}
				}
				t := us()
				if !got {
					add(seq.Add(1), 'P', t, 0)
					break
				}
				s1, s2 := seq.Add(1), seq.Add(1)
				co.Strobe()
				rT := us()
				add(s1, 'G', t, 0)
				add(s2, 'S', t, rT)
				signals++
				strobes++
			}
		case "S":
			s := seq.Add(1)
			cT := us()
			co.Strobe()
			rT := us()
			select {
			case refStrobes <- struct{}{}:
			default:
			}
			add(s, 'S', cT, rT)
			strobes++
		case "T":
			add(seq.Add(1), 'c', us(), 0)
			co.Terminate()
			add(seq.Add(1), 'r', us(), 0)
			terminated = true
		case "P":
			select {
			case <-co.Signals():
				add(seq.Add(1), 'G', us(), 0)
				signals++
			default:
				add(seq.Add(1), 'P', us(), 0)
			}
		default:
			panic("unknown step " + st.K)
		}
	}
	// keep observing for a window plus generous slack, then stop
	time.Sleep(window + 180*time.Millisecond)
	if !c.Listen {
		select {
		case <-co.Signals():
			add(seq.Add(1), 'G', us(), 0)
			signals++
		default:
			add(seq.Add(1), 'P', us(), 0)
		}
	}
	close(stopConsumer)
	<-consumerDone
	add(seq.Add(1), 'E', us(), 0)
	close(stopCanary)
	<-canaryDone
	close(stopRef)
	refWG.Wait()
	co.Terminate()

	// Slack: at least 15 ms. If the sleep canary or the reference path saw more
	// than 40 ms of scheduling latency the machine is overloaded: deadlines are
	// then not checked at all (slack 10 s), only the facts that do not depend on
	// timing remain.
	jitter := maxJitter.Load()
	if l := maxRefLate.Load(); l > jitter {
		jitter = l
	}
	slack := int64(15000)
	overloaded := jitter > 40000
	if overloaded {
		slack = 10000000
	} else if j := 3*jitter + 10000; j > slack {
		slack = j
	}
	sort.Slice(evs, func(i, j int) bool { return evs[i].seq < evs[j].seq })
	items := make([]string, len(evs))
	for i, e := range evs {
		items[i] = e.s
	}
	listen := "false"
	if c.Listen {
		listen = "true"
	}
	tags := []string{fmt.Sprintf("window_ms:%d", c.WindowUs/1000), "listen:" + listen,
		fmt.Sprintf("strobes:%d", min(strobes, 8)), fmt.Sprintf("signals:%d", min(signals, 8))}
	if terminated {
		tags = append(tags, "terminated")
	}
	if c.Immediate {
		tags = append(tags, "strobe-immediately-after-new")
	}
	for _, st := range c.Steps {
		if st.K == "C" {
			tags = append(tags, "chain:receive-then-strobe-at-once")
		}
	}
	switch {
	case overloaded:
		tags = append(tags, "slack:overloaded-no-deadline-claims")
	case slack == 15000:
		tags = append(tags, "slack:15ms")
	case slack <= 55000:
		tags = append(tags, "slack:16-55ms")
	default:
		tags = append(tags, "slack:56-130ms")
	}
	prevGap := ""
	for _, st := range c.Steps {
		if st.K != "S" {
			continue
		}
		r := float64(st.Gap) / float64(c.WindowUs)
		switch {
		case r < 0.8:
			prevGap = "gap:<0.8w"
		case r < 1.2:
			prevGap = "gap:~w"
		default:
			prevGap = "gap:>1.2w"
		}
		tags = append(tags, prevGap)
	}
	coq := fmt.Sprintf("(%d%%N, %d%%N, %s, %s)", c.WindowUs, slack, listen, hx.List(items))
	return result{coq: coq, tags: tags, nontriv: strobes >= 2 && signals >= 1,
		late: lateDeadline(evs, int64(c.WindowUs), slack, c.Listen)}
}

// solo lets a re-run execute while no other scenario of this process is running.
var solo sync.RWMutex

const header = "From Coq Require Import List Arith NArith.\nImport ListNotations.\nFrom Mv Require Import Model.Coalescer Harness.CoalescerH."

func main() {
	cfg := hx.Parse()
	w := hx.NewWriter(cfg, header, "ccase", "coalescer_failures", 250)
	w.Rule = "a case = one scenario run against the real Coalescer, recorded as a timed history (microseconds): strobe call/return, signal received, channel polled empty, Terminate call/return, end of observation; slack = max(15 ms, 3 x measured scheduling latency + 10 ms), or no deadline claims at all when that latency (sleep canary and a reference timer->goroutine->channel->goroutine path run alongside) exceeded 40 ms; distinct = distinct histories; non-trivial = at least two strobes and at least one signal"

	runBatch := func(cases []Case, origin string) {
		const par = 16
		for lo := 0; lo < len(cases) && !w.Aborted; lo += par {
			hi := min(lo+par, len(cases))
			res := make([]result, hi-lo)
			kinds := make([]string, hi-lo)
			details := make([]string, hi-lo)
			var wg sync.WaitGroup
			for i := lo; i < hi; i++ {
				wg.Add(1)
				go func(i int) {
					defer wg.Done()
					kinds[i-lo], details[i-lo] = hx.RunGuarded(60*time.Second, func() {
						solo.RLock()
						r := runCase(cases[i])
						solo.RUnlock()
						// A late wake-up must be reproducible to count: run the scenario
						// again, alone, up to twice; the last attempt is what is emitted.
						for attempt := 1; r.late && attempt <= 2; attempt++ {
							solo.Lock()
							r = runCase(cases[i])
							solo.Unlock()
							r.tags = append(r.tags, fmt.Sprintf("rerun:%d", attempt))
						}
						res[i-lo] = r
					})
				}(i)
			}
			wg.Wait()
			for i := lo; i < hi; i++ {
				if kinds[i-lo] != "" {
					w.RecordCrash(kinds[i-lo], details[i-lo], cases[i])
					continue
				}
				r := res[i-lo]
				w.Add(hx.Case{Coq: r.coq, Replay: cases[i], Nontrivial: r.nontriv, Tags: r.tags, Origin: origin})
			}
		}
	}

	if cfg.Replay != "" {
		b, err := os.ReadFile(cfg.Replay)
		if err != nil {
			panic(err)
		}
		var wrapper struct {
			Case Case `json:"case"`
		}
		if err := json.Unmarshal(b, &wrapper); err != nil {
			panic(err)
		}
		var cs []Case
		for i := 0; i < 10; i++ {
			cs = append(cs, wrapper.Case)
		}
		runBatch(cs, "replay")
		w.Close()
		return
	}

	var corpus []Case
	for _, raw := range hx.LoadCorpus(cfg.Corpus) {
		var c Case
		if json.Unmarshal(raw, &c) == nil && c.WindowUs > 0 {
			corpus = append(corpus, c)
		}
	}
	runBatch(corpus, "corpus")

	// Grid: every pattern of up to 3 further strobes with gaps from
	// {0.3w, 0.6w, 1.8w, 3w} after a first strobe, both consumer modes.
	ratios := []float64{0.3, 0.6, 1.8, 3.0}
	windows := []int{50000}
	if cfg.Thorough() {
		windows = []int{20000, 35000, 50000, 80000}
	}
	var grid []Case
	for _, win := range windows {
		for _, listen := range []bool{true, false} {
			for l := 0; l <= 3; l++ {
				idx := make([]int, l)
				for {
					steps := []Step{{K: "S", Gap: 2000}}
					for _, a := range idx {
						steps = append(steps, Step{K: "S", Gap: int(ratios[a] * float64(win))})
					}
					grid = append(grid, Case{WindowUs: win, Listen: listen, Steps: steps})
					j := l - 1
					for j >= 0 {
						idx[j]++
						if idx[j] < len(ratios) {
							break
						}
						idx[j] = 0
						j--
					}
					if j < 0 {
						break
					}
				}
			}
		}
	}
	// Slow consumer: the first signal is left in the channel for longer than a
	// window, a strobe arrives meanwhile, then the consumer takes the old
	// signal -- early in the strobe's window (the strobe's own signal must then
	// become available) or only after it (the strobe's signal was legitimately
	// dropped into the full slot).
	slowWindows := []int{120000, 180000}
	if cfg.Thorough() {
		slowWindows = []int{60000, 100000, 140000, 200000}
	}
	for rep := 0; rep < 2; rep++ {
		for _, win := range slowWindows {
			for _, leave := range []float64{1.5, 2.5} {
				for _, drain := range []float64{0.1, 0.25, 1.6} {
					f := func(x float64) int { return int(x * float64(win)) }
					grid = append(grid,
						Case{WindowUs: win, Steps: []Step{{K: "S", Gap: 2000}, {K: "S", Gap: f(leave)},
							{K: "P", Gap: f(drain)}, {K: "P", Gap: win + 180000}}},
						Case{WindowUs: win, Steps: []Step{{K: "S", Gap: 2000}, {K: "S", Gap: f(leave)},
							{K: "P", Gap: f(drain)}, {K: "S", Gap: f(0.2)}, {K: "P", Gap: win + 180000}}})
				}
			}
		}
	}
	// Strobe immediately after NewCoalescer (the run loop goroutine has not
	// parked in its select yet), and tight chains "receive a signal, strobe at
	// once" (the run loop has just delivered a signal): every strobe that
	// returned must still be followed by a signal.
	for rep := 0; rep < 8; rep++ {
		for _, win := range []int{3000, 20000, 60000} {
			for _, listen := range []bool{true, false} {
				grid = append(grid, Case{WindowUs: win, Listen: listen, Immediate: true})
				grid = append(grid, Case{WindowUs: win, Listen: listen, Immediate: true,
					Steps: []Step{{K: "S", Gap: 0}, {K: "S", Gap: 3 * win}}})
			}
		}
	}
	nChain := 8
	if cfg.Thorough() {
		nChain = 60
	}
	for i := 0; i < nChain; i++ {
		grid = append(grid, Case{WindowUs: 1000 + 500*(i%4), Immediate: i%2 == 0,
			Steps: []Step{{K: "S", Gap: 0}, {K: "C", N: 100}}})
	}
	runBatch(grid, "exhaustive")
	w.Extra["exhaustive_scope"] = fmt.Sprintf("every strobe pattern of 1..4 strobes with gaps from {0.3w, 0.6w, 1.8w, 3w}, windows %v us, with a listening consumer and with polling only; plus slow-consumer patterns (first signal left buffered for 1.5w/2.5w, a strobe meanwhile, the old signal taken 0.1w/0.25w/1.6w after that strobe, a look at the channel after window + 180 ms), windows %v us; plus 96 scenarios whose first strobe is issued immediately after NewCoalescer and %d chains of 100 x (spin until a signal is received, strobe at once)", windows, slowWindows, nChain)

	// Seeded random scenarios.
	nRandom := 300
	if cfg.Thorough() {
		nRandom = 9000
	}
	r := cfg.Rand
	var random []Case
	for i := 0; i < nRandom; i++ {
		win := 25000 + r.Intn(56)*1000
		c := Case{WindowUs: win, Listen: r.Intn(3) != 0}
		n := 1 + r.Intn(7)
		terminateAt := -1
		if r.Intn(3) == 0 {
			terminateAt = r.Intn(n + 1)
		}
		for s := 0; s < n; s++ {
			if s == terminateAt {
				c.Steps = append(c.Steps, Step{K: "T", Gap: r.Intn(2 * win)})
			}
			var gap int
			switch r.Intn(8) {
			case 0:
				gap = r.Intn(2000)
			case 1, 2:
				gap = win / 2
			case 3:
				gap = win - 1000 - r.Intn(4000)
			case 4:
				gap = win + 1000 + r.Intn(4000)
			case 5, 6:
				gap = 2*win + r.Intn(win)
			default:
				gap = r.Intn(3 * win)
			}
			c.Steps = append(c.Steps, Step{K: "S", Gap: gap})
			if !c.Listen && terminateAt < 0 && r.Intn(4) == 0 {
				// slow consumer: leave the signal buffered, strobe again, drain, look
				c.Steps = append(c.Steps, Step{K: "S", Gap: win + 40000 + r.Intn(win)},
					Step{K: "P", Gap: r.Intn(win / 3)}, Step{K: "P", Gap: win + 180000})
			}
			if !c.Listen && r.Intn(3) == 0 {
				c.Steps = append(c.Steps, Step{K: "P", Gap: r.Intn(2*win + 40000)})
			}
		}
		if terminateAt == n {
			c.Steps = append(c.Steps, Step{K: "T", Gap: r.Intn(2 * win)})
		}
		random = append(random, c)
	}
	runBatch(random, "random")
	w.Extra["traces_validated_against_impl"] = w.Total()
	w.Close()
	fmt.Println(strings.TrimSpace(fmt.Sprintf("cases %d", w.Total())))
}
