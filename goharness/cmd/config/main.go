// Harness for C37 (session configuration validation, merging and mode text
// forms). It runs the real mutagen code and emits each case with the
// implementation's result as a Coq term for Harness/ConfigH.v:
//
//	table   one enumeration: MarshalText / SupportStatus|Supported /
//	        UnmarshalText for raw values 0..n+1 and a pool of texts
//	const   numeric constants the model depends on
//	valid   Configuration.EnsureValid(endpointSpecific)
//	merge   MergeConfigurations(lower, higher)
//	file    core.EnsureDefaultFileModeValid      dir  ...DirectoryModeValid
//	owner   filesystem.ParseOwnershipIdentifier
//	create  the real creation path: service Server.Create (request validation)
//	        -> Manager.Create with a paused session in a scratch
//	        MUTAGEN_DATA_DIRECTORY, then a second Manager reloading the session
//	        from disk (Session.EnsureValid); and, on the real
//	        MergeConfigurations results for alpha and beta, the remote endpoint's
//	        InitializeSynchronizationRequest.ensureValid and local.NewEndpoint
//	        (with the effective permissions mode / default file mode the
//	        endpoint computed).
//
// With -fixed (or VERIF_FIXED=1) the cases tell the Coq side to compare with
// the repaired model (merged configurations validated at creation).
package main

import (
	"context"
	"encoding/json"
	"flag"
	"fmt"
	"io"
	"os"
	"path/filepath"
	"sort"
	"strings"
	"time"

	"github.com/mutagen-io/mutagen/pkg/filesystem"
	"github.com/mutagen-io/mutagen/pkg/filesystem/behavior"
	"github.com/mutagen-io/mutagen/pkg/identifier"
	"github.com/mutagen-io/mutagen/pkg/logging"
	"github.com/mutagen-io/mutagen/pkg/selection"
	svc "github.com/mutagen-io/mutagen/pkg/service/synchronization"
	"github.com/mutagen-io/mutagen/pkg/synchronization"
	"github.com/mutagen-io/mutagen/pkg/synchronization/compression"
	"github.com/mutagen-io/mutagen/pkg/synchronization/core"
	"github.com/mutagen-io/mutagen/pkg/synchronization/core/ignore"
	"github.com/mutagen-io/mutagen/pkg/synchronization/endpoint/local"
	"github.com/mutagen-io/mutagen/pkg/synchronization/endpoint/remote"
	"github.com/mutagen-io/mutagen/pkg/synchronization/hashing"
	"github.com/mutagen-io/mutagen/pkg/url"

	"verifharness/internal/coretree"
	"verifharness/internal/hx"
)

// Cfg is the replay form of a configuration (raw enumeration numbers).
type Cfg struct {
	Sync     int32    `json:"sync,omitempty"`
	Hash     int32    `json:"hash,omitempty"`
	MaxEntry uint64   `json:"max_entry,omitempty"`
	MaxStage uint64   `json:"max_stage,omitempty"`
	Probe    int32    `json:"probe,omitempty"`
	Scan     int32    `json:"scan,omitempty"`
	Stage    int32    `json:"stage,omitempty"`
	Symlink  int32    `json:"symlink,omitempty"`
	Watch    int32    `json:"watch,omitempty"`
	Poll     uint32   `json:"poll,omitempty"`
	Syntax   int32    `json:"syntax,omitempty"`
	DefIgn   []string `json:"default_ignores,omitempty"`
	Ign      []string `json:"ignores,omitempty"`
	VCS      int32    `json:"vcs,omitempty"`
	Perm     int32    `json:"perm,omitempty"`
	FMode    uint32   `json:"file_mode,omitempty"`
	DMode    uint32   `json:"dir_mode,omitempty"`
	Owner    string   `json:"owner,omitempty"`
	Group    string   `json:"group,omitempty"`
	Compr    int32    `json:"compression,omitempty"`
}

func (c Cfg) real() *synchronization.Configuration {
	return &synchronization.Configuration{
		SynchronizationMode:    core.SynchronizationMode(c.Sync),
		HashingAlgorithm:       hashing.Algorithm(c.Hash),
		MaximumEntryCount:      c.MaxEntry,
		MaximumStagingFileSize: c.MaxStage,
		ProbeMode:              behavior.ProbeMode(c.Probe),
		ScanMode:               synchronization.ScanMode(c.Scan),
		StageMode:              synchronization.StageMode(c.Stage),
		SymbolicLinkMode:       core.SymbolicLinkMode(c.Symlink),
		WatchMode:              synchronization.WatchMode(c.Watch),
		WatchPollingInterval:   c.Poll,
		IgnoreSyntax:           ignore.Syntax(c.Syntax),
		DefaultIgnores:         append([]string(nil), c.DefIgn...),
		Ignores:                append([]string(nil), c.Ign...),
		IgnoreVCSMode:          ignore.IgnoreVCSMode(c.VCS),
		PermissionsMode:        core.PermissionsMode(c.Perm),
		DefaultFileMode:        c.FMode,
		DefaultDirectoryMode:   c.DMode,
		DefaultOwner:           c.Owner,
		DefaultGroup:           c.Group,
		CompressionAlgorithm:   compression.Algorithm(c.Compr),
	}
}

func fromReal(c *synchronization.Configuration) Cfg {
	return Cfg{Sync: int32(c.SynchronizationMode), Hash: int32(c.HashingAlgorithm), MaxEntry: c.MaximumEntryCount,
		MaxStage: c.MaximumStagingFileSize, Probe: int32(c.ProbeMode), Scan: int32(c.ScanMode), Stage: int32(c.StageMode),
		Symlink: int32(c.SymbolicLinkMode), Watch: int32(c.WatchMode), Poll: c.WatchPollingInterval, Syntax: int32(c.IgnoreSyntax),
		DefIgn: c.DefaultIgnores, Ign: c.Ignores, VCS: int32(c.IgnoreVCSMode), Perm: int32(c.PermissionsMode),
		FMode: c.DefaultFileMode, DMode: c.DefaultDirectoryMode, Owner: c.DefaultOwner, Group: c.DefaultGroup,
		Compr: int32(c.CompressionAlgorithm)}
}

// str renders a Go string as a Coq string term.
func str(s string) string { return coretree.Str(s) }

func strList(l []string) string {
	items := make([]string, len(l))
	for i, s := range l {
		items[i] = str(s)
	}
	return hx.List(items)
}

func (c Cfg) isZero() bool {
	return c.Sync == 0 && c.Hash == 0 && c.MaxEntry == 0 && c.MaxStage == 0 && c.Probe == 0 && c.Scan == 0 &&
		c.Stage == 0 && c.Symlink == 0 && c.Watch == 0 && c.Poll == 0 && c.Syntax == 0 && len(c.DefIgn) == 0 &&
		len(c.Ign) == 0 && c.VCS == 0 && c.Perm == 0 && c.FMode == 0 && c.DMode == 0 && c.Owner == "" &&
		c.Group == "" && c.Compr == 0
}

func (c Cfg) coq() string {
	if c.isZero() {
		return "C0"
	}
	return fmt.Sprintf("(Cf %d %d %d %d %d %d %d %d %d %d %d %s %s %d %d %d %d %s %s %d)",
		c.Sync, c.Hash, c.MaxEntry, c.MaxStage, c.Probe, c.Scan, c.Stage, c.Symlink, c.Watch, c.Poll, c.Syntax,
		strList(c.DefIgn), strList(c.Ign), c.VCS, c.Perm, c.FMode, c.DMode, str(c.Owner), str(c.Group), c.Compr)
}

// Case is the replay form of one case.
type Case struct {
	Kind string `json:"kind"`
	Name string `json:"name,omitempty"` // table / const
	ES   bool   `json:"endpoint_specific,omitempty"`
	C    *Cfg   `json:"c,omitempty"`
	A    *Cfg   `json:"a,omitempty"`
	B    *Cfg   `json:"b,omitempty"`
	PM   int32  `json:"pm,omitempty"`
	Mode uint32 `json:"mode,omitempty"`
	Spec string `json:"spec,omitempty"`
}

// ---------------------------------------------------------------- error identities

var validationMessages = []struct {
	code int
	text string
}{
	{1, "nil configuration"},
	{2, "synchronization mode cannot be specified on an endpoint-specific basis"},
	{3, "unknown or unsupported synchronization mode"},
	{4, "hashing algorithm cannot be specified on an endpoint-specific basis"},
	{5, "unknown or unsupported hashing algorithm"},
	{6, "hashing algorithm requires Mutagen Pro license"},
	{7, "unknown or unsupported probe mode"},
	{8, "unknown or unsupported scan mode"},
	{9, "unknown or unsupported staging mode"},
	{10, "symbolic link mode cannot be specified on an endpoint-specific basis"},
	{11, "unknown or unsupported symbolic link mode"},
	{12, "unknown or unsupported watch mode"},
	{13, "ignore syntax cannot be specified on an endpoint-specific basis"},
	{14, "unknown or unsupported ignore syntax"},
	{15, "default ignores cannot be specified on an endpoint-specific basis (and are deprecated)"},
	{16, "ignores cannot be specified on an endpoint-specific basis"},
	{17, "VCS ignore mode cannot be specified on an endpoint-specific basis"},
	{18, "unknown or unsupported VCS ignore mode"},
	{19, "permissions mode cannot be specified on an endpoint-specific basis"},
	{20, "unknown or unsupported permissions mode"},
	{21, "invalid default file permission mode specified: zero-value file permission mode specified"},
	{22, "invalid default file permission mode specified: non-permission bits detected in file mode"},
	{23, "invalid default file permission mode specified: executability bits detected in file mode in portable permissions propagation mode"},
	{24, "invalid default directory permission mode specified: zero-value directory permission mode specified"},
	{25, "invalid default directory permission mode specified: non-permission bits detected in directory mode"},
	{26, "invalid default owner specification"},
	{27, "invalid default group specification"},
	{28, "unknown or unsupported compression algorithm"},
	{29, "compression algorithm requires Mutagen Pro license"},
	// bare forms returned by the core.EnsureDefault*ModeValid functions
	{21, "zero-value file permission mode specified"},
	{22, "non-permission bits detected in file mode"},
	{23, "executability bits detected in file mode in portable permissions propagation mode"},
	{24, "zero-value directory permission mode specified"},
	{25, "non-permission bits detected in directory mode"},
}

// validationCode maps an EnsureValid error to the identity used by the model
// (0 = nil, 99 = a message the model does not know).
func validationCode(err error) int {
	if err == nil {
		return 0
	}
	for _, m := range validationMessages {
		if err.Error() == m.text {
			return m.code
		}
	}
	return 99
}

// creationCode maps the error of Server.Create to 100*k+code (k: 1 session,
// 2 alpha-specific, 3 beta-specific, 4 merged alpha, 5 merged beta).
func creationCode(err error) int {
	if err == nil {
		return 0
	}
	msg := err.Error()
	msg = strings.TrimPrefix(msg, "invalid create request: ")
	msg = strings.TrimPrefix(msg, "invalid creation specification: ")
	for k, p := range []string{"invalid session configuration: ", "invalid alpha-specific configuration: ",
		"invalid beta-specific configuration: ", "invalid merged alpha configuration: ", "invalid merged beta configuration: "} {
		if strings.HasPrefix(msg, p) {
			return 100*(k+1) + validationCode(fmt.Errorf("%s", strings.TrimPrefix(msg, p)))
		}
	}
	return 999
}

// ---------------------------------------------------------------- enumeration tables

type enumOps struct {
	name      string
	count     int
	marshal   func(v int32) (string, error)
	status    func(v int32) int
	unmarshal func(t string) (int32, error)
}

func b2s(b bool) int {
	if b {
		return 2
	}
	return 0
}

func enums() []enumOps {
	return []enumOps{
		{"SynchronizationMode", len(core.SynchronizationMode_name),
			func(v int32) (string, error) { b, e := core.SynchronizationMode(v).MarshalText(); return string(b), e },
			func(v int32) int { return b2s(core.SynchronizationMode(v).Supported()) },
			func(t string) (int32, error) { var m core.SynchronizationMode; e := m.UnmarshalText([]byte(t)); return int32(m), e }},
		{"HashingAlgorithm", len(hashing.Algorithm_name),
			func(v int32) (string, error) { b, e := hashing.Algorithm(v).MarshalText(); return string(b), e },
			func(v int32) int { return int(hashing.Algorithm(v).SupportStatus()) },
			func(t string) (int32, error) { var m hashing.Algorithm; e := m.UnmarshalText([]byte(t)); return int32(m), e }},
		{"ProbeMode", len(behavior.ProbeMode_name),
			func(v int32) (string, error) { b, e := behavior.ProbeMode(v).MarshalText(); return string(b), e },
			func(v int32) int { return b2s(behavior.ProbeMode(v).Supported()) },
			func(t string) (int32, error) { var m behavior.ProbeMode; e := m.UnmarshalText([]byte(t)); return int32(m), e }},
		{"ScanMode", len(synchronization.ScanMode_name),
			func(v int32) (string, error) { b, e := synchronization.ScanMode(v).MarshalText(); return string(b), e },
			func(v int32) int { return b2s(synchronization.ScanMode(v).Supported()) },
			func(t string) (int32, error) { var m synchronization.ScanMode; e := m.UnmarshalText([]byte(t)); return int32(m), e }},
		{"StageMode", len(synchronization.StageMode_name),
			func(v int32) (string, error) { b, e := synchronization.StageMode(v).MarshalText(); return string(b), e },
			func(v int32) int { return b2s(synchronization.StageMode(v).Supported()) },
			func(t string) (int32, error) { var m synchronization.StageMode; e := m.UnmarshalText([]byte(t)); return int32(m), e }},
		{"SymbolicLinkMode", len(core.SymbolicLinkMode_name),
			func(v int32) (string, error) { b, e := core.SymbolicLinkMode(v).MarshalText(); return string(b), e },
			func(v int32) int { return b2s(core.SymbolicLinkMode(v).Supported()) },
			func(t string) (int32, error) { var m core.SymbolicLinkMode; e := m.UnmarshalText([]byte(t)); return int32(m), e }},
		{"WatchMode", len(synchronization.WatchMode_name),
			func(v int32) (string, error) { b, e := synchronization.WatchMode(v).MarshalText(); return string(b), e },
			func(v int32) int { return b2s(synchronization.WatchMode(v).Supported()) },
			func(t string) (int32, error) { var m synchronization.WatchMode; e := m.UnmarshalText([]byte(t)); return int32(m), e }},
		{"IgnoreSyntax", len(ignore.Syntax_name),
			func(v int32) (string, error) { b, e := ignore.Syntax(v).MarshalText(); return string(b), e },
			func(v int32) int { return b2s(ignore.Syntax(v).Supported()) },
			func(t string) (int32, error) { var m ignore.Syntax; e := m.UnmarshalText([]byte(t)); return int32(m), e }},
		{"IgnoreVCSMode", len(ignore.IgnoreVCSMode_name),
			// this mode has MarshalJSON (true/false) rather than MarshalText
			func(v int32) (string, error) { b, e := ignore.IgnoreVCSMode(v).MarshalJSON(); return string(b), e },
			func(v int32) int { return b2s(ignore.IgnoreVCSMode(v).Supported()) },
			func(t string) (int32, error) { var m ignore.IgnoreVCSMode; e := m.UnmarshalText([]byte(t)); return int32(m), e }},
		{"PermissionsMode", len(core.PermissionsMode_name),
			func(v int32) (string, error) { b, e := core.PermissionsMode(v).MarshalText(); return string(b), e },
			func(v int32) int { return b2s(core.PermissionsMode(v).Supported()) },
			func(t string) (int32, error) { var m core.PermissionsMode; e := m.UnmarshalText([]byte(t)); return int32(m), e }},
		{"CompressionAlgorithm", len(compression.Algorithm_name),
			func(v int32) (string, error) { b, e := compression.Algorithm(v).MarshalText(); return string(b), e },
			func(v int32) int { return int(compression.Algorithm(v).SupportStatus()) },
			func(t string) (int32, error) { var m compression.Algorithm; e := m.UnmarshalText([]byte(t)); return int32(m), e }},
	}
}

func optN(v int32, err error) string {
	if err != nil {
		return "None"
	}
	return fmt.Sprintf("(Some %d%%N)", v)
}

func tableCase(e enumOps, pool []string) string {
	var rows []string
	for v := int32(0); v < int32(e.count)+2; v++ {
		text, err := e.marshal(v)
		m, u := "None", "None"
		if err == nil {
			m = "(Some " + str(text) + ")"
			u = optN(e.unmarshal(text))
		}
		rows = append(rows, fmt.Sprintf("(%d%%N, %s, %d%%N, %s)", v, m, e.status(v), u))
	}
	var texts []string
	for _, t := range pool {
		texts = append(texts, "("+str(t)+", "+optN(e.unmarshal(t))+")")
	}
	return fmt.Sprintf("KTable %s %d %s %s", str(e.name), e.count, hx.List(rows), hx.List(texts))
}

// ---------------------------------------------------------------- creation path

type env struct {
	root   string
	logger *logging.Logger
	fixed  bool
	serial int
}

func coqBool(b bool) string {
	if b {
		return "true"
	}
	return "false"
}

// observe runs the endpoint-side checks on a merged configuration.
func (e *env) observe(merged *synchronization.Configuration, id, root string, alpha, runLocal bool) (string, int, int) {
	rerr := remote.VerifInitializeRequestEnsureValid(&remote.InitializeSynchronizationRequest{
		Session: id, Version: synchronization.DefaultVersion, Configuration: merged, Root: root, Alpha: alpha})
	rcode := 0
	if rerr != nil {
		msg := rerr.Error()
		if strings.HasPrefix(msg, "invalid configuration: ") {
			rcode = validationCode(fmt.Errorf("%s", strings.TrimPrefix(msg, "invalid configuration: ")))
		} else {
			rcode = 98
		}
	}
	// The local endpoint is only created for combinations that creation
	// accepted: with a configuration that validation refuses (e.g. an unknown
	// probe mode) NewEndpoint succeeds and its watching goroutine panics later,
	// which cannot be recovered here. 3 = not run.
	lcode, perm, fmode := 3, 0, 0
	if runLocal {
		lcode = 0
	}
	func() {
		if !runLocal {
			return
		}
		defer func() {
			if r := recover(); r != nil {
				lcode = 2
			}
		}()
		ep, err := local.NewEndpoint(e.logger, root, id, synchronization.DefaultVersion, merged, alpha)
		if err != nil {
			lcode = 1
			return
		}
		if p, fm, _, ok := local.VerifEffectivePermissions(ep); ok {
			perm, fmode = int(p), int(fm)
		}
		ep.Shutdown()
	}()
	obs := fmt.Sprintf("(Ob %s %d %d %d %d)", fromReal(merged).coq(), rcode, lcode, perm, fmode)
	return obs, rcode, lcode
}

func (e *env) createCase(c, a, b Cfg) (string, bool, []string) {
	e.serial++
	data := filepath.Join(e.root, fmt.Sprintf("data%d", e.serial))
	alphaRoot := filepath.Join(e.root, fmt.Sprintf("alpha%d", e.serial))
	betaRoot := filepath.Join(e.root, fmt.Sprintf("beta%d", e.serial))
	for _, d := range []string{data, alphaRoot, betaRoot} {
		if err := os.MkdirAll(d, 0o755); err != nil {
			panic(err)
		}
	}
	defer func() {
		os.RemoveAll(data)
		os.RemoveAll(alphaRoot)
		os.RemoveAll(betaRoot)
	}()
	os.Setenv("MUTAGEN_DATA_DIRECTORY", data)
	rc, ra, rb := c.real(), a.real(), b.real()

	// creation: the service layer validates the request, the manager creates
	// and persists the (paused) session
	manager, err := synchronization.NewManager(e.logger)
	if err != nil {
		panic(err)
	}
	server := svc.NewServer(manager)
	resp, cerr := server.Create(context.Background(), &svc.CreateRequest{
		Prompter: "verif-no-such-prompter",
		Specification: &svc.CreationSpecification{
			Alpha:              &url.URL{Kind: url.Kind_Synchronization, Protocol: url.Protocol_Local, Path: alphaRoot},
			Beta:               &url.URL{Kind: url.Kind_Synchronization, Protocol: url.Protocol_Local, Path: betaRoot},
			Configuration:      rc,
			ConfigurationAlpha: ra,
			ConfigurationBeta:  rb,
			Name:               "verifcase",
			Paused:             true,
		},
	})
	code := creationCode(cerr)
	manager.Shutdown()

	// reload: a new manager loads what is on disk (Session.EnsureValid)
	reload := false
	id := ""
	if cerr == nil {
		id = resp.Session
		m2, err := synchronization.NewManager(e.logger)
		if err != nil {
			panic(err)
		}
		ctx, cancel := context.WithTimeout(context.Background(), 20*time.Second)
		_, states, lerr := m2.List(ctx, &selection.Selection{All: true}, 0)
		cancel()
		if lerr != nil {
			panic(lerr)
		}
		for _, s := range states {
			if s.Session.Identifier == id {
				reload = true
			}
		}
		m2.Shutdown()
	} else {
		id, err = identifier.New(identifier.PrefixSynchronization)
		if err != nil {
			panic(err)
		}
	}

	// endpoints: the merged configurations the controller would hand over
	ma := synchronization.MergeConfigurations(rc, ra)
	mb := synchronization.MergeConfigurations(rc, rb)
	oa, ra1, la1 := e.observe(ma, id, alphaRoot, true, cerr == nil)
	ob, rb1, lb1 := e.observe(mb, id, betaRoot, false, cerr == nil)

	tags := []string{"create"}
	if code == 0 {
		tags = append(tags, "create:accepted")
		if ra1 != 0 || rb1 != 0 {
			tags = append(tags, "create:accepted-but-remote-endpoint-rejects")
		}
		if (la1 != 0 && la1 != 3) || (lb1 != 0 && lb1 != 3) {
			tags = append(tags, "create:accepted-but-local-endpoint-fails")
		}
	} else {
		tags = append(tags, fmt.Sprintf("create:rejected-%d", code))
	}
	nontrivial := !a.isZero() || !b.isZero()
	coq := fmt.Sprintf("KCreate %s %s %s %s %d %s %s %s", coqBool(e.fixed), c.coq(), a.coq(), b.coq(), code, coqBool(reload), oa, ob)
	return coq, nontrivial, tags
}

// ---------------------------------------------------------------- main

const header = "From Coq Require Import List String Bool NArith.\nImport ListNotations.\nFrom Mv Require Import Common.Bytes Model.Config Harness.ConfigH.\nLocal Open Scope string_scope.\nLocal Open Scope list_scope."

func main() {
	fixed := flag.Bool("fixed", false, "expect the repaired creation-time validation (merged configurations validated)")
	cfg := hx.Parse()
	if os.Getenv("VERIF_FIXED") == "1" {
		*fixed = true
	}
	w := hx.NewWriter(cfg, header, "ccase", "config_failures", 250)
	w.Rule = "cases: enumeration tables and constants printed from the real code; Configuration.EnsureValid / MergeConfigurations / file- and directory-mode validity / ownership syntax on structured inputs (result = which return statement fired); create = the real service Server.Create + Manager.Create (paused) + reload by a second Manager, and the real remote request validation and local.NewEndpoint on the real merged configurations. distinct = distinct Coq terms; non-trivial = (create, merge) an endpoint-specific or higher-priority configuration is not empty, (valid) the configuration is not empty"

	root, err := os.MkdirTemp("", "verif-")
	if err != nil {
		panic(err)
	}
	defer os.RemoveAll(root)
	e := &env{root: root, logger: logging.NewLogger(logging.LevelDisabled, io.Discard), fixed: *fixed}

	enumList := enums()
	pool := []string{"", "unknown", "Portable", " portable", "default"}
	for _, en := range enumList {
		for v := int32(1); v < int32(en.count); v++ {
			if t, err := en.marshal(v); err == nil {
				pool = append(pool, t)
			}
		}
	}
	sort.Strings(pool)
	pool = compact(pool)

	run := func(c Case) (string, bool, []string) {
		switch c.Kind {
		case "table":
			for _, en := range enumList {
				if en.name == c.Name {
					return tableCase(en, pool), true, []string{"table"}
				}
			}
			panic("unknown enumeration " + c.Name)
		case "const":
			var v uint64
			switch c.Name {
			case "ModePermissionsMask":
				v = uint64(filesystem.ModePermissionsMask)
			case "ExecutableBits":
				v = uint64(filesystem.ModePermissionUserExecute | filesystem.ModePermissionGroupExecute | filesystem.ModePermissionOthersExecute)
			case "DefaultVersion.DefaultPermissionsMode":
				v = uint64(synchronization.DefaultVersion.DefaultPermissionsMode())
			case "DefaultVersion.DefaultFileMode":
				v = uint64(synchronization.DefaultVersion.DefaultFileMode())
			case "PermissionsModePortable":
				v = uint64(core.PermissionsMode_PermissionsModePortable)
			case "PermissionsModeManual":
				v = uint64(core.PermissionsMode_PermissionsModeManual)
			case "EnumerationCount":
				v = uint64(len(enumList))
			default:
				panic("unknown constant " + c.Name)
			}
			return fmt.Sprintf("KConst %s %d", str(c.Name), v), true, []string{"const"}
		case "valid":
			code := validationCode(c.C.real().EnsureValid(c.ES))
			return fmt.Sprintf("KValid %s %s %d", coqBool(c.ES), c.C.coq(), code), !c.C.isZero(),
				[]string{"valid", fmt.Sprintf("valid:es=%v:result-%d", c.ES, code)}
		case "merge":
			m := synchronization.MergeConfigurations(c.A.real(), c.B.real())
			return fmt.Sprintf("KMerge %s %s %s", c.A.coq(), c.B.coq(), fromReal(m).coq()), !c.B.isZero(), []string{"merge"}
		case "file":
			code := validationCode(core.EnsureDefaultFileModeValid(core.PermissionsMode(c.PM), filesystem.Mode(c.Mode)))
			return fmt.Sprintf("KFile %d %d %d", c.PM, c.Mode, code), true, []string{"file-mode", fmt.Sprintf("file-mode:result-%d", code)}
		case "dir":
			code := validationCode(core.EnsureDefaultDirectoryModeValid(core.PermissionsMode(c.PM), filesystem.Mode(c.Mode)))
			return fmt.Sprintf("KDir %d %d %d", c.PM, c.Mode, code), true, []string{"dir-mode", fmt.Sprintf("dir-mode:result-%d", code)}
		case "owner":
			kind, _ := filesystem.ParseOwnershipIdentifier(c.Spec)
			return fmt.Sprintf("KOwner %s %s", str(c.Spec), coqBool(kind != filesystem.OwnershipIdentifierKindInvalid)), true, []string{"owner"}
		case "create":
			return e.createCase(*c.C, *c.A, *c.B)
		}
		panic("unknown case kind " + c.Kind)
	}

	add := func(c Case, origin string) {
		if w.Aborted {
			return
		}
		for _, p := range []**Cfg{&c.C, &c.A, &c.B} {
			if *p == nil {
				*p = &Cfg{}
			}
		}
		var coq string
		var nt bool
		var tags []string
		if w.Guard(c, 30*time.Second, func() { coq, nt, tags = run(c) }) {
			w.Add(hx.Case{Coq: coq, Replay: c, Nontrivial: nt, Tags: tags, Origin: origin})
		}
	}
	finish := func() {
		w.Close()
		fmt.Printf("cases %d\n", w.Total())
	}

	if cfg.Replay != "" {
		b, err := os.ReadFile(cfg.Replay)
		if err != nil {
			panic(err)
		}
		var wrapper struct {
			Case Case `json:"case"`
		}
		if err := json.Unmarshal(b, &wrapper); err != nil {
			panic(err)
		}
		add(wrapper.Case, "replay")
		finish()
		return
	}
	for _, raw := range hx.LoadCorpus(cfg.Corpus) {
		var c Case
		if json.Unmarshal(raw, &c) == nil && c.Kind != "" {
			add(c, "corpus")
		}
	}

	// ---- tables and constants
	for _, en := range enumList {
		add(Case{Kind: "table", Name: en.name}, "exhaustive")
	}
	for _, n := range []string{"ModePermissionsMask", "ExecutableBits", "DefaultVersion.DefaultPermissionsMode",
		"DefaultVersion.DefaultFileMode", "PermissionsModePortable", "PermissionsModeManual", "EnumerationCount"} {
		add(Case{Kind: "const", Name: n}, "exhaustive")
	}

	// ---- value domains
	fmodes := []uint32{0, 0o644, 0o755, 0o600, 0o111, 0o1644, 0o100, 0o001}
	dmodes := []uint32{0, 0o755, 0o700, 0o2755}
	perms := []int32{0, 1, 2, 3}
	patterns := []string{"*.o", "build/", "!keep.o", "a/b"}
	envOwners := []string{"", "id:0", "id:1000", "root"}
	envGroups := []string{"", "id:0", "root"}
	ownerSpecs := []string{"", "id:", "id:0", "id:00", "id:01", "id:10", "id:1a", "id:-1", "id:9", "id:99999999999999999999",
		"sid:", "sid:S-1-5-32-544", "sid", "root", "id", "ID:0", "i", "id:٣", "id:1\xff", " id:0", "0"}
	type field struct {
		name string
		set  func(c *Cfg, v int)
		vals []int
	}
	enumVals := func(n int) []int {
		var r []int
		for v := 1; v <= n+1; v++ {
			r = append(r, v)
		}
		return append(r, 99)
	}
	fields := []field{
		{"sync", func(c *Cfg, v int) { c.Sync = int32(v) }, enumVals(4)},
		{"hash", func(c *Cfg, v int) { c.Hash = int32(v) }, enumVals(3)},
		{"max_entry", func(c *Cfg, v int) { c.MaxEntry = uint64(v) }, []int{1, 1000}},
		{"max_stage", func(c *Cfg, v int) { c.MaxStage = uint64(v) }, []int{1, 4096}},
		{"probe", func(c *Cfg, v int) { c.Probe = int32(v) }, enumVals(2)},
		{"scan", func(c *Cfg, v int) { c.Scan = int32(v) }, enumVals(2)},
		{"stage", func(c *Cfg, v int) { c.Stage = int32(v) }, enumVals(3)},
		{"symlink", func(c *Cfg, v int) { c.Symlink = int32(v) }, enumVals(3)},
		{"watch", func(c *Cfg, v int) { c.Watch = int32(v) }, enumVals(3)},
		{"poll", func(c *Cfg, v int) { c.Poll = uint32(v) }, []int{1, 30}},
		{"syntax", func(c *Cfg, v int) { c.Syntax = int32(v) }, enumVals(2)},
		{"default_ignores", func(c *Cfg, v int) { c.DefIgn = patterns[:v] }, []int{1, 2}},
		{"ignores", func(c *Cfg, v int) { c.Ign = patterns[len(patterns)-v:] }, []int{1, 3}},
		{"vcs", func(c *Cfg, v int) { c.VCS = int32(v) }, enumVals(2)},
		{"perm", func(c *Cfg, v int) { c.Perm = int32(v) }, enumVals(2)},
		{"file_mode", func(c *Cfg, v int) { c.FMode = fmodes[v] }, []int{1, 2, 3, 4, 5, 6, 7}},
		{"dir_mode", func(c *Cfg, v int) { c.DMode = dmodes[v] }, []int{1, 2, 3}},
		{"owner", func(c *Cfg, v int) { c.Owner = envOwners[v] }, []int{1, 2, 3}},
		{"group", func(c *Cfg, v int) { c.Group = envGroups[v] }, []int{1, 2}},
		{"compression", func(c *Cfg, v int) { c.Compr = int32(v) }, enumVals(3)},
	}
	r := cfg.Rand
	// random configuration: every field is set with probability p; valid values favoured
	randCfg := func(p float64, envSafe bool) *Cfg {
		c := &Cfg{}
		for _, f := range fields {
			if r.Float64() < p {
				v := f.vals[r.Intn(len(f.vals))]
				if r.Intn(4) != 0 {
					v = f.vals[0] // the first value of every domain is a valid one
					if len(f.vals) > 1 && r.Intn(2) == 0 {
						v = f.vals[1]
					}
				}
				f.set(c, v)
			}
		}
		if !envSafe && r.Intn(6) == 0 {
			c.Owner = ownerSpecs[r.Intn(len(ownerSpecs))]
		}
		if !envSafe && r.Intn(6) == 0 {
			c.Group = ownerSpecs[r.Intn(len(ownerSpecs))]
		}
		return c
	}

	// ---- file / directory modes and ownership syntax
	step := 16
	if cfg.Thorough() {
		step = 1
	}
	for _, pm := range perms {
		seen := map[uint32]bool{}
		var ms []uint32
		for m := 0; m < 1100; m += step {
			ms = append(ms, uint32(m))
		}
		ms = append(ms, fmodes...)
		ms = append(ms, 0o777, 0o1000, 0o7777, 0o100644, 1<<31, 0o666, 0o010, 0o110)
		for _, m := range ms {
			if !seen[m] {
				seen[m] = true
				add(Case{Kind: "file", PM: pm, Mode: m}, "exhaustive")
				if pm < 2 {
					add(Case{Kind: "dir", PM: pm, Mode: m}, "exhaustive")
				}
			}
		}
	}
	for _, s := range ownerSpecs {
		add(Case{Kind: "owner", Spec: s}, "exhaustive")
	}

	// ---- EnsureValid: exhaustive over the interacting fields, every single field, random
	for _, es := range []bool{false, true} {
		for _, pm := range perms {
			for _, fm := range fmodes {
				for _, dm := range dmodes {
					add(Case{Kind: "valid", ES: es, C: &Cfg{Perm: pm, FMode: fm, DMode: dm}}, "exhaustive")
				}
			}
		}
		for _, f := range fields {
			for _, v := range f.vals {
				c := &Cfg{}
				f.set(c, v)
				add(Case{Kind: "valid", ES: es, C: c}, "exhaustive")
			}
		}
		for _, s := range ownerSpecs {
			add(Case{Kind: "valid", ES: es, C: &Cfg{Owner: s}}, "exhaustive")
			add(Case{Kind: "valid", ES: es, C: &Cfg{Group: s}}, "exhaustive")
		}
		// pairwise: every pair of fields, both set to an invalid-most value and to a valid one
		for i := range fields {
			for j := i + 1; j < len(fields); j++ {
				for _, pick := range []int{0, -1} {
					c := &Cfg{}
					vi, vj := fields[i].vals, fields[j].vals
					if pick == 0 {
						fields[i].set(c, vi[0])
						fields[j].set(c, vj[0])
					} else {
						fields[i].set(c, vi[len(vi)-1])
						fields[j].set(c, vj[len(vj)-1])
					}
					add(Case{Kind: "valid", ES: es, C: c}, "exhaustive")
				}
			}
		}
	}
	nValid := 300
	nMerge := 250
	nCreate := 200
	if cfg.Thorough() {
		nValid, nMerge, nCreate = 3000, 2000, 1500
	}
	for i := 0; i < nValid; i++ {
		add(Case{Kind: "valid", ES: r.Intn(2) == 0, C: randCfg(0.1+0.5*r.Float64(), false)}, "random")
	}

	// ---- MergeConfigurations: each field alone over {unset, v1, v2}^2, then random pairs
	for _, f := range fields {
		vs := []int{-1, f.vals[0], f.vals[len(f.vals)-1]}
		for _, lo := range vs {
			for _, hi := range vs {
				l, h := &Cfg{}, &Cfg{}
				if lo >= 0 {
					f.set(l, lo)
				}
				if hi >= 0 {
					f.set(h, hi)
				}
				add(Case{Kind: "merge", A: l, B: h}, "exhaustive")
			}
		}
	}
	for i := 0; i < nMerge; i++ {
		add(Case{Kind: "merge", A: randCfg(0.2+0.6*r.Float64(), false), B: randCfg(0.6*r.Float64(), false)}, "random")
	}

	// ---- creation: exhaustive over the interacting fields
	nExh := 0
	for _, pm := range []int32{0, 1, 2} {
		for _, cf := range []uint32{0, 0o644, 0o755} {
			for _, af := range []uint32{0, 0o644, 0o755, 0o1644} {
				for _, bf := range []uint32{0, 0o755} {
					for _, ad := range []uint32{0, 0o755} {
						nExh++
						add(Case{Kind: "create", C: &Cfg{Perm: pm, FMode: cf}, A: &Cfg{FMode: af, DMode: ad}, B: &Cfg{FMode: bf}}, "exhaustive")
					}
				}
			}
		}
	}
	// every single field set on the session, on alpha, on beta
	for _, f := range fields {
		for _, v := range f.vals {
			for side := 0; side < 3; side++ {
				if side == 2 && v != f.vals[0] {
					continue
				}
				cs := [3]*Cfg{{}, {}, {}}
				f.set(cs[side], v)
				nExh++
				add(Case{Kind: "create", C: cs[0], A: cs[1], B: cs[2]}, "exhaustive")
			}
		}
	}
	w.Extra["exhaustive_scope"] = fmt.Sprintf("tables: all 11 enumerations, raw values 0..n+1 and %d texts; file modes: 4 permission modes x {0..1099 step %d + boundary values}; EnsureValid: 2 x (4 permission modes x %d file modes x %d directory modes) + every single field at every domain value + all field pairs; merge: every field over {unset, v1, v2}^2; create: 3 session permission modes x 3 session file modes x 4 alpha file modes x 2 beta file modes x 2 alpha directory modes, and every single field at every domain value on the session, on alpha (and the first value on beta) = %d creations",
		len(pool), step, len(fmodes), len(dmodes), nExh)

	// random creations: mostly valid session configuration, endpoint-specific
	// parts that set the fields they may set (and sometimes ones they may not)
	epFields := []string{"max_entry", "max_stage", "probe", "scan", "stage", "watch", "poll", "file_mode", "dir_mode", "owner", "group", "compression"}
	isEp := map[string]bool{}
	for _, n := range epFields {
		isEp[n] = true
	}
	randEp := func() *Cfg {
		c := &Cfg{}
		for _, f := range fields {
			p := 0.03
			if isEp[f.name] {
				p = 0.2
			}
			if f.name == "file_mode" {
				p = 0.5
			}
			if r.Float64() < p {
				v := f.vals[0]
				if r.Intn(3) == 0 {
					v = f.vals[r.Intn(len(f.vals))]
				}
				f.set(c, v)
			}
		}
		return c
	}
	for i := 0; i < nCreate; i++ {
		c := randCfg(0.3*r.Float64(), true)
		if r.Intn(3) != 0 {
			c.Perm = int32(r.Intn(3))
		}
		add(Case{Kind: "create", C: c, A: randEp(), B: randEp()}, "random")
	}
	finish()
}

func compact(s []string) []string {
	var out []string
	for i, x := range s {
		if i == 0 || x != s[i-1] {
			out = append(out, x)
		}
	}
	return out
}
