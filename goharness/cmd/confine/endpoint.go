package main

import (
	"context"
	"fmt"
	"os"
	"path/filepath"

	"github.com/mutagen-io/mutagen/pkg/filesystem/behavior"
	"github.com/mutagen-io/mutagen/pkg/synchronization"
	"github.com/mutagen-io/mutagen/pkg/synchronization/core"
	"github.com/mutagen-io/mutagen/pkg/synchronization/endpoint/local"
	"github.com/mutagen-io/mutagen/pkg/synchronization/rsync"
)

// endpointCycle runs one synchronization cycle through two REAL local
// endpoints (alpha on src, beta on dst): Scan on both, reconcile alpha onto
// beta, beta.Stage (which uses stageFromRoot for content already present in
// its root), alpha.Supply into beta's receiver (rsync.Transmit through the
// Opener), beta.Transition, and at the end beta.Supply for the given paths. Between the scans and the staging, mutate() runs
// (directories become links to the canary). The Mutagen data directory (caches,
// staging roots) is dataDir, outside the roots.
func endpointCycle(src, dst, dataDir string, supply []string, col *collector, mutate func(), begin, end func()) (stagingRoot string, problems int, err error) {
	os.Setenv("MUTAGEN_DATA_DIRECTORY", dataDir)
	cfg := &synchronization.Configuration{
		WatchMode:        synchronization.WatchMode_WatchModeNoWatch,
		ProbeMode:        behavior.ProbeMode_ProbeModeAssume,
		SymbolicLinkMode: core.SymbolicLinkMode_SymbolicLinkModePOSIXRaw,
		StageMode:        synchronization.StageMode_StageModeMutagen,
	}
	session := "sync_verifconfine"
	alpha, err := local.NewEndpoint(nil, src, session, synchronization.Version_Version1, cfg, true)
	if err != nil {
		return "", 0, fmt.Errorf("alpha endpoint: %w", err)
	}
	defer alpha.Shutdown()
	beta, err := local.NewEndpoint(nil, dst, session, synchronization.Version_Version1, cfg, false)
	if err != nil {
		return "", 0, fmt.Errorf("beta endpoint: %w", err)
	}
	defer beta.Shutdown()
	stagingRoot = filepath.Join(dataDir, "staging", session+"-beta")

	ctx := context.Background()
	begin()
	defer end()
	sa, err, _ := alpha.Scan(ctx, nil, true)
	if err != nil {
		return stagingRoot, 0, fmt.Errorf("alpha scan: %w", err)
	}
	sb, err, _ := beta.Scan(ctx, nil, true)
	if err != nil {
		return stagingRoot, 0, fmt.Errorf("beta scan: %w", err)
	}
	_, _, betaChanges, _ := core.Reconcile(nil, sa.Content, sb.Content, core.SynchronizationMode_SynchronizationModeOneWayReplica)

	mutate()

	paths, digests := core.TransitionDependencies(betaChanges)
	filtered, signatures, receiver, err := beta.Stage(paths, digests)
	if err != nil {
		return stagingRoot, 0, fmt.Errorf("stage: %w", err)
	}
	if receiver != nil {
		if err := alpha.Supply(filtered, signatures, receiver); err != nil {
			return stagingRoot, 0, fmt.Errorf("supply: %w", err)
		}
	}
	_, probs, _, err := beta.Transition(ctx, betaChanges)
	if err != nil {
		return stagingRoot, 0, fmt.Errorf("transition: %w", err)
	}
	// finally the endpoint under test is asked to SUPPLY files (Endpoint.Supply
	// is rsync.Transmit on its root), for paths that by now cross links
	if len(supply) > 0 {
		if err := beta.Supply(supply, emptySignatures(len(supply)), rsync.NewEncodingReceiver(col)); err != nil {
			return stagingRoot, len(probs), fmt.Errorf("supply from the endpoint under test: %w", err)
		}
	}
	return stagingRoot, len(probs), nil
}
