// Harness for C17 (synchronization never reaches outside the root through
// in-root symbolic links).
//
// Two kinds of cases, both on the REAL code:
//
//  1. canary runs (in-process, many): a root is populated with files,
//     directories and symbolic links that point at a canary directory outside
//     the root (relative and absolute, to directories and to files); it is
//     scanned with core.Scan; then directories and files are REPLACED by links
//     to the canary (the window between scan and transition); then random
//     transitions (removals, creations, swaps, with files staged through the
//     real staging.Stager), filesystem.Opener opens, a supply request through
//     the real rsync.Transmit (what reaches the receiving side is recorded) and
//     a second scan run on it. The canary tree is hashed before and after and
//     must be untouched, and every operation whose path crosses a link must
//     have reported failure.
//
//  2. strace runs (child process, fewer): the harness re-executes itself in
//     -child mode to perform ONE operation (Opener.OpenFile sequence,
//     rsync.Transmit, core.Scan,
//     core.Transition - also with EXDEV injected into the rename, so that the
//     cross-device copy runs - or a whole cycle through two real local
//     endpoints: Scan, Stage with stageFromRoot, Supply, Transition) under
//     `strace -f -v -e trace=%file,getdents64,close`;
//     the system calls between two marker calls are handed to the Coq side
//     verbatim, which (a) checks every one of them is a confined primitive
//     (check_C17) and (b) replays the model's program for that operation
//     against them.
package main

import (
	"context"
	"crypto/sha1"
	"encoding/hex"
	"encoding/json"
	"fmt"
	"io"
	"os"
	"os/exec"
	"path/filepath"
	"regexp"
	"runtime"
	"sort"
	"strconv"
	"strings"
	"time"

	"google.golang.org/protobuf/proto"

	"github.com/mutagen-io/mutagen/pkg/filesystem"
	"github.com/mutagen-io/mutagen/pkg/filesystem/behavior"
	"github.com/mutagen-io/mutagen/pkg/synchronization/core"
	mutagenignore "github.com/mutagen-io/mutagen/pkg/synchronization/core/ignore/mutagen"
	"github.com/mutagen-io/mutagen/pkg/synchronization/endpoint/local/staging"
	"github.com/mutagen-io/mutagen/pkg/synchronization/rsync"

	"verifharness/internal/coretree"
	"verifharness/internal/hx"
	"verifharness/internal/stracelog"
)

// ------------------------------------------------------------------ trees

// Node is an entry of a test tree: a file (Data), a directory (Children) or a
// symbolic link (Target).
type Node struct {
	Name     string  `json:"name"`
	Kind     string  `json:"kind"` // file | dir | link
	Data     string  `json:"data,omitempty"`
	Target   string  `json:"target,omitempty"`
	Children []*Node `json:"children,omitempty"`
}

func build(dir string, nodes []*Node) {
	for _, n := range nodes {
		p := filepath.Join(dir, n.Name)
		switch n.Kind {
		case "file":
			must(os.WriteFile(p, []byte(n.Data), 0o644))
		case "dir":
			must(os.Mkdir(p, 0o755))
			build(p, n.Children)
		case "link":
			must(os.Symlink(n.Target, p))
		}
	}
}

func must(err error) {
	if err != nil {
		panic(err)
	}
}

// hashTree digests everything observable about a tree except access times.
func hashTree(dir string) string {
	h := sha1.New()
	var walk func(p string)
	walk = func(p string) {
		info, err := os.Lstat(p)
		if err != nil {
			fmt.Fprintf(h, "ERR %s %v\n", p, err)
			return
		}
		fmt.Fprintf(h, "%s %v %d %d\n", p, info.Mode(), info.Size(), info.ModTime().UnixNano())
		switch {
		case info.Mode()&os.ModeSymlink != 0:
			t, _ := os.Readlink(p)
			fmt.Fprintf(h, "-> %s\n", t)
		case info.IsDir():
			ents, _ := os.ReadDir(p)
			for _, e := range ents {
				walk(filepath.Join(p, e.Name()))
			}
		default:
			b, _ := os.ReadFile(p)
			h.Write(b)
		}
	}
	walk(dir)
	return hex.EncodeToString(h.Sum(nil))
}

// Area is one test area: <tmp>/root, <tmp>/canary, <tmp>/staging.
type Area struct {
	Dir, Root, Canary, Staging string
}

func newArea(rootName string) *Area {
	d, err := os.MkdirTemp("", "verif-")
	must(err)
	a := &Area{Dir: d, Root: filepath.Join(d, rootName), Canary: filepath.Join(d, "canary"), Staging: filepath.Join(d, "staging")}
	must(os.Mkdir(a.Canary, 0o755))
	build(a.Canary, []*Node{
		{Name: "f", Kind: "file", Data: "canary-f"},
		{Name: "secret", Kind: "file", Data: "canary-secret"},
		{Name: "e", Kind: "file", Data: "canary-e"},
		{Name: "sub", Kind: "dir", Children: []*Node{{Name: "g", Kind: "file", Data: "canary-g"}, {Name: "f", Kind: "file", Data: "canary-sub-f"}}},
		{Name: "d", Kind: "dir", Children: []*Node{{Name: "f", Kind: "file", Data: "canary-d-f"}, {Name: "sub", Kind: "dir", Children: []*Node{{Name: "g", Kind: "file", Data: "canary-d-sub-g"}}}}},
	})
	return a
}

func (a *Area) remove() { os.RemoveAll(a.Dir) }

func scan(root string, baseline *core.Snapshot, cache *core.Cache) (*core.Snapshot, *core.Cache, error) {
	ignorer, err := mutagenignore.NewIgnorer(nil)
	must(err)
	snap, newCache, _, err := core.Scan(context.Background(), root, nil, nil, sha1.New(), cache, ignorer, nil,
		behavior.ProbeMode_ProbeModeAssume, core.SymbolicLinkMode_SymbolicLinkModePOSIXRaw,
		core.PermissionsMode_PermissionsModePortable)
	return snap, newCache, err
}

func entryAt(e *core.Entry, path string) *core.Entry {
	if path == "" {
		return e
	}
	for _, c := range strings.Split(path, "/") {
		if e == nil || e.Contents == nil {
			return nil
		}
		e = e.Contents[c]
	}
	return e
}

func allPaths(e *core.Entry, prefix string, out *[]string) {
	if e == nil {
		return
	}
	names := make([]string, 0, len(e.Contents))
	for n := range e.Contents {
		names = append(names, n)
	}
	sort.Strings(names)
	for _, n := range names {
		p := n
		if prefix != "" {
			p = prefix + "/" + n
		}
		*out = append(*out, p)
		allPaths(e.Contents[n], p, out)
	}
}

// crossesLink reports whether a strict prefix of path (parents only, or the
// leaf too) is a symbolic link on disk right now.
func crossesLink(root, path string, includeLeaf bool) bool {
	comps := strings.Split(path, "/")
	n := len(comps)
	if !includeLeaf {
		n--
	}
	p := root
	if info, err := os.Lstat(p); err == nil && info.Mode()&os.ModeSymlink != 0 {
		return true
	}
	for i := 0; i < n; i++ {
		p = filepath.Join(p, comps[i])
		if info, err := os.Lstat(p); err == nil && info.Mode()&os.ModeSymlink != 0 {
			return true
		}
	}
	return false
}

// stage puts content into the staging store the way a receiver would.
func stage(st *staging.Stager, path string, content []byte) []byte {
	sink, err := st.Sink(path)
	must(err)
	_, err = sink.Write(content)
	must(err)
	must(sink.Close())
	d := sha1.Sum(content)
	return d[:]
}

// ------------------------------------------------------------ supplying

// collector is an rsync.Encoder that records, per requested file, the literal
// data and the error message that reached the receiving side.
type collector struct {
	Data    [][]byte `json:"data"`
	Errors  []string `json:"errors"`
	current []byte
}

func (c *collector) Encode(t *rsync.Transmission) error {
	if t.Operation != nil {
		c.current = append(c.current, t.Operation.Data...)
	}
	if t.Done {
		c.Data = append(c.Data, c.current)
		c.Errors = append(c.Errors, t.Error)
		c.current = nil
	}
	return nil
}

func (c *collector) Finalize() error { return nil }

func emptySignatures(n int) []*rsync.Signature {
	out := make([]*rsync.Signature, n)
	for i := range out {
		out[i] = &rsync.Signature{}
	}
	return out
}

// supplyFailures judges what a supply request delivered: a path that crosses
// a link (crosses[i]) must have produced an error and no data, and no data at
// all may come from the canary (every canary file's content contains "canary").
func supplyFailures(paths []string, crosses []bool, c *collector) []string {
	var out []string
	if len(c.Data) != len(paths) {
		return []string{fmt.Sprintf("supply answered %d of %d requested paths", len(c.Data), len(paths))}
	}
	for i, p := range paths {
		if strings.Contains(string(c.Data[i]), "canary") {
			out = append(out, "supply delivered data from the canary for "+p)
		}
		if crosses[i] && (c.Errors[i] == "" || len(c.Data[i]) > 0) {
			out = append(out, "supply of a path crossing a link did not fail: "+p)
		}
	}
	return out
}

// ------------------------------------------------------------ canary runs

// CanaryCase is the replay form of a canary run: everything derives from the
// seed.
type CanaryCase struct {
	Seed int64  `json:"seed"`
	Kind string `json:"kind"`
}

type rng interface{ Intn(int) int }

func randomTree(r rng, depth int, a *Area, counter *int) []*Node {
	n := 2 + r.Intn(4)
	var out []*Node
	for i := 0; i < n; i++ {
		*counter++
		name := fmt.Sprintf("n%d", *counter)
		switch k := r.Intn(10); {
		case k < 4:
			out = append(out, &Node{Name: name, Kind: "file", Data: fmt.Sprintf("data-%d-%d", *counter, r.Intn(1000))})
		case k < 7 && depth > 0:
			out = append(out, &Node{Name: name, Kind: "dir", Children: randomTree(r, depth-1, a, counter)})
		default:
			targets := []string{a.Canary, a.Canary + "/sub", a.Canary + "/f", "../canary", "../../canary", "../canary/secret", "../../../" + filepath.Base(a.Dir) + "/canary/d", "n1", "."}
			out = append(out, &Node{Name: name, Kind: "link", Target: targets[r.Intn(len(targets))]})
		}
	}
	return out
}

// replaceByLink removes whatever is at p and puts a link to the canary there.
func replaceByLink(r rng, a *Area, p string) {
	must(os.RemoveAll(p))
	targets := []string{a.Canary, a.Canary + "/d", a.Canary + "/sub", a.Canary + "/f"}
	must(os.Symlink(targets[r.Intn(len(targets))], p))
}

// runCanary performs one canary run and returns whether the canary is intact
// and every link-crossing operation failed, plus distribution tags.
func runCanary(c CanaryCase) (ok bool, detail string, tags []string) {
	r := newRand(c.Seed)
	a := newArea("root")
	defer a.remove()
	counter := 0
	must(os.Mkdir(a.Root, 0o755))
	// fixed names that also exist in the canary, so that a followed link finds
	// something to destroy
	build(a.Root, []*Node{
		{Name: "d", Kind: "dir", Children: []*Node{{Name: "f", Kind: "file", Data: "root-d-f"}, {Name: "sub", Kind: "dir", Children: []*Node{{Name: "g", Kind: "file", Data: "root-d-sub-g"}}}}},
		{Name: "e", Kind: "file", Data: "root-e"},
		{Name: "l", Kind: "link", Target: "../canary"},
		{Name: "labs", Kind: "link", Target: a.Canary},
		{Name: "lf", Kind: "link", Target: "../canary/secret"},
	})
	build(a.Root, randomTree(r, 2, a, &counter))
	before := hashTree(a.Canary)

	snap, cache, err := scan(a.Root, nil, nil)
	if err != nil {
		panic(fmt.Sprintf("initial scan failed: %v", err))
	}
	var paths []string
	allPaths(snap.Content, "", &paths)

	// the window between scan and transition: directories and files become
	// links to the canary
	replaced := 0
	if c.Kind == "root-replaced" {
		must(os.Rename(a.Root, a.Root+".moved"))
		must(os.Symlink(a.Canary, a.Root))
		replaced++
	} else {
		for _, p := range paths {
			e := entryAt(snap.Content, p)
			if e == nil || e.Kind == core.EntryKind_SymbolicLink {
				continue
			}
			if crossesLink(a.Root, p, false) {
				continue // below something already replaced: never touch the canary ourselves
			}
			if _, err := os.Lstat(filepath.Join(a.Root, p)); err != nil {
				continue
			}
			if r.Intn(4) == 0 {
				replaceByLink(r, a, filepath.Join(a.Root, p))
				replaced++
			}
		}
	}
	tags = append(tags, "kind:"+c.Kind, fmt.Sprintf("replaced:%d", min(replaced, 5)))

	st := staging.NewStager(a.Staging, false, 1<<30, sha1.New)
	must(st.Initialize())
	var failures []string
	crossings := 0

	// transitions, one change per call so that failure is attributable
	nChanges := 4 + r.Intn(6)
	for i := 0; i < nChanges; i++ {
		var ch *core.Change
		kind := r.Intn(4)
		pick := func() string {
			if len(paths) == 0 {
				return "e"
			}
			return paths[r.Intn(len(paths))]
		}
		switch kind {
		case 0: // remove something that was scanned
			p := pick()
			ch = &core.Change{Path: p, Old: entryAt(snap.Content, p)}
		case 1: // swap a file
			p := pick()
			old := entryAt(snap.Content, p)
			if old == nil || old.Kind != core.EntryKind_File {
				continue
			}
			content := []byte(fmt.Sprintf("new-%d", r.Intn(1000)))
			d := stage(st, p, content)
			ch = &core.Change{Path: p, Old: old, New: &core.Entry{Kind: core.EntryKind_File, Digest: d}}
		case 2: // create a file or a link below a scanned directory (or at a fresh top-level name)
			parent := pick()
			pe := entryAt(snap.Content, parent)
			p := fmt.Sprintf("fresh%d", i)
			if pe != nil && pe.Kind == core.EntryKind_Directory {
				p = parent + "/" + p
			}
			if r.Intn(3) == 0 {
				ch = &core.Change{Path: p, New: &core.Entry{Kind: core.EntryKind_SymbolicLink, Target: "../canary/f"}}
			} else {
				content := []byte(fmt.Sprintf("created-%d", r.Intn(1000)))
				d := stage(st, p, content)
				ch = &core.Change{Path: p, New: &core.Entry{Kind: core.EntryKind_File, Digest: d}}
			}
		case 3: // create a directory tree
			parent := pick()
			pe := entryAt(snap.Content, parent)
			p := fmt.Sprintf("newdir%d", i)
			if pe != nil && pe.Kind == core.EntryKind_Directory {
				p = parent + "/" + p
			}
			content := []byte(fmt.Sprintf("nested-%d", r.Intn(1000)))
			d1 := stage(st, p+"/x", content)
			d2 := stage(st, p+"/sub/y", content)
			ch = &core.Change{Path: p, New: &core.Entry{Kind: core.EntryKind_Directory, Contents: map[string]*core.Entry{
				"x":   {Kind: core.EntryKind_File, Digest: d1},
				"sub": {Kind: core.EntryKind_Directory, Contents: map[string]*core.Entry{"y": {Kind: core.EntryKind_File, Digest: d2}}},
				"ln":  {Kind: core.EntryKind_SymbolicLink, Target: "../../canary"},
			}}}
		}
		if ch == nil || (ch.Old == nil && ch.New == nil) {
			continue
		}
		crosses := crossesLink(a.Root, ch.Path, false)
		_, problems, _ := core.Transition(context.Background(), a.Root, []*core.Change{ch}, cache,
			core.SymbolicLinkMode_SymbolicLinkModePOSIXRaw, 0o600, 0o700, nil, false, st)
		tags = append(tags, fmt.Sprintf("transition:%d", kind))
		if crosses {
			crossings++
			if len(problems) == 0 {
				failures = append(failures, "transition crossing a link reported no problem: "+ch.Path)
			}
		}
	}

	// opens the way rsync does them
	opener := filesystem.NewOpener(a.Root)
	evil := []string{"l/secret", "labs/f", "lf", "l/sub/g", "d/../../canary/f", "../canary/f", "l/../e", "d//f", "./e", "d/f", "e"}
	var opens []string
	for i := 0; i < 6; i++ {
		if r.Intn(2) == 0 && len(paths) > 0 {
			opens = append(opens, paths[r.Intn(len(paths))])
		} else {
			opens = append(opens, evil[r.Intn(len(evil))])
		}
	}
	sort.Strings(opens) // depth-first-ish order exercises the handle stack
	for _, p := range opens {
		crosses := crossesLink(a.Root, p, true)
		f, _, err := opener.OpenFile(p)
		if err == nil {
			io.Copy(io.Discard, f)
			f.Close()
		}
		if crosses {
			crossings++
			if err == nil {
				failures = append(failures, "Opener.OpenFile through a link succeeded: "+p)
			}
		}
	}
	opener.Close()

	// supplying file data: the real rsync.Transmit on the root
	supply := []string{"l/secret", "labs/f", "lf", "l/sub/g", "d/f", "d/sub/g", "e"}
	for i := 0; i < 5 && len(paths) > 0; i++ {
		supply = append(supply, paths[r.Intn(len(paths))])
	}
	sort.Strings(supply)
	crossFlags := make([]bool, len(supply))
	for i, p := range supply {
		crossFlags[i] = crossesLink(a.Root, p, true)
		if crossFlags[i] {
			crossings++
		}
	}
	col := &collector{}
	if err := rsync.Transmit(a.Root, supply, emptySignatures(len(supply)), rsync.NewEncodingReceiver(col)); err != nil {
		failures = append(failures, "rsync.Transmit failed as a whole: "+err.Error())
	} else {
		failures = append(failures, supplyFailures(supply, crossFlags, col)...)
	}
	tags = append(tags, "supply")

	// a scan of the root as it is now
	if _, _, err := scan(a.Root, snap, cache); err != nil && c.Kind != "root-replaced" {
		// a failing scan is allowed; it must simply not touch the canary
		tags = append(tags, "rescan:error")
	}
	st.Finalize()

	after := hashTree(a.Canary)
	tags = append(tags, fmt.Sprintf("crossings:%d", min(crossings, 9)))
	if before != after {
		failures = append(failures, "the canary directory changed")
	}
	return len(failures) == 0, strings.Join(failures, "; "), tags
}

// ------------------------------------------------------------ strace runs

// Spec is what a -child run performs.
type Spec struct {
	Op      string   `json:"op"` // opener | scan | transition
	Root    string   `json:"root"`
	Staging string   `json:"staging"`
	Paths   []string `json:"paths,omitempty"`
	Source  string   `json:"source,omitempty"`  // endpoint: the alpha root
	DataDir string   `json:"datadir,omitempty"` // endpoint: MUTAGEN_DATA_DIRECTORY
	Replace []string `json:"replace,omitempty"` // endpoint: paths under Root replaced by links to Canary in mid-cycle
	Canary  string   `json:"canary,omitempty"`
	Result  string   `json:"result,omitempty"` // where the child reports what a supply request delivered
	Supply  []string `json:"supply,omitempty"` // endpoint: paths requested from the endpoint under test at the end
	Cache   []byte   `json:"cache,omitempty"`
	Changes [][]byte `json:"changes,omitempty"`
}

func marker(s string) { os.Stat("/verif-marker-" + s) }

func init() {
	// strace counts `when=` per thread: keep the child's operation on the main
	// thread so that an injected EXDEV hits exactly the first rename.
	if len(os.Args) > 1 && os.Args[1] == "-child" {
		runtime.LockOSThread()
	}
}

func child(specPath string) {
	b, err := os.ReadFile(specPath)
	must(err)
	var spec Spec
	must(json.Unmarshal(b, &spec))
	switch spec.Op {
	case "opener":
		marker("begin")
		opener := filesystem.NewOpener(spec.Root)
		for _, p := range spec.Paths {
			if f, _, err := opener.OpenFile(p); err == nil {
				f.Close()
			}
		}
		opener.Close()
		marker("end")
	case "transmit":
		col := &collector{}
		marker("begin")
		err := rsync.Transmit(spec.Root, spec.Paths, emptySignatures(len(spec.Paths)), rsync.NewEncodingReceiver(col))
		marker("end")
		if err != nil {
			fmt.Fprintln(os.Stderr, err)
			os.Exit(5)
		}
		rb, _ := json.Marshal(col)
		must(os.WriteFile(spec.Result, rb, 0o600))
	case "scan":
		ignorer, err := mutagenignore.NewIgnorer(nil)
		must(err)
		marker("begin")
		core.Scan(context.Background(), spec.Root, nil, nil, sha1.New(), nil, ignorer, nil,
			behavior.ProbeMode_ProbeModeAssume, core.SymbolicLinkMode_SymbolicLinkModePOSIXRaw,
			core.PermissionsMode_PermissionsModePortable)
		marker("end")
	case "transition":
		cache := &core.Cache{}
		must(proto.Unmarshal(spec.Cache, cache))
		var changes []*core.Change
		for _, cb := range spec.Changes {
			ch := &core.Change{}
			must(proto.Unmarshal(cb, ch))
			changes = append(changes, ch)
		}
		st := staging.NewStager(spec.Staging, false, 1<<30, sha1.New)
		must(st.Initialize())
		marker("begin")
		core.Transition(context.Background(), spec.Root, changes, cache,
			core.SymbolicLinkMode_SymbolicLinkModePOSIXRaw, 0o600, 0o700, nil, false, st)
		marker("end")
	case "endpoint":
		col := &collector{}
		_, _, err := endpointCycle(spec.Source, spec.Root, spec.DataDir, spec.Supply, col, func() {
			marker("pause")
			for _, p := range spec.Replace {
				must(os.RemoveAll(filepath.Join(spec.Root, p)))
				must(os.Symlink(spec.Canary, filepath.Join(spec.Root, p)))
			}
			marker("begin")
		}, func() { marker("begin") }, func() { marker("end") })
		if err != nil {
			fmt.Fprintln(os.Stderr, err)
			os.Exit(4)
		}
		rb, _ := json.Marshal(col)
		must(os.WriteFile(spec.Result, rb, 0o600))
	default:
		os.Exit(9)
	}
	os.Exit(0)
}

var (
	reMode  = regexp.MustCompile(`st_mode=(S_IF[A-Z]+)`)
	reDName = regexp.MustCompile(`d_name=("(?:[^"\\]|\\.)*")`)
)

func fdTerm(arg string) string {
	if arg == "AT_FDCWD" {
		return "N_"
	}
	if n, err := strconv.Atoi(arg); err == nil && n >= 0 {
		return fmt.Sprintf("(F %d)", n)
	}
	return "(F 99999)" // not a plain descriptor: unknown to the checker
}

func flagsTerm(arg string) string {
	if arg == "" || arg == "0" {
		return "[]"
	}
	parts := strings.Split(arg, "|")
	items := make([]string, len(parts))
	for i, p := range parts {
		items[i] = coretree.Str(p)
	}
	return "[" + strings.Join(items, ";") + "]"
}

func pathArg(arg string) string {
	if s, ok := stracelog.Unquote(arg); ok {
		return s
	}
	return "<unparsed:" + arg + ">"
}

// observations renders the calls between the markers as Coq terms.
func observations(log *stracelog.Log, keep func(path string) int) (terms []string, count int, tags []string) {
	inside := false
	skipFds := map[int]bool{}
	var pendingFd = -1
	var pendingNames []string
	flush := func() {
		if pendingFd >= 0 {
			items := make([]string, len(pendingNames))
			for i, n := range pendingNames {
				items[i] = coretree.Str(n)
			}
			terms = append(terms, fmt.Sprintf("Ls %d [%s]", pendingFd, strings.Join(items, ";")))
			pendingFd, pendingNames = -1, nil
		}
	}
	for i := range log.Records {
		r := &log.Records[i]
		if r.Name == "newfstatat" && len(r.Args) >= 2 {
			if p := pathArg(r.Args[1]); strings.HasPrefix(p, "/verif-marker-") {
				flush()
				inside = p == "/verif-marker-begin"
				continue
			}
		}
		if !inside || r.Name == "???" {
			continue
		}
		// Endpoint runs only: calls about OTHER places than the root under test
		// are not part of the observation: absolute paths outside the test
		// area (the Mutagen data directory, the other endpoint's root), and
		// everything relative to a descriptor opened by such a path or by a
		// path inside the staging directory (os.RemoveAll's housekeeping there).
		if keep != nil {
			fdOf := func(a string) int {
				if n, err := strconv.Atoi(a); err == nil {
					return n
				}
				return -1
			}
			if r.Name == "close" && len(r.Args) >= 1 {
				delete(skipFds, fdOf(r.Args[0]))
			} else if r.Name == "getdents64" && len(r.Args) >= 1 && skipFds[fdOf(r.Args[0])] {
				continue
			} else if len(r.Args) >= 2 {
				drop := false
				markOnly := false
				first := r.Args[0]
				pathIdx := 1
				if r.Name == "symlinkat" && len(r.Args) >= 3 {
					first, pathIdx = r.Args[1], 2
				}
				if first == "AT_FDCWD" {
					if p := pathArg(r.Args[pathIdx]); strings.HasPrefix(p, "/") {
						switch keep(p) {
						case 0:
							drop = true
						case 2:
							markOnly = true
						}
					}
				} else if skipFds[fdOf(first)] {
					drop = true
				}
				if (drop || markOnly) && r.Name == "openat" && !r.Failed() {
					skipFds[fdOf(r.Ret)] = true
				}
				if drop {
					continue
				}
			}
		}
		if r.Name == "getdents64" && len(r.Args) >= 2 {
			fd, _ := strconv.Atoi(r.Args[0])
			if pendingFd != fd {
				flush()
				pendingFd = fd
			}
			for _, m := range reDName.FindAllStringSubmatch(r.Args[1], -1) {
				if n, ok := stracelog.Unquote(m[1]); ok {
					pendingNames = append(pendingNames, n)
				}
			}
			continue
		}
		flush()
		err := ""
		if r.Failed() {
			err = r.Errno
			if err == "" {
				err = "EUNKNOWN"
			}
		}
		ret := 0
		if n, e := strconv.Atoi(r.Ret); e == nil && n > 0 {
			ret = n
		}
		count++
		tags = append(tags, "sys:"+r.Name)
		c1 := func(fd, path, flags, kind, target string) {
			terms = append(terms, fmt.Sprintf("C1 %s %s %s %s %d %s %s %s", coretree.Str(r.Name), fdTerm(fd),
				coretree.Str(pathArg(path)), flagsTerm(flags), ret, coretree.Str(err), kind, coretree.Str(target)))
		}
		arg := func(i int) string {
			if i < len(r.Args) {
				return r.Args[i]
			}
			return ""
		}
		switch r.Name {
		case "close":
			count--
			fd, _ := strconv.Atoi(arg(0))
			terms = append(terms, fmt.Sprintf("Cl %d", fd))
		case "openat":
			c1(arg(0), arg(1), arg(2), "kX", "")
		case "newfstatat":
			kind := "kX"
			if m := reMode.FindStringSubmatch(arg(2)); m != nil {
				switch m[1] {
				case "S_IFDIR":
					kind = "kD"
				case "S_IFREG":
					kind = "kF"
				case "S_IFLNK":
					kind = "kL"
				}
			}
			c1(arg(0), arg(1), arg(3), kind, "")
		case "readlinkat":
			target := ""
			if err == "" {
				target = pathArg(arg(2))
			}
			c1(arg(0), arg(1), "", "kX", target)
		case "mkdirat":
			c1(arg(0), arg(1), "", "kX", "")
		case "symlinkat":
			c1(arg(1), arg(2), "", "kX", pathArg(arg(0)))
		case "unlinkat":
			c1(arg(0), arg(1), arg(2), "kX", "")
		case "fchownat":
			c1(arg(0), arg(1), arg(4), "kX", "")
		case "fchmodat":
			c1(arg(0), arg(1), arg(3), "kX", "")
		case "renameat", "renameat2":
			terms = append(terms, fmt.Sprintf("C2 %s %s %s %s %s %s %s", coretree.Str(r.Name), fdTerm(arg(0)),
				coretree.Str(pathArg(arg(1))), fdTerm(arg(2)), coretree.Str(pathArg(arg(3))), flagsTerm(arg(4)), coretree.Str(err)))
		default:
			// any other path-taking call: the first quoted argument is its path
			p := ""
			for _, a := range r.Args {
				if strings.HasPrefix(a, "\"") {
					p = a
					break
				}
			}
			c1("AT_FDCWD", p, "", "kX", "")
		}
	}
	flush()
	return
}

// entTerm renders a core.Entry as the model's ent; staged files get the
// hexadecimal names under which the stager provides them.
func entTerm(e *core.Entry, path string, st *staging.Stager) string {
	if e == nil {
		return "None"
	}
	return "(Some " + entBody(e, path, st) + ")"
}

func entBody(e *core.Entry, path string, st *staging.Stager) string {
	switch e.Kind {
	case core.EntryKind_File:
		d, p := hexNames(e, path, st)
		return fmt.Sprintf("(EFile %s %s)", coretree.Str(d), coretree.Str(p))
	case core.EntryKind_SymbolicLink:
		return "ELink"
	case core.EntryKind_Directory:
		names := make([]string, 0, len(e.Contents))
		for n := range e.Contents {
			names = append(names, n)
		}
		sort.Strings(names)
		items := make([]string, len(names))
		for i, n := range names {
			items[i] = fmt.Sprintf("(%s, %s)", coretree.Str(n), entBody(e.Contents[n], path+"/"+n, st))
		}
		return "(EDir [" + strings.Join(items, "; ") + "])"
	default:
		return "EOtherKind"
	}
}

func hexNames(e *core.Entry, path string, st *staging.Stager) (string, string) {
	d := hex.EncodeToString(e.Digest)
	if st == nil || len(e.Digest) == 0 {
		return d, ""
	}
	p, err := st.Provide(path, e.Digest)
	if err != nil {
		return d, ""
	}
	return d, strings.TrimPrefix(filepath.Base(p), d)
}

// StraceCase is the replay form of a strace run.
type StraceCase struct {
	Scenario string `json:"scenario"`
	Seed     int64  `json:"seed"`
}

type straceOut struct {
	coq  string
	tags []string
	n    int
}

var selfExe string

// runStrace prepares the scenario, runs the child under strace, and renders
// the case.
func runStrace(c StraceCase) straceOut {
	r := newRand(c.Seed)
	a := newArea("root")
	defer a.remove()
	must(os.Mkdir(a.Root, 0o755))
	build(a.Root, []*Node{
		{Name: "d", Kind: "dir", Children: []*Node{{Name: "f", Kind: "file", Data: "root-d-f"}, {Name: "sub", Kind: "dir", Children: []*Node{{Name: "g", Kind: "file", Data: "root-d-sub-g"}}}}},
		{Name: "e", Kind: "file", Data: "root-e"},
		{Name: "k", Kind: "dir", Children: []*Node{{Name: "h", Kind: "file", Data: "root-k-h"}, {Name: "kl", Kind: "link", Target: "../../canary/f"}}},
		{Name: "l", Kind: "link", Target: "../canary"},
		{Name: "labs", Kind: "link", Target: a.Canary},
		{Name: "lf", Kind: "link", Target: "../canary/secret"},
		{Name: ".mutagen-temporary-stale", Kind: "file", Data: "x"},
	})
	before := hashTree(a.Canary)
	spec := Spec{Root: a.Root, Staging: a.Staging}
	op := "OpNone"
	var inject []string
	var transitionTerms []string
	var supplyPaths []string // paths a supply request names (judged after the run)
	stagingForCase := a.Staging
	parts := strings.Split(c.Scenario, ":")
	switch parts[0] {
	case "opener":
		sets := map[string][]string{
			"plain":  {"d/f", "d/sub/g", "e", "k/h"},
			"links":  {"l/secret", "labs/f", "lf", "k/kl", "l/sub/g"},
			"evil":   {"../canary/f", "d/../e", "d//f", "./e", "", "d/", "l/../e"},
			"stack":  {"d/f", "d/sub/g", "d/sub/missing", "d/f", "k/h", "e", "d/sub/g"},
			"random": nil,
		}
		paths := sets[parts[1]]
		if paths == nil {
			pool := []string{"d/f", "d/sub/g", "e", "k/h", "l/secret", "labs/f", "lf", "k/kl", "../canary/f", "d/../e", "d//f", "missing", "d/missing/x", "k", "d/sub"}
			for i := 0; i < 5; i++ {
				paths = append(paths, pool[r.Intn(len(pool))])
			}
		}
		spec.Op, spec.Paths = "opener", paths
		items := make([]string, len(paths))
		for i, p := range paths {
			items[i] = coretree.Str(p)
		}
		op = "(OpOpener [" + strings.Join(items, "; ") + "])"
	case "transmit":
		sets := map[string][]string{
			"plain":    {"d/f", "d/sub/g", "e", "k/h"},
			"links":    {"l/secret", "labs/f", "lf", "k/kl", "l/sub/g", "e"},
			"evil":     {"../canary/f", "d/../e", "d//f", "l/../e", "d/f"},
			"replaced": {"d/f", "d/sub/g", "e", "k/h"},
			"random":   nil,
		}
		paths := sets[parts[1]]
		if parts[1] == "replaced" {
			// after the scan, d became a link to the canary's d (which has f and sub/g)
			replaceByLink(fixed(1), a, filepath.Join(a.Root, "d"))
		}
		if paths == nil {
			pool := []string{"d/f", "d/sub/g", "e", "k/h", "l/secret", "labs/f", "lf", "k/kl", "l/sub/g", "missing", "d/missing", "l/f", "labs/sub/g"}
			if r.Intn(2) == 0 {
				replaceByLink(fixed(r.Intn(3)), a, filepath.Join(a.Root, "d"))
			}
			for i := 0; i < 6; i++ {
				paths = append(paths, pool[r.Intn(len(pool))])
			}
			sort.Strings(paths)
		}
		spec.Op, spec.Paths = "transmit", paths
		supplyPaths = paths
		items := make([]string, len(paths))
		for i, p := range paths {
			items[i] = coretree.Str(p)
		}
		op = "(OpTransmit [" + strings.Join(items, "; ") + "])"
	case "scan":
		if len(parts) > 1 && parts[1] == "root-is-link" {
			must(os.Rename(a.Root, a.Root+".moved"))
			must(os.Symlink(a.Canary, a.Root))
		}
		if len(parts) > 1 && parts[1] == "root-is-file" {
			must(os.RemoveAll(a.Root))
			must(os.WriteFile(a.Root, []byte("file root"), 0o644))
		}
		spec.Op = "scan"
		op = "(OpScan 12)"
	case "transition":
		snap, cache, err := scan(a.Root, nil, nil)
		must(err)
		st := staging.NewStager(a.Staging, false, 1<<30, sha1.New)
		must(st.Initialize())
		newFile := func(path string) *core.Entry {
			d := stage(st, path, []byte("staged for "+path+fmt.Sprint(r.Intn(1000))))
			return &core.Entry{Kind: core.EntryKind_File, Digest: d}
		}
		var changes []*core.Change
		switch parts[1] {
		case "remove-file":
			changes = append(changes, &core.Change{Path: "d/f", Old: entryAt(snap.Content, "d/f")})
		case "remove-dir":
			changes = append(changes, &core.Change{Path: "d", Old: entryAt(snap.Content, "d")})
		case "remove-link":
			changes = append(changes, &core.Change{Path: "l", Old: entryAt(snap.Content, "l")})
		case "create-file":
			changes = append(changes, &core.Change{Path: "d/new", New: newFile("d/new")})
		case "create-tree":
			changes = append(changes, &core.Change{Path: "k/t", New: &core.Entry{Kind: core.EntryKind_Directory, Contents: map[string]*core.Entry{
				"u": {Kind: core.EntryKind_Directory, Contents: map[string]*core.Entry{"v": newFile("k/t/u/v")}}}}})
		case "create-link":
			changes = append(changes, &core.Change{Path: "d/nl", New: &core.Entry{Kind: core.EntryKind_SymbolicLink, Target: "../../canary/f"}})
		case "swap":
			changes = append(changes, &core.Change{Path: "e", Old: entryAt(snap.Content, "e"), New: newFile("e")})
		case "swap-mode":
			old := entryAt(snap.Content, "e")
			changes = append(changes, &core.Change{Path: "e", Old: old, New: &core.Entry{Kind: core.EntryKind_File, Digest: old.Digest, Executable: true}})
		case "replace-root":
			changes = append(changes, &core.Change{Path: "", Old: snap.Content, New: newFile("")})
		case "several":
			changes = append(changes,
				&core.Change{Path: "d/sub", Old: entryAt(snap.Content, "d/sub")},
				&core.Change{Path: "k/h", Old: entryAt(snap.Content, "k/h"), New: newFile("k/h")},
				&core.Change{Path: "z", New: &core.Entry{Kind: core.EntryKind_Directory, Contents: map[string]*core.Entry{"w": newFile("z/w")}}},
				&core.Change{Path: "lf", Old: entryAt(snap.Content, "lf"), New: &core.Entry{Kind: core.EntryKind_SymbolicLink, Target: "e"}})
		// cross-device moves (EXDEV injected by strace into the first rename)
		case "xdev-create":
			inject = []string{"-e", "inject=renameat2:error=EXDEV:when=1"}
			changes = append(changes, &core.Change{Path: "d/new", New: newFile("d/new")})
		case "xdev-swap":
			inject = []string{"-e", "inject=renameat:error=EXDEV:when=1"}
			changes = append(changes, &core.Change{Path: "e", Old: entryAt(snap.Content, "e"), New: newFile("e")})
		case "xdev-root-file":
			// the root is a single file: the temporary is created beside it,
			// in the root's parent directory
			must(os.RemoveAll(a.Root))
			must(os.WriteFile(a.Root, []byte("file root"), 0o644))
			snap, cache, err = scan(a.Root, nil, nil)
			must(err)
			inject = []string{"-e", "inject=renameat:error=EXDEV:when=1"}
			changes = append(changes, &core.Change{Path: "", Old: snap.Content, New: newFile("")})
		// the same operations after directories on their path were replaced
		// by links to the canary
		case "crossing-remove-file":
			replaceByLink(fixed(0), a, filepath.Join(a.Root, "d"))
			changes = append(changes, &core.Change{Path: "d/f", Old: entryAt(snap.Content, "d/f")})
		case "crossing-remove-dir":
			replaceByLink(fixed(1), a, filepath.Join(a.Root, "d"))
			changes = append(changes, &core.Change{Path: "d", Old: entryAt(snap.Content, "d")})
		case "crossing-remove-deep":
			replaceByLink(fixed(0), a, filepath.Join(a.Root, "d", "sub"))
			changes = append(changes, &core.Change{Path: "d", Old: entryAt(snap.Content, "d")})
		case "crossing-create-file":
			replaceByLink(fixed(0), a, filepath.Join(a.Root, "d"))
			changes = append(changes, &core.Change{Path: "d/new", New: newFile("d/new")})
		case "crossing-create-tree":
			replaceByLink(fixed(1), a, filepath.Join(a.Root, "k"))
			changes = append(changes, &core.Change{Path: "k/t", New: &core.Entry{Kind: core.EntryKind_Directory, Contents: map[string]*core.Entry{"v": newFile("k/t/v")}}})
		case "crossing-swap":
			replaceByLink(fixed(1), a, filepath.Join(a.Root, "d"))
			changes = append(changes, &core.Change{Path: "d/f", Old: entryAt(snap.Content, "d/f"), New: newFile("d/f")})
		case "crossing-swap-leaf":
			replaceByLink(fixed(3), a, filepath.Join(a.Root, "e"))
			changes = append(changes, &core.Change{Path: "e", Old: entryAt(snap.Content, "e"), New: newFile("e")})
		case "crossing-root":
			must(os.Rename(a.Root, a.Root+".moved"))
			must(os.Symlink(a.Canary, a.Root))
			changes = append(changes, &core.Change{Path: "e", Old: entryAt(snap.Content, "e"), New: newFile("e")},
				&core.Change{Path: "d/new", New: newFile("d/new")})
		default:
			panic("unknown transition scenario " + parts[1])
		}
		spec.Op = "transition"
		cb, err := proto.Marshal(cache)
		must(err)
		spec.Cache = cb
		var terms []string
		for _, ch := range changes {
			b, err := proto.Marshal(ch)
			must(err)
			spec.Changes = append(spec.Changes, b)
			fileToFile := ch.Old != nil && ch.New != nil && ch.Old.Kind == core.EntryKind_File && ch.New.Kind == core.EntryKind_File
			if fileToFile {
				same := string(ch.Old.Digest) == string(ch.New.Digest)
				d, p := hexNames(ch.New, ch.Path, st)
				terms = append(terms, fmt.Sprintf("CSwap %s %v %s %s", coretree.Str(ch.Path), same, coretree.Str(d), coretree.Str(p)))
			} else {
				terms = append(terms, fmt.Sprintf("CReplace %s %s %s", coretree.Str(ch.Path), entTerm(ch.Old, ch.Path, nil), entTerm(ch.New, ch.Path, st)))
			}
		}
		transitionTerms = terms
	case "endpoint":
		// a full cycle through two real local endpoints; the destination root
		// (the one under test) already holds copies of some source files, so
		// that staging takes them from the root (stageFromRoot)
		src := filepath.Join(a.Dir, "source")
		must(os.Mkdir(src, 0o755))
		build(src, []*Node{
			{Name: "d", Kind: "dir", Children: []*Node{{Name: "f", Kind: "file", Data: "new-d-f"}, {Name: "copy", Kind: "file", Data: "root-k-h"}, {Name: "sub", Kind: "dir", Children: []*Node{{Name: "g", Kind: "file", Data: "root-e"}}}}},
			{Name: "e", Kind: "file", Data: "root-e"},
			{Name: "k", Kind: "dir", Children: []*Node{{Name: "h", Kind: "file", Data: "root-k-h"}, {Name: "moved", Kind: "file", Data: "root-d-f"}}},
			{Name: "fresh", Kind: "dir", Children: []*Node{{Name: "x", Kind: "file", Data: "fresh-x"}}},
			{Name: "lnk", Kind: "link", Target: "../canary/f"},
		})
		dataDir, err := os.MkdirTemp("", "verif-data-")
		must(err)
		defer os.RemoveAll(dataDir)
		spec.Op, spec.Source, spec.DataDir, spec.Canary = "endpoint", src, dataDir, a.Canary
		if len(parts) > 1 && parts[1] == "replaced" {
			spec.Replace = []string{"d", "k"}
		}
		spec.Supply = []string{"d/f", "d/sub/g", "e", "k/h", "l/secret", "lf"}
		supplyPaths = spec.Supply
		stagingForCase = filepath.Join(dataDir, "staging", "sync_verifconfine-beta")
		op = "OpNone"
	default:
		panic("unknown scenario " + c.Scenario)
	}

	work, err := os.MkdirTemp("", "verif-spec-")
	must(err)
	defer os.RemoveAll(work)
	spec.Result = filepath.Join(work, "result.json")
	sb, _ := json.Marshal(spec)
	specPath := filepath.Join(work, "spec.json")
	must(os.WriteFile(specPath, sb, 0o600))
	res, err := stracelog.Run(filepath.Join(work, "log"),
		append([]string{"-v", "-s", "512", "-e", "trace=%file,getdents64,close"}, inject...),
		[]string{selfExe, "-child", specPath}, os.Environ())
	must(err)
	if res.Signaled || res.ExitCode != 0 {
		panic(fmt.Sprintf("child failed (exit %d, signal %v): %s", res.ExitCode, res.Signaled, res.Stderr))
	}
	if len(res.Log.Unparsed) > 0 {
		panic("unparsed strace lines: " + strings.Join(res.Log.Unparsed, " | "))
	}
	// 0 = not about the root under test, 1 = keep, 2 = keep the call but not
	// what happens on the descriptor it returns (inside the staging directory)
	var keep func(string) int
	if spec.Op == "endpoint" {
		keep = func(p string) int {
			switch {
			case p == spec.Source || strings.HasPrefix(p, spec.Source+"/"):
				return 0
			case p == stagingForCase || strings.HasPrefix(p, stagingForCase+"/"):
				return 2
			case p == a.Dir || strings.HasPrefix(p, a.Dir+"/"):
				return 1
			}
			return 0
		}
	}
	terms, n, tags := observations(res.Log, keep)
	if spec.Op == "transition" {
		// the random parts of the cross-device temporaries, as the code drew them
		var rnds []string
		for i := range res.Log.Records {
			rec := &res.Log.Records[i]
			if rec.Name == "openat" && len(rec.Args) >= 3 && strings.Contains(rec.Args[2], "O_EXCL") {
				name := pathArg(rec.Args[1])
				const pat = ".mutagen-temporary-cross-device-rename"
				if strings.HasPrefix(name, pat) {
					var ds []string
					for _, ch := range name[len(pat):] {
						ds = append(ds, string(ch))
					}
					rnds = append(rnds, "["+strings.Join(ds, ";")+"]")
					tags = append(tags, "cross-device-temporary")
				}
			}
		}
		op = "(OpTransition false false [" + strings.Join(rnds, "; ") + "] [" + strings.Join(transitionTerms, "; ") + "])"
	}
	if n == 0 {
		panic("no system calls observed between the markers")
	}
	after := hashTree(a.Canary)
	canary := "true"
	if before != after {
		canary = "false"
		tags = append(tags, "FAILED:the canary directory changed")
	}
	if supplyPaths != nil {
		// what reached the receiving side (the links are as the child left them)
		col := &collector{}
		rb, err := os.ReadFile(spec.Result)
		must(err)
		must(json.Unmarshal(rb, col))
		crossFlags := make([]bool, len(supplyPaths))
		for i, p := range supplyPaths {
			crossFlags[i] = crossesLink(a.Root, p, true)
		}
		if f := supplyFailures(supplyPaths, crossFlags, col); len(f) > 0 {
			canary = "false"
			tags = append(tags, "FAILED:"+strings.Join(f, "; "))
		}
		tags = append(tags, "supply")
	}
	return straceOut{
		coq:  fmt.Sprintf("CC %s %s %s %s [%s]", coretree.Str(a.Root), coretree.Str(stagingForCase), canary, op, strings.Join(terms, ";\n  ")),
		tags: append(tags, "scenario:"+parts[0], "canary:"+canary),
		n:    n,
	}
}

// ------------------------------------------------------------------ main

func main() {
	if len(os.Args) > 2 && os.Args[1] == "-child" {
		child(os.Args[2])
		return
	}
	cfg := hx.Parse()
	var err error
	selfExe, err = os.Executable()
	must(err)
	if _, err := exec.LookPath("strace"); err != nil {
		panic("strace is not available: the C17 premise validation cannot run")
	}
	header := "From Coq Require Import List Arith String.\nImport ListNotations.\nFrom Mv Require Import Common.Bytes Model.Confine Harness.ConfineH.\nOpen Scope string_scope."
	w := hx.NewWriter(cfg, header, "ccase", "confine_failures", 40)
	w.Rule = "a case = one run of the real code on a root containing links to a canary directory outside it: either an in-process canary run (random tree, scan, directories/files replaced by links, random transitions / Opener opens / rescan; decided by the canary hash and by every link-crossing operation having failed) or a child-process run of one operation under strace whose path-taking system calls are listed verbatim (decided by check_C17 and by replaying the model's program); distinct = distinct Coq terms; non-trivial = the run crossed at least one link (canary runs) or listed at least one system call (strace runs)"

	type item struct {
		canary *CanaryCase
		strace *StraceCase
		origin string
	}
	var items []item
	if cfg.Replay != "" {
		b, err := os.ReadFile(cfg.Replay)
		must(err)
		var wrapper struct {
			Case struct {
				Canary *CanaryCase `json:"canary"`
				Strace *StraceCase `json:"strace"`
			} `json:"case"`
		}
		must(json.Unmarshal(b, &wrapper))
		items = append(items, item{wrapper.Case.Canary, wrapper.Case.Strace, "replay"})
	} else {
		for _, raw := range hx.LoadCorpus(cfg.Corpus) {
			var c struct {
				Canary *CanaryCase `json:"canary"`
				Strace *StraceCase `json:"strace"`
			}
			if json.Unmarshal(raw, &c) == nil && (c.Canary != nil || c.Strace != nil) {
				items = append(items, item{c.Canary, c.Strace, "corpus"})
			}
		}
		scenarios := []string{
			"opener:plain", "opener:links", "opener:evil", "opener:stack",
			"transmit:plain", "transmit:links", "transmit:evil", "transmit:replaced",
			"scan", "scan:root-is-link", "scan:root-is-file",
			"transition:remove-file", "transition:remove-dir", "transition:remove-link",
			"transition:create-file", "transition:create-tree", "transition:create-link",
			"transition:swap", "transition:swap-mode", "transition:replace-root", "transition:several",
			"transition:crossing-remove-file", "transition:crossing-remove-dir", "transition:crossing-remove-deep",
			"transition:crossing-create-file", "transition:crossing-create-tree", "transition:crossing-swap",
			"transition:crossing-swap-leaf", "transition:crossing-root",
			"transition:xdev-create", "transition:xdev-swap", "transition:xdev-root-file",
			"endpoint", "endpoint:replaced",
		}
		for _, s := range scenarios {
			items = append(items, item{strace: &StraceCase{Scenario: s, Seed: cfg.Seed}, origin: "exhaustive"})
		}
		w.Extra["exhaustive_scope"] = fmt.Sprintf("%d strace scenarios: Opener.OpenFile sequences (plain, through links, malformed paths, handle-stack reuse), core.Scan (root a directory / a link / a file), core.Transition for every kind of change, each also with a directory or the root on its path replaced by a link to the canary after the scan", len(scenarios))
		nOpener, nCanary := 5, 150
		if cfg.Thorough() {
			nOpener, nCanary = 40, 4000
		}
		for i := 0; i < nOpener; i++ {
			items = append(items, item{strace: &StraceCase{Scenario: "opener:random", Seed: cfg.Seed*7919 + int64(i)}, origin: "random"})
			items = append(items, item{strace: &StraceCase{Scenario: "transmit:random", Seed: cfg.Seed*104729 + int64(i)}, origin: "random"})
		}
		for i := 0; i < nCanary; i++ {
			kind := "mixed"
			if i%10 == 9 {
				kind = "root-replaced"
			}
			items = append(items, item{canary: &CanaryCase{Seed: cfg.Seed*1000003 + int64(i), Kind: kind}, origin: "random"})
		}
	}

	traces, calls := 0, 0
	for _, it := range items {
		if w.Aborted {
			break
		}
		replay := map[string]any{"canary": it.canary, "strace": it.strace}
		if it.canary != nil {
			var ok bool
			var detail string
			var tags []string
			if w.Guard(replay, 60*time.Second, func() { ok, detail, tags = runCanary(*it.canary) }) {
				if !ok {
					tags = append(tags, "FAILED:"+detail)
				}
				crossed := false
				for _, t := range tags {
					if strings.HasPrefix(t, "crossings:") && t != "crossings:0" {
						crossed = true
					}
				}
				w.Add(hx.Case{Coq: fmt.Sprintf("CC \"/canary-run/root\" \"/canary-run/staging\" %v OpNone [] (* seed %d %s %s *)", ok, it.canary.Seed, it.canary.Kind, strings.ReplaceAll(detail, "*)", "* )")),
					Replay: replay, Nontrivial: crossed, Tags: tags, Origin: it.origin})
			}
		} else {
			var out straceOut
			if w.Guard(replay, 60*time.Second, func() { out = runStrace(*it.strace) }) {
				traces++
				calls += out.n
				w.Add(hx.Case{Coq: out.coq, Replay: replay, Nontrivial: out.n > 0, Tags: out.tags, Origin: it.origin})
			}
		}
	}
	w.Extra["traces_validated_against_impl"] = traces
	w.Extra["system_calls_classified"] = calls
	w.Close()
	fmt.Printf("cases %d traces %d calls %d\n", w.Total(), traces, calls)
}
