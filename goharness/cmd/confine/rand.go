package main

import "math/rand"

// newRand returns the per-case generator; every case's seed derives from the
// run's seed (VERIF_SEED), so a case is reproducible from its replay form.
func newRand(seed int64) *rand.Rand { return rand.New(rand.NewSource(seed)) }

// fixedRng always picks the same alternative (scenario runs).
type fixedRng int

func (f fixedRng) Intn(n int) int { return int(f) % n }

func fixed(i int) rng { return fixedRng(i) }
