package main

import (
	"context"
	"errors"
	"fmt"
	"os"
	"path/filepath"
	"sort"
	"strings"
	"sync"
	"syscall"
	"time"

	"github.com/mutagen-io/mutagen/pkg/encoding"
	"github.com/mutagen-io/mutagen/pkg/selection"
	"github.com/mutagen-io/mutagen/pkg/synchronization"
	"github.com/mutagen-io/mutagen/pkg/synchronization/core"
	urlpkg "github.com/mutagen-io/mutagen/pkg/url"
)

// Op is one step of a script (the replay form of a history is its script).
type Op struct {
	// K: create pause resume flush reset terminate restart edit await settle join sleep
	K string `json:"k"`
	// create
	Paused bool   `json:"paused,omitempty"`
	Watch  string `json:"watch,omitempty"` // manual | portable
	Mode   int    `json:"mode,omitempty"`  // core.SynchronizationMode (0 = default)
	// flush
	Wait bool `json:"wait,omitempty"`
	// commands: run in the background (joined by a later join op / at the end)
	Bg bool `json:"bg,omitempty"`
	// edit
	Edit    string `json:"edit,omitempty"` // write remove delroot fileroot emptyroot mkroot
	Side    string `json:"side,omitempty"` // alpha | beta
	Name    string `json:"name,omitempty"`
	Content string `json:"content,omitempty"`
	// sleep (milliseconds)
	Ms int `json:"ms,omitempty"`
	// waitfor: the kind of journal record to wait for (recorded since the
	// previous op started), e.g. "enter:shutdown"
	Kind string `json:"kind,omitempty"`
}

// Script is a whole history description.
type Script struct {
	Ops []Op `json:"ops"`
	// Delays (milliseconds) injected inside the instrumented endpoint methods
	// (scan, transition, shutdown) to widen interleaving windows.
	Delays map[string]int `json:"delays,omitempty"`
	// FailTx: side ("alpha" | "beta") -> the number (1 = first) of the
	// Transition call on that side that fails outright, as when the
	// connection to the endpoint is lost while it applies changes. With
	// FailTxAfter the real endpoint applies the changes first and the error
	// replaces its answer; otherwise nothing is applied.
	FailTx      map[string]int `json:"failtx,omitempty"`
	FailTxAfter bool           `json:"failtxafter,omitempty"`
	// Initial content: name -> content, per side
	Alpha map[string]string `json:"alpha,omitempty"`
	Beta  map[string]string `json:"beta,omitempty"`
}

type environment struct {
	j        *Journal
	script   *Script
	dir      string
	alpha    string
	beta     string
	manager  *synchronization.Manager
	session  string
	sel      *selection.Selection
	manual   bool
	mode     int
	nextTid  int
	bg       sync.WaitGroup
	stamps   map[string]int
	notes    []string
	tags     map[string]bool
	created  bool
	mgrAlive bool
	txMu     sync.Mutex
	txCalls  map[string]int
	txFailed bool
}

// failTransition counts the Transition calls per side and reports whether
// this one is to fail.
func (env *environment) failTransition(alpha bool) bool {
	side := "beta"
	if alpha {
		side = "alpha"
	}
	env.txMu.Lock()
	defer env.txMu.Unlock()
	if env.txCalls == nil {
		env.txCalls = map[string]int{}
	}
	env.txCalls[side]++
	n, ok := env.script.FailTx[side]
	if ok && n == env.txCalls[side] {
		env.txFailed = true
		return true
	}
	return false
}

func (env *environment) delay(kind string) {
	if ms := env.script.Delays[kind]; ms > 0 {
		time.Sleep(time.Duration(ms) * time.Millisecond)
	}
}

func (env *environment) root(side string) string {
	if side == "beta" {
		return env.beta
	}
	return env.alpha
}

func (env *environment) populate(root string, files map[string]string) {
	if err := os.MkdirAll(root, 0o755); err != nil {
		panic(err)
	}
	for n, c := range files {
		p := filepath.Join(root, n)
		os.MkdirAll(filepath.Dir(p), 0o755)
		if err := os.WriteFile(p, []byte(c), 0o644); err != nil {
			panic(err)
		}
	}
}

func newEnvironment(s *Script) *environment {
	dir := os.Getenv("VERIF_CTL_DIR")
	if dir == "" {
		var err error
		dir, err = os.MkdirTemp("", "verif-ctl-")
		if err != nil {
			panic(err)
		}
	}
	env := &environment{j: newJournal(), script: s, dir: dir,
		alpha: filepath.Join(dir, "alpha"), beta: filepath.Join(dir, "beta"),
		stamps: map[string]int{}, tags: map[string]bool{}}
	os.Setenv("MUTAGEN_DATA_DIRECTORY", filepath.Join(dir, "data"))
	env.populate(env.alpha, s.Alpha)
	env.populate(env.beta, s.Beta)
	theHandler.mu.Lock()
	theHandler.env = env
	theHandler.mu.Unlock()
	return env
}

func (env *environment) cleanup() {
	os.RemoveAll(env.dir)
}

// observe decodes the persisted session and archive files and polls the state
// through Manager.List. Each of the three reads is its own journal record; a
// record is "clean" when no other record was appended between the start of
// the read and the append of its result (then the value read belongs to that
// position of the journal).
func (env *environment) observe() {
	dataDir := filepath.Join(env.dir, "data")
	sessPath := filepath.Join(dataDir, "sessions", env.session)
	archPath := filepath.Join(dataDir, "archives", env.session)

	// session file
	mark := env.j.length()
	sess := "None"
	sessText := "absent"
	s := &synchronization.Session{}
	if err := encoding.LoadAndUnmarshalProtobuf(sessPath, s); err == nil {
		sess = "(Some " + boolName(s.Paused) + ")"
		sessText = fmt.Sprintf("paused=%v", s.Paused)
	} else if !errors.Is(err, os.ErrNotExist) {
		sessText = "unreadable: " + err.Error()
		sess = "SessionUnreadable"
	}
	env.j.addObs(mark, "obs:session", func(clean bool) (string, string) {
		return fmt.Sprintf("ObS %s %s", boolName(clean), sess), fmt.Sprintf("obs   session[%s] clean=%v", sessText, clean)
	})

	// archive file: stamp, content, stamp again (a stable pair means the
	// content belongs to the stamp)
	mark = env.j.length()
	arch := "None"
	archText := "absent"
	stamp := 0
	var content *core.Entry
	have := false
	for attempt := 0; attempt < 5; attempt++ {
		st1, ok1 := fileStamp(archPath)
		a := &core.Archive{}
		err := encoding.LoadAndUnmarshalProtobuf(archPath, a)
		st2, ok2 := fileStamp(archPath)
		if err != nil {
			if errors.Is(err, os.ErrNotExist) && !ok2 {
				arch, archText, stamp, have = "None", "absent", 0, false
				break
			}
			continue
		}
		if !ok1 || !ok2 || st1 != st2 {
			continue
		}
		n, ok := env.stamps[st1]
		if !ok {
			n = len(env.stamps) + 1
			env.stamps[st1] = n
		}
		stamp = n
		content = a.Content
		have = true
		archText = brief(a.Content)
		break
	}
	if have {
		arch = "(Some " + env.j.entry(content) + ")"
	}
	env.j.addObs(mark, "obs:archive", func(clean bool) (string, string) {
		return fmt.Sprintf("ObA %s %s %d", boolName(clean), arch, stamp), fmt.Sprintf("obs   archive[%s stamp %d] clean=%v", archText, stamp, clean)
	})

	// status
	mark = env.j.length()
	status := -1
	cycles := uint64(0)
	if env.manager != nil && env.mgrAlive {
		ctx, cancel := context.WithTimeout(context.Background(), 2*time.Second)
		_, states, err := env.manager.List(ctx, env.sel, 0)
		cancel()
		if err == nil && len(states) == 1 {
			status = int(states[0].Status)
			cycles = states[0].SuccessfulCycles
		}
	}
	statusTerm := "None"
	if status >= 0 {
		statusTerm = fmt.Sprintf("(Some %d)", status)
	}
	env.j.addObs(mark, "obs:status", func(clean bool) (string, string) {
		return fmt.Sprintf("ObT %s %s", boolName(clean), statusTerm), fmt.Sprintf("obs   status=%d cycles=%d clean=%v", status, cycles, clean)
	})
}

func fileStamp(path string) (string, bool) {
	fi, err := os.Lstat(path)
	if err != nil {
		return "", false
	}
	st, ok := fi.Sys().(*syscall.Stat_t)
	if !ok {
		return fmt.Sprintf("%d/%d", fi.ModTime().UnixNano(), fi.Size()), true
	}
	return fmt.Sprintf("%d/%d/%d", st.Ino, fi.ModTime().UnixNano(), fi.Size()), true
}

func (env *environment) status() int {
	if env.manager == nil || !env.mgrAlive {
		return -1
	}
	ctx, cancel := context.WithTimeout(context.Background(), 2*time.Second)
	defer cancel()
	_, states, err := env.manager.List(ctx, env.sel, 0)
	if err != nil || len(states) != 1 {
		return -1
	}
	return int(states[0].Status)
}

// command runs one manager command with its call and return records.
func (env *environment) command(name string, bg bool, f func() error) {
	env.nextTid++
	tid := env.nextTid
	env.j.add("call:"+name, fmt.Sprintf("Ca %d %s", tid, name), fmt.Sprintf("CALL  t%d %s", tid, name))
	run := func() {
		err := f()
		env.j.add("ret:"+name+":"+boolName(err == nil), fmt.Sprintf("Rt %d %s %s", tid, name, boolName(err == nil)),
			fmt.Sprintf("RET   t%d %s err=%v", tid, name, err))
	}
	if bg {
		env.bg.Add(1)
		go func() {
			defer env.bg.Done()
			run()
		}()
		return
	}
	run()
}

// waitFor waits until cond (evaluated under the journal lock) holds, up to the
// limit; it reports whether the condition was reached.
func (env *environment) waitFor(limit time.Duration, cond func() bool) bool {
	deadline := time.Now().Add(limit)
	timer := time.AfterFunc(limit, func() {
		env.j.mu.Lock()
		env.j.cond.Broadcast()
		env.j.mu.Unlock()
	})
	defer timer.Stop()
	env.j.mu.Lock()
	defer env.j.mu.Unlock()
	for !cond() {
		if !time.Now().Before(deadline) {
			return false
		}
		env.j.cond.Wait()
	}
	return true
}

// quiescent reports (under the journal lock) whether the last loop events show
// a loop blocked in the polling select (both Poll calls entered after the last
// scan), or a loop that shut its endpoints down and has not reconnected.
func (env *environment) quiescentLocked() bool {
	polls := 0
	shuts := 0
	for i := len(env.j.events) - 1; i >= 0; i-- {
		switch env.j.events[i].Kind {
		case "enter:poll":
			polls++
			if polls == 2 {
				return true
			}
		case "exit:shutdown":
			shuts++
			if shuts == 2 {
				return true
			}
		case "exit:poll", "enter:scan", "exit:scan", "enter:stage", "exit:stage", "enter:supply", "exit:supply",
			"enter:transition", "exit:transition", "connect", "enter:shutdown":
			if env.j.events[i].Kind == "enter:shutdown" && shuts > 0 {
				continue
			}
			return false
		}
	}
	return true
}

func (env *environment) settle() {
	if !env.waitFor(4*time.Second, env.quiescentLocked) {
		env.tags["settle-timeout"] = true
	}
}

func (env *environment) config() *synchronization.Configuration {
	c := &synchronization.Configuration{SynchronizationMode: core.SynchronizationMode(env.mode)}
	if env.manual {
		c.WatchMode = synchronization.WatchMode_WatchModeNoWatch
	} else {
		c.WatchMode = synchronization.WatchMode_WatchModePortable
		c.WatchPollingInterval = 1
	}
	return c
}

func (env *environment) run() {
	defer func() {
		env.bg.Wait()
		env.j.mu.Lock()
		env.j.closed = true
		env.j.mu.Unlock()
		if env.manager != nil && env.mgrAlive {
			env.manager.Shutdown()
		}
	}()
	ctxFor := func() (context.Context, context.CancelFunc) {
		return context.WithTimeout(context.Background(), 8*time.Second)
	}
	prevMark, curMark := 0, 0
	for _, op := range env.script.Ops {
		op := op
		prevMark, curMark = curMark, env.j.length()
		switch op.K {
		case "waitfor":
			from := prevMark
			if !env.waitFor(3*time.Second, func() bool {
				for i := from; i < len(env.j.events); i++ {
					if env.j.events[i].Kind == op.Kind {
						return true
					}
				}
				return false
			}) {
				env.tags["waitfor-timeout"] = true
			}
		case "create":
			env.manual = op.Watch == "manual"
			env.mode = op.Mode
			m, err := synchronization.NewManager(nil)
			if err != nil {
				panic(err)
			}
			env.manager = m
			env.mgrAlive = true
			env.nextTid++
			ctid := env.nextTid
			cname := "(CCreate " + boolName(op.Paused) + ")"
			env.j.add("call:create", fmt.Sprintf("Ca %d %s", ctid, cname), fmt.Sprintf("CALL  t%d Create paused=%v manual=%v mode=%d", ctid, op.Paused, env.manual, env.mode))
			ctx, cancel := ctxFor()
			id, err := m.Create(ctx,
				&urlpkg.URL{Kind: urlpkg.Kind_Synchronization, Protocol: urlpkg.Protocol_Local, Path: env.alpha},
				&urlpkg.URL{Kind: urlpkg.Kind_Synchronization, Protocol: urlpkg.Protocol_Local, Path: env.beta},
				env.config(), &synchronization.Configuration{}, &synchronization.Configuration{},
				"", nil, op.Paused, "")
			cancel()
			if err != nil {
				panic(fmt.Errorf("create failed: %w", err))
			}
			env.session = id
			env.sel = &selection.Selection{Specifications: []string{id}}
			env.created = true
			env.j.add("ret:create", fmt.Sprintf("Rt %d %s true", ctid, cname), fmt.Sprintf("RET   t%d Create", ctid))
			env.observe()
		case "pause":
			env.command("CPause", op.Bg, func() error {
				ctx, cancel := ctxFor()
				defer cancel()
				return env.manager.Pause(ctx, env.sel, "")
			})
		case "resume":
			env.command("CResume", op.Bg, func() error {
				ctx, cancel := ctxFor()
				defer cancel()
				return env.manager.Resume(ctx, env.sel, "")
			})
		case "flush":
			name := "(CFlush false)"
			if op.Wait {
				name = "(CFlush true)"
			}
			quick := ""
			env.command(name, op.Bg, func() error {
				ctx, cancel := ctxFor()
				defer cancel()
				err := env.manager.Flush(ctx, env.sel, "", !op.Wait)
				if err == nil && op.Wait && !op.Bg {
					// the identity of the archive file at the moment the waiting
					// flush returned (one lstat, before anything else)
					if st, ok := fileStamp(filepath.Join(env.dir, "data", "archives", env.session)); ok {
						quick = st
					}
				}
				return err
			})
			if quick != "" {
				n, ok := env.stamps[quick]
				if !ok {
					n = len(env.stamps) + 1
					env.stamps[quick] = n
				}
				env.j.add("obs:archive:quick", fmt.Sprintf("ObA false None %d", n), fmt.Sprintf("obs   archive stamp %d at flush return", n))
			}
		case "reset":
			env.command("CReset", op.Bg, func() error {
				ctx, cancel := ctxFor()
				defer cancel()
				return env.manager.Reset(ctx, env.sel, "")
			})
		case "terminate":
			env.command("CTerminate", op.Bg, func() error {
				ctx, cancel := ctxFor()
				defer cancel()
				return env.manager.Terminate(ctx, env.sel, "")
			})
		case "restart":
			env.bg.Wait()
			env.command("CShutdown", false, func() error {
				env.manager.Shutdown()
				return nil
			})
			env.mgrAlive = false
			env.observe()
			slot := env.j.add("newmanager", "Nm false", "NEWMANAGER (pending)")
			m, err := synchronization.NewManager(nil)
			if err != nil {
				panic(err)
			}
			env.manager = m
			env.mgrAlive = true
			ctx, cancel := ctxFor()
			_, states, lerr := m.List(ctx, &selection.Selection{All: true}, 0)
			cancel()
			loaded := lerr == nil && len(states) == 1
			env.j.set(slot, "Nm "+boolName(loaded), fmt.Sprintf("NEWMANAGER loaded=%v", loaded))
			if loaded {
				// a loaded, unpaused session must start connecting: give it time
				s := &synchronization.Session{}
				dataDir := filepath.Join(env.dir, "data")
				if encoding.LoadAndUnmarshalProtobuf(filepath.Join(dataDir, "sessions", env.session), s) == nil && !s.Paused {
					base := env.j.connectsSnapshot()
					env.waitFor(4*time.Second, func() bool { return env.j.connects >= base+1 })
				}
			}
		case "edit":
			env.edit(op)
		case "await":
			// wait for a scan cycle that began after this point (watch mode)
			env.j.mu.Lock()
			base := env.j.scanExits
			env.j.mu.Unlock()
			if !env.waitFor(1200*time.Millisecond, func() bool { return env.j.scanExits >= base+2 }) {
				env.tags["await-timeout"] = true
			}
			env.settle()
		case "settle":
			env.settle()
		case "join":
			env.bg.Wait()
		case "sleep":
			time.Sleep(time.Duration(op.Ms) * time.Millisecond)
		default:
			panic("unknown op " + op.K)
		}
		switch op.K {
		case "create", "restart", "sleep", "waitfor":
		default:
			if !op.Bg {
				env.observe()
			}
		}
	}
	env.bg.Wait()
	env.settle()
	env.observe()
}

func (j *Journal) connectsSnapshot() int {
	j.mu.Lock()
	defer j.mu.Unlock()
	return j.connects
}

func (env *environment) edit(op Op) {
	root := env.root(op.Side)
	side := "Alpha"
	if op.Side == "beta" {
		side = "Beta"
	}
	var err error
	switch op.Edit {
	case "write":
		p := filepath.Join(root, op.Name)
		os.MkdirAll(filepath.Dir(p), 0o755)
		err = os.WriteFile(p, []byte(op.Content), 0o644)
	case "remove":
		err = os.RemoveAll(filepath.Join(root, op.Name))
	case "delroot":
		err = os.RemoveAll(root)
	case "fileroot":
		os.RemoveAll(root)
		err = os.WriteFile(root, []byte(op.Content), 0o644)
	case "emptyroot":
		var names []os.DirEntry
		names, err = os.ReadDir(root)
		for _, n := range names {
			os.RemoveAll(filepath.Join(root, n.Name()))
		}
	case "mkroot":
		os.RemoveAll(root)
		err = os.MkdirAll(root, 0o755)
	default:
		panic("unknown edit " + op.Edit)
	}
	kind := map[string]string{"write": "EdWrite", "remove": "EdRemove", "delroot": "EdDelRoot", "fileroot": "EdFileRoot",
		"emptyroot": "EdEmptyRoot", "mkroot": "EdMkRoot"}[op.Edit]
	env.j.add("edit:"+op.Edit, "Ed "+side+" "+kind, fmt.Sprintf("EDIT  %s %s %s err=%v", op.Side, op.Edit, op.Name, err))
}

var modeTerm = map[int]string{0: "TwoWaySafe", 1: "TwoWaySafe", 2: "TwoWayResolved", 3: "OneWaySafe", 4: "OneWayReplica"}

// coqHist renders the history as a Coq term of type hist.
func (env *environment) coqHist() string {
	var sb strings.Builder
	fmt.Fprintf(&sb, "{| h_mode := %s; h_manual := %s; h_events := [\n", modeTerm[env.mode], boolName(env.manual))
	for i, e := range env.j.events {
		if i > 0 {
			sb.WriteString(";\n")
		}
		sb.WriteString("  " + e.Coq)
	}
	sb.WriteString("] |}")
	return sb.String()
}

// dump renders the journal in readable form.
func (env *environment) dump() string {
	var sb strings.Builder
	for i, e := range env.j.events {
		fmt.Fprintf(&sb, "%4d %s\n", i, e.Text)
	}
	keys := make([]string, 0, len(env.tags))
	for k := range env.tags {
		keys = append(keys, k)
	}
	sort.Strings(keys)
	fmt.Fprintf(&sb, "tags: %v\n", keys)
	return sb.String()
}
