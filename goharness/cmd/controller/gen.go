package main

import (
	"fmt"
	"math/rand"
	"strings"
	"time"

	"github.com/mutagen-io/mutagen/pkg/synchronization"
	"github.com/mutagen-io/mutagen/pkg/synchronization/core"

	"verifharness/internal/coretree"
	"verifharness/internal/hx"
)

// ---------------------------------------------------------------------------
// random histories

var fileNames = []string{"a", "b", "c", "d/e", "d/f", "g"}
var contents = []string{"1", "22", "333", "x"}

func randomFiles(r *rand.Rand, max int) map[string]string {
	m := map[string]string{}
	n := r.Intn(max + 1)
	for i := 0; i < n; i++ {
		m[fileNames[r.Intn(len(fileNames))]] = contents[r.Intn(len(contents))]
	}
	return m
}

func copyFiles(m map[string]string) map[string]string {
	c := map[string]string{}
	for k, v := range m {
		c[k] = v
	}
	return c
}

func sideOf(r *rand.Rand) string {
	if r.Intn(2) == 0 {
		return "alpha"
	}
	return "beta"
}

func randomDelays(r *rand.Rand) map[string]int {
	if r.Intn(3) != 0 {
		return nil
	}
	d := map[string]int{}
	for _, k := range []string{"scan", "transition", "shutdown"} {
		if r.Intn(2) == 0 {
			d[k] = 1 + r.Intn(8)
		}
	}
	return d
}

// abstract view the generator keeps to produce sensible scripts
type genState struct {
	manual     bool
	running    bool // a loop is expected to exist and not be halted
	terminated bool
	ops        []Op
	r          *rand.Rand
}

func (g *genState) add(op Op) { g.ops = append(g.ops, op) }

// sync asks for a cycle and waits for it in the way the watch mode allows
func (g *genState) sync() {
	if !g.running || g.terminated {
		return
	}
	if g.manual {
		g.add(Op{K: "flush", Wait: true})
	} else {
		g.add(Op{K: "await"})
	}
}

func (g *genState) edit() {
	side := sideOf(g.r)
	if g.r.Intn(4) == 0 {
		g.add(Op{K: "edit", Edit: "remove", Side: side, Name: fileNames[g.r.Intn(len(fileNames))]})
	} else {
		g.add(Op{K: "edit", Edit: "write", Side: side, Name: fileNames[g.r.Intn(len(fileNames))], Content: contents[g.r.Intn(len(contents))]})
	}
}

func (g *genState) create(paused bool, mode int) {
	watch := "portable"
	if g.manual {
		watch = "manual"
	}
	g.add(Op{K: "create", Paused: paused, Watch: watch, Mode: mode})
	g.running = !paused
	if g.running {
		g.add(Op{K: "settle"})
	}
}

// genC29 produces a random interleaving of lifecycle commands and edits.
func genC29(r *rand.Rand) *Script {
	g := &genState{r: r, manual: r.Intn(10) < 6}
	s := &Script{Alpha: randomFiles(r, 4), Beta: randomFiles(r, 2), Delays: randomDelays(r)}
	if r.Intn(4) == 0 {
		// one Transition call fails outright at some point
		side := "beta"
		if r.Intn(3) == 0 {
			side = "alpha"
		}
		s.FailTx = map[string]int{side: 1 + r.Intn(2)}
		s.FailTxAfter = r.Intn(2) == 0
	}
	mode := 0
	if r.Intn(6) == 0 {
		mode = 1 + r.Intn(4)
	}
	g.create(r.Intn(5) == 0, mode)
	n := 5 + r.Intn(9)
	for i := 0; i < n && !g.terminated; i++ {
		switch k := r.Intn(100); {
		case k < 14:
			g.add(Op{K: "pause"})
			g.running = false
		case k < 28:
			g.add(Op{K: "resume"})
			g.running = true
			g.add(Op{K: "settle"})
		case k < 40:
			g.add(Op{K: "flush", Wait: true})
		case k < 47:
			g.add(Op{K: "flush", Wait: false})
			if r.Intn(2) == 0 {
				g.add(Op{K: "settle"})
			}
		case k < 57:
			g.add(Op{K: "reset"})
			if g.running {
				g.add(Op{K: "settle"})
			}
		case k < 66:
			g.add(Op{K: "restart"})
			if g.running {
				g.add(Op{K: "settle"})
			}
		case k < 84:
			g.edit()
			if r.Intn(3) != 0 {
				g.sync()
			}
		case k < 90:
			// a command overlapping another one
			switch r.Intn(4) {
			case 0:
				g.add(Op{K: "flush", Wait: true, Bg: true})
				g.add(Op{K: "pause"})
				g.add(Op{K: "join"})
				g.running = false
			case 1:
				g.add(Op{K: "pause", Bg: true})
				g.add(Op{K: "resume"})
				g.add(Op{K: "join"})
				g.add(Op{K: "settle"})
				g.running = false // unknown really; only used to decide about waiting
			case 2:
				g.add(Op{K: "flush", Wait: false, Bg: true})
				g.add(Op{K: "flush", Wait: true})
				g.add(Op{K: "join"})
			case 3:
				g.add(Op{K: "reset", Bg: true})
				g.add(Op{K: "flush", Wait: true})
				g.add(Op{K: "join"})
				g.add(Op{K: "settle"})
			}
		case k < 95:
			g.add(Op{K: "settle"})
		default:
			g.add(Op{K: "terminate"})
			g.terminated = true
			g.running = false
		}
	}
	if g.terminated || r.Intn(4) == 0 {
		if !g.terminated {
			g.add(Op{K: "terminate"})
		}
		// after termination: nothing may work any more
		for i := 0; i < 1+r.Intn(3); i++ {
			switch r.Intn(5) {
			case 0:
				g.add(Op{K: "resume"})
			case 1:
				g.add(Op{K: "flush", Wait: r.Intn(2) == 0})
			case 2:
				g.add(Op{K: "restart"})
			case 3:
				g.add(Op{K: "pause"})
			case 4:
				g.add(Op{K: "reset"})
			}
		}
	}
	s.Ops = g.ops
	return s
}

// fixedC29 are scripted histories that exercise each documented effect once.
func fixedC29() []*Script {
	files := map[string]string{"a": "1", "b": "22", "d/e": "333"}
	var out []*Script
	for _, watch := range []string{"manual", "portable"} {
		sync := Op{K: "flush", Wait: true}
		if watch == "portable" {
			sync = Op{K: "await"}
		}
		// pause / edit while paused / restart while paused / resume
		out = append(out, &Script{Alpha: copyFiles(files), Ops: []Op{
			{K: "create", Watch: watch}, {K: "settle"}, sync,
			{K: "pause"}, {K: "edit", Edit: "write", Side: "alpha", Name: "x", Content: "x"}, {K: "sleep", Ms: 30},
			{K: "restart"}, {K: "sleep", Ms: 30}, {K: "flush", Wait: true}, {K: "resume"}, {K: "settle"}, sync,
			{K: "restart"}, {K: "settle"}, sync, {K: "terminate"}, {K: "resume"}, {K: "restart"}}})
		// reset with diverged roots, then a cycle
		out = append(out, &Script{Alpha: copyFiles(files), Beta: map[string]string{"z": "x"}, Ops: []Op{
			{K: "create", Watch: watch}, {K: "settle"}, sync,
			{K: "edit", Edit: "write", Side: "beta", Name: "a", Content: "x"}, {K: "reset"}, {K: "settle"}, sync,
			{K: "pause"}, {K: "reset"}, {K: "resume"}, {K: "settle"}, sync}})
	}
	// an endpoint's Transition call fails outright while a waiting flush is
	// pending: the flush must not report success; the loop reconnects and the
	// next flush completes the work
	for _, after := range []bool{false, true} {
		out = append(out, &Script{Alpha: copyFiles(files), FailTx: map[string]int{"beta": 1}, FailTxAfter: after, Ops: []Op{
			{K: "create", Watch: "manual"}, {K: "settle"}, {K: "flush", Wait: true}, {K: "settle"},
			{K: "flush", Wait: true}, {K: "flush", Wait: true}, {K: "terminate"}}})
		out = append(out, &Script{Beta: copyFiles(files), FailTx: map[string]int{"alpha": 1}, FailTxAfter: after, Ops: []Op{
			{K: "create", Watch: "manual"}, {K: "settle"}, {K: "flush", Wait: true}, {K: "settle"},
			{K: "pause"}, {K: "resume"}, {K: "settle"}, {K: "flush", Wait: true}}})
	}
	// both endpoints have changes to apply, one of them fails (the other's
	// results are saved before the loop ends); second cycle of the session
	out = append(out, &Script{Alpha: map[string]string{"a": "1"}, Beta: map[string]string{"b": "2"},
		FailTx: map[string]int{"alpha": 2}, Ops: []Op{
			{K: "create", Watch: "manual"}, {K: "settle"}, {K: "flush", Wait: true},
			{K: "edit", Edit: "write", Side: "alpha", Name: "x", Content: "x"},
			{K: "edit", Edit: "write", Side: "beta", Name: "y", Content: "y"},
			{K: "flush", Wait: true}, {K: "settle"}, {K: "flush", Wait: true}, {K: "restart"}, {K: "settle"}, {K: "flush", Wait: true}}})
	// watching session: the first cycle fails, the loop reconnects by itself
	out = append(out, &Script{Alpha: copyFiles(files), FailTx: map[string]int{"beta": 1}, Ops: []Op{
		{K: "create", Watch: "portable"}, {K: "settle"}, {K: "await"}, {K: "flush", Wait: true},
		{K: "edit", Edit: "write", Side: "alpha", Name: "x", Content: "x"}, {K: "await"}, {K: "flush", Wait: true}}})
	// created paused, flushed while paused, resumed
	out = append(out, &Script{Alpha: copyFiles(files), Ops: []Op{
		{K: "create", Watch: "manual", Paused: true}, {K: "flush", Wait: true}, {K: "flush"}, {K: "restart"}, {K: "reset"},
		{K: "resume"}, {K: "settle"}, {K: "flush", Wait: true}, {K: "flush"}, {K: "settle"}, {K: "terminate"}}})
	return out
}

// genC11 produces a history in which a root is deleted, replaced by a file or
// emptied at a random point.
func genC11(r *rand.Rand) *Script {
	g := &genState{r: r, manual: r.Intn(2) == 0}
	files := randomFiles(r, 5)
	s := &Script{Alpha: files, Delays: randomDelays(r)}
	if r.Intn(2) == 0 {
		s.Beta = copyFiles(files)
	}
	mode := 0
	if r.Intn(3) == 0 {
		mode = 1 + r.Intn(4)
	}
	g.create(false, mode)
	g.sync()
	for i := r.Intn(4); i > 0; i-- {
		switch r.Intn(4) {
		case 0:
			g.add(Op{K: "pause"})
			g.running = false
			if r.Intn(2) == 0 {
				g.edit()
			}
			g.add(Op{K: "resume"})
			g.running = true
			g.add(Op{K: "settle"})
			g.sync()
		case 1:
			g.add(Op{K: "restart"})
			g.add(Op{K: "settle"})
		default:
			g.edit()
			g.sync()
		}
	}
	destroy := func() {
		kind := []string{"delroot", "fileroot", "emptyroot"}[r.Intn(3)]
		paused := false
		if r.Intn(5) == 0 {
			g.add(Op{K: "pause"})
			paused = true
		}
		g.add(Op{K: "edit", Edit: kind, Side: sideOf(r), Content: "x"})
		if paused {
			g.add(Op{K: "resume"})
			g.add(Op{K: "settle"})
		}
		if g.manual {
			g.add(Op{K: "flush", Wait: true})
			g.add(Op{K: "settle"})
		} else {
			g.add(Op{K: "await"})
		}
	}
	destroy()
	// the session is expected to be halted now (unless the rule did not apply)
	for i := r.Intn(5); i > 0; i-- {
		switch r.Intn(8) {
		case 0:
			g.edit()
			g.add(Op{K: "sleep", Ms: 20 + r.Intn(60)})
		case 1:
			g.add(Op{K: "flush", Wait: r.Intn(2) == 0})
		case 2:
			g.add(Op{K: "resume"})
			g.add(Op{K: "settle"})
		case 3:
			g.add(Op{K: "sleep", Ms: 20 + r.Intn(100)})
			g.add(Op{K: "settle"})
		case 4:
			g.add(Op{K: "restart"})
			g.add(Op{K: "settle"})
		case 5:
			g.add(Op{K: "reset"})
			g.add(Op{K: "settle"})
			if g.manual {
				g.add(Op{K: "flush", Wait: true})
				g.add(Op{K: "settle"})
			}
		case 6:
			g.add(Op{K: "edit", Edit: "mkroot", Side: sideOf(r)})
			g.add(Op{K: "resume"})
			g.add(Op{K: "settle"})
			if g.manual {
				g.add(Op{K: "flush", Wait: true})
				g.add(Op{K: "settle"})
			}
		case 7:
			destroy()
		}
	}
	s.Ops = g.ops
	return s
}

// ---------------------------------------------------------------------------
// the predicates of safety.go

// PredCase is the replay form of one predicate case.
type PredCase struct {
	K        string        `json:"k"` // emptied | changes | subset
	Anc      *coretree.J   `json:"anc,omitempty"`
	Alpha    *coretree.J   `json:"alpha,omitempty"`
	Beta     *coretree.J   `json:"beta,omitempty"`
	Changes  []PredChange  `json:"changes,omitempty"`
	Filtered []string      `json:"filtered,omitempty"`
	Original []string      `json:"original,omitempty"`
}

// PredChange is the replay form of a change.
type PredChange struct {
	Path string      `json:"path"`
	Old  *coretree.J `json:"old"`
	New  *coretree.J `json:"new"`
}

func strList(l []string) string {
	items := make([]string, len(l))
	for i, s := range l {
		items[i] = coretree.Str(s)
	}
	return "[" + strings.Join(items, "; ") + "]"
}

func predCase(p PredCase, origin string) hx.Case {
	var coq string
	var tags []string
	nontrivial := false
	switch p.K {
	case "emptied":
		anc, a, b := coretree.FromJ(p.Anc), coretree.FromJ(p.Alpha), coretree.FromJ(p.Beta)
		res := synchronization.VerifOneEndpointEmptiedRoot(anc, a, b)
		coq = fmt.Sprintf("CPred (PEmptied %s %s %s %s)", coretree.Entry(anc), coretree.Entry(a), coretree.Entry(b), boolName(res))
		tags = []string{"pred:emptied:" + boolName(res)}
		nontrivial = res
	case "changes":
		cs := make([]*core.Change, len(p.Changes))
		for i, c := range p.Changes {
			cs[i] = &core.Change{Path: c.Path, Old: coretree.FromJ(c.Old), New: coretree.FromJ(c.New)}
		}
		d := synchronization.VerifContainsRootDeletion(cs)
		t := synchronization.VerifContainsRootTypeChange(cs)
		coq = fmt.Sprintf("CPred (PChanges %s %s %s)", coretree.Changes(cs), boolName(d), boolName(t))
		tags = []string{"pred:rootdel:" + boolName(d), "pred:roottype:" + boolName(t)}
		nontrivial = d || t
	case "subset":
		f := append([]string{}, p.Filtered...)
		o := append([]string{}, p.Original...)
		res := synchronization.VerifFilteredPathsAreSubset(f, o)
		coq = fmt.Sprintf("CPred (PSubset %s %s %s)", strList(p.Filtered), strList(p.Original), boolName(res))
		tags = []string{"pred:subset:" + boolName(res)}
		nontrivial = res
	default:
		panic("unknown predicate case " + p.K)
	}
	return hx.Case{Coq: "(" + coq + ")", Replay: Case{Pred: &p}, Nontrivial: nontrivial, Tags: tags, Origin: origin}
}

func genPredCases(w *hx.Writer, r *rand.Rand, n int) {
	sides, ancestors := coretree.SmallScope()
	// roots with 0..3 children so that the "< 2" boundary is hit often
	small := []*core.Entry{nil, coretree.File("d1", false), coretree.Link("t"), coretree.Untracked(), coretree.Dir(),
		coretree.Dir("a", coretree.File("d1", false)),
		coretree.Dir("a", coretree.File("d1", false), "b", coretree.File("d2", false)),
		coretree.Dir("a", coretree.File("d1", false), "b", coretree.Dir()),
		coretree.Dir("a", coretree.Dir(), "b", coretree.Dir(), "c", coretree.Link("t")),
		coretree.Phantom("a", coretree.File("d1", false), "b", coretree.File("d2", false))}
	w.Extra["exhaustive_scope"] = fmt.Sprintf("oneEndpointEmptiedRoot: all %d^3 triples over 10 root shapes (nil, file, link, untracked, phantom, directories with 0..3 children) exhaustively, then samples of the coretree scope (%d ancestors x %d sides x %d sides); change predicates: plans of core.Reconcile on the same scope in all four modes plus synthetic root/non-root changes; subset helper: all pairs of lists over {a,b} up to length 3 (filtered) and 4 (original)", len(small), len(ancestors), len(sides), len(sides))
	add := func(p PredCase, origin string) {
		if w.Aborted {
			return
		}
		var c hx.Case
		if w.Guard(Case{Pred: &p}, 5*time.Second, func() { c = predCase(p, origin) }) {
			w.Add(c)
		}
	}
	for _, anc := range small {
		for _, a := range small {
			for _, b := range small {
				add(PredCase{K: "emptied", Anc: coretree.ToJ(anc), Alpha: coretree.ToJ(a), Beta: coretree.ToJ(b)}, "exhaustive")
			}
		}
	}
	// subset helper: exhaustive small scope
	var lists [][]string
	var build func(prefix []string, depth int)
	build = func(prefix []string, depth int) {
		lists = append(lists, append([]string{}, prefix...))
		if depth == 0 {
			return
		}
		for _, x := range []string{"a", "b"} {
			build(append(prefix, x), depth-1)
		}
	}
	build(nil, 4)
	for _, f := range lists {
		if len(f) > 3 {
			continue
		}
		for _, o := range lists {
			add(PredCase{K: "subset", Filtered: f, Original: o}, "exhaustive")
		}
	}
	for i := 0; i < n; i++ {
		switch r.Intn(3) {
		case 0:
			anc := ancestors[r.Intn(len(ancestors))]
			a := sides[r.Intn(len(sides))]
			b := sides[r.Intn(len(sides))]
			if r.Intn(2) == 0 {
				a = coretree.Mutate(r, anc, 2, true)
			}
			if r.Intn(2) == 0 {
				b = coretree.Mutate(r, anc, 2, true)
			}
			if r.Intn(4) == 0 {
				a = coretree.Dir()
			}
			add(PredCase{K: "emptied", Anc: coretree.ToJ(anc), Alpha: coretree.ToJ(a), Beta: coretree.ToJ(b)}, "scope-sample")
		case 1:
			anc := ancestors[r.Intn(len(ancestors))]
			a := coretree.Mutate(r, anc, 2, true)
			b := coretree.Mutate(r, anc, 2, true)
			switch r.Intn(6) {
			case 0:
				a = nil
			case 1:
				b = nil
			case 2:
				a = coretree.File("d3", false)
			case 3:
				b = coretree.Link("u")
			}
			_, ac, bc, _ := core.Reconcile(anc, a, b, core.SynchronizationMode(1+r.Intn(4)))
			cs := append(append([]*core.Change{}, ac...), bc...)
			if r.Intn(4) == 0 {
				cs = append(cs, &core.Change{Path: []string{"", "a"}[r.Intn(2)], Old: sides[r.Intn(len(sides))], New: sides[r.Intn(len(sides))]})
			}
			pcs := make([]PredChange, len(cs))
			for i, c := range cs {
				pcs[i] = PredChange{Path: c.Path, Old: coretree.ToJ(c.Old), New: coretree.ToJ(c.New)}
			}
			add(PredCase{K: "changes", Changes: pcs}, "scope-sample")
		case 2:
			nn := r.Intn(7)
			o := make([]string, nn)
			for i := range o {
				o[i] = []string{"a", "b", "c", "a/b", ""}[r.Intn(5)]
			}
			var f []string
			for _, x := range o {
				if r.Intn(2) == 0 {
					f = append(f, x)
				}
			}
			if r.Intn(3) == 0 && len(f) > 1 {
				i, j := r.Intn(len(f)), r.Intn(len(f))
				f[i], f[j] = f[j], f[i]
			}
			if r.Intn(5) == 0 {
				f = append(f, "zz")
			}
			add(PredCase{K: "subset", Filtered: f, Original: o}, "random")
		}
	}
}
