package main

import (
	"context"
	"errors"
	"fmt"
	"sort"
	"strings"
	"sync"

	"github.com/mutagen-io/mutagen/pkg/logging"
	"github.com/mutagen-io/mutagen/pkg/synchronization"
	"github.com/mutagen-io/mutagen/pkg/synchronization/core"
	"github.com/mutagen-io/mutagen/pkg/synchronization/endpoint/local"
	"github.com/mutagen-io/mutagen/pkg/synchronization/rsync"
	urlpkg "github.com/mutagen-io/mutagen/pkg/url"

	"verifharness/internal/coretree"
)

// Event is one journal record. The position in the journal is the global
// sequence number: records are appended under one mutex, so the order of the
// journal is a total order consistent with real time (an entry record is
// appended before the wrapped call starts, an exit record after it returned).
type Event struct {
	Coq  string // the Coq term
	Text string // readable form for -dump
	Kind string // tag for the distribution
}

// Journal is the event log of one history.
type Journal struct {
	mu     sync.Mutex
	events []Event
	// digest renaming: real digests are replaced by short injective names
	digests map[string]string
	// counters used by the driver to wait for progress
	connects   int
	pollEnters int
	scanExits  int
	shutExits  int
	cond       *sync.Cond
	// closed: the history is over (the driver's final cleanup is not part of it)
	closed bool
}

func newJournal() *Journal {
	j := &Journal{digests: map[string]string{}}
	j.cond = sync.NewCond(&j.mu)
	return j
}

func (j *Journal) add(kind, coq, text string) int {
	j.mu.Lock()
	defer j.mu.Unlock()
	return j.addLocked(kind, coq, text)
}

func (j *Journal) addLocked(kind, coq, text string) int {
	if j.closed {
		return len(j.events)
	}
	j.events = append(j.events, Event{Coq: coq, Text: text, Kind: kind})
	switch kind {
	case "connect":
		j.connects++
	case "enter:poll":
		j.pollEnters++
	case "exit:scan":
		j.scanExits++
	case "exit:shutdown":
		j.shutExits++
	}
	j.cond.Broadcast()
	return len(j.events) - 1
}

// set fills a record that was reserved (appended with provisional content)
// earlier: used for NewManager, whose position in the history is its call
// while its content (was the session loaded?) is known at its return.
func (j *Journal) set(i int, coq, text string) {
	j.mu.Lock()
	defer j.mu.Unlock()
	if i < len(j.events) {
		j.events[i].Coq = coq
		j.events[i].Text = text
	}
}

func (j *Journal) length() int {
	j.mu.Lock()
	defer j.mu.Unlock()
	return len(j.events)
}

// addObs appends an observation record; clean tells whether the journal is
// unchanged since the mark taken before the read.
func (j *Journal) addObs(mark int, kind string, render func(clean bool) (string, string)) {
	j.mu.Lock()
	defer j.mu.Unlock()
	clean := len(j.events) == mark
	coq, text := render(clean)
	if !clean {
		kind += ":racy"
	}
	j.addLocked(kind, coq, text)
}

// rename maps digests to short names, injectively within the history.
func (j *Journal) renameLocked(e *core.Entry) *core.Entry {
	if e == nil {
		return nil
	}
	c := &core.Entry{Kind: e.Kind, Executable: e.Executable, Target: e.Target, Problem: e.Problem}
	if e.Kind == core.EntryKind_File {
		k := string(e.Digest)
		n, ok := j.digests[k]
		if !ok {
			n = fmt.Sprintf("h%d", len(j.digests))
			j.digests[k] = n
		}
		c.Digest = []byte(n)
	}
	if e.Kind == core.EntryKind_Problematic {
		c.Problem = "p"
	}
	if len(e.Contents) > 0 {
		c.Contents = make(map[string]*core.Entry, len(e.Contents))
		for n, ch := range e.Contents {
			c.Contents[n] = j.renameLocked(ch)
		}
	}
	return c
}

func (j *Journal) entry(e *core.Entry) string {
	j.mu.Lock()
	defer j.mu.Unlock()
	return coretree.Entry(j.renameLocked(e))
}

func brief(e *core.Entry) string {
	if e == nil {
		return "nil"
	}
	switch e.Kind {
	case core.EntryKind_Directory:
		names := make([]string, 0, len(e.Contents))
		for n := range e.Contents {
			names = append(names, n)
		}
		sort.Strings(names)
		parts := make([]string, len(names))
		for i, n := range names {
			parts[i] = n + ":" + brief(e.Contents[n])
		}
		return "{" + strings.Join(parts, ",") + "}"
	case core.EntryKind_File:
		return fmt.Sprintf("f%x", e.Digest[:2])
	default:
		return e.Kind.String()
	}
}

func sideName(alpha bool) string {
	if alpha {
		return "Alpha"
	}
	return "Beta"
}

func boolName(b bool) string {
	if b {
		return "true"
	}
	return "false"
}

// ---------------------------------------------------------------------------
// instrumented endpoint

// wrapped is an instrumented wrapper around a real local endpoint.
type wrapped struct {
	j     *Journal
	alpha bool
	inner synchronization.Endpoint
	env   *environment
}

func (w *wrapped) side() string { return sideName(w.alpha) }

func (w *wrapped) Poll(ctx context.Context) error {
	w.j.add("enter:poll", "En "+w.side()+" MPoll", "enter "+w.side()+" Poll")
	err := w.inner.Poll(ctx)
	w.j.add("exit:poll", "Ex "+w.side()+" MPoll "+boolName(err == nil), fmt.Sprintf("exit  %s Poll err=%v", w.side(), err))
	return err
}

func (w *wrapped) Scan(ctx context.Context, ancestor *core.Entry, full bool) (*core.Snapshot, error, bool) {
	w.j.add("enter:scan", "Sn "+w.side()+" "+boolName(full)+" "+w.j.entry(ancestor),
		fmt.Sprintf("enter %s Scan full=%v anc=%s", w.side(), full, brief(ancestor)))
	w.env.delay("scan")
	snap, err, retry := w.inner.Scan(ctx, ancestor, full)
	var content *core.Entry
	if snap != nil {
		content = snap.Content
	}
	w.j.add("exit:scan", "Sx "+w.side()+" "+boolName(err == nil)+" "+boolName(retry)+" "+w.j.entry(content),
		fmt.Sprintf("exit  %s Scan err=%v retry=%v content=%s", w.side(), err, retry, brief(content)))
	return snap, err, retry
}

func (w *wrapped) Stage(paths []string, digests [][]byte) ([]string, []*rsync.Signature, rsync.Receiver, error) {
	w.j.add("enter:stage", "En "+w.side()+" MStage", fmt.Sprintf("enter %s Stage %v", w.side(), paths))
	f, s, r, err := w.inner.Stage(paths, digests)
	w.j.add("exit:stage", "Ex "+w.side()+" MStage "+boolName(err == nil), fmt.Sprintf("exit  %s Stage filtered=%v err=%v", w.side(), f, err))
	return f, s, r, err
}

func (w *wrapped) Supply(paths []string, signatures []*rsync.Signature, receiver rsync.Receiver) error {
	w.j.add("enter:supply", "En "+w.side()+" MSupply", fmt.Sprintf("enter %s Supply %v", w.side(), paths))
	err := w.inner.Supply(paths, signatures, receiver)
	w.j.add("exit:supply", "Ex "+w.side()+" MSupply "+boolName(err == nil), fmt.Sprintf("exit  %s Supply err=%v", w.side(), err))
	return err
}

func (w *wrapped) Transition(ctx context.Context, transitions []*core.Change) ([]*core.Entry, []*core.Problem, bool, error) {
	w.j.mu.Lock()
	items := make([]string, len(transitions))
	for i, t := range transitions {
		items[i] = "(mk " + coretree.Path(t.Path) + " " + coretree.Entry(w.j.renameLocked(t.Old)) + " " + coretree.Entry(w.j.renameLocked(t.New)) + ")"
	}
	w.j.addLocked("enter:transition", "Tn "+w.side()+" ["+strings.Join(items, "; ")+"]",
		fmt.Sprintf("enter %s Transition n=%d", w.side(), len(transitions)))
	w.j.mu.Unlock()
	w.env.delay("transition")
	var results []*core.Entry
	var problems []*core.Problem
	var missing bool
	var err error
	if w.env.failTransition(w.alpha) {
		if w.env.script.FailTxAfter {
			w.inner.Transition(ctx, transitions)
		}
		results, problems, missing, err = nil, nil, false, errors.New("injected: connection lost while applying changes")
	} else {
		results, problems, missing, err = w.inner.Transition(ctx, transitions)
	}
	w.j.mu.Lock()
	ritems := make([]string, len(results))
	for i, r := range results {
		ritems[i] = "(mk " + coretree.Path(transitions[i].Path) + " None " + coretree.Entry(w.j.renameLocked(r)) + ")"
	}
	w.j.addLocked("exit:transition", "Tx "+w.side()+" "+boolName(err == nil)+" ["+strings.Join(ritems, "; ")+"]",
		fmt.Sprintf("exit  %s Transition problems=%d missing=%v err=%v", w.side(), len(problems), missing, err))
	w.j.mu.Unlock()
	return results, problems, missing, err
}

func (w *wrapped) Shutdown() error {
	w.j.add("enter:shutdown", "En "+w.side()+" MShutdown", "enter "+w.side()+" Shutdown")
	w.env.delay("shutdown")
	err := w.inner.Shutdown()
	w.j.add("exit:shutdown", "Ex "+w.side()+" MShutdown "+boolName(err == nil), fmt.Sprintf("exit  %s Shutdown err=%v", w.side(), err))
	return err
}

// ---------------------------------------------------------------------------
// protocol handler

// handler is the harness protocol handler registered for the local protocol:
// it creates a real local endpoint and returns the instrumented wrapper.
type handler struct {
	mu  sync.Mutex
	env *environment // the environment of the history being run
}

func (h *handler) Connect(
	_ context.Context,
	logger *logging.Logger,
	url *urlpkg.URL,
	prompter string,
	session string,
	version synchronization.Version,
	configuration *synchronization.Configuration,
	alpha bool,
) (synchronization.Endpoint, error) {
	h.mu.Lock()
	env := h.env
	h.mu.Unlock()
	inner, err := local.NewEndpoint(logger, url.Path, session, version, configuration, alpha)
	env.j.add("connect", "Cn "+sideName(alpha)+" "+boolName(err == nil), fmt.Sprintf("connect %s err=%v", sideName(alpha), err))
	if err != nil {
		return nil, err
	}
	return &wrapped{j: env.j, alpha: alpha, inner: inner, env: env}, nil
}

var theHandler = &handler{}

func init() {
	synchronization.ProtocolHandlers[urlpkg.Protocol_Local] = theHandler
}
