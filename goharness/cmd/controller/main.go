// Harness for C11 and C29: drives the real synchronization.Manager (public
// API, MUTAGEN_DATA_DIRECTORY in a scratch directory) over two real local
// roots with instrumented endpoints and emits each recorded history as one
// Coq case; for C11 it also runs the safety predicates of safety.go on an
// enumerated scope of trees (through the add-only hook zz_verif_safety.go).
package main

import (
	"bytes"
	"context"
	"encoding/json"
	"flag"
	"fmt"
	"os"
	"os/exec"
	"sort"
	"strings"
	"sync"
	"time"

	"verifharness/internal/hx"
)

const header = "From Coq Require Import List String.\nImport ListNotations.\nOpen Scope string_scope.\nFrom Mv Require Import Common.Bytes Model.Entry Model.Reconcile Model.Safety Model.Controller Model.ControllerCheck Harness.ControllerH."

// Case is the replay form of one case: a script (history) or a predicate case.
type Case struct {
	Script *Script   `json:"script,omitempty"`
	Pred   *PredCase `json:"pred,omitempty"`
	Term   *TermCase `json:"term,omitempty"`
}

const termHeader = "From Coq Require Import List.\nImport ListNotations.\nFrom Mv Require Import Model.TerminateFiles Harness.TerminateH."

// runTermChild runs one removal-fault case in a child process.
func runTermChild(c TermCase) string {
	in, _ := json.Marshal(c)
	ctx, cancel := context.WithTimeout(context.Background(), 120*time.Second)
	defer cancel()
	dir, derr := os.MkdirTemp("", "verif-ctl-")
	if derr != nil {
		panic(derr)
	}
	defer os.RemoveAll(dir)
	cmd := exec.CommandContext(ctx, os.Args[0], "-child", "C29T")
	cmd.Env = append(os.Environ(), "VERIF_CTL_DIR="+dir)
	cmd.Stdin = bytes.NewReader(in)
	var out, errb bytes.Buffer
	cmd.Stdout = &out
	cmd.Stderr = &errb
	err := cmd.Run()
	var r childResult
	if err != nil || json.Unmarshal(out.Bytes(), &r) != nil || r.Coq == "" {
		msg := errb.String()
		if len(msg) > 1200 {
			msg = msg[:1200]
		}
		panic(fmt.Sprintf("the process running the case died: %v\n%s", err, msg))
	}
	return r.Coq
}

// termMain is the whole run for -prop C29T.
func termMain(cfg *hx.Config) {
	w := hx.NewWriter(cfg, termHeader, "tcase", "c29t_failures", 50)
	w.Rule = "a case is one real session (Manager.Create over two local roots; created paused, or running, or after one waiting flush, or paused after it) whose archive path is left alone, removed, or replaced by a directory that is not empty, and whose session file is left alone or removed, right before Manager.Terminate; recorded: whether Terminate returned nil, whether the session file and the archive path exist afterwards, whether a new manager (Shutdown + NewManager) lists the session; the scope is enumerated completely; non-trivial = a fault was injected"
	w.Extra["exhaustive_scope"] = "archive path {file, missing, non-empty directory} x session file {present, removed} x session state {running, created paused, after a cycle, paused after a cycle}: 24 cases"
	add := func(c TermCase, origin string) {
		cc := c
		w.Guard(Case{Term: &cc}, 150*time.Second, func() {
			w.Add(hx.Case{Coq: runTermChild(c), Replay: Case{Term: &cc}, Nontrivial: c.Arch != "file" || c.NoSess,
				Tags: []string{"arch:" + c.Arch, fmt.Sprintf("nosess:%v", c.NoSess)}, Origin: origin})
		})
	}
	if cfg.Replay != "" {
		b, err := os.ReadFile(cfg.Replay)
		if err != nil {
			panic(err)
		}
		var wrapper struct {
			Case Case `json:"case"`
		}
		if json.Unmarshal(b, &wrapper) == nil && wrapper.Case.Term != nil {
			add(*wrapper.Case.Term, "replay")
		}
		w.Close()
		return
	}
	for _, c := range termCases() {
		add(c, "exhaustive")
	}
	w.Close()
	fmt.Printf("cases %d\n", w.Total())
}

func runScript(s *Script) (env *environment) {
	env = newEnvironment(s)
	defer env.cleanup()
	env.run()
	return env
}

func historyCase(prop string, s *Script, origin string) (hx.Case, *environment) {
	env := runScript(s)
	tags := map[string]bool{}
	for _, e := range env.j.events {
		k := e.Kind
		if strings.HasPrefix(k, "obs:") || strings.HasPrefix(k, "enter:") || strings.HasPrefix(k, "exit:") {
			if !strings.HasSuffix(k, ":racy") {
				continue
			}
		}
		tags["ev:"+k] = true
	}
	for k := range env.tags {
		tags["note:"+k] = true
	}
	env.txMu.Lock()
	if env.txFailed {
		tags["inject:transition-failed"] = true
	}
	env.txMu.Unlock()
	if env.manual {
		tags["watch:manual"] = true
	} else {
		tags["watch:portable"] = true
	}
	tags["mode:"+modeTerm[env.mode]] = true
	var tl []string
	for k := range tags {
		tl = append(tl, k)
	}
	sort.Strings(tl)
	coq := env.coqHist()
	if prop == "C11" {
		coq = "CHist " + coq
	}
	nontrivial := false
	for _, e := range env.j.events {
		if e.Kind == "enter:transition" || strings.HasPrefix(e.Kind, "call:CPause") || strings.HasPrefix(e.Kind, "edit:") {
			nontrivial = true
		}
	}
	return hx.Case{Coq: coq, Replay: Case{Script: s}, Nontrivial: nontrivial, Tags: tl, Origin: origin}, env
}

// childResult is what a child process reports about one history.
type childResult struct {
	Coq        string   `json:"coq"`
	Tags       []string `json:"tags"`
	Nontrivial bool     `json:"nontrivial"`
}

// runChild runs one history in a child process (a panic in a goroutine of the
// code under test, or a hang, must not take the harness down; the data
// directory is process-global state). It panics with the child's output when
// the child fails, which hx.Writer.Guard records as a failing input.
func runChild(prop string, s *Script) childResult {
	in, _ := json.Marshal(s)
	ctx, cancel := context.WithTimeout(context.Background(), 120*time.Second)
	defer cancel()
	// the scratch directory is made (and removed) here, so that it does not
	// stay behind when the child dies
	dir, derr := os.MkdirTemp("", "verif-ctl-")
	if derr != nil {
		panic(derr)
	}
	defer os.RemoveAll(dir)
	cmd := exec.CommandContext(ctx, os.Args[0], "-child", prop)
	cmd.Env = append(os.Environ(), "VERIF_CTL_DIR="+dir)
	cmd.Stdin = bytes.NewReader(in)
	var out, errb bytes.Buffer
	cmd.Stdout = &out
	cmd.Stderr = &errb
	err := cmd.Run()
	var r childResult
	if err != nil || json.Unmarshal(out.Bytes(), &r) != nil || r.Coq == "" {
		msg := errb.String()
		if len(msg) > 1200 {
			msg = msg[:1200]
		}
		panic(fmt.Sprintf("the process running the history died: %v\n%s", err, msg))
	}
	return r
}

func childMain(prop string) {
	if prop == "C29T" {
		var c TermCase
		if err := json.NewDecoder(os.Stdin).Decode(&c); err != nil {
			panic(err)
		}
		json.NewEncoder(os.Stdout).Encode(childResult{Coq: runTermCase(c)})
		return
	}
	var s Script
	if err := json.NewDecoder(os.Stdin).Decode(&s); err != nil {
		panic(err)
	}
	c, _ := historyCase(prop, &s, "")
	json.NewEncoder(os.Stdout).Encode(childResult{Coq: c.Coq, Tags: c.Tags, Nontrivial: c.Nontrivial})
}

func main() {
	if len(os.Args) > 2 && os.Args[1] == "-child" {
		childMain(os.Args[2])
		return
	}
	scriptFile := flag.String("script", "", "run one script file, dump the journal and exit")
	coqOut := flag.String("coqout", "", "with -script: write the history as a Coq file")
	prop := flag.String("prop", "C29", "C11 or C29")
	fn := flag.String("fn", "", "Coq failure function (default: c11_failures / c29_failures)")
	nOverride := flag.Int("n", 0, "number of random histories (0 = tier default)")
	if len(os.Args) > 1 && os.Args[1] == "-script" {
		flag.Parse()
		b, err := os.ReadFile(*scriptFile)
		if err != nil {
			panic(err)
		}
		var s Script
		if err := json.Unmarshal(b, &s); err != nil {
			panic(err)
		}
		t0 := time.Now()
		env := runScript(&s)
		fmt.Print(env.dump())
		fmt.Println("elapsed", time.Since(t0))
		if *coqOut != "" {
			src := header + "\nDefinition h : hist := " + env.coqHist() + ".\nDefinition R := Eval vm_compute in (replay_hist h, check_c29 h, check_c11 h).\nPrint R.\n"
			os.WriteFile(*coqOut, []byte(src), 0o644)
		}
		return
	}
	cfg := hx.Parse()
	if *prop == "C29T" {
		termMain(cfg)
		return
	}
	failFn := *fn
	caseType := "hist"
	if failFn == "" {
		if *prop == "C11" {
			failFn = "c11_failures"
		} else {
			failFn = "c29_failures"
		}
	}
	if *prop == "C11" {
		caseType = "c11case"
	}
	perShard := 8
	w := hx.NewWriter(cfg, header, caseType, failFn, perShard)
	if *prop == "C11" {
		w.Rule = "a case is either one call of a safety predicate of safety.go (oneEndpointEmptiedRoot on (ancestor, alpha, beta); containsRootDeletion/containsRootTypeChange on a change list; filteredPathsAreSubset on two path lists) with the real result, or one recorded history (all endpoint method entries/exits, Connect calls, command calls/returns, observations of the persisted files and of Manager.List) of a real session over two local roots in which a root is deleted, replaced by a file or emptied at a random point; distinct = distinct Coq terms; non-trivial = predicate case whose result is true, or history containing an external edit"
	} else {
		w.Rule = "a case is one recorded history of the real synchronization.Manager over two local roots with instrumented endpoints: a random interleaving of Create/Pause/Resume/Flush(wait or not)/Reset/Terminate/Shutdown+NewManager (some commands concurrent) and external edits; every endpoint method entry/exit, Connect, command call/return and the decoded persisted files after each step are events; distinct = distinct Coq terms; non-trivial = contains a Pause, an external edit or a Transition"
	}
	// histories run in child processes, a few at a time; the cases are added in
	// the order of the scripts
	type pending struct {
		s      *Script
		origin string
	}
	var queue []pending
	addHistory := func(s *Script, origin string) { queue = append(queue, pending{s, origin}) }
	flush := func() {
		const workers = 3
		results := make([]*childResult, len(queue))
		fails := make([]string, len(queue))
		var wg sync.WaitGroup
		sem := make(chan struct{}, workers)
		for i := range queue {
			wg.Add(1)
			go func(i int) {
				defer wg.Done()
				sem <- struct{}{}
				defer func() { <-sem }()
				defer func() {
					if r := recover(); r != nil {
						fails[i] = fmt.Sprint(r)
					}
				}()
				r := runChild(*prop, queue[i].s)
				results[i] = &r
			}(i)
		}
		wg.Wait()
		for i, q := range queue {
			if w.Aborted {
				break
			}
			if results[i] == nil {
				msg := fails[i]
				w.Guard(Case{Script: q.s}, time.Second, func() { panic(msg) })
				continue
			}
			w.Add(hx.Case{Coq: results[i].Coq, Replay: Case{Script: q.s}, Nontrivial: results[i].Nontrivial,
				Tags: results[i].Tags, Origin: q.origin})
		}
		queue = nil
	}
	if cfg.Replay != "" {
		b, err := os.ReadFile(cfg.Replay)
		if err != nil {
			panic(err)
		}
		var wrapper struct {
			Case Case `json:"case"`
		}
		if err := json.Unmarshal(b, &wrapper); err != nil {
			panic(err)
		}
		if wrapper.Case.Script != nil {
			addHistory(wrapper.Case.Script, "replay")
			flush()
		} else if wrapper.Case.Pred != nil {
			w.Add(predCase(*wrapper.Case.Pred, "replay"))
		}
		w.Close()
		return
	}
	for _, raw := range hx.LoadCorpus(cfg.Corpus) {
		var c Case
		if json.Unmarshal(raw, &c) != nil {
			continue
		}
		if c.Script != nil {
			addHistory(c.Script, "corpus")
		} else if c.Pred != nil && *prop == "C11" {
			w.Add(predCase(*c.Pred, "corpus"))
		}
	}
	flush()
	r := cfg.Rand
	t0 := time.Now()
	if *prop == "C11" {
		nPred, nHist := 1200, 30
		if cfg.Thorough() {
			nPred, nHist = 20000, 400
		}
		if *nOverride > 0 {
			nHist = *nOverride
		}
		// histories first (their shards are the slow ones to evaluate)
		for i := 0; i < nHist; i++ {
			addHistory(genC11(r), "random")
		}
		flush()
		w.SetPerShard(300)
		genPredCases(w, r, nPred)
	} else {
		nHist := 40
		if cfg.Thorough() {
			nHist = 600
		}
		if *nOverride > 0 {
			nHist = *nOverride
		}
		for _, s := range fixedC29() {
			addHistory(s, "scripted")
		}
		for i := 0; i < nHist; i++ {
			addHistory(genC29(r), "random")
		}
		flush()
	}
	w.Extra["traces_validated_against_impl"] = w.Total()
	w.Close()
	fmt.Printf("cases %d in %v\n", w.Total(), time.Since(t0))
}
