// Harness for C11 and C29: drives the real synchronization.Manager (public
// API, MUTAGEN_DATA_DIRECTORY in a scratch directory) over two real local
// roots with instrumented endpoints and emits each recorded history as one
// Coq case; for C11 it also runs the safety predicates of safety.go on an
// enumerated scope of trees (through the add-only hook zz_verif_safety.go).
package main

import (
	"encoding/json"
	"flag"
	"fmt"
	"os"
	"sort"
	"strings"
	"time"

	"verifharness/internal/hx"
)

const header = "From Coq Require Import List String.\nImport ListNotations.\nOpen Scope string_scope.\nFrom Mv Require Import Common.Bytes Model.Entry Model.Reconcile Model.Safety Model.Controller Model.ControllerCheck Harness.ControllerH."

// Case is the replay form of one case: a script (history) or a predicate case.
type Case struct {
	Script *Script   `json:"script,omitempty"`
	Pred   *PredCase `json:"pred,omitempty"`
}

func runScript(s *Script) (env *environment) {
	env = newEnvironment(s)
	defer env.cleanup()
	env.run()
	return env
}

func historyCase(prop string, s *Script, origin string) (hx.Case, *environment) {
	env := runScript(s)
	tags := map[string]bool{}
	for _, e := range env.j.events {
		k := e.Kind
		if strings.HasPrefix(k, "obs:") || strings.HasPrefix(k, "enter:") || strings.HasPrefix(k, "exit:") {
			if !strings.HasSuffix(k, ":racy") {
				continue
			}
		}
		tags["ev:"+k] = true
	}
	for k := range env.tags {
		tags["note:"+k] = true
	}
	if env.manual {
		tags["watch:manual"] = true
	} else {
		tags["watch:portable"] = true
	}
	tags["mode:"+modeTerm[env.mode]] = true
	var tl []string
	for k := range tags {
		tl = append(tl, k)
	}
	sort.Strings(tl)
	coq := env.coqHist()
	if prop == "C11" {
		coq = "CHist " + coq
	}
	nontrivial := false
	for _, e := range env.j.events {
		if e.Kind == "enter:transition" || strings.HasPrefix(e.Kind, "call:CPause") || strings.HasPrefix(e.Kind, "edit:") {
			nontrivial = true
		}
	}
	return hx.Case{Coq: coq, Replay: Case{Script: s}, Nontrivial: nontrivial, Tags: tl, Origin: origin}, env
}

func main() {
	scriptFile := flag.String("script", "", "run one script file, dump the journal and exit")
	coqOut := flag.String("coqout", "", "with -script: write the history as a Coq file")
	prop := flag.String("prop", "C29", "C11 or C29")
	fn := flag.String("fn", "", "Coq failure function (default: c11_failures / c29_failures)")
	nOverride := flag.Int("n", 0, "number of random histories (0 = tier default)")
	if len(os.Args) > 1 && os.Args[1] == "-script" {
		flag.Parse()
		b, err := os.ReadFile(*scriptFile)
		if err != nil {
			panic(err)
		}
		var s Script
		if err := json.Unmarshal(b, &s); err != nil {
			panic(err)
		}
		t0 := time.Now()
		env := runScript(&s)
		fmt.Print(env.dump())
		fmt.Println("elapsed", time.Since(t0))
		if *coqOut != "" {
			src := header + "\nDefinition h : hist := " + env.coqHist() + ".\nDefinition R := Eval vm_compute in (replay_hist h, check_c29 h, check_c11 h).\nPrint R.\n"
			os.WriteFile(*coqOut, []byte(src), 0o644)
		}
		return
	}
	cfg := hx.Parse()
	failFn := *fn
	caseType := "hist"
	if failFn == "" {
		if *prop == "C11" {
			failFn = "c11_failures"
		} else {
			failFn = "c29_failures"
		}
	}
	if *prop == "C11" {
		caseType = "c11case"
	}
	perShard := 6
	w := hx.NewWriter(cfg, header, caseType, failFn, perShard)
	if *prop == "C11" {
		w.Rule = "a case is either one call of a safety predicate of safety.go (oneEndpointEmptiedRoot on (ancestor, alpha, beta); containsRootDeletion/containsRootTypeChange on a change list; filteredPathsAreSubset on two path lists) with the real result, or one recorded history (all endpoint method entries/exits, Connect calls, command calls/returns, observations of the persisted files and of Manager.List) of a real session over two local roots in which a root is deleted, replaced by a file or emptied at a random point; distinct = distinct Coq terms; non-trivial = predicate case whose result is true, or history containing an external edit"
	} else {
		w.Rule = "a case is one recorded history of the real synchronization.Manager over two local roots with instrumented endpoints: a random interleaving of Create/Pause/Resume/Flush(wait or not)/Reset/Terminate/Shutdown+NewManager (some commands concurrent) and external edits; every endpoint method entry/exit, Connect, command call/return and the decoded persisted files after each step are events; distinct = distinct Coq terms; non-trivial = contains a Pause, an external edit or a Transition"
	}
	addHistory := func(s *Script, origin string) {
		if w.Aborted {
			return
		}
		var c hx.Case
		ok := w.Guard(Case{Script: s}, 60*time.Second, func() { c, _ = historyCase(*prop, s, origin) })
		if ok {
			w.Add(c)
		}
	}
	if cfg.Replay != "" {
		b, err := os.ReadFile(cfg.Replay)
		if err != nil {
			panic(err)
		}
		var wrapper struct {
			Case Case `json:"case"`
		}
		if err := json.Unmarshal(b, &wrapper); err != nil {
			panic(err)
		}
		if wrapper.Case.Script != nil {
			addHistory(wrapper.Case.Script, "replay")
		} else if wrapper.Case.Pred != nil {
			w.Add(predCase(*wrapper.Case.Pred, "replay"))
		}
		w.Close()
		return
	}
	for _, raw := range hx.LoadCorpus(cfg.Corpus) {
		var c Case
		if json.Unmarshal(raw, &c) != nil {
			continue
		}
		if c.Script != nil {
			addHistory(c.Script, "corpus")
		} else if c.Pred != nil && *prop == "C11" {
			w.Add(predCase(*c.Pred, "corpus"))
		}
	}
	r := cfg.Rand
	t0 := time.Now()
	if *prop == "C11" {
		nPred, nHist, budget := 1500, 36, 30*time.Second
		if cfg.Thorough() {
			nPred, nHist, budget = 40000, 1200, 20*time.Minute
		}
		if *nOverride > 0 {
			nHist = *nOverride
		}
		// histories first (their shards are the slow ones to evaluate)
		for i := 0; i < nHist && time.Since(t0) < budget; i++ {
			addHistory(genC11(r), "random")
		}
		w.SetPerShard(300)
		genPredCases(w, r, nPred)
	} else {
		nHist, budget := 48, 35*time.Second
		if cfg.Thorough() {
			nHist, budget = 1500, 20*time.Minute
		}
		if *nOverride > 0 {
			nHist = *nOverride
		}
		for _, s := range fixedC29() {
			addHistory(s, "scripted")
		}
		for i := 0; i < nHist && time.Since(t0) < budget; i++ {
			addHistory(genC29(r), "random")
		}
	}
	w.Extra["traces_validated_against_impl"] = w.Total()
	w.Close()
	fmt.Printf("cases %d in %v\n", w.Total(), time.Since(t0))
}
