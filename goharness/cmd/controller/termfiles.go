package main

import (
	"context"
	"fmt"
	"os"
	"path/filepath"
	"time"

	"github.com/mutagen-io/mutagen/pkg/selection"
	"github.com/mutagen-io/mutagen/pkg/synchronization"
	urlpkg "github.com/mutagen-io/mutagen/pkg/url"
)

// TermCase is one case of the removal step of Terminate under file-system
// faults: what is put at the archive path before Terminate is called, whether
// the session file is removed beforehand, and how the session got there.
type TermCase struct {
	Arch    string `json:"arch"`    // file | missing | dir
	NoSess  bool   `json:"nosess"`  // the session file is removed before Terminate
	Paused  bool   `json:"paused"`  // the session is created paused
	Cycle   bool   `json:"cycle"`   // one waiting flush before (the archive holds content)
	PauseIt bool   `json:"pauseit"` // Pause before Terminate
}

var archTerm = map[string]string{"file": "ArchFile", "missing": "ArchMissing", "dir": "ArchDirectory"}

// runTermCase runs the case against the real Manager and renders it as a Coq
// term of type tcase.
func runTermCase(c TermCase) string {
	s := &Script{Alpha: map[string]string{"a": "1", "d/e": "22"}}
	env := newEnvironment(s)
	defer env.cleanup()
	env.manual = true
	ctxFor := func() (context.Context, context.CancelFunc) {
		return context.WithTimeout(context.Background(), 8*time.Second)
	}
	m, err := synchronization.NewManager(nil)
	if err != nil {
		panic(err)
	}
	ctx, cancel := ctxFor()
	id, err := m.Create(ctx,
		&urlpkg.URL{Kind: urlpkg.Kind_Synchronization, Protocol: urlpkg.Protocol_Local, Path: env.alpha},
		&urlpkg.URL{Kind: urlpkg.Kind_Synchronization, Protocol: urlpkg.Protocol_Local, Path: env.beta},
		env.config(), &synchronization.Configuration{}, &synchronization.Configuration{}, "", nil, c.Paused, "")
	cancel()
	if err != nil {
		panic(fmt.Errorf("create failed: %w", err))
	}
	sel := &selection.Selection{Specifications: []string{id}}
	if !c.Paused {
		env.settle()
		if c.Cycle {
			ctx, cancel = ctxFor()
			m.Flush(ctx, sel, "", false)
			cancel()
		}
		if c.PauseIt {
			ctx, cancel = ctxFor()
			m.Pause(ctx, sel, "")
			cancel()
		}
	}
	sessPath := filepath.Join(env.dir, "data", "sessions", id)
	archPath := filepath.Join(env.dir, "data", "archives", id)
	switch c.Arch {
	case "missing":
		if err := os.Remove(archPath); err != nil {
			panic(err)
		}
	case "dir":
		os.Remove(archPath)
		if err := os.MkdirAll(filepath.Join(archPath, "x"), 0o755); err != nil {
			panic(err)
		}
	}
	if c.NoSess {
		if err := os.Remove(sessPath); err != nil {
			panic(err)
		}
	}
	ctx, cancel = ctxFor()
	terr := m.Terminate(ctx, sel, "")
	cancel()
	exists := func(p string) bool { _, e := os.Lstat(p); return e == nil }
	sessAfter, archAfter := exists(sessPath), exists(archPath)
	m.Shutdown()
	m2, err := synchronization.NewManager(nil)
	if err != nil {
		panic(err)
	}
	ctx, cancel = ctxFor()
	_, states, lerr := m2.List(ctx, &selection.Selection{All: true}, 0)
	cancel()
	loaded := lerr == nil && len(states) > 0
	m2.Shutdown()
	return fmt.Sprintf("(%s, %s, mkout %s %s %s %s)", archTerm[c.Arch], boolName(!c.NoSess),
		boolName(terr == nil), boolName(sessAfter), boolName(archAfter), boolName(loaded))
}

// termCases enumerates the whole scope.
func termCases() []TermCase {
	var out []TermCase
	for _, arch := range []string{"file", "missing", "dir"} {
		for _, nosess := range []bool{false, true} {
			for _, mode := range []int{0, 1, 2, 3} {
				out = append(out, TermCase{Arch: arch, NoSess: nosess, Paused: mode == 1, Cycle: mode >= 2, PauseIt: mode == 3})
			}
		}
	}
	return out
}
