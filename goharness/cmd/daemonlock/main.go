// Harness for C28: real processes race for the real daemon lock. The harness
// binary re-executes itself N times as children (environment variable
// VERIF_C28_CHILD) with MUTAGEN_DATA_DIRECTORY pointing into a scratch
// directory. A child loops: append "<id> AC" to the shared witness file
// (O_APPEND, one write per record, so the file order is a total order
// consistent with real time), try to take the lock (daemon.AcquireLock, or
// Lock(false) on one long-lived locking.Locker), append "AO" or "AF <class>",
// hold a random few hundred microseconds, append "RC", release
// (Lock.Release / Locker.Unlock), append "RR <descriptors of the lock file
// still open>". The parent SIGKILLs random children at random moments,
// bracketing each kill with "KC" before the signal and "DD" after wait4; some
// children exit while holding. The witness log is the case.
package main

import (
	"encoding/json"
	"errors"
	"fmt"
	"math/rand"
	"os"
	"os/exec"
	"path/filepath"
	"strconv"
	"strings"
	"sync"
	"time"

	"golang.org/x/sys/unix"

	"github.com/mutagen-io/mutagen/pkg/daemon"
	"github.com/mutagen-io/mutagen/pkg/filesystem/locking"

	"verifharness/internal/hx"
)

// ChildSpec is one racing process.
type ChildSpec struct {
	Kind        string `json:"kind"` // daemon | locker
	Rounds      int    `json:"rounds"`
	Seed        int64  `json:"seed"`
	HoldUS      int    `json:"hold_us"`
	KillAfterUS int    `json:"kill_after_us"` // >= 0: the parent kills it this long after the start
	ExitHolding bool   `json:"exit_holding,omitempty"`
}

// Case is one race.
type Case struct {
	Children []ChildSpec `json:"children"`
}

func lockFilePath() string {
	ep, err := daemon.EndpointPath()
	if err != nil {
		panic(err)
	}
	return filepath.Join(filepath.Dir(ep), "daemon.lock")
}

func openDescriptors(path string) int {
	ents, err := os.ReadDir("/proc/self/fd")
	if err != nil {
		return 99
	}
	n := 0
	for _, e := range ents {
		if t, err := os.Readlink("/proc/self/fd/" + e.Name()); err == nil && t == path {
			n++
		}
	}
	return n
}

func errClass(err error) string {
	switch {
	case errors.Is(err, unix.EAGAIN) || errors.Is(err, unix.EACCES):
		return "A"
	case strings.Contains(err.Error(), "already held"):
		return "H"
	default:
		return "O"
	}
}

func child(spec string) {
	kv := map[string]string{}
	for _, f := range strings.Split(spec, ",") {
		k, v, _ := strings.Cut(f, "=")
		kv[k] = v
	}
	id := kv["id"]
	rounds, _ := strconv.Atoi(kv["rounds"])
	seed, _ := strconv.ParseInt(kv["seed"], 10, 64)
	hold, _ := strconv.Atoi(kv["hold"])
	exitHolding := kv["exit"] == "1"
	wf, err := os.OpenFile(kv["witness"], os.O_WRONLY|os.O_APPEND, 0)
	if err != nil {
		os.Exit(3)
	}
	rec := func(s string) {
		if _, err := wf.WriteString(id + " " + s + "\n"); err != nil {
			os.Exit(4)
		}
	}
	r := rand.New(rand.NewSource(seed))
	path := lockFilePath()
	var locker *locking.Locker
	if kv["kind"] == "locker" {
		if locker, err = locking.NewLocker(path, 0600); err != nil {
			os.Exit(5)
		}
	}
	// tell the parent we are ready and wait for its go, so that the children
	// really race
	os.Stdout.WriteString("r")
	b := make([]byte, 1)
	os.Stdin.Read(b)
	for i := 0; i < rounds; i++ {
		rec("AC")
		var lock *daemon.Lock
		if locker != nil {
			err = locker.Lock(false)
		} else {
			lock, err = daemon.AcquireLock()
		}
		if err != nil {
			rec("AF " + errClass(err))
			time.Sleep(time.Duration(50+r.Intn(400)) * time.Microsecond)
			continue
		}
		rec("AO")
		if hold > 0 {
			time.Sleep(time.Duration(r.Intn(hold)) * time.Microsecond)
		}
		if exitHolding && i == rounds-1 {
			// terminate without releasing: the witness brackets it like a kill
			rec("KC")
			os.Exit(7)
		}
		rec("RC")
		if locker != nil {
			locker.Unlock()
		} else {
			lock.Release()
		}
		rec(fmt.Sprintf("RR %d", openDescriptors(path)))
		if r.Intn(3) == 0 {
			time.Sleep(time.Duration(r.Intn(300)) * time.Microsecond)
		}
	}
}

var selfExe string

func runCase(c Case) (coq string, nontrivial bool, tags []string) {
	dir, err := os.MkdirTemp("", "verif-c28-")
	if err != nil {
		panic(err)
	}
	defer os.RemoveAll(dir)
	witness := filepath.Join(dir, "witness.log")
	wf, err := os.OpenFile(witness, os.O_CREATE|os.O_WRONLY|os.O_APPEND, 0o600)
	if err != nil {
		panic(err)
	}
	defer wf.Close()
	type proc struct {
		cmd   *exec.Cmd
		stdin interface{ Write([]byte) (int, error) }
		out   interface{ Read([]byte) (int, error) }
	}
	procs := make([]proc, len(c.Children))
	for i, ch := range c.Children {
		cmd := exec.Command(selfExe)
		exit := "0"
		if ch.ExitHolding {
			exit = "1"
		}
		cmd.Env = append(os.Environ(),
			"MUTAGEN_DATA_DIRECTORY="+filepath.Join(dir, "data"),
			fmt.Sprintf("VERIF_C28_CHILD=id=%d,kind=%s,rounds=%d,seed=%d,hold=%d,exit=%s,witness=%s",
				i, ch.Kind, ch.Rounds, ch.Seed, ch.HoldUS, exit, witness))
		in, err := cmd.StdinPipe()
		if err != nil {
			panic(err)
		}
		out, err := cmd.StdoutPipe()
		if err != nil {
			panic(err)
		}
		if err := cmd.Start(); err != nil {
			panic(err)
		}
		procs[i] = proc{cmd, in, out}
	}
	for _, p := range procs {
		b := make([]byte, 1)
		if _, err := p.out.Read(b); err != nil {
			panic("child did not get ready: " + err.Error())
		}
	}
	start := time.Now()
	for _, p := range procs {
		p.stdin.Write([]byte{1})
	}
	var wg sync.WaitGroup
	for i, ch := range c.Children {
		wg.Add(1)
		go func(i int, ch ChildSpec) {
			defer wg.Done()
			p := procs[i]
			if ch.KillAfterUS >= 0 {
				time.Sleep(time.Until(start.Add(time.Duration(ch.KillAfterUS) * time.Microsecond)))
				wf.WriteString(fmt.Sprintf("%d KC\n", i))
				p.cmd.Process.Kill()
				p.cmd.Wait()
				wf.WriteString(fmt.Sprintf("%d DD\n", i))
				return
			}
			p.cmd.Wait()
			if p.cmd.ProcessState != nil && p.cmd.ProcessState.ExitCode() == 7 {
				// it exited while holding and wrote the "KC" bracket itself
				wf.WriteString(fmt.Sprintf("%d DD\n", i))
			}
		}(i, ch)
	}
	done := make(chan struct{})
	go func() { wg.Wait(); close(done) }()
	select {
	case <-done:
	case <-time.After(60 * time.Second):
		for _, p := range procs {
			p.cmd.Process.Kill()
		}
		panic("children did not finish")
	}
	raw, err := os.ReadFile(witness)
	if err != nil {
		panic(err)
	}
	kinds := make([]string, len(c.Children))
	for i, ch := range c.Children {
		kinds[i] = map[string]string{"daemon": "KDaemon", "locker": "KLocker"}[ch.Kind]
		tags = append(tags, "kind:"+ch.Kind)
	}
	var recs []string
	oks, fails, kills := 0, 0, 0
	for _, line := range strings.Split(strings.TrimSpace(string(raw)), "\n") {
		f := strings.Fields(line)
		if len(f) < 2 {
			continue
		}
		var r string
		switch f[1] {
		case "AC", "AO", "RC", "DD":
			r = f[1]
		case "KC":
			r = "KC"
			kills++
		case "AF":
			r = map[string]string{"A": "AFa", "H": "AFh", "O": "AFo"}[f[2]]
			fails++
		case "RR":
			switch f[2] {
			case "0":
				r = "RR0"
			case "1":
				r = "RR1"
			default:
				r = "(RR " + f[2] + ")"
			}
		default:
			panic("bad witness record " + line)
		}
		if f[1] == "AO" {
			oks++
		}
		recs = append(recs, fmt.Sprintf("(P%s,%s)", f[0], r))
	}
	tags = append(tags, fmt.Sprintf("procs:%d", len(c.Children)))
	if kills > 0 {
		tags = append(tags, "killed-or-exited-holding")
	}
	if fails > 0 {
		tags = append(tags, "contention")
	}
	coq = fmt.Sprintf("(%s, %s)", hx.List(kinds), hx.List(recs))
	return coq, fails > 0 && oks > 1, tags
}

const header = "From Coq Require Import List Arith.\nImport ListNotations.\nFrom Mv Require Import Model.DaemonLock Harness.DaemonLockH."

func main() {
	if spec := os.Getenv("VERIF_C28_CHILD"); spec != "" {
		child(spec)
		return
	}
	cfg := hx.Parse()
	var err error
	if selfExe, err = os.Executable(); err != nil {
		panic(err)
	}
	w := hx.NewWriter(cfg, header, "lcase", "lock_failures", 12)
	w.Rule = "a case = one race of 2..8 real processes for the daemon lock (kinds, merged witness log in file order); distinct = distinct Coq terms; non-trivial = at least one refused attempt and more than one successful acquisition"
	add := func(c Case, origin string) {
		if w.Aborted {
			return
		}
		var coq string
		var nt bool
		var tags []string
		if w.Guard(c, 120*time.Second, func() { coq, nt, tags = runCase(c) }) {
			w.Add(hx.Case{Coq: coq, Replay: c, Nontrivial: nt, Tags: tags, Origin: origin})
		}
	}
	if cfg.Replay != "" {
		b, err := os.ReadFile(cfg.Replay)
		if err != nil {
			panic(err)
		}
		var wrapper struct {
			Case Case `json:"case"`
		}
		if err := json.Unmarshal(b, &wrapper); err != nil {
			panic(err)
		}
		add(wrapper.Case, "replay")
		w.Close()
		return
	}
	for _, raw := range hx.LoadCorpus(cfg.Corpus) {
		var c Case
		if json.Unmarshal(raw, &c) == nil && len(c.Children) > 0 {
			add(c, "corpus")
		}
	}
	r := cfg.Rand
	n := 40
	maxProcs := 5
	if cfg.Thorough() {
		n = 400
		maxProcs = 8
	}
	for i := 0; i < n; i++ {
		k := 2 + r.Intn(maxProcs-1)
		c := Case{}
		for j := 0; j < k; j++ {
			ch := ChildSpec{Kind: "daemon", Rounds: 5 + r.Intn(20), Seed: r.Int63(), HoldUS: []int{0, 200, 800}[r.Intn(3)], KillAfterUS: -1}
			if r.Intn(3) == 0 {
				ch.Kind = "locker"
			}
			switch r.Intn(5) {
			case 0:
				ch.KillAfterUS = r.Intn(15000)
			case 1:
				ch.ExitHolding = true
			}
			c.Children = append(c.Children, ch)
		}
		add(c, "random")
	}
	w.Extra["traces_validated_against_impl"] = w.Total()
	w.Close()
	fmt.Println("cases", w.Total())
}
