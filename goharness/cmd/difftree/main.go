// Harness for C07 (diff / apply / copy / filter / count): runs core.Diff,
// core.Apply, Entry.Count, Entry.Copy (all four behaviours) and, through the
// verif hook, the unexported synchronizable filter and diff(path, ., .) on
// pairs of valid trees, and emits inputs and the implementation's outputs as
// Coq terms of Model/DiffApply.v.
package main

import (
	"encoding/json"
	"fmt"
	"math/rand"
	"os"
	"sort"
	"time"

	"github.com/mutagen-io/mutagen/pkg/synchronization/core"

	"verifharness/internal/coretree"
	"verifharness/internal/hx"
)

// Case is the replay form of one case.
type Case struct {
	A  *coretree.J `json:"a"`
	B  *coretree.J `json:"b"`
	P  string      `json:"p"`            // path given to diff(path, a, b)
	Ms []Mut       `json:"ms,omitempty"` // heap part: mutations of the cells of a
}

// Mut is one mutation of a cell of the original, addressed by the number
// Model/Heap.v (alloc_tree) gives the cell: children in name order first, then
// the cell itself.
type Mut struct {
	Op      string `json:"op"` // setleaf del reify scribble
	Loc     int    `json:"loc"`
	Name    string `json:"name,omitempty"`
	Tracked bool   `json:"tracked,omitempty"`
}

// numberCells lists the cells of e in the allocation order of the heap model.
func numberCells(e *core.Entry, out []*core.Entry) []*core.Entry {
	if e == nil {
		return out
	}
	names := make([]string, 0, len(e.Contents))
	for n := range e.Contents {
		names = append(names, n)
	}
	sort.Strings(names)
	for _, n := range names {
		out = numberCells(e.Contents[n], out)
	}
	return append(out, e)
}

// applyMut performs one mutation on the Go cells, with the semantics of
// Model/Heap.v step: the mutators of the code base act on directory kinds only.
func applyMut(cells []*core.Entry, m Mut) {
	if m.Loc < 0 || m.Loc >= len(cells) {
		return
	}
	x := cells[m.Loc]
	switch m.Op {
	case "setleaf":
		if isDirLike(x) {
			if x.Contents == nil {
				x.Contents = map[string]*core.Entry{}
			}
			x.Contents[m.Name] = coretree.File("m", true)
		}
	case "del":
		if isDirLike(x) {
			delete(x.Contents, m.Name)
		}
	case "reify":
		if x.Kind == core.EntryKind_PhantomDirectory {
			if m.Tracked {
				x.Kind = core.EntryKind_Directory
			} else {
				x.Kind = core.EntryKind_Untracked
				x.Contents = nil
			}
		}
	case "scribble":
		x.Kind = core.EntryKind_Problematic
		x.Executable = false
		x.Digest = nil
		x.Target = ""
		x.Problem = "mutated"
		x.Contents = nil
	}
}

func mutCoq(m Mut) string {
	switch m.Op {
	case "setleaf":
		return fmt.Sprintf("(MSetLeaf %d %s (CFile true \"m\"))", m.Loc, coretree.Str(m.Name))
	case "del":
		return fmt.Sprintf("(MDel %d %s)", m.Loc, coretree.Str(m.Name))
	case "reify":
		return fmt.Sprintf("(MReify %d %v)", m.Loc, m.Tracked)
	default:
		return fmt.Sprintf("(MScribble %d (CProblem \"mutated\"))", m.Loc)
	}
}

// randomMuts draws a mutation sequence over the cells of a.
func randomMuts(r *rand.Rand, a *core.Entry) []Mut {
	cells := numberCells(a, nil)
	if len(cells) == 0 {
		return nil
	}
	k := 1 + r.Intn(5)
	ms := make([]Mut, 0, k)
	for i := 0; i < k; i++ {
		loc := r.Intn(len(cells))
		if r.Intn(3) == 0 { // favour directory cells
			for j := 0; j < 4 && !isDirLike(cells[loc]); j++ {
				loc = r.Intn(len(cells))
			}
		}
		name := "zz"
		if names := cells[loc].Contents; len(names) > 0 && r.Intn(3) != 0 {
			sorted := make([]string, 0, len(names))
			for n := range names {
				sorted = append(sorted, n)
			}
			sort.Strings(sorted)
			name = sorted[r.Intn(len(sorted))]
		}
		switch r.Intn(7) {
		case 0, 1:
			ms = append(ms, Mut{Op: "setleaf", Loc: loc, Name: name})
		case 2, 3:
			ms = append(ms, Mut{Op: "del", Loc: loc, Name: name})
		case 4:
			ms = append(ms, Mut{Op: "reify", Loc: loc, Tracked: r.Intn(2) == 0})
		default:
			ms = append(ms, Mut{Op: "scribble", Loc: loc})
		}
	}
	return ms
}

var behaviors = []core.EntryCopyBehavior{
	core.EntryCopyBehaviorDeep,
	core.EntryCopyBehaviorDeepPreservingLeaves,
	core.EntryCopyBehaviorShallow,
	core.EntryCopyBehaviorSlim,
}

func isDirLike(e *core.Entry) bool {
	return e != nil && (e.Kind == core.EntryKind_Directory || e.Kind == core.EntryKind_PhantomDirectory)
}

// scribbleFields overwrites every scalar field of the node (never the bytes of
// a digest in place: digests are immutable by convention and shared by all
// copy behaviours).
func scribbleFields(e *core.Entry) {
	e.Kind = core.EntryKind_Untracked
	e.Executable = !e.Executable
	e.Digest = []byte("mutated")
	e.Target = "mutated"
	e.Problem = "mutated"
}

// scribbleMap deletes every name and inserts a new one.
func scribbleMap(e *core.Entry) {
	for n := range e.Contents {
		delete(e.Contents, n)
	}
	if e.Contents == nil {
		e.Contents = map[string]*core.Entry{}
	}
	e.Contents["zz-mutated"] = coretree.File("mutated", true)
}

// mutateOriginal changes the original in every way the given copy behaviour
// promises isolation from.
func mutateOriginal(e *core.Entry, b core.EntryCopyBehavior) {
	if e == nil {
		return
	}
	switch b {
	case core.EntryCopyBehaviorDeep:
		var rec func(x *core.Entry)
		rec = func(x *core.Entry) {
			for _, c := range x.Contents {
				rec(c)
			}
			scribbleMap(x)
			scribbleFields(x)
		}
		rec(e)
	case core.EntryCopyBehaviorDeepPreservingLeaves:
		// every directory cell (fields and map) at every level; leaves are
		// shared with the copy by design and are left alone
		var rec func(x *core.Entry)
		rec = func(x *core.Entry) {
			for _, c := range x.Contents {
				if isDirLike(c) {
					rec(c)
				}
			}
			scribbleMap(x)
			scribbleFields(x)
		}
		if isDirLike(e) {
			rec(e)
		} else {
			scribbleMap(e)
			scribbleFields(e)
		}
	default: // Shallow, Slim: the root cell only
		scribbleMap(e)
		scribbleFields(e)
	}
}

func applyResult(e *core.Entry, err error) string {
	if err != nil {
		return "FErrParent"
	}
	return "(FOk " + coretree.Entry(e) + ")"
}

func hasKind(e *core.Entry, pred func(core.EntryKind) bool) bool {
	if e == nil {
		return false
	}
	if pred(e.Kind) {
		return true
	}
	for _, c := range e.Contents {
		if hasKind(c, pred) {
			return true
		}
	}
	return false
}

func runCase(c Case) (string, bool, []string) {
	a, b := coretree.FromJ(c.A), coretree.FromJ(c.B)
	if a.EnsureValid(false) != nil || b.EnsureValid(false) != nil {
		panic("harness generated an invalid tree")
	}
	in := fmt.Sprintf("(In7 %s %s %s)", coretree.Entry(a), coretree.Entry(b), coretree.Path(c.P))

	d := core.Diff(a, b)
	dStr := coretree.Changes(d)
	applied, err := core.Apply(a, d)
	appliedStr := applyResult(applied, err)
	ds := core.Diff(a, a)
	pd := core.VerifDiff(c.P, a, b)
	s := a.VerifSynchronizable()
	n := a.Count()

	// Apply with a root replacement followed by changes inside it.
	chain := append([]*core.Change{{Path: "", New: a}}, d...)
	applied2, err2 := core.Apply(nil, chain)
	applied2Str := applyResult(applied2, err2)

	// Copies: a fresh original per behaviour (the mutation destroys it).
	copies := make([]string, 0, len(behaviors))
	for _, beh := range behaviors {
		orig := coretree.FromJ(c.A)
		cp := orig.Copy(beh)
		before := coretree.Entry(cp)
		mutateOriginal(orig, beh)
		after := coretree.Entry(cp)
		copies = append(copies, "("+before+", "+after+")")
	}

	// Heap part: the same mutation sequence after each copy behaviour; what
	// each copy shows afterwards.
	mutStrs := make([]string, len(c.Ms))
	for i, m := range c.Ms {
		mutStrs[i] = mutCoq(m)
	}
	seen := make([]string, 0, len(behaviors))
	for _, beh := range behaviors {
		orig := coretree.FromJ(c.A)
		cells := numberCells(orig, nil)
		cp := orig.Copy(beh)
		for _, m := range c.Ms {
			applyMut(cells, m)
		}
		seen = append(seen, coretree.Entry(cp))
	}
	heapPart := "(" + hx.List(mutStrs) + ", " + hx.List(seen) + ")"

	out := fmt.Sprintf("(Out7 %s %s %s %s %s %d %s %s %s %s)", dStr, appliedStr, coretree.Changes(ds),
		coretree.Changes(pd), coretree.Entry(s), n, hx.List(copies), applied2Str,
		coretree.Entry(a), coretree.Entry(b))

	unsync := func(k core.EntryKind) bool {
		return k == core.EntryKind_Untracked || k == core.EntryKind_Problematic
	}
	phantom := func(k core.EntryKind) bool { return k == core.EntryKind_PhantomDirectory }
	tags := []string{}
	switch {
	case len(d) == 0:
		tags = append(tags, "diff:0")
	case len(d) == 1 && d[0].Path == "":
		tags = append(tags, "diff:root-replacement")
	case len(d) <= 3:
		tags = append(tags, "diff:1-3")
	default:
		tags = append(tags, "diff:4+")
	}
	if hasKind(a, unsync) || hasKind(b, unsync) {
		tags = append(tags, "in:untracked/problematic")
	}
	if hasKind(a, phantom) || hasKind(b, phantom) {
		tags = append(tags, "in:phantom")
	}
	if a == nil || b == nil {
		tags = append(tags, "in:nil-root")
	}
	if c.P != "" {
		tags = append(tags, "in:prefixed-diff")
	}
	if len(c.Ms) > 0 {
		visible := 0
		for i := range seen {
			if seen[i] != coretree.Entry(coretree.FromJ(c.A).Copy(behaviors[i])) {
				visible++
			}
		}
		tags = append(tags, fmt.Sprintf("heap:mutations-visible-through-%d-of-4-copies", visible))
	}
	return "(" + in + ", " + out + ", " + heapPart + ")", len(d) > 0, tags
}

// phantomize returns a copy of e in which some directories became phantom
// directories.
func phantomize(r *rand.Rand, e *core.Entry, p int) *core.Entry {
	if e == nil {
		return nil
	}
	c := e.Copy(core.EntryCopyBehaviorSlim)
	if len(e.Contents) > 0 {
		c.Contents = map[string]*core.Entry{}
		for n, ch := range e.Contents {
			c.Contents[n] = phantomize(r, ch, p)
		}
	}
	if c.Kind == core.EntryKind_Directory && r.Intn(p) == 0 {
		c.Kind = core.EntryKind_PhantomDirectory
	}
	return c
}

const header = "From Coq Require Import List String.\nImport ListNotations.\nOpen Scope string_scope.\nFrom Mv Require Import Common.Bytes Model.Entry Model.DiffApply Model.Heap Harness.DiffApplyH."

func main() {
	cfg := hx.Parse()
	w := hx.NewWriter(cfg, header, "dcase", "da_failures", 200)
	w.Rule = "a case = (a, b, path) with the outputs of core.Diff(a,b), core.Apply(a, that diff), core.Diff(a,a), diff(path,a,b), a.synchronizable(), a.Count(), a.Copy(behaviour) before and after mutating the original for each of the four behaviours, core.Apply(nil, [root:=a]++diff), and a, b re-read at the end; plus a random sequence of 1-5 mutations (contents insert/delete, phantom reification, overwrite) of the original's cells applied after each copy behaviour and the four copies read afterwards, which the heap model must predict exactly; distinct = distinct Coq terms; non-trivial = core.Diff(a,b) is not empty"
	add := func(c Case, origin string) {
		if w.Aborted {
			return
		}
		var coq string
		var nt bool
		var tags []string
		if w.Guard(c, 5*time.Second, func() { coq, nt, tags = runCase(c) }) {
			w.Add(hx.Case{Coq: coq, Replay: c, Nontrivial: nt, Tags: tags, Origin: origin})
		}
	}
	if cfg.Replay != "" {
		b, err := os.ReadFile(cfg.Replay)
		if err != nil {
			panic(err)
		}
		var wrapper struct {
			Case Case `json:"case"`
		}
		if err := json.Unmarshal(b, &wrapper); err != nil {
			panic(err)
		}
		add(wrapper.Case, "replay")
		w.Close()
		return
	}
	for _, raw := range hx.LoadCorpus(cfg.Corpus) {
		var c Case
		if json.Unmarshal(raw, &c) == nil {
			add(c, "corpus")
		}
	}
	r := cfg.Rand
	sides, _ := coretree.SmallScope()
	prefixes := []string{"", "", "", "x", "x/y"}
	pick := func() string { return prefixes[r.Intn(len(prefixes))] }
	mk := func(a, b *core.Entry) Case {
		return Case{A: coretree.ToJ(a), B: coretree.ToJ(b), P: pick(), Ms: randomMuts(r, a)}
	}
	if cfg.Thorough() {
		w.Extra["exhaustive_scope"] = fmt.Sprintf("all %d x %d ordered pairs of the small scope of trees (names {a,b}/{c}, depth <= 2, every entry kind incl. untracked and problematic; nil roots)", len(sides), len(sides))
		for _, a := range sides {
			for _, b := range sides {
				add(mk(a, b), "exhaustive")
			}
		}
	} else {
		w.Extra["exhaustive_scope"] = fmt.Sprintf("scope of %d x %d ordered pairs of small trees (names {a,b}/{c}, depth <= 2, every entry kind); the quick tier samples it uniformly, the thorough tier enumerates it", len(sides), len(sides))
		for i := 0; i < 900; i++ {
			add(mk(sides[r.Intn(len(sides))], sides[r.Intn(len(sides))]), "scope-sample")
		}
	}
	nRandom := 900
	if cfg.Thorough() {
		nRandom = 10000
	}
	for i := 0; i < nRandom; i++ {
		var a *core.Entry
		if r.Intn(10) != 0 {
			a = coretree.RandomEntry(r, 3, r.Intn(3) == 0)
		}
		var b *core.Entry
		switch r.Intn(6) {
		case 0:
			b = coretree.RandomEntry(r, 3, false)
		case 1:
			b = a
		default:
			b = coretree.Mutate(r, a, 3, true)
		}
		if r.Intn(3) == 0 {
			a = phantomize(r, a, 3)
			if r.Intn(2) == 0 {
				b = phantomize(r, b, 3)
			}
		}
		add(mk(a, b), "random")
	}
	w.Close()
	fmt.Printf("cases %d\n", w.Total())
}
