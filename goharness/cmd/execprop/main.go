// Harness for C18 (executability survives synchronization through an endpoint
// that cannot store it): on triples (ancestor, P, N) where N is a snapshot
// "scanned by a non-preserving endpoint" (every file non-executable) it runs
// the real core.PropagateExecutability(ancestor, P, N) and then the real
// core.Reconcile on the result, as controller.go:synchronize does when
// exactly one endpoint preserves executability, and emits
// (mode, N is alpha?, anc, P, N, N1, plan) as a Coq term.
package main

import (
	"encoding/json"
	"fmt"
	"math/rand"
	"os"
	"time"

	"github.com/mutagen-io/mutagen/pkg/synchronization/core"

	"verifharness/internal/coretree"
	"verifharness/internal/hx"
)

// Case is the replay form of one case.
type Case struct {
	Mode   int         `json:"mode"`    // 1..4 as in core.SynchronizationMode
	NAlpha bool        `json:"n_alpha"` // true: N is alpha, P is beta
	Anc    *coretree.J `json:"anc"`
	P      *coretree.J `json:"p"`
	N      *coretree.J `json:"n"` // executability bits are cleared before use
}

var modeNames = map[int]string{1: "TwoWaySafe", 2: "TwoWayResolved", 3: "OneWaySafe", 4: "OneWayReplica"}

// strip returns a deep copy with every executability bit cleared: what an
// endpoint that does not preserve executability reports.
func strip(e *core.Entry) *core.Entry {
	if e == nil {
		return nil
	}
	c := e.Copy(core.EntryCopyBehaviorShallow)
	c.Executable = false
	if len(e.Contents) > 0 {
		c.Contents = make(map[string]*core.Entry, len(e.Contents))
		for n, ch := range e.Contents {
			c.Contents[n] = strip(ch)
		}
	}
	return c
}

func at(e *core.Entry, path string) *core.Entry {
	if path == "" {
		return e
	}
	cur := e
	start := 0
	for i := 0; i <= len(path); i++ {
		if i == len(path) || path[i] == '/' {
			if cur == nil {
				return nil
			}
			cur = cur.Contents[path[start:i]]
			start = i + 1
		}
	}
	return cur
}

// flips reports whether some change for P carries, at a path where P and N
// both hold a file, an executability bit different from P's.
func flips(p, n *core.Entry, changes []*core.Change) bool {
	var walk func(prefix string, e *core.Entry) bool
	walk = func(prefix string, e *core.Entry) bool {
		if e == nil {
			return false
		}
		if e.Kind == core.EntryKind_File {
			pp, nn := at(p, prefix), at(n, prefix)
			if pp != nil && nn != nil && pp.Kind == core.EntryKind_File && nn.Kind == core.EntryKind_File &&
				pp.Executable != e.Executable {
				return true
			}
		}
		for name, c := range e.Contents {
			q := name
			if prefix != "" {
				q = prefix + "/" + name
			}
			if walk(q, c) {
				return true
			}
		}
		return false
	}
	for _, ch := range changes {
		if walk(ch.Path, ch.New) {
			return true
		}
	}
	return false
}

type result struct {
	n1                     *core.Entry
	ancCh, alphaCh, betaCh []*core.Change
	conflicts              []*core.Conflict
}

func run(anc, p, n *core.Entry, mode core.SynchronizationMode, nAlpha bool) result {
	var r result
	// controller.go: the target is the content of the side that does not
	// preserve executability, the source the other side.
	r.n1 = core.PropagateExecutability(anc, p, n)
	alpha, beta := p, r.n1
	if nAlpha {
		alpha, beta = r.n1, p
	}
	r.ancCh, r.alphaCh, r.betaCh, r.conflicts = core.Reconcile(anc, alpha, beta, mode)
	return r
}

func runCase(c Case) (string, bool, []string) {
	anc, p, n := coretree.FromJ(c.Anc), coretree.FromJ(c.P), strip(coretree.FromJ(c.N))
	r := run(anc, p, n, core.SynchronizationMode(c.Mode), c.NAlpha)
	na := "false"
	if c.NAlpha {
		na = "true"
	}
	coq := fmt.Sprintf("(%s, %s, %s, %s, %s, %s, mkplan %s %s %s %s)", modeNames[c.Mode], na,
		coretree.Entry(anc), coretree.Entry(p), coretree.Entry(n), coretree.Entry(r.n1),
		coretree.Changes(r.ancCh), coretree.Changes(r.alphaCh), coretree.Changes(r.betaCh), coretree.Conflicts(r.conflicts))
	pCh := r.alphaCh
	side := "P=alpha"
	if c.NAlpha {
		pCh = r.betaCh
		side = "P=beta"
	}
	tags := []string{"mode:" + modeNames[c.Mode], side}
	if len(pCh) > 0 {
		tags = append(tags, "plan:changes-P")
	}
	if len(r.conflicts) > 0 {
		tags = append(tags, "plan:conflicts")
	}
	propagated := !r.n1.Equal(n, true)
	if propagated {
		tags = append(tags, "propagated:some-bit")
	}
	if flips(p, n, pCh) {
		tags = append(tags, "impl:bit-flip-on-P")
	}
	return coq, propagated || len(pCh) > 0, tags
}

const header = "From Coq Require Import List String.\nImport ListNotations.\nOpen Scope string_scope.\nFrom Mv Require Import Common.Bytes Model.Entry Model.Reconcile Model.Exec Harness.ReconcileH Harness.C18H."

func main() {
	cfg := hx.Parse()
	fn := "c18_failures"
	if os.Getenv("C18_DIAG") != "" {
		fn = "c18_failures_diag"
	}
	w := hx.NewWriter(cfg, header, "c18case", fn, 300)
	w.Rule = "a case = (mode, which side is N, ancestor, P, N with every executability bit cleared) with the outputs of the real code: N1 = core.PropagateExecutability(ancestor, P, N) and the plan of core.Reconcile on (ancestor, alpha, beta) with N1 in N's place; distinct = distinct Coq terms; non-trivial = some bit was propagated or the plan changes P"
	add := func(c Case, origin string) {
		if w.Aborted {
			return
		}
		var coq string
		var nt bool
		var tags []string
		if w.Guard(c, 5*time.Second, func() { coq, nt, tags = runCase(c) }) {
			w.Add(hx.Case{Coq: coq, Replay: c, Nontrivial: nt, Tags: tags, Origin: origin})
		}
	}
	if cfg.Replay != "" {
		b, err := os.ReadFile(cfg.Replay)
		if err != nil {
			panic(err)
		}
		var wrapper struct {
			Case Case `json:"case"`
		}
		if err := json.Unmarshal(b, &wrapper); err != nil {
			panic(err)
		}
		add(wrapper.Case, "replay")
		w.Close()
		return
	}
	for _, raw := range hx.LoadCorpus(cfg.Corpus) {
		var c Case
		if json.Unmarshal(raw, &c) == nil && c.Mode != 0 {
			add(c, "corpus")
		}
	}
	r := cfg.Rand

	// Exhaustive scope: one path, every combination of (ancestor, P, N) over
	// {absent, link, file with digest d1..d3 and either bit}, both
	// orientations, all modes; at the root and inside a directory.
	var ancs, ps, ns []*core.Entry
	ancs = append(ancs, nil, coretree.Link("t"))
	ps = append(ps, nil, coretree.Link("t"))
	ns = append(ns, nil, coretree.Link("t"))
	for _, d := range []string{"d1", "d2", "d3"} {
		for _, x := range []bool{false, true} {
			ancs = append(ancs, coretree.File(d, x))
			ps = append(ps, coretree.File(d, x))
		}
		ns = append(ns, coretree.File(d, false))
	}
	wrap := func(e *core.Entry) *core.Entry { return coretree.Dir("f", e, "k", coretree.File("d1", true)) }
	total := 0
	for _, anc := range ancs {
		for _, p := range ps {
			for _, n := range ns {
				for mode := 1; mode <= 4; mode++ {
					for _, nAlpha := range []bool{false, true} {
						total += 2
						if cfg.Thorough() || r.Intn(4) == 0 {
							add(Case{Mode: mode, NAlpha: nAlpha, Anc: coretree.ToJ(anc), P: coretree.ToJ(p), N: coretree.ToJ(n)}, "exhaustive")
						}
						if cfg.Thorough() || r.Intn(4) == 0 {
							add(Case{Mode: mode, NAlpha: nAlpha, Anc: coretree.ToJ(wrap(anc)), P: coretree.ToJ(wrap(p)), N: coretree.ToJ(wrap(n))}, "exhaustive")
						}
					}
				}
			}
		}
	}
	w.Extra["exhaustive_scope"] = fmt.Sprintf("%d single-path cases: ancestor x P x N over {absent, link, file d1..d3 with either bit (N: cleared)} x 4 modes x 2 orientations, at the root and inside a directory; thorough enumerates all of them, quick samples a quarter uniformly", total)

	sides, ancestors := coretree.SmallScope()
	nScope, nRandom, nHist := 900, 700, 60
	if cfg.Thorough() {
		nScope, nRandom, nHist = 45000, 30000, 2000
	}
	pick := func(anc *core.Entry) *core.Entry {
		if r.Intn(3) == 0 {
			return sides[r.Intn(len(sides))]
		}
		return coretree.Mutate(r, anc, 2, true)
	}
	for i := 0; i < nScope; i++ {
		anc := ancestors[r.Intn(len(ancestors))]
		add(Case{Mode: 1 + r.Intn(4), NAlpha: r.Intn(2) == 0, Anc: coretree.ToJ(anc), P: coretree.ToJ(pick(anc)), N: coretree.ToJ(pick(anc))}, "scope-sample")
	}
	for i := 0; i < nRandom; i++ {
		var anc *core.Entry
		if r.Intn(8) != 0 {
			anc = coretree.RandomEntry(r, 3, true)
		}
		p := coretree.Mutate(r, anc, 3, true)
		n := coretree.Mutate(r, anc, 3, true)
		if r.Intn(3) == 0 {
			n = coretree.Mutate(r, p, 3, true)
		}
		add(Case{Mode: 1 + r.Intn(4), NAlpha: r.Intn(2) == 0, Anc: coretree.ToJ(anc), P: coretree.ToJ(p), N: coretree.ToJ(n)}, "random")
	}
	// Histories: a session between a preserving and a non-preserving endpoint.
	// Every cycle is applied exactly; N loses every bit when it is scanned
	// again; then P gets content edits and chmods, N content edits.
	for i := 0; i < nHist; i++ {
		history(r, add)
	}
	w.Close()
	fmt.Printf("cases %d\n", w.Total())
}

func history(r *rand.Rand, add func(Case, string)) {
	mode := 1 + r.Intn(4)
	if r.Intn(2) == 0 {
		mode = 1 // the history theorem is about two-way-safe
	}
	nAlpha := r.Intn(2) == 0
	var anc *core.Entry
	p := coretree.RandomEntry(r, 3, false)
	n := strip(coretree.Mutate(r, p, 3, true))
	for step := 0; step < 5; step++ {
		add(Case{Mode: mode, NAlpha: nAlpha, Anc: coretree.ToJ(anc), P: coretree.ToJ(p), N: coretree.ToJ(n)}, "history")
		res := run(anc, p, n, core.SynchronizationMode(mode), nAlpha)
		alpha, beta := p, res.n1
		if nAlpha {
			alpha, beta = res.n1, p
		}
		a2, e1 := core.Apply(alpha, res.alphaCh)
		b2, e2 := core.Apply(beta, res.betaCh)
		updates := append([]*core.Change{}, res.ancCh...)
		for _, t := range res.alphaCh {
			updates = append(updates, &core.Change{Path: t.Path, New: t.New})
		}
		for _, t := range res.betaCh {
			updates = append(updates, &core.Change{Path: t.Path, New: t.New})
		}
		anc2, e3 := core.Apply(anc, updates)
		if e1 != nil || e2 != nil || e3 != nil || anc2.EnsureValid(true) != nil {
			return
		}
		anc = anc2
		p2, n2 := a2, b2
		if nAlpha {
			p2, n2 = b2, a2
		}
		p = coretree.Mutate(r, p2, 3, true)
		n = strip(coretree.Mutate(r, n2, 3, true))
	}
}
