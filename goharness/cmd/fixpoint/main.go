// Harness for C04 (a fully applied cycle is a fixpoint; two-way endpoints
// converge): runs core.Reconcile on (mode, ancestor, alpha, beta), applies the
// implementation's own plan with core.Apply to all three trees exactly as
// controller.go:synchronize does for transitions that succeed exactly
// (ancestor: ancestorChanges ++ Change{Path, New} per alpha transition ++ per
// beta transition), calls core.Reconcile again on the applied trees and emits
// (mode, anc, a, b, plan1, anc', a', b', plan2) as a Coq term.
package main

import (
	"encoding/json"
	"fmt"
	"math/rand"
	"os"
	"time"

	"github.com/mutagen-io/mutagen/pkg/synchronization/core"

	"verifharness/internal/coretree"
	"verifharness/internal/hx"
)

// Case is the replay form of one case.
type Case struct {
	Mode  int         `json:"mode"` // 1..4 as in core.SynchronizationMode
	Anc   *coretree.J `json:"anc"`
	Alpha *coretree.J `json:"alpha"`
	Beta  *coretree.J `json:"beta"`
}

var modeNames = map[int]string{1: "TwoWaySafe", 2: "TwoWayResolved", 3: "OneWaySafe", 4: "OneWayReplica"}

func hasUnsync(e *core.Entry) bool {
	if e == nil {
		return false
	}
	if e.Kind != core.EntryKind_Directory && e.Kind != core.EntryKind_File && e.Kind != core.EntryKind_SymbolicLink {
		return true
	}
	for _, c := range e.Contents {
		if hasUnsync(c) {
			return true
		}
	}
	return false
}

func planCoq(anc, al, be []*core.Change, cs []*core.Conflict) string {
	return "(mkplan " + coretree.Changes(anc) + " " + coretree.Changes(al) + " " + coretree.Changes(be) + " " + coretree.Conflicts(cs) + ")"
}

func applied(e *core.Entry, err error) string {
	if err != nil {
		return "ErrP"
	}
	return "(Ok " + coretree.Entry(e) + ")"
}

// cycle runs one fully applied cycle on the real code and returns the applied
// trees (nil error only if all three Apply calls succeeded).
type cycleResult struct {
	ancCh, alphaCh, betaCh []*core.Change
	conflicts              []*core.Conflict
	anc, alpha, beta       *core.Entry
	ancErr, alphaErr, betaErr error
}

func cycle(anc, alpha, beta *core.Entry, mode core.SynchronizationMode) cycleResult {
	var r cycleResult
	r.ancCh, r.alphaCh, r.betaCh, r.conflicts = core.Reconcile(anc, alpha, beta, mode)
	// The endpoints: every transition succeeds exactly.
	r.alpha, r.alphaErr = core.Apply(alpha, r.alphaCh)
	r.beta, r.betaErr = core.Apply(beta, r.betaCh)
	// The ancestor, as in controller.go: ancestorChanges, then one
	// Change{Path, New: result} per alpha transition, then per beta transition.
	updates := append([]*core.Change{}, r.ancCh...)
	for _, t := range r.alphaCh {
		updates = append(updates, &core.Change{Path: t.Path, New: t.New})
	}
	for _, t := range r.betaCh {
		updates = append(updates, &core.Change{Path: t.Path, New: t.New})
	}
	r.anc, r.ancErr = core.Apply(anc, updates)
	return r
}

func runCase(c Case) (string, bool, []string, *cycleResult) {
	anc, alpha, beta := coretree.FromJ(c.Anc), coretree.FromJ(c.Alpha), coretree.FromJ(c.Beta)
	mode := core.SynchronizationMode(c.Mode)
	r := cycle(anc, alpha, beta, mode)
	var anc2, al2, be2 []*core.Change
	var cs2 []*core.Conflict
	ok := r.ancErr == nil && r.alphaErr == nil && r.betaErr == nil
	if ok {
		anc2, al2, be2, cs2 = core.Reconcile(r.anc, r.alpha, r.beta, mode)
	}
	coq := fmt.Sprintf("(%s, %s, %s, %s, %s, %s, %s, %s, %s)", modeNames[c.Mode],
		coretree.Entry(anc), coretree.Entry(alpha), coretree.Entry(beta),
		planCoq(r.ancCh, r.alphaCh, r.betaCh, r.conflicts),
		applied(r.anc, r.ancErr), applied(r.alpha, r.alphaErr), applied(r.beta, r.betaErr),
		planCoq(anc2, al2, be2, cs2))
	tags := []string{"mode:" + modeNames[c.Mode]}
	if len(r.alphaCh) > 0 {
		tags = append(tags, "plan1:alpha-changes")
	}
	if len(r.betaCh) > 0 {
		tags = append(tags, "plan1:beta-changes")
	}
	if len(r.conflicts) > 0 {
		tags = append(tags, "plan1:conflicts")
	}
	if len(r.ancCh) > 0 {
		tags = append(tags, "plan1:ancestor-changes")
	}
	if hasUnsync(alpha) || hasUnsync(beta) {
		tags = append(tags, "in:unsynchronizable")
	}
	if !ok {
		tags = append(tags, "apply:error")
	}
	if len(anc2)+len(al2)+len(be2) > 0 {
		tags = append(tags, "plan2:changes")
	}
	nontrivial := len(r.alphaCh)+len(r.betaCh)+len(r.ancCh) > 0
	return coq, nontrivial, tags, &r
}

const header = "From Coq Require Import List String.\nImport ListNotations.\nOpen Scope string_scope.\nFrom Mv Require Import Common.Bytes Model.Entry Model.Reconcile Model.C04Cycle Harness.ReconcileH Harness.C04H."

func main() {
	cfg := hx.Parse()
	w := hx.NewWriter(cfg, header, "c04case", "c04_failures", 200)
	w.Rule = "a case = (mode, ancestor, alpha, beta) with the outputs of the real code: plan1 = core.Reconcile, the three trees after core.Apply of plan1 (ancestor: ancestor changes ++ ideal transition results), plan2 = core.Reconcile on the applied trees; distinct = distinct Coq terms; non-trivial = plan1 changes at least one of the three trees"
	add := func(c Case, origin string) *cycleResult {
		if w.Aborted {
			return nil
		}
		var coq string
		var nt bool
		var tags []string
		var res *cycleResult
		if w.Guard(c, 5*time.Second, func() { coq, nt, tags, res = runCase(c) }) {
			w.Add(hx.Case{Coq: coq, Replay: c, Nontrivial: nt, Tags: tags, Origin: origin})
			return res
		}
		return nil
	}
	if cfg.Replay != "" {
		b, err := os.ReadFile(cfg.Replay)
		if err != nil {
			panic(err)
		}
		var wrapper struct {
			Case Case `json:"case"`
		}
		if err := json.Unmarshal(b, &wrapper); err != nil {
			panic(err)
		}
		add(wrapper.Case, "replay")
		w.Close()
		return
	}
	for _, raw := range hx.LoadCorpus(cfg.Corpus) {
		var c Case
		if json.Unmarshal(raw, &c) == nil && c.Mode != 0 {
			add(c, "corpus")
		}
	}
	r := cfg.Rand
	sides, ancestors := coretree.SmallScope()
	w.Extra["exhaustive_scope"] = fmt.Sprintf("scope of %d ancestors x %d alphas x %d betas x 4 modes (names {a,b}/{c}, depth <= 2, every entry kind except phantom directories); this run samples it uniformly at random", len(ancestors), len(sides), len(sides))
	nScope, nRandom, nHist := 1200, 500, 60
	if cfg.Thorough() {
		nScope, nRandom, nHist = 26000, 9000, 800
	}
	pick := func(anc *core.Entry) *core.Entry {
		// bias towards sides that share structure with the ancestor
		if r.Intn(3) == 0 {
			return sides[r.Intn(len(sides))]
		}
		return coretree.Mutate(r, anc, 2, true)
	}
	for i := 0; i < nScope; i++ {
		anc := ancestors[r.Intn(len(ancestors))]
		alpha, beta := pick(anc), pick(anc)
		add(Case{Mode: 1 + r.Intn(4), Anc: coretree.ToJ(anc), Alpha: coretree.ToJ(alpha), Beta: coretree.ToJ(beta)}, "scope-sample")
	}
	for i := 0; i < nRandom; i++ {
		var anc *core.Entry
		if r.Intn(8) != 0 {
			anc = coretree.RandomEntry(r, 3, true)
		}
		alpha := coretree.Mutate(r, anc, 3, true)
		beta := coretree.Mutate(r, anc, 3, true)
		if r.Intn(6) == 0 {
			beta = coretree.Mutate(r, alpha, 3, true)
		}
		add(Case{Mode: 1 + r.Intn(4), Anc: coretree.ToJ(anc), Alpha: coretree.ToJ(alpha), Beta: coretree.ToJ(beta)}, "random")
	}
	// Histories: a session that starts without an ancestor; every cycle is
	// applied exactly, then both sides are edited at random and the next
	// cycle starts from the ancestor the previous cycle really produced.
	for i := 0; i < nHist; i++ {
		history(r, add)
	}
	w.Close()
	fmt.Printf("cases %d\n", w.Total())
}

func history(r *rand.Rand, add func(Case, string) *cycleResult) {
	mode := 1 + r.Intn(4)
	var anc *core.Entry
	alpha := coretree.RandomEntry(r, 3, false)
	beta := coretree.Mutate(r, alpha, 3, true)
	for step := 0; step < 5; step++ {
		res := add(Case{Mode: mode, Anc: coretree.ToJ(anc), Alpha: coretree.ToJ(alpha), Beta: coretree.ToJ(beta)}, "history")
		if res == nil || res.ancErr != nil || res.alphaErr != nil || res.betaErr != nil {
			return
		}
		// the saved ancestor must be synchronizable for the next cycle
		if res.anc.EnsureValid(true) != nil {
			return
		}
		anc = res.anc
		alpha = coretree.Mutate(r, res.alpha, 3, true)
		beta = coretree.Mutate(r, res.beta, 3, true)
	}
}
