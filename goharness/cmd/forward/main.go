// Harness for C33: drives the real controller.forward loop (and through it
// ForwardAndClose, its copy loops and the audit writers) with loopback TCP
// connections. Each forwarded connection is a pair of TCP pairs
//
//	client <-TCP-> first | ForwardAndClose | second <-TCP-> server
//
// where first and second are real *net.TCPConn values behind a thin recording
// wrapper (every Read/Write return, every CloseWrite/Close call is logged under
// one mutex per connection, which gives the total order the trace validation
// replays) that can also limit read sizes, shorten writes and inject errors.
// The two far ends follow a scenario (half-close first, answer after the
// half-close, reset, hold) with random payloads; sessions are cancelled never,
// at a random moment, or after every byte has arrived. Emitted per session: the
// per-connection scenario, trace, bytes sent/received at both far ends, and the
// controller's counters mid-run and at quiescence.
package main

import (
	"encoding/json"
	"errors"
	"fmt"
	"io"
	"net"
	"os"
	"strings"
	"sync"
	"sync/atomic"
	"time"

	"github.com/mutagen-io/mutagen/pkg/forwarding"

	"verifharness/internal/hx"
)

// RStep scripts one Read on a wrapped connection.
type RStep struct {
	MaxN int `json:"n,omitempty"` // > 0: read at most this many bytes
	Err  int `json:"e,omitempty"` // 1: fail without reading; 2: return the data together with an error
}

// WStep scripts one Write on a wrapped connection.
type WStep struct {
	K    int  `json:"k"`           // >= 0: hand at most K bytes to the socket
	Fail bool `json:"f,omitempty"` // return an error with the count
}

// ConnSpec is one forwarded connection of a session (also the replay format).
type ConnSpec struct {
	EndC   string  `json:"endc"`
	EndS   string  `json:"ends"`
	PayC   []byte  `json:"payc,omitempty"`
	PayS   []byte  `json:"pays,omitempty"`
	ChunkC []int   `json:"chunkc,omitempty"`
	ChunkS []int   `json:"chunks,omitempty"`
	RdF    []RStep `json:"rdf,omitempty"`
	RdS    []RStep `json:"rds,omitempty"`
	WrF    []WStep `json:"wrf,omitempty"`
	WrS    []WStep `json:"wrs,omitempty"`
}

// Session is one run of controller.forward.
type Session struct {
	Cancel  string     `json:"cancel"` // NoCancel CancelEarly CancelLate
	DelayUS int        `json:"delay_us,omitempty"`
	Conns   []ConnSpec `json:"conns"`
}

var errInjected = errors.New("injected failure")

const (
	sideF = 0
	sideS = 1
)

var sideNames = [2]string{"Fi", "Se"}

// dirTrack mirrors, for the harness' own waiting only, how far a copy
// direction has got: 0 copying, 1 read a chunk (pending error class kept),
// 2 clean end reached (CloseWrite expected), 3 over.
type dirTrack struct {
	state   int
	pending int
}

// connRun is the recording state of one forwarded connection.
type connRun struct {
	mu     sync.Mutex
	events []string
	closed [2]bool
	dirs   [2]dirTrack // index = destination side
	wsum   [2]uint64   // bytes the Writes on each side reported
	wfail  bool
	change chan struct{}
}

func (c *connRun) bump() {
	select {
	case c.change <- struct{}{}:
	default:
	}
}

func (c *connRun) logRd(side int, data []byte, cls int) {
	c.mu.Lock()
	c.events = append(c.events, fmt.Sprintf("R %s %s %s", sideNames[side], hx.ByteCtors(data), [3]string{"RNil", "REOF", "RErr"}[cls]))
	d := &c.dirs[1-side]
	if d.state == 0 {
		if len(data) > 0 {
			d.state, d.pending = 1, cls
		} else if cls == 1 {
			d.state = 2
		} else if cls == 2 {
			d.state = 3
		}
	}
	c.mu.Unlock()
	c.bump()
}

func (c *connRun) logWr(side int, data []byte, n int, ok bool) {
	c.mu.Lock()
	b := "N"
	if ok {
		b = "T"
	}
	c.events = append(c.events, fmt.Sprintf("W %s %s %d %s", sideNames[side], hx.ByteCtors(data), n, b))
	c.wsum[side] += uint64(n)
	if !ok || n != len(data) {
		c.wfail = true
	}
	d := &c.dirs[side]
	if d.state == 1 {
		switch {
		case !ok || n != len(data):
			d.state = 3
		case d.pending == 0:
			d.state = 0
		case d.pending == 1:
			d.state = 2
		default:
			d.state = 3
		}
	}
	c.mu.Unlock()
	c.bump()
}

func (c *connRun) logCW(side int) {
	c.mu.Lock()
	c.events = append(c.events, "ECW "+sideNames[side])
	c.dirs[side].state = 3
	c.mu.Unlock()
	c.bump()
}

func (c *connRun) logClose(side int) {
	c.mu.Lock()
	c.events = append(c.events, "ECl "+sideNames[side])
	c.closed[side] = true
	c.mu.Unlock()
	c.bump()
}

func (c *connRun) logCancel() {
	c.mu.Lock()
	c.events = append(c.events, "ECancel")
	c.mu.Unlock()
}

// waitUntil polls cond (under the lock) until it holds or the deadline passes.
func (c *connRun) waitUntil(deadline time.Time, cond func() bool) bool {
	for {
		c.mu.Lock()
		ok := cond()
		c.mu.Unlock()
		if ok {
			return true
		}
		left := time.Until(deadline)
		if left <= 0 {
			return false
		}
		select {
		case <-c.change:
		case <-time.After(min(left, 5*time.Millisecond)):
		}
	}
}

// tconn wraps one end that the forwarding code owns.
type tconn struct {
	net.Conn
	tcp     *net.TCPConn
	side    int
	run     *connRun
	rscript []RStep
	wscript []WStep
	ri, wi  int
	start   <-chan struct{} // nothing is read (or injected) before the far ends are released
}

func classify(err error) int {
	switch {
	case err == nil:
		return 0
	case err == io.EOF:
		return 1
	default:
		return 2
	}
}

func (t *tconn) Read(p []byte) (int, error) {
	<-t.start
	var st RStep
	if t.ri < len(t.rscript) {
		st = t.rscript[t.ri]
	}
	t.ri++
	if st.Err == 1 {
		t.run.logRd(t.side, nil, 2)
		return 0, errInjected
	}
	q := p
	if st.MaxN > 0 && st.MaxN < len(q) {
		q = q[:st.MaxN]
	}
	n, err := t.tcp.Read(q)
	if st.Err == 2 && err == nil {
		err = errInjected
	}
	t.run.logRd(t.side, q[:n], classify(err))
	return n, err
}

func (t *tconn) Write(p []byte) (int, error) {
	q := p
	fail := false
	if t.wi < len(t.wscript) {
		st := t.wscript[t.wi]
		if st.K >= 0 && st.K < len(q) {
			q = q[:st.K]
		}
		fail = st.Fail
	}
	t.wi++
	n, err := t.tcp.Write(q)
	if fail && err == nil {
		err = errInjected
	}
	t.run.logWr(t.side, p, n, err == nil)
	return n, err
}

func (t *tconn) CloseWrite() error {
	t.run.logCW(t.side)
	return t.tcp.CloseWrite()
}

func (t *tconn) Close() error {
	t.run.logClose(t.side)
	return t.tcp.Close()
}

// peerObs is what one far end did and saw.
type peerObs struct {
	mu       sync.Mutex
	sent     []byte
	recv     []byte
	eof      bool
	sendDone bool
	done     chan struct{}
}

func (o *peerObs) counts() (sent, recv int, sendDone bool) {
	o.mu.Lock()
	defer o.mu.Unlock()
	return len(o.sent), len(o.recv), o.sendDone
}

func runPeer(conn *net.TCPConn, kind string, payload []byte, chunks []int, start <-chan struct{}, o *peerObs) {
	defer close(o.done)
	<-start
	readerDone := make(chan struct{})
	reader := func() {
		defer close(readerDone)
		buf := make([]byte, 4096)
		for {
			n, err := conn.Read(buf)
			o.mu.Lock()
			o.recv = append(o.recv, buf[:n]...)
			if err == io.EOF {
				o.eof = true
			}
			o.mu.Unlock()
			if err != nil {
				return
			}
		}
	}
	send := func() {
		rest := payload
		for i := 0; len(rest) > 0; i++ {
			k := len(rest)
			if i < len(chunks) && chunks[i] > 0 && chunks[i] < k {
				k = chunks[i]
			}
			n, err := conn.Write(rest[:k])
			o.mu.Lock()
			o.sent = append(o.sent, rest[:n]...)
			o.mu.Unlock()
			if err != nil {
				break
			}
			rest = rest[k:]
		}
		o.mu.Lock()
		o.sendDone = true
		o.mu.Unlock()
	}
	switch kind {
	case "HC":
		go reader()
		send()
		conn.CloseWrite()
		<-readerDone
		conn.Close()
	case "HCW":
		go reader()
		<-readerDone
		send()
		conn.Close()
	case "RST":
		send()
		conn.SetLinger(0)
		conn.Close()
	default: // HOLD
		go reader()
		send()
		<-readerDone
		conn.Close()
	}
}

// fakeEndpoint hands prepared connections to controller.forward.
type fakeEndpoint struct {
	conns  chan net.Conn
	errs   chan error
	calls  atomic.Int32
	notify chan int32
}

func newFakeEndpoint() *fakeEndpoint {
	return &fakeEndpoint{conns: make(chan net.Conn), errs: make(chan error, 1), notify: make(chan int32, 64)}
}

func (e *fakeEndpoint) TransportErrors() <-chan error { return nil }
func (e *fakeEndpoint) Shutdown() error                { return nil }
func (e *fakeEndpoint) Open() (net.Conn, error) {
	n := e.calls.Add(1)
	select {
	case e.notify <- n:
	default:
	}
	select {
	case c := <-e.conns:
		return c, nil
	case err := <-e.errs:
		return nil, err
	}
}

var listener *net.TCPListener

// tcpPair returns the two ends of a fresh loopback TCP connection.
func tcpPair() (dialed, accepted *net.TCPConn) {
	type res struct {
		c   *net.TCPConn
		err error
	}
	ch := make(chan res, 1)
	go func() {
		c, err := listener.AcceptTCP()
		ch <- res{c, err}
	}()
	d, err := net.DialTCP("tcp", nil, listener.Addr().(*net.TCPAddr))
	if err != nil {
		panic(err)
	}
	r := <-ch
	if r.err != nil {
		panic(r.err)
	}
	// make sure the accepted socket is the peer of the dialed one
	if r.c.RemoteAddr().String() != d.LocalAddr().String() {
		panic("loopback pair mismatch")
	}
	return d, r.c
}

type liveConn struct {
	spec           ConnSpec
	run            *connRun
	client, server *net.TCPConn
	first, second  *tconn
	oc, os         *peerObs
	stuck          bool
	complete       bool
}

func hasFaults(s ConnSpec) bool {
	for _, l := range [][]RStep{s.RdF, s.RdS} {
		for _, x := range l {
			if x.Err != 0 {
				return true
			}
		}
	}
	return len(s.WrF) > 0 || len(s.WrS) > 0
}

func boolCoq(b bool) string {
	if b {
		return "T"
	}
	return "N"
}

// Limits far beyond any scheduling delay: they only end the waiting when
// something that must happen does not happen at all.
const (
	completionLimit = 15 * time.Second
	closeWriteGrace = 10 * time.Second
	counterGrace    = 3 * time.Second
	setupLimit      = 10 * time.Second
)

// stuckSessions counts sessions in which something that had to happen did not
// within its bound (a connection that had to end by itself, counters that had
// to reach their quiescent values); such a session is emitted with what was
// observed, so that the checker rejects it, and after a few of them further
// generation is pointless (and slow).
var stuckSessions int

// runSession executes the session on the real code and renders the Coq term.
func runSession(s Session) (coq string, nontrivial bool, tags []string) {
	vc := forwarding.NewVerifController()
	defer vc.Terminate()
	src, dst := newFakeEndpoint(), newFakeEndpoint()
	forwardDone := make(chan error, 1)
	go func() { forwardDone <- vc.Forward(src, dst) }()

	start := make(chan struct{})
	live := make([]*liveConn, len(s.Conns))
	for i, spec := range s.Conns {
		lc := &liveConn{spec: spec, run: &connRun{change: make(chan struct{}, 1)}}
		var firstRaw, secondRaw *net.TCPConn
		lc.client, firstRaw = tcpPair()
		secondRaw, lc.server = tcpPair()
		lc.first = &tconn{Conn: firstRaw, tcp: firstRaw, side: sideF, run: lc.run, rscript: spec.RdF, wscript: spec.WrF, start: start}
		lc.second = &tconn{Conn: secondRaw, tcp: secondRaw, side: sideS, run: lc.run, rscript: spec.RdS, wscript: spec.WrS, start: start}
		lc.oc = &peerObs{done: make(chan struct{})}
		lc.os = &peerObs{done: make(chan struct{})}
		go runPeer(lc.client, spec.EndC, spec.PayC, spec.ChunkC, start, lc.oc)
		go runPeer(lc.server, spec.EndS, spec.PayS, spec.ChunkS, start, lc.os)
		live[i] = lc
		for _, h := range []struct {
			ep *fakeEndpoint
			c  net.Conn
		}{{src, lc.first}, {dst, lc.second}} {
			select {
			case h.ep.conns <- h.c:
			case <-time.After(setupLimit):
				panic("controller.forward did not ask for the next connection")
			}
		}
	}
	// The loop asks for the next connection only after it has counted the
	// previous one, so once Open has been called len+1 times all are counted.
	for counted := false; !counted; {
		select {
		case n := <-src.notify:
			counted = int(n) == len(s.Conns)+1
		case <-time.After(setupLimit):
			panic("controller.forward did not come back for another connection")
		}
	}
	mo, mt, mi, mu := vc.Counters()
	close(start)

	deadline := time.Now().Add(completionLimit)
	selfEnding := func(lc *liveConn) bool {
		return lc.run.waitUntil(deadline, func() bool {
			r := lc.run
			return r.closed[0] && r.closed[1] && r.dirs[0].state >= 2 && r.dirs[1].state >= 2
		})
	}
	switch s.Cancel {
	case "NoCancel":
		for _, lc := range live {
			if !selfEnding(lc) {
				lc.stuck = true
			}
		}
	case "CancelLate":
		for _, lc := range live {
			for {
				sc, rc, dc := lc.oc.counts()
				ss, rs, ds := lc.os.counts()
				if dc && ds && rs == sc && rc == ss {
					break
				}
				if time.Now().After(deadline) {
					lc.stuck = true
					break
				}
				time.Sleep(50 * time.Microsecond)
			}
		}
	default:
		time.Sleep(time.Duration(s.DelayUS) * time.Microsecond)
	}
	if s.Cancel != "NoCancel" {
		for _, lc := range live {
			lc.run.logCancel()
		}
	}
	src.errs <- errors.New("no more connections")
	select {
	case <-forwardDone:
	case <-time.After(completionLimit):
		panic("controller.forward did not return after its source failed")
	}
	deadline = time.Now().Add(completionLimit)
	for _, lc := range live {
		if selfEnding(lc) {
			// a direction that ended cleanly calls CloseWrite at once; allow for
			// a descheduled goroutine before the trace is declared complete
			lc.run.waitUntil(time.Now().Add(closeWriteGrace), func() bool {
				return lc.run.dirs[0].state == 3 && lc.run.dirs[1].state == 3
			})
			lc.complete = true
		} else {
			lc.stuck = true
		}
	}
	// the far ends finish once their connection has been closed
	for _, lc := range live {
		for _, o := range []*peerObs{lc.oc, lc.os} {
			select {
			case <-o.done:
			case <-time.After(completionLimit):
				lc.stuck = true
			}
		}
		lc.client.Close()
		lc.server.Close()
		lc.first.tcp.Close()
		lc.second.tcp.Close()
	}
	// expected totals (only to know how long to wait for the last auditor call)
	var wantIn, wantOut uint64
	items := make([]string, len(live))
	anyFault, anyShort := false, false
	for i, lc := range live {
		lc.run.mu.Lock()
		evs := append([]string(nil), lc.run.events...)
		wantIn += lc.run.wsum[sideF]
		wantOut += lc.run.wsum[sideS]
		anyShort = anyShort || lc.run.wfail
		lc.run.mu.Unlock()
		faults := hasFaults(lc.spec)
		anyFault = anyFault || faults
		lc.oc.mu.Lock()
		lc.os.mu.Lock()
		items[i] = fmt.Sprintf("CC (Sc %s %s %s %s) %s %s %s (Po %s %s %s) (Po %s %s %s)",
			lc.spec.EndC, lc.spec.EndS, boolCoq(faults), s.Cancel,
			boolCoq(lc.complete), boolCoq(lc.stuck), hx.List(evs),
			hx.ByteCtors(lc.oc.sent), hx.ByteCtors(lc.oc.recv), boolCoq(lc.oc.eof),
			hx.ByteCtors(lc.os.sent), hx.ByteCtors(lc.os.recv), boolCoq(lc.os.eof))
		if len(lc.oc.recv) > 0 && len(lc.os.recv) > 0 {
			nontrivial = true
		}
		lc.os.mu.Unlock()
		lc.oc.mu.Unlock()
		tags = append(tags, "ends:"+lc.spec.EndC+"/"+lc.spec.EndS)
		if lc.stuck {
			tags = append(tags, "stuck")
			stuckSessions++
		}
	}
	// counters at quiescence
	var fo, ft, fi, fu uint64
	cdl := time.Now().Add(counterGrace)
	for {
		fo, ft, fi, fu = vc.Counters()
		if (fo == 0 && fi == wantIn && fu == wantOut) || time.Now().After(cdl) {
			break
		}
		time.Sleep(100 * time.Microsecond)
	}
	if fo != 0 || fi != wantIn || fu != wantOut || ft != uint64(len(live)) {
		// recorded as observed: the checker rejects these counters
		tags = append(tags, "counters-not-quiescent")
		stuckSessions++
	}
	tags = append(tags, "cancel:"+s.Cancel, fmt.Sprintf("conns:%d", len(live)))
	if anyFault {
		tags = append(tags, "faults")
	}
	if anyShort {
		tags = append(tags, "write-failed")
	}
	coq = fmt.Sprintf("(%s, Cn %d %d %d %d, Cn %d %d %d %d)", hx.List(items), mo, mt, mi, mu, fo, ft, fi, fu)
	return
}

const header = "From Coq Require Import List Arith.\nFrom Coq.Init Require Import Byte.\nImport ListNotations.\nFrom Mv Require Import Model.Forward Harness.ForwardH."

var ends = []string{"HC", "HCW", "RST", "HOLD"}

// endsBySelf reports whether the connection ends without cancellation.
func endsBySelf(c ConnSpec) bool {
	if c.EndC == "RST" || c.EndS == "RST" {
		return true
	}
	if len(c.RdF) > 0 && c.RdF[0].Err == 1 || len(c.RdS) > 0 && c.RdS[0].Err == 1 {
		return true
	}
	hc := func(e string) bool { return e == "HC" || e == "HCW" }
	return hc(c.EndC) && hc(c.EndS) && !(c.EndC == "HCW" && c.EndS == "HCW")
}

func main() {
	cfg := hx.Parse()
	l, err := net.ListenTCP("tcp", &net.TCPAddr{IP: net.IPv4(127, 0, 0, 1)})
	if err != nil {
		panic(err)
	}
	listener = l
	w := hx.NewWriter(cfg, header, "session_case", "forward_failures", 150)
	w.Rule = "a case = one run of controller.forward with 1..k loopback-TCP forwarded connections (scenario, recorded trace of the wrapped connections, far-end bytes, counters); distinct = distinct Coq terms; non-trivial = some connection carried bytes in both directions"
	add := func(s Session, origin string) {
		if w.Aborted || stuckSessions >= 3 {
			return
		}
		var coq string
		var nt bool
		var tags []string
		if w.Guard(s, 60*time.Second, func() { coq, nt, tags = runSession(s) }) {
			w.Add(hx.Case{Coq: coq, Replay: s, Nontrivial: nt, Tags: tags, Origin: origin})
		}
	}

	if cfg.Replay != "" {
		b, err := os.ReadFile(cfg.Replay)
		if err != nil {
			panic(err)
		}
		var wrapper struct {
			Case Session `json:"case"`
		}
		if err := json.Unmarshal(b, &wrapper); err != nil {
			panic(err)
		}
		add(wrapper.Case, "replay")
		w.Close()
		return
	}
	for _, raw := range hx.LoadCorpus(cfg.Corpus) {
		var s Session
		if json.Unmarshal(raw, &s) == nil && len(s.Conns) > 0 {
			add(s, "corpus")
		}
	}

	r := cfg.Rand
	next := byte(0)
	payload := func(n int) []byte {
		out := make([]byte, n)
		for i := range out {
			next = next%251 + 1
			out[i] = next
		}
		return out
	}

	// Small scope: every pair of far-end behaviours x every cancellation kind
	// that is meaningful for it x three payload shapes, single connection.
	nExh := 0
	for _, ec := range ends {
		for _, es := range ends {
			for _, cancel := range []string{"NoCancel", "CancelEarly", "CancelLate"} {
				for shape := 0; shape < 3; shape++ {
					c := ConnSpec{EndC: ec, EndS: es}
					switch shape {
					case 1:
						c.PayC, c.PayS = payload(3), payload(2)
					case 2:
						c.PayC, c.PayS = payload(7), payload(5)
						c.ChunkC, c.ChunkS = []int{2, 1}, []int{1}
						c.RdF, c.RdS = []RStep{{MaxN: 2}, {MaxN: 1}}, []RStep{{MaxN: 3}}
					}
					if cancel == "NoCancel" && !endsBySelf(c) {
						continue
					}
					if cancel == "CancelLate" && (ec == "RST" || es == "RST" || ec == "HCW" || es == "HCW") {
						continue
					}
					add(Session{Cancel: cancel, DelayUS: 200 * shape, Conns: []ConnSpec{c}}, "exhaustive")
					nExh++
				}
			}
		}
	}
	w.Extra["exhaustive_scope"] = fmt.Sprintf("single-connection sessions: all 16 pairs of far-end behaviours x {no cancel, early cancel, late cancel} (where the scenario is meaningful) x 3 payload/chunking shapes = %d sessions", nExh)

	nRandom := 600
	maxConns := 4
	if cfg.Thorough() {
		nRandom = 8000
		maxConns = 8
	}
	rscript := func(allowErr bool) []RStep {
		out := make([]RStep, r.Intn(4))
		for i := range out {
			out[i].MaxN = r.Intn(6)
			if allowErr && r.Intn(5) == 0 {
				out[i].Err = 1 + r.Intn(2)
			}
		}
		return out
	}
	wscript := func() []WStep {
		out := make([]WStep, 1+r.Intn(3))
		for i := range out {
			out[i].K = -1
			switch r.Intn(4) {
			case 0:
				out[i].K = r.Intn(4)
			case 1:
				out[i].K = r.Intn(4)
				out[i].Fail = true
			case 2:
				out[i].Fail = r.Intn(3) == 0
			}
		}
		return out
	}
	chunks := func() []int {
		out := make([]int, r.Intn(4))
		for i := range out {
			out[i] = 1 + r.Intn(8)
		}
		return out
	}
	size := func() int {
		switch r.Intn(10) {
		case 0:
			return 0
		case 1:
			if cfg.Thorough() {
				return 200 + r.Intn(3000)
			}
			return 60 + r.Intn(200)
		default:
			return 1 + r.Intn(24)
		}
	}
	for i := 0; i < nRandom; i++ {
		s := Session{Cancel: []string{"NoCancel", "NoCancel", "CancelEarly", "CancelLate"}[r.Intn(4)]}
		s.DelayUS = r.Intn(1500)
		if r.Intn(4) == 0 {
			s.DelayUS = 0
		}
		k := 1
		if r.Intn(3) == 0 {
			k = 1 + r.Intn(maxConns)
		}
		for j := 0; j < k; j++ {
			c := ConnSpec{PayC: payload(size()), PayS: payload(size()), ChunkC: chunks(), ChunkS: chunks()}
			faulty := s.Cancel != "CancelLate" && r.Intn(3) == 0
			c.RdF, c.RdS = rscript(faulty), rscript(faulty)
			if faulty && r.Intn(2) == 0 {
				c.WrF = wscript()
			}
			if faulty && r.Intn(2) == 0 {
				c.WrS = wscript()
			}
			for {
				c.EndC, c.EndS = ends[r.Intn(4)], ends[r.Intn(4)]
				if s.Cancel == "CancelLate" {
					c.EndC, c.EndS = []string{"HC", "HOLD"}[r.Intn(2)], []string{"HC", "HOLD"}[r.Intn(2)]
				}
				if s.Cancel != "NoCancel" || endsBySelf(c) {
					break
				}
			}
			s.Conns = append(s.Conns, c)
		}
		add(s, "random")
	}
	w.Extra["traces_validated_against_impl"] = w.Total()
	w.Close()
	fmt.Println(strings.TrimSpace(fmt.Sprintf("cases %d", w.Total())))
}
