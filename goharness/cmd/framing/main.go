// Harness for C22: runs the real encoding.ProtobufEncoder / ProtobufDecoder,
// the real compression algorithms, bufio and stream.NewMultiFlusher, wired as
// pkg/synchronization/endpoint/remote/{client,server}.go wire them (flusher
// order and buffer sizes are read from those files on every run), over an
// in-memory transport whose reads are fragmented randomly; plus the real
// decoder on crafted (malformed, oversized, truncated) streams; plus the real
// remote.NewEndpoint against a peer played by the harness.
//
// Every case carries the real size limit (evaluated from the constant
// declarations of pkg/encoding/protobuf.go and confirmed behaviourally by the
// at-limit / above-limit raw cases).
package main

import (
	"bufio"
	"bytes"
	"encoding/binary"
	"encoding/json"
	"errors"
	"fmt"
	"go/ast"
	"go/constant"
	"go/parser"
	"go/token"
	"io"
	"math/rand"
	"net"
	"os"
	"path/filepath"
	"runtime"
	"strings"
	"time"

	"google.golang.org/protobuf/proto"
	"google.golang.org/protobuf/types/known/wrapperspb"

	"github.com/mutagen-io/mutagen/pkg/encoding"
	"github.com/mutagen-io/mutagen/pkg/stream"
	"github.com/mutagen-io/mutagen/pkg/synchronization"
	"github.com/mutagen-io/mutagen/pkg/synchronization/compression"
	"github.com/mutagen-io/mutagen/pkg/synchronization/endpoint/remote"

	"verifharness/internal/hx"
)

// ---- payload pieces and compact rendering -----------------------------------

// Piece is a part of a message payload (or of a raw stream): K = "G" (N bytes
// of the LFSR started at S), "Z" (N copies of B), "L" (the literal bytes D).
type Piece struct {
	K string `json:"k"`
	S int    `json:"s,omitempty"`
	B int    `json:"b,omitempty"`
	N int    `json:"n,omitempty"`
	D []int  `json:"d,omitempty"`
}

func lfsr(x uint32) uint32 {
	if x&1 == 1 {
		return (x >> 1) ^ 0xB400
	}
	return x >> 1
}

func (p Piece) bytes() []byte {
	switch p.K {
	case "G":
		out := make([]byte, p.N)
		x := uint32(p.S)
		for i := range out {
			x = lfsr(x)
			out[i] = byte(x)
		}
		return out
	case "Z":
		return bytes.Repeat([]byte{byte(p.B)}, p.N)
	default:
		out := make([]byte, len(p.D))
		for i, v := range p.D {
			out[i] = byte(v)
		}
		return out
	}
}

func piecesBytes(ps []Piece) []byte {
	var out []byte
	for _, p := range ps {
		out = append(out, p.bytes()...)
	}
	return out
}

// registry of the generated pieces of one case, used to print the
// implementation's outputs compactly: a G chunk is printed only where the
// bytes ARE that LFSR sequence (compared byte for byte).
type genEntry struct {
	seed int
	data []byte
}
type registry struct{ gens map[[4]byte][]genEntry }

func newRegistry() *registry { return &registry{gens: map[[4]byte][]genEntry{}} }

func (r *registry) add(ps []Piece) {
	for _, p := range ps {
		if p.K == "G" && p.N >= 6 {
			d := p.bytes()
			var k [4]byte
			copy(k[:], d)
			dup := false
			for _, e := range r.gens[k] {
				if e.seed == p.S && len(e.data) == len(d) {
					dup = true
				}
			}
			if !dup {
				r.gens[k] = append(r.gens[k], genEntry{p.S, d})
			}
		}
	}
}

// render prints b as a Coq chunk list (type bs of Harness/FramingH.v).
func (r *registry) render(b []byte) string {
	var items []string
	var lit []int
	flush := func() {
		for len(lit) > 0 {
			n := min(len(lit), 400)
			items = append(items, "L "+hx.NatList(lit[:n]))
			lit = lit[n:]
		}
	}
	i := 0
	for i < len(b) {
		if i+4 <= len(b) {
			var k [4]byte
			copy(k[:], b[i:])
			best := -1
			var bestE genEntry
			for _, e := range r.gens[k] {
				if len(e.data) > best && bytes.HasPrefix(b[i:], e.data) {
					best = len(e.data)
					bestE = e
				}
			}
			if best >= 0 {
				flush()
				items = append(items, fmt.Sprintf("G %d %d", bestE.seed, best))
				i += best
				continue
			}
		}
		j := i
		for j < len(b) && b[j] == b[i] {
			j++
		}
		if j-i >= 6 {
			flush()
			items = append(items, fmt.Sprintf("Z %d %d", b[i], j-i))
			i = j
			continue
		}
		lit = append(lit, int(b[i]))
		i++
	}
	flush()
	return hx.List(items)
}

// ---- the wiring of the real endpoints, read from their source ------------------

type wiring struct {
	order  []int // NewMultiFlusher arguments: 0 outbound, 1 compressor, 2 compressedOutbound, 9 unknown
	n1, n2 int   // sizes of outbound and compressedOutbound
	ok     bool
}

func repoDir() string {
	if d := os.Getenv("VERIF_REPO"); d != "" {
		return d
	}
	return "/repo"
}

// constTable evaluates the integer constants declared in the .go files of dir.
type constTable struct {
	exprs map[string]ast.Expr
}

func loadConsts(dir string) *constTable {
	t := &constTable{exprs: map[string]ast.Expr{}}
	files, _ := filepath.Glob(filepath.Join(dir, "*.go"))
	fset := token.NewFileSet()
	for _, fn := range files {
		if strings.HasSuffix(fn, "_test.go") {
			continue
		}
		f, err := parser.ParseFile(fset, fn, nil, 0)
		if err != nil {
			continue
		}
		for _, d := range f.Decls {
			gd, ok := d.(*ast.GenDecl)
			if !ok || gd.Tok != token.CONST {
				continue
			}
			for _, s := range gd.Specs {
				vs := s.(*ast.ValueSpec)
				for i, name := range vs.Names {
					if i < len(vs.Values) {
						t.exprs[name.Name] = vs.Values[i]
					}
				}
			}
		}
	}
	return t
}

func (t *constTable) eval(e ast.Expr, depth int) (constant.Value, bool) {
	if depth > 20 {
		return nil, false
	}
	switch x := e.(type) {
	case *ast.BasicLit:
		if x.Kind != token.INT {
			return nil, false
		}
		return constant.MakeFromLiteral(x.Value, token.INT, 0), true
	case *ast.ParenExpr:
		return t.eval(x.X, depth+1)
	case *ast.Ident:
		if d, ok := t.exprs[x.Name]; ok {
			return t.eval(d, depth+1)
		}
		return nil, false
	case *ast.BinaryExpr:
		a, ok1 := t.eval(x.X, depth+1)
		b, ok2 := t.eval(x.Y, depth+1)
		if !ok1 || !ok2 {
			return nil, false
		}
		switch x.Op {
		case token.SHL, token.SHR:
			s, ok := constant.Uint64Val(b)
			if !ok {
				return nil, false
			}
			return constant.Shift(a, x.Op, uint(s)), true
		case token.ADD, token.SUB, token.MUL:
			return constant.BinaryOp(a, x.Op, b), true
		case token.QUO:
			return constant.BinaryOp(a, token.QUO_ASSIGN, b), true
		}
	}
	return nil, false
}

func (t *constTable) intOf(e ast.Expr) (int, bool) {
	v, ok := t.eval(e, 0)
	if !ok {
		return 0, false
	}
	n, ok := constant.Int64Val(v)
	return int(n), ok
}

func parseWiring(file string, consts *constTable) wiring {
	w := wiring{}
	fset := token.NewFileSet()
	f, err := parser.ParseFile(fset, file, nil, 0)
	if err != nil {
		return wiring{order: []int{9}}
	}
	assigns := map[string]*ast.CallExpr{}
	var flusherCall *ast.CallExpr
	ast.Inspect(f, func(n ast.Node) bool {
		switch x := n.(type) {
		case *ast.AssignStmt:
			if x.Tok == token.DEFINE && len(x.Lhs) == 1 && len(x.Rhs) == 1 {
				if id, ok := x.Lhs[0].(*ast.Ident); ok {
					if call, ok := x.Rhs[0].(*ast.CallExpr); ok {
						assigns[id.Name] = call
					}
				}
			}
		case *ast.CallExpr:
			if sel, ok := x.Fun.(*ast.SelectorExpr); ok && sel.Sel.Name == "NewMultiFlusher" {
				if flusherCall != nil {
					w.order = append(w.order, 9) // more than one: not the shape we know
				}
				flusherCall = x
			}
		}
		return true
	})
	if flusherCall == nil {
		return wiring{order: []int{9}}
	}
	selName := func(c *ast.CallExpr) string {
		if c == nil {
			return ""
		}
		if sel, ok := c.Fun.(*ast.SelectorExpr); ok {
			return sel.Sel.Name
		}
		return ""
	}
	w.ok = true
	for _, a := range flusherCall.Args {
		code := 9
		if id, ok := a.(*ast.Ident); ok {
			call := assigns[id.Name]
			switch selName(call) {
			case "Compress":
				code = 1
			case "NewWriterSize":
				if len(call.Args) == 2 {
					under, _ := call.Args[0].(*ast.Ident)
					size, sok := consts.intOf(call.Args[1])
					if under != nil && selName(assigns[under.Name]) == "Compress" {
						code = 0
						if sok {
							w.n1 = size
						}
					} else if under != nil && assigns[under.Name] == nil {
						// wraps a parameter (the stream itself)
						code = 2
						if sok {
							w.n2 = size
						}
					}
				}
			}
		}
		if code == 9 {
			w.ok = false
		}
		w.order = append(w.order, code)
	}
	if w.n1 <= 0 || w.n2 <= 0 || len(w.order) != 3 {
		w.ok = false
	}
	return w
}

// ---- the pipeline ----------------------------------------------------------------

var errWouldBlock = errors.New("verif: no more data on the transport")

// transport is the in-memory stream between the endpoints: writes append,
// reads return a random-sized fragment of what is there and never block.
type transport struct {
	buf     []byte
	off     int
	rng     *rand.Rand
	maxFrag int
}

func (t *transport) Write(p []byte) (int, error) {
	t.buf = append(t.buf, p...)
	return len(p), nil
}
func (t *transport) Read(p []byte) (int, error) {
	avail := len(t.buf) - t.off
	if avail == 0 {
		return 0, errWouldBlock
	}
	if len(p) == 0 {
		return 0, nil
	}
	n := 1 + t.rng.Intn(t.maxFrag)
	n = min(n, avail, len(p))
	copy(p, t.buf[t.off:t.off+n])
	t.off += n
	return n, nil
}

type teeWriter struct {
	w   io.Writer
	rec []byte
}

func (t *teeWriter) Write(p []byte) (int, error) {
	t.rec = append(t.rec, p...)
	return t.w.Write(p)
}

// recReader records every fragment the decompressor hands to the decoder's buffer.
type recReader struct {
	r     io.Reader
	all   []byte
	lens  []int
	count int
}

func (r *recReader) Read(p []byte) (int, error) {
	n, err := r.r.Read(p)
	if n > 0 {
		r.all = append(r.all, p[:n]...)
		r.lens = append(r.lens, n)
		r.count++
	}
	return n, err
}

// classify maps a Decode error to the codes of Model/Framing.v.
func classify(err error) int {
	if err == nil {
		return 0
	}
	m := err.Error()
	switch {
	case errors.Is(err, errWouldBlock):
		return 7
	case m == "message size too large":
		return 4
	case strings.HasPrefix(m, "unable to read message length"):
		switch {
		case errors.Is(err, io.ErrUnexpectedEOF):
			return 2
		case errors.Is(err, io.EOF):
			return 1
		case strings.Contains(m, "overflows"):
			return 3
		}
		return 8
	case strings.HasPrefix(m, "unable to read message:"):
		if errors.Is(err, io.EOF) || errors.Is(err, io.ErrUnexpectedEOF) {
			return 5
		}
		return 8
	case strings.HasPrefix(m, "unable to unmarshal message"):
		return 6
	}
	return 8
}

// Case is the replay form.
type Case struct {
	Kind     string      `json:"kind"` // pipe | raw | wiresrc | wirerun | edge
	Size     uint64      `json:"size,omitempty"` // edge: body size
	Alg      int         `json:"alg,omitempty"`
	Side     int         `json:"side,omitempty"`
	Segs     [][][]Piece `json:"segs,omitempty"` // pipe: per flush, per message, the payload pieces
	FragSeed int64       `json:"fragseed,omitempty"`
	MaxFrag  int         `json:"maxfrag,omitempty"`
	Raw      []Piece     `json:"raw,omitempty"`  // raw: the stream
	Lens     []int       `json:"lens,omitempty"` // raw: fragment lengths
}

func body(payload []byte) []byte {
	b, err := proto.MarshalOptions{Deterministic: true}.Marshal(&wrapperspb.BytesValue{Value: payload})
	if err != nil {
		panic(err)
	}
	return b
}

type env struct {
	limit   uint64
	wirings [2]wiring
}

func (e *env) runPipe(c Case) (coq string, nontrivial bool, tags []string) {
	w := e.wirings[c.Side]
	if !w.ok {
		w = wiring{order: []int{0, 1, 2}, n1: 64 * 1024, n2: 64 * 1024, ok: true}
	}
	alg := compression.Algorithm(c.Alg)
	tr := &transport{rng: rand.New(rand.NewSource(c.FragSeed)), maxFrag: max(c.MaxFrag, 1)}

	// writer side, as in remote/client.go and server.go
	compressedOutbound := bufio.NewWriterSize(tr, w.n2)
	compressor := alg.Compress(compressedOutbound)
	outbound := bufio.NewWriterSize(compressor, w.n1)
	layers := map[int]stream.Flusher{0: outbound, 1: compressor, 2: compressedOutbound}
	var fl []stream.Flusher
	for _, l := range w.order {
		fl = append(fl, layers[l])
	}
	flusher := stream.NewMultiFlusher(fl...)
	tee := &teeWriter{w: outbound}
	encoder := encoding.NewProtobufEncoder(tee)

	// reader side, as in remote/client.go and server.go
	compressedInbound := bufio.NewReaderSize(tr, w.n2)
	decompressor := alg.Decompress(compressedInbound)
	rec := &recReader{r: decompressor}
	inbound := bufio.NewReaderSize(rec, w.n1)
	decoder := encoding.NewProtobufDecoder(inbound)

	reg := newRegistry()
	var segsCoq, decCoq []string
	sameSeg := true
	var marks []int
	broken := false
	total, maxMsg, nMsgs := 0, 0, 0
	for _, seg := range c.Segs {
		var written []string
		for _, m := range seg {
			reg.add(m)
			payload := piecesBytes(m)
			b := body(payload)
			written = append(written, reg.render(b))
			total += len(b)
			maxMsg = max(maxMsg, len(b))
			nMsgs++
			if len(payload) == 0 {
				tags = append(tags, "msg:empty")
			}
			if !broken {
				if err := encoder.Encode(&wrapperspb.BytesValue{Value: payload}); err != nil {
					broken = true
				}
			}
		}
		segsCoq = append(segsCoq, hx.List(written))
		before := rec.count
		var got []string
		var gotBodies, wantBodies [][]byte
		for _, m := range seg {
			wantBodies = append(wantBodies, body(piecesBytes(m)))
		}
		code := 0
		if broken {
			code = 8
		} else if err := flusher.Flush(); err != nil {
			code, broken = 8, true
		} else {
			for range seg {
				var m wrapperspb.BytesValue
				if err := decoder.Decode(&m); err != nil {
					code, broken = classify(err), true
					break
				}
				gotBodies = append(gotBodies, body(m.Value))
			}
		}
		marks = append(marks, rec.count-before)
		// "DSame" only when the decoded bodies ARE the written ones, byte for byte
		sameSeg = len(gotBodies) == len(wantBodies)
		for i := range gotBodies {
			if sameSeg && !bytes.Equal(gotBodies[i], wantBodies[i]) {
				sameSeg = false
			}
		}
		if sameSeg {
			decCoq = append(decCoq, fmt.Sprintf("(DSame, %d)", code))
		} else {
			for _, b := range gotBodies {
				got = append(got, reg.render(b))
			}
			decCoq = append(decCoq, fmt.Sprintf("(DOther %s, %d)", hx.List(got), code))
		}
	}
	// "Same" only when the delivered bytes ARE the encoder's bytes
	streamCoq := "Same"
	if !bytes.Equal(tee.rec, rec.all) {
		streamCoq = "(Other " + reg.render(rec.all) + ")"
	}
	coq = fmt.Sprintf("FPipe %d %d %s %s %s %s %s %s", e.limit, c.Alg, hx.List(segsCoq),
		reg.render(tee.rec), streamCoq, rle(rec.lens), hx.NatList(marks), hx.List(decCoq))
	nontrivial = nMsgs >= 1 && total > 0 && len(rec.lens) > 1
	tags = append(tags, fmt.Sprintf("alg:%d", c.Alg), fmt.Sprintf("flushes:%d", min(len(c.Segs), 5)), "size:"+sizeBucket(maxMsg))
	if c.MaxFrag == 1 {
		tags = append(tags, "frag:bytewise")
	}
	for _, seg := range c.Segs {
		if len(seg) == 0 {
			tags = append(tags, "flush:nothing-new")
			break
		}
	}
	return
}

// rle prints fragment lengths as (length, repeat) pairs.
func rle(xs []int) string {
	var items []string
	for i := 0; i < len(xs); {
		j := i
		for j < len(xs) && xs[j] == xs[i] {
			j++
		}
		items = append(items, fmt.Sprintf("(%d,%d)", xs[i], j-i))
		i = j
	}
	return hx.List(items)
}

func sizeBucket(n int) string {
	switch {
	case n == 0:
		return "0"
	case n < 128:
		return "<128"
	case n < 16384:
		return "<16K"
	case n < 65536:
		return "<64K"
	case n <= 1<<20:
		return "<=1MiB"
	default:
		return ">1MiB"
	}
}

// fragReader is the DualModeReader of the raw runs: Read hands out at most the
// rest of the current fragment; every byte handed out is counted.
type fragReader struct {
	data     []byte
	lens     []int
	consumed int
}

func (r *fragReader) cur() int {
	for len(r.lens) > 0 && r.lens[0] == 0 {
		r.lens = r.lens[1:]
	}
	if len(r.lens) == 0 {
		return len(r.data)
	}
	return min(r.lens[0], len(r.data))
}
func (r *fragReader) take(n int) {
	r.data = r.data[n:]
	r.consumed += n
	if len(r.lens) > 0 {
		r.lens[0] -= n
	}
}
func (r *fragReader) Read(p []byte) (int, error) {
	if len(r.data) == 0 {
		return 0, io.EOF
	}
	n := min(len(p), r.cur())
	copy(p, r.data[:n])
	r.take(n)
	return n, nil
}
func (r *fragReader) ReadByte() (byte, error) {
	if len(r.data) == 0 {
		return 0, io.EOF
	}
	r.cur()
	b := r.data[0]
	r.take(1)
	return b, nil
}

func (e *env) runRaw(c Case) (coq string, nontrivial bool, tags []string) {
	reg := newRegistry()
	reg.add(c.Raw)
	streamBytes := piecesBytes(c.Raw)
	fr := &fragReader{data: append([]byte(nil), streamBytes...), lens: append([]int(nil), c.Lens...)}
	decoder := encoding.NewProtobufDecoder(fr)
	var got []string
	code := 0
	allocSmall := true
	var ms0, ms1 runtime.MemStats
	for i := 0; i < 1000; i++ {
		var m wrapperspb.BytesValue
		// allocation is measured only around a Decode that is about to see a
		// large (or unreadable) declared size
		declared, k := binary.Uvarint(fr.data)
		measure := k <= 0 || declared > 1<<20
		if measure {
			runtime.ReadMemStats(&ms0)
		}
		err := decoder.Decode(&m)
		if measure {
			runtime.ReadMemStats(&ms1)
		}
		if err != nil {
			code = classify(err)
			if measure {
				allocSmall = ms1.TotalAlloc-ms0.TotalAlloc < 1<<20
			}
			break
		}
		got = append(got, reg.render(body(m.Value)))
	}
	coq = fmt.Sprintf("FRaw %d %s %s %s %d %d %v", e.limit, reg.render(streamBytes), rle(c.Lens),
		hx.List(got), code, fr.consumed, allocSmall)
	nontrivial = len(streamBytes) > 0
	tags = append(tags, "raw", fmt.Sprintf("raw:code:%d", code))
	return
}

func (e *env) runWireSrc(c Case) (string, bool, []string) {
	w := e.wirings[c.Side]
	return fmt.Sprintf("FWireSrc %d %s %d %d", c.Side, hx.NatList(w.order), w.n1, w.n2), true, []string{"wiring:source"}
}

// runWireRun drives the real remote.NewEndpoint: the harness plays the server
// (compression handshake, then decoder) and reports whether the initialize
// request can be decoded after the endpoint's Flush, without anything else
// being sent.
func (e *env) runWireRun(c Case) (string, bool, []string) {
	alg := compression.Algorithm(c.Alg)
	c1, c2 := net.Pipe()
	done := make(chan struct{})
	go func() {
		defer close(done)
		ep, err := remote.NewEndpoint(nil, c1, "/verif-no-such-root", "verif-session",
			synchronization.Version_Version1,
			&synchronization.Configuration{CompressionAlgorithm: alg}, true)
		if err == nil {
			ep.Shutdown()
		}
	}()
	delivered := false
	c2.SetDeadline(time.Now().Add(2 * time.Second))
	var b [1]byte
	if _, err := io.ReadFull(c2, b[:]); err == nil && b[0] == byte(alg) {
		if _, err := c2.Write([]byte{1}); err == nil {
			rd := bufio.NewReaderSize(alg.Decompress(bufio.NewReaderSize(c2, 64*1024)), 64*1024)
			req := &remote.InitializeSynchronizationRequest{}
			if err := encoding.NewProtobufDecoder(rd).Decode(req); err == nil && req.Session == "verif-session" {
				delivered = true
			}
		}
	}
	c2.Close()
	select {
	case <-done:
	case <-time.After(2 * time.Second):
	}
	return fmt.Sprintf("FWireRun %d %v", c.Alg, delivered), true, []string{"wiring:run", fmt.Sprintf("alg:%d", c.Alg)}
}

// runEdge sends one message whose marshalled body has exactly c.Size bytes
// through the real encoder and the real decoder.
func (e *env) runEdge(c Case) (string, bool, []string) {
	var payload []byte
	for p := int(c.Size); p >= 0 && p > int(c.Size)-12; p-- {
		// body = tag, length, payload
		if 1+len(binary.AppendUvarint(nil, uint64(p)))+p == int(c.Size) {
			payload = bytes.Repeat([]byte{0x5a}, p)
			break
		}
	}
	if payload == nil {
		panic("no payload gives that body size")
	}
	var wire bytes.Buffer
	msg := &wrapperspb.BytesValue{Value: payload}
	if proto.Size(msg) != int(c.Size) {
		panic("body size computation")
	}
	code, intact := 8, false
	if err := encoding.NewProtobufEncoder(&wire).Encode(msg); err == nil {
		var m wrapperspb.BytesValue
		err := encoding.NewProtobufDecoder(bufio.NewReaderSize(&wire, 64*1024)).Decode(&m)
		code = classify(err)
		intact = err == nil && bytes.Equal(m.Value, payload)
	}
	return fmt.Sprintf("FEdge %d %d %d %v", e.limit, c.Size, code, intact), true, []string{"edge", fmt.Sprintf("edge:code:%d", code)}
}

// ---- generators ----------------------------------------------------------------------

func randPayload(r *rand.Rand, size int) []Piece {
	if size == 0 {
		return nil
	}
	if size < 6 {
		d := make([]int, size)
		for i := range d {
			d[i] = r.Intn(256)
		}
		return []Piece{{K: "L", D: d}}
	}
	var ps []Piece
	rest := size
	seedA := 1 + r.Intn(65535)
	for rest > 0 {
		n := rest
		if rest > 12 && r.Intn(3) == 0 {
			n = 6 + r.Intn(rest-11)
		}
		if rest-n > 0 && rest-n < 6 {
			n = rest
		}
		switch r.Intn(5) {
		case 0:
			ps = append(ps, Piece{K: "Z", B: r.Intn(256), N: n})
		case 1: // the same sequence again: something for the compressor to find
			ps = append(ps, Piece{K: "G", S: seedA, N: n})
		default:
			ps = append(ps, Piece{K: "G", S: 1 + r.Intn(65535), N: n})
		}
		rest -= n
	}
	return ps
}

func smallSize(r *rand.Rand) int {
	switch r.Intn(12) {
	case 0, 1:
		return 0
	case 2, 3:
		return 1 + r.Intn(5)
	case 4: // around the one-byte / two-byte length boundary (body = payload + 2 or 3)
		return 120 + r.Intn(12)
	default:
		return 6 + r.Intn(40)
	}
}

func fragChoices(total int) int {
	return max(1, total/60)
}

func (e *env) randPipe(r *rand.Rand, algs []int, sizeFn func() int, maxSegs, maxPer int) Case {
	c := Case{Kind: "pipe", Alg: algs[r.Intn(len(algs))], Side: r.Intn(2), FragSeed: r.Int63()}
	total := 0
	nseg := 1 + r.Intn(maxSegs)
	for s := 0; s < nseg; s++ {
		n := r.Intn(maxPer + 1)
		seg := [][]Piece{}
		for i := 0; i < n; i++ {
			size := sizeFn()
			total += size + 8
			seg = append(seg, randPayload(r, size))
		}
		c.Segs = append(c.Segs, seg)
	}
	choices := []int{1, 2, 3, 7, 64, 1000, 65536, 1 << 20}
	c.MaxFrag = max(choices[r.Intn(len(choices))], fragChoices(total))
	return c
}

func uvarint(n uint64) []int {
	b := binary.AppendUvarint(nil, n)
	out := make([]int, len(b))
	for i, v := range b {
		out[i] = int(v)
	}
	return out
}

func lit(b []byte) Piece {
	d := make([]int, len(b))
	for i, v := range b {
		d[i] = int(v)
	}
	return Piece{K: "L", D: d}
}

func framePieces(payload []Piece) []Piece {
	b := body(piecesBytes(payload))
	hdr := binary.AppendUvarint(nil, uint64(len(b)))
	if len(payload) == 0 {
		return []Piece{lit(hdr)}
	}
	// body = tag, length, payload
	pre := b[:len(b)-len(piecesBytes(payload))]
	return append([]Piece{lit(append(hdr, pre...))}, payload...)
}

// rawTails are the ways a stream can end badly (or not).
func (e *env) rawTails(r *rand.Rand, atLimit bool) [][]Piece {
	L := e.limit
	junk := func(n int) Piece {
		d := make([]int, n)
		for i := range d {
			d[i] = r.Intn(256)
		}
		return Piece{K: "L", D: d}
	}
	ff := func(n int, last int) Piece {
		d := make([]int, 0, n+1)
		for i := 0; i < n; i++ {
			d = append(d, 0xff)
		}
		return Piece{K: "L", D: append(d, last)}
	}
	tails := [][]Piece{
		nil, // clean end
		{Piece{K: "L", D: []int{0x80}}},             // length cut after one byte
		{Piece{K: "L", D: []int{0xff, 0xff, 0xff}}}, // length cut
		{ff(9, 0x02)},                               // tenth byte > 1
		{ff(9, 0x7f), junk(3)},                      // tenth byte > 1
		{ff(10, 0x00), junk(2)},                     // ten continuation bytes
		{ff(9, 0x01)},                               // 2^64-1
		{ff(9, 0x01), junk(5)},                      // 2^64-1 then junk
		{Piece{K: "L", D: []int{0x83, 0x00}}, lit(body([]byte{7}))},             // non-minimal encoding of 3, then a 3-byte body
		{Piece{K: "L", D: []int{0x80, 0x80, 0x00}}},                             // non-minimal encoding of 0
		{Piece{K: "L", D: []int{0x80, 0x80, 0x80, 0x80, 0x80, 0x80, 0x80, 0x80, 0x80, 0x00}}}, // ten-byte zero
		{Piece{K: "L", D: uvarint(40)}, junk(7)},                                // body cut
		{Piece{K: "L", D: uvarint(1)}},                                          // body missing
		{Piece{K: "L", D: uvarint(300)}, lit(body(bytes.Repeat([]byte{9}, 100)))}, // body cut
	}
	for _, n := range []uint64{L + 1, L + 2, L + 1 + uint64(r.Intn(1<<20)), 1 << 31, 1<<31 - 1, 1 << 32, 1<<32 + 5, 1 << 62, 1<<63 - 1, 1 << 63, 1<<63 + 1, 1<<64 - 2} {
		tails = append(tails, []Piece{{K: "L", D: uvarint(n)}})
		tails = append(tails, []Piece{{K: "L", D: uvarint(n)}, junk(1 + r.Intn(20))})
	}
	// at and just below the limit: accepted, then the body is cut
	// (each of these makes the real decoder allocate 100 MiB: a few per run)
	if atLimit {
		for _, n := range []uint64{L, L - 1} {
			tails = append(tails, []Piece{{K: "L", D: uvarint(n)}, junk(r.Intn(6))})
		}
	}
	return tails
}

func randLens(r *rand.Rand, total int) []int {
	var lens []int
	maxFrag := max([]int{1, 2, 3, 5, 16, 1000}[r.Intn(6)], total/40)
	rest := total
	for rest > 0 {
		n := min(1+r.Intn(maxFrag), rest)
		lens = append(lens, n)
		rest -= n
	}
	return lens
}

const header = "From Coq Require Import List NArith Strings.Byte.\nImport ListNotations.\nFrom Mv Require Import Model.Varint Model.Framing Harness.FramingH.\nLocal Open Scope N_scope."

func main() {
	cfg := hx.Parse()
	w := hx.NewWriter(cfg, header, "fcase", "framing_failures", 80)
	w.Rule = "a pipe case = (real limit, algorithm, messages written before each flush, bytes the real encoder wrote, bytes and fragments the real decompressor handed to the real decoder, messages the real decoder returned after each flush); a raw case = (real limit, crafted stream, fragmentation, messages decoded, final error, bytes consumed, allocation flag); wiring cases = flusher order and buffer sizes read from remote/client.go and server.go, and the real remote.NewEndpoint against a harness-played peer. distinct = distinct Coq terms; non-trivial = at least one non-empty message delivered in more than one fragment (pipe) / a non-empty stream (raw)"

	e := &env{}
	repo := repoDir()
	encConsts := loadConsts(filepath.Join(repo, "pkg", "encoding"))
	if x, ok := encConsts.exprs["protobufDecoderMaximumAllowedMessageSize"]; ok {
		if n, ok := encConsts.intOf(x); ok {
			e.limit = uint64(n)
		}
	}
	remoteDir := filepath.Join(repo, "pkg", "synchronization", "endpoint", "remote")
	remoteConsts := loadConsts(remoteDir)
	e.wirings[0] = parseWiring(filepath.Join(remoteDir, "client.go"), remoteConsts)
	e.wirings[1] = parseWiring(filepath.Join(remoteDir, "server.go"), remoteConsts)

	var algs []int
	for _, a := range []compression.Algorithm{compression.Algorithm_AlgorithmNone, compression.Algorithm_AlgorithmDeflate, compression.Algorithm_AlgorithmZstandard} {
		if a.SupportStatus() == compression.AlgorithmSupportStatusSupported {
			algs = append(algs, int(a))
		}
	}
	w.Extra["algorithms"] = algs
	w.Extra["limit_read_from_source"] = e.limit
	w.Extra["wiring_read_from_source"] = fmt.Sprintf("client %v %d %d, server %v %d %d", e.wirings[0].order, e.wirings[0].n1, e.wirings[0].n2, e.wirings[1].order, e.wirings[1].n1, e.wirings[1].n2)

	add := func(c Case, origin string) {
		if w.Aborted {
			return
		}
		var coq string
		var nt bool
		var tags []string
		// wall-clock watchdog: generous, the machine may be heavily loaded; the
		// at-limit cases move several hundred MiB
		limit := 60 * time.Second
		if c.Kind == "edge" {
			limit = 300 * time.Second
		}
		ok := w.Guard(c, limit, func() {
			switch c.Kind {
			case "pipe":
				coq, nt, tags = e.runPipe(c)
			case "raw":
				coq, nt, tags = e.runRaw(c)
			case "wiresrc":
				coq, nt, tags = e.runWireSrc(c)
			case "wirerun":
				coq, nt, tags = e.runWireRun(c)
			case "edge":
				coq, nt, tags = e.runEdge(c)
			default:
				panic("unknown case kind " + c.Kind)
			}
		})
		if ok {
			w.Add(hx.Case{Coq: coq, Replay: c, Nontrivial: nt, Tags: tags, Origin: origin})
		}
	}

	if cfg.Replay != "" {
		b, err := os.ReadFile(cfg.Replay)
		if err != nil {
			panic(err)
		}
		var wrapper struct {
			Case Case `json:"case"`
		}
		if err := json.Unmarshal(b, &wrapper); err != nil {
			panic(err)
		}
		add(wrapper.Case, "replay")
		w.Close()
		return
	}

	for _, raw := range hx.LoadCorpus(cfg.Corpus) {
		var c Case
		if json.Unmarshal(raw, &c) == nil && c.Kind != "" {
			add(c, "corpus")
		}
	}

	r := cfg.Rand

	// the wiring of the real endpoints
	add(Case{Kind: "wiresrc", Side: 0}, "exhaustive")
	add(Case{Kind: "wiresrc", Side: 1}, "exhaustive")
	for _, a := range algs {
		add(Case{Kind: "wirerun", Alg: a}, "exhaustive")
	}

	// a message of exactly the limit must pass, one byte more must not
	if e.limit > 16 && e.limit <= 1<<30 {
		add(Case{Kind: "edge", Size: e.limit}, "exhaustive")
		add(Case{Kind: "edge", Size: e.limit + 1}, "exhaustive")
		if cfg.Thorough() {
			add(Case{Kind: "edge", Size: e.limit - 1}, "exhaustive")
		}
	}

	// one very large message first (its shard is the slowest to evaluate)
	huge := func(size int) {
		for _, a := range algs {
			c := Case{Kind: "pipe", Alg: a, Side: r.Intn(2), FragSeed: r.Int63(), MaxFrag: 1 << 20}
			c.Segs = [][][]Piece{{randPayload(r, 10)}, {randPayload(r, size), nil}, {randPayload(r, 33)}}
			add(c, "random")
		}
	}
	huge(1<<20 + 1 + r.Intn(200000))

	// raw streams: every tail after 0..2 intact frames, fragmented randomly
	rounds := 6
	if cfg.Thorough() {
		rounds = 30
	}
	nTails := 0
	for round := 0; round < rounds; round++ {
		tails := e.rawTails(r, round%15 == 0)
		nTails = max(nTails, len(tails))
		for _, tail := range tails {
			var ps []Piece
			for i := r.Intn(3); i > 0; i-- {
				ps = append(ps, framePieces(randPayload(r, smallSize(r)))...)
			}
			ps = append(ps, tail...)
			add(Case{Kind: "raw", Raw: ps, Lens: randLens(r, len(piecesBytes(ps)))}, "malformed")
		}
	}
	w.Extra["exhaustive_scope"] = fmt.Sprintf("%d stream endings (clean, cut length, cut body, varint overflow forms, non-minimal lengths, declared sizes above the limit from limit+1 up to 2^64-2, each with and without trailing bytes, sizes at and just below the limit) x %d rounds of random intact prefixes and fragmentations; flusher order and buffer sizes of both endpoint files; remote.NewEndpoint with every supported algorithm", nTails, rounds)

	// pipeline runs with small messages
	nSmall, nMedium, nLarge := 700, 60, 8
	if cfg.Thorough() {
		nSmall, nMedium, nLarge = 8000, 600, 60
	}
	for i := 0; i < nSmall; i++ {
		add(e.randPipe(r, algs, func() int { return smallSize(r) }, 4, 3), "random")
	}
	// medium: around the two-byte / three-byte length boundary and up to the
	// buffer sizes
	for i := 0; i < nMedium; i++ {
		add(e.randPipe(r, algs, func() int {
			switch r.Intn(4) {
			case 0:
				return 16370 + r.Intn(20)
			case 1:
				return smallSize(r)
			default:
				return 200 + r.Intn(30000)
			}
		}, 3, 2), "random")
	}
	// large: beyond both bufio buffers and the decoder's initial buffer
	for i := 0; i < nLarge; i++ {
		add(e.randPipe(r, algs, func() int {
			switch r.Intn(3) {
			case 0:
				return smallSize(r)
			case 1:
				return 65530 + r.Intn(12)
			default:
				return 32768 + r.Intn(300000)
			}
		}, 3, 2), "random")
	}
	// a second very large message (beyond the decoder's persistent buffer
	// limit), followed by smaller ones that must not see a stale buffer
	if cfg.Thorough() {
		huge(2<<20 + r.Intn(1<<20))
		huge(1<<20 + r.Intn(1000))
	}

	w.Close()
	fmt.Printf("cases %d\n", w.Total())
}
