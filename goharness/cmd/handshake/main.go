// Harness for C34: runs the real agent.ClientHandshake / ServerHandshake and
// mutagen.ClientVersionHandshake / ServerVersionHandshake
//
//	(a) one side at a time against a byte-level peer played by the harness
//	    (crafted bytes in, then EOF; everything the side writes is recorded),
//	    composed as pkg/agent/dial.go and cmd/mutagen-agent compose them
//	    (magic handshake, then version handshake);
//	(b) both real sides against each other through a relay that alters one
//	    byte or cuts one direction of the exchange.
//
// Every case carries the constants the real code uses: the magic numbers as
// the real functions send them, and mutagen.VersionMajor/Minor/Patch.
package main

import (
	"encoding/binary"
	"encoding/json"
	"fmt"
	"io"
	"os"
	"strings"
	"sync"
	"time"

	"github.com/mutagen-io/mutagen/pkg/agent"
	"github.com/mutagen-io/mutagen/pkg/mutagen"

	"verifharness/internal/hx"
)

// Fault is one fault on one direction: K = "" (none), "A" (alter byte P to V),
// "T" (the direction ends after P bytes).
type Fault struct {
	K string `json:"k,omitempty"`
	P int    `json:"p,omitempty"`
	V byte   `json:"v,omitempty"`
}

// Case is the replay form.
type Case struct {
	Kind string `json:"kind"`           // side | joint
	Side int    `json:"side,omitempty"` // 0 client, 1 server
	Inp  []int  `json:"inp,omitempty"`  // bytes the peer sends before closing
	Frag int    `json:"frag,omitempty"` // max bytes per Read of the peer stream (0 = all)
	Fsc  Fault  `json:"fsc,omitempty"`  // server -> client
	Fcs  Fault  `json:"fcs,omitempty"`  // client -> server
}

// scriptStream: reads come from a fixed byte string in fragments, then EOF;
// writes are recorded and never fail.
type scriptStream struct {
	in   []byte
	frag int
	sent []byte
}

func (s *scriptStream) Read(p []byte) (int, error) {
	if len(s.in) == 0 {
		return 0, io.EOF
	}
	n := len(p)
	if s.frag > 0 && n > s.frag {
		n = s.frag
	}
	if n > len(s.in) {
		n = len(s.in)
	}
	copy(p, s.in[:n])
	s.in = s.in[n:]
	return n, nil
}
func (s *scriptStream) Write(p []byte) (int, error) {
	s.sent = append(s.sent, p...)
	return len(p), nil
}
func (s *scriptStream) Close() error { return nil }

// classify maps a handshake error to the result code of Harness/HandshakeH.v.
func classify(err error) int {
	if err == nil {
		return 0
	}
	m := err.Error()
	switch {
	case strings.HasPrefix(m, "unable to receive server magic number"),
		strings.HasPrefix(m, "unable to receive client magic number"):
		return 1
	case m == "server magic number incorrect", m == "client magic number incorrect":
		return 2
	case strings.HasPrefix(m, "unable to receive server version"),
		strings.HasPrefix(m, "unable to receive client version"):
		return 3
	case m == "version mismatch":
		return 4
	default:
		return 5
	}
}

// the composition of pkg/agent/dial.go (client) and cmd/mutagen-agent (server)
func runClient(s io.ReadWriteCloser) int {
	if err := agent.ClientHandshake(s); err != nil {
		return classify(err)
	}
	return classify(mutagen.ClientVersionHandshake(s))
}
func runServer(s io.ReadWriteCloser) int {
	if err := agent.ServerHandshake(s); err != nil {
		return classify(err)
	}
	return classify(mutagen.ServerVersionHandshake(s))
}

// ---- constants of the real code -------------------------------------------

type consts struct {
	smagic, cmagic []byte
	ver            [3]uint32
}

func observeConsts() consts {
	var k consts
	// what ServerHandshake sends first is serverMagicNumber
	s := &scriptStream{}
	agent.ServerHandshake(s)
	k.smagic = append([]byte(nil), s.sent...)
	// given that, what ClientHandshake sends is clientMagicNumber
	c := &scriptStream{in: append([]byte(nil), k.smagic...)}
	agent.ClientHandshake(c)
	k.cmagic = append([]byte(nil), c.sent...)
	k.ver = [3]uint32{mutagen.VersionMajor, mutagen.VersionMinor, mutagen.VersionPatch}
	return k
}

func (k consts) coq() string {
	return fmt.Sprintf("(%s, %s, (%d, %d, %d))", hx.Bytes(k.smagic), hx.Bytes(k.cmagic), k.ver[0], k.ver[1], k.ver[2])
}

func beVersion(v [3]uint32) []byte {
	b := make([]byte, 12)
	binary.BigEndian.PutUint32(b[0:], v[0])
	binary.BigEndian.PutUint32(b[4:], v[1])
	binary.BigEndian.PutUint32(b[8:], v[2])
	return b
}

// ---- both real sides through a faulty relay --------------------------------

type duplex struct {
	r *io.PipeReader
	w *io.PipeWriter
}

func (d *duplex) Read(p []byte) (int, error)  { return d.r.Read(p) }
func (d *duplex) Write(p []byte) (int, error) { return d.w.Write(p) }
func (d *duplex) Close() error                { d.w.Close(); d.r.Close(); return nil }

// relay copies src to dst applying the fault; when src ends (the sender has
// returned and closed) or the fault cuts the direction, dst is closed so the
// receiver's pending read ends; src is always drained so that the sender's
// writes never block.
func relay(src *io.PipeReader, dst *io.PipeWriter, f Fault, wg *sync.WaitGroup) {
	defer wg.Done()
	pos := 0
	open := true
	buf := make([]byte, 64)
	for {
		n, err := src.Read(buf)
		for i := 0; i < n && open; i++ {
			if f.K == "T" && pos >= f.P {
				dst.Close()
				open = false
				break
			}
			b := buf[i]
			if f.K == "A" && pos == f.P {
				b = f.V
			}
			if _, werr := dst.Write([]byte{b}); werr != nil {
				open = false
			}
			pos++
		}
		if open && f.K == "T" && pos >= f.P {
			dst.Close()
			open = false
		}
		if err != nil {
			break
		}
	}
	dst.Close()
}

func runJoint(fsc, fcs Fault) (rc, rs int) {
	cOutR, cOutW := io.Pipe() // client writes
	sInR, sInW := io.Pipe()   // server reads
	sOutR, sOutW := io.Pipe() // server writes
	cInR, cInW := io.Pipe()   // client reads
	var relays, sides sync.WaitGroup
	relays.Add(2)
	go relay(cOutR, sInW, fcs, &relays)
	go relay(sOutR, cInW, fsc, &relays)
	client := &duplex{r: cInR, w: cOutW}
	server := &duplex{r: sInR, w: sOutW}
	sides.Add(2)
	go func() { defer sides.Done(); rc = runClient(client); client.Close() }()
	go func() { defer sides.Done(); rs = runServer(server); server.Close() }()
	sides.Wait()
	relays.Wait()
	return
}

// ---- rendering ---------------------------------------------------------------

func (f Fault) coq() string {
	switch f.K {
	case "A":
		return fmt.Sprintf("(AL %d %d)", f.P, f.V)
	case "T":
		return fmt.Sprintf("(TR %d)", f.P)
	default:
		return "NF"
	}
}

func (f Fault) effective(full []byte) bool {
	switch f.K {
	case "A":
		return f.P < len(full) && full[f.P] != f.V
	case "T":
		return f.P < len(full)
	}
	return false
}

func toBytes(xs []int) []byte {
	b := make([]byte, len(xs))
	for i, x := range xs {
		b[i] = byte(x)
	}
	return b
}
func toInts(b []byte) []int {
	xs := make([]int, len(b))
	for i, x := range b {
		xs[i] = int(x)
	}
	return xs
}

const header = "From Coq Require Import List NArith Strings.Byte.\nImport ListNotations.\nFrom Mv Require Import Model.Varint Model.Handshake Harness.HandshakeH.\nLocal Open Scope N_scope."

func main() {
	cfg := hx.Parse()
	k := observeConsts()
	// the constants of the real code are written into every case file as K
	w := hx.NewWriter(cfg, header+"\nDefinition K : hconsts := "+k.coq()+".", "hcase", "handshake_failures", 160)
	w.Rule = "a case = (constants of the real code, input, implementation result): either one real side (client or server: magic handshake then version handshake) fed crafted bytes then EOF, with everything it sent and its result; or both real sides through a relay with one fault per direction, with both results. distinct = distinct Coq terms; non-trivial = the input differs from the intact expected 15 bytes / a fault is present"
	expC := append(append([]byte(nil), k.smagic...), beVersion(k.ver)...) // what the client expects
	expS := append(append([]byte(nil), k.cmagic...), beVersion(k.ver)...) // what the server expects

	add := func(c Case, origin string, tags ...string) {
		if w.Aborted {
			return
		}
		var coq string
		var nt bool
		ok := w.Guard(c, 30*time.Second, func() {
			switch c.Kind {
			case "side":
				s := &scriptStream{in: toBytes(c.Inp), frag: c.Frag}
				var code int
				exp := expC
				if c.Side == 0 {
					code = runClient(s)
				} else {
					code = runServer(s)
					exp = expS
				}
				coq = fmt.Sprintf("HSide K %d %s %s %d", c.Side, hx.NatList(c.Inp), hx.Bytes(s.sent), code)
				nt = string(toBytes(c.Inp)) != string(exp)
				tags = append(tags, fmt.Sprintf("side:%d", c.Side), fmt.Sprintf("result:%d", code))
			case "joint":
				rc, rs := runJoint(c.Fsc, c.Fcs)
				coq = fmt.Sprintf("HJoint K %s %s %d %d", c.Fsc.coq(), c.Fcs.coq(), rc, rs)
				nt = c.Fsc.K != "" || c.Fcs.K != ""
				tags = append(tags, "joint", fmt.Sprintf("results:%d/%d", rc, rs))
				if c.Fsc.effective(expC) || c.Fcs.effective(expS) {
					tags = append(tags, "joint:effective-fault")
				}
			default:
				panic("unknown case kind " + c.Kind)
			}
		})
		if ok {
			w.Add(hx.Case{Coq: coq, Replay: c, Nontrivial: nt, Tags: tags, Origin: origin})
		}
	}

	if cfg.Replay != "" {
		b, err := os.ReadFile(cfg.Replay)
		if err != nil {
			panic(err)
		}
		var wrapper struct {
			Case Case `json:"case"`
		}
		if err := json.Unmarshal(b, &wrapper); err != nil {
			panic(err)
		}
		add(wrapper.Case, "replay")
		w.Close()
		return
	}

	for _, raw := range hx.LoadCorpus(cfg.Corpus) {
		var c Case
		if json.Unmarshal(raw, &c) == nil && c.Kind != "" {
			add(c, "corpus")
		}
	}

	r := cfg.Rand
	// wrong values tried at every byte position
	wrongValues := func(orig byte) []byte {
		if cfg.Thorough() {
			out := make([]byte, 0, 255)
			for v := 0; v < 256; v++ {
				if byte(v) != orig {
					out = append(out, byte(v))
				}
			}
			return out
		}
		seen := map[byte]bool{orig: true}
		var out []byte
		push := func(v byte) {
			if !seen[v] {
				seen[v] = true
				out = append(out, v)
			}
		}
		for bit := 0; bit < 8; bit++ {
			push(orig ^ (1 << bit))
		}
		push(0x00)
		push(0xff)
		push(orig + 1)
		push(orig - 1)
		push(^orig)
		for len(out) < 20 {
			push(byte(r.Intn(256)))
		}
		return out
	}

	sideCase := func(side int, inp []byte, frag int) Case {
		return Case{Kind: "side", Side: side, Inp: toInts(inp), Frag: frag}
	}

	for side := 0; side < 2; side++ {
		exp := expC
		if side == 1 {
			exp = expS
		}
		trailing := []byte{0xde, 0xad}
		// the intact exchange, whole and byte by byte, with and without trailing bytes
		for _, frag := range []int{0, 1, 2, 5} {
			add(sideCase(side, exp, frag), "exhaustive", "intact")
			add(sideCase(side, append(append([]byte(nil), exp...), trailing...), frag), "exhaustive", "intact+trailing")
		}
		// every truncation point
		for p := 0; p < len(exp); p++ {
			for _, frag := range []int{0, 1} {
				add(sideCase(side, exp[:p], frag), "exhaustive", "truncated")
			}
		}
		// every byte position x wrong values
		for p := 0; p < len(exp); p++ {
			for _, v := range wrongValues(exp[p]) {
				inp := append([]byte(nil), exp...)
				inp[p] = v
				add(sideCase(side, inp, 0), "exhaustive", "corrupted")
				add(sideCase(side, append(inp, trailing...), 1), "exhaustive", "corrupted")
			}
		}
		// all single-field version perturbations
		magic := exp[:3]
		perturb := func(f uint32) []uint32 {
			sw := f>>24 | (f>>8)&0xff00 | (f<<8)&0xff0000 | f<<24
			return []uint32{f + 1, f - 1, 0, 1, 1 << 8, 1 << 16, 1 << 24, 1 << 31, 0xffffffff, f << 8, f << 16, f << 24, sw, f ^ 0x100, f ^ 0x10000, f ^ 0x1000000}
		}
		for field := 0; field < 3; field++ {
			for _, nv := range perturb(k.ver[field]) {
				if nv == k.ver[field] {
					continue
				}
				v := k.ver
				v[field] = nv
				add(sideCase(side, append(append([]byte(nil), magic...), beVersion(v)...), 0), "exhaustive", "version-field")
			}
		}
		// fields exchanged, little-endian encoding, magic of the wrong side
		for _, v := range [][3]uint32{
			{k.ver[1], k.ver[0], k.ver[2]}, {k.ver[0], k.ver[2], k.ver[1]}, {k.ver[2], k.ver[1], k.ver[0]},
			{k.ver[1], k.ver[2], k.ver[0]}, {k.ver[2], k.ver[0], k.ver[1]},
		} {
			add(sideCase(side, append(append([]byte(nil), magic...), beVersion(v)...), 0), "exhaustive", "version-permuted")
		}
		le := make([]byte, 12)
		binary.LittleEndian.PutUint32(le[0:], k.ver[0])
		binary.LittleEndian.PutUint32(le[4:], k.ver[1])
		binary.LittleEndian.PutUint32(le[8:], k.ver[2])
		add(sideCase(side, append(append([]byte(nil), magic...), le...), 0), "exhaustive", "version-little-endian")
		other := expC
		if side == 0 {
			other = expS
		}
		add(sideCase(side, other, 0), "exhaustive", "wrong-side-magic")
	}
	w.Extra["exhaustive_scope"] = "each side: the intact 15 expected bytes (whole and fragmented, with and without trailing bytes); every truncation point 0..14; every byte position x wrong values (quick: 8 bit flips, 0x00, 0xff, +1, -1, complement and random values, 20 per position; thorough: all 255); all single-field version perturbations (16 per field), all field permutations, little-endian encoding, the other side's magic. Both real sides through a relay: every position 0..16 of each direction x altered values, and every truncation point 0..16 of each direction"

	// both real sides through the relay
	add(Case{Kind: "joint"}, "exhaustive")
	for dir := 0; dir < 2; dir++ {
		exp := expC // server -> client
		if dir == 1 {
			exp = expS
		}
		mk := func(f Fault) Case {
			if dir == 0 {
				return Case{Kind: "joint", Fsc: f}
			}
			return Case{Kind: "joint", Fcs: f}
		}
		for p := 0; p <= len(exp)+1; p++ {
			add(mk(Fault{K: "T", P: p}), "exhaustive")
			var orig byte
			if p < len(exp) {
				orig = exp[p]
			}
			vals := []byte{orig, orig ^ 1, orig ^ 0x80, ^orig, orig + 1}
			if cfg.Thorough() {
				vals = vals[:1]
				vals = append(vals, wrongValues(orig)...)
			}
			for _, v := range vals {
				add(mk(Fault{K: "A", P: p, V: v}), "exhaustive")
			}
		}
	}
	// faults in both directions at once
	nBoth := 40
	if cfg.Thorough() {
		nBoth = 1500
	}
	randFault := func() Fault {
		switch r.Intn(3) {
		case 0:
			return Fault{K: "T", P: r.Intn(17)}
		case 1:
			return Fault{K: "A", P: r.Intn(17), V: byte(r.Intn(256))}
		}
		return Fault{}
	}
	for i := 0; i < nBoth; i++ {
		add(Case{Kind: "joint", Fsc: randFault(), Fcs: randFault()}, "random")
	}

	// random inputs for one side: random bytes, and random edits of the
	// expected input (insertions and deletions shift the stream)
	nRandom := 500
	if cfg.Thorough() {
		nRandom = 8000
	}
	for i := 0; i < nRandom; i++ {
		side := r.Intn(2)
		exp := expC
		if side == 1 {
			exp = expS
		}
		var inp []byte
		switch r.Intn(4) {
		case 0:
			inp = make([]byte, r.Intn(40))
			r.Read(inp)
		case 1: // delete a byte
			p := r.Intn(len(exp))
			inp = append(append([]byte(nil), exp[:p]...), exp[p+1:]...)
			inp = append(inp, byte(r.Intn(256)))
		case 2: // insert a byte
			p := r.Intn(len(exp) + 1)
			inp = append(append(append([]byte(nil), exp[:p]...), byte(r.Intn(256))), exp[p:]...)
		default: // several random changes
			inp = append([]byte(nil), exp...)
			for j := r.Intn(3); j >= 0; j-- {
				inp[r.Intn(len(inp))] = byte(r.Intn(256))
			}
			inp = append(inp, make([]byte, r.Intn(4))...)
		}
		add(sideCase(side, inp, r.Intn(4)), "random", "random-input")
	}

	w.Close()
	fmt.Printf("cases %d\n", w.Total())
}
