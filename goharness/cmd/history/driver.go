package main

import (
	"context"
	"crypto/sha1"
	"errors"
	"fmt"
	"os"
	"path/filepath"
	"sort"
	"strings"
	"sync"
	"time"

	"github.com/mutagen-io/mutagen/pkg/encoding"
	"github.com/mutagen-io/mutagen/pkg/logging"
	"github.com/mutagen-io/mutagen/pkg/selection"
	"github.com/mutagen-io/mutagen/pkg/synchronization"
	"github.com/mutagen-io/mutagen/pkg/synchronization/core"
	"github.com/mutagen-io/mutagen/pkg/synchronization/core/ignore"
	"github.com/mutagen-io/mutagen/pkg/synchronization/endpoint/local"
	"github.com/mutagen-io/mutagen/pkg/synchronization/rsync"
	urlpkg "github.com/mutagen-io/mutagen/pkg/url"

	"verifharness/internal/coretree"
)

// Op is one step of a script (the replay form of a history is its script).
type Op struct {
	// K: edit | cycle | pause | restart
	K string `json:"k"`
	// edit: write remove mkdir rename chmod link replace
	// (replace: the file is replaced atomically by a new file - written
	// elsewhere, given the old modification time and mode, renamed over the
	// target - as editors, cp -p, rsync -t and restores from backup do)
	Edit    string `json:"edit,omitempty"`
	Side    string `json:"side,omitempty"` // alpha | beta | both
	Name    string `json:"name,omitempty"`
	To      string `json:"to,omitempty"`
	Content string `json:"content,omitempty"`
	Exec    bool   `json:"exec,omitempty"`
	// cycle: "", cancelA, cancelB, partialA, partialB, failA, failB
	Inject string `json:"inject,omitempty"`
}

// Script is a whole history description.
type Script struct {
	Mode    int      `json:"mode"`              // core.SynchronizationMode (1..4)
	Docker  bool     `json:"docker,omitempty"`  // Docker-style ignore syntax
	Ignores []string `json:"ignores,omitempty"` // session ignores
	N       string   `json:"n,omitempty"`       // "", alpha, beta: the side whose wrapper reports no executability
	Ops     []Op     `json:"ops"`
}

// cycleRec is what was observed of one synchronization cycle.
type cycleRec struct {
	scans          int
	anc            *core.Entry
	sa, sb         *core.Entry
	pa, pb         bool
	stage          bool
	ta, tb         []*core.Change
	haveTa, haveTb bool
	ra, rb         []*core.Entry
	haveRa, haveRb bool
	ok             bool
	disk           *core.Entry
	diskErr        error
	wa0, wb0       *core.Entry
	wa, wb         *core.Entry
	inject         string
	fresh          bool
}

type environment struct {
	mu       sync.Mutex
	cond     *sync.Cond
	script   *Script
	dir      string
	alpha    string
	beta     string
	manager  *synchronization.Manager
	session  string
	sel      *selection.Selection
	polls    int
	cur      *cycleRec
	inject   string
	cycles   []*cycleRec
	bg       sync.WaitGroup
	tags     map[string]bool
	log      []string
	fresh    bool
	digests  map[string]string
	tmpCount int
}

func (env *environment) note(format string, a ...any) {
	env.mu.Lock()
	env.log = append(env.log, fmt.Sprintf(format, a...))
	env.mu.Unlock()
}

func (env *environment) tag(t string) {
	env.mu.Lock()
	env.tags[t] = true
	env.mu.Unlock()
}

func newEnvironment(s *Script) *environment {
	dir := os.Getenv("VERIF_HIST_DIR")
	if dir == "" {
		var err error
		dir, err = os.MkdirTemp("", "verif-hist-")
		if err != nil {
			panic(err)
		}
	}
	env := &environment{script: s, dir: dir,
		alpha: filepath.Join(dir, "alpha"), beta: filepath.Join(dir, "beta"),
		tags: map[string]bool{}, digests: map[string]string{}}
	env.cond = sync.NewCond(&env.mu)
	os.Setenv("MUTAGEN_DATA_DIRECTORY", filepath.Join(dir, "data"))
	for _, r := range []string{env.alpha, env.beta} {
		if err := os.MkdirAll(r, 0o755); err != nil {
			panic(err)
		}
	}
	theHandler.mu.Lock()
	theHandler.env = env
	theHandler.mu.Unlock()
	return env
}

func (env *environment) cleanup() { os.RemoveAll(env.dir) }

// ---------------------------------------------------------------------------
// independent walk of a root

func walk(path string) *core.Entry {
	fi, err := os.Lstat(path)
	if err != nil {
		return nil
	}
	switch {
	case fi.Mode()&os.ModeSymlink != 0:
		t, err := os.Readlink(path)
		if err != nil {
			return nil
		}
		return &core.Entry{Kind: core.EntryKind_SymbolicLink, Target: t}
	case fi.IsDir():
		e := &core.Entry{Kind: core.EntryKind_Directory}
		names, err := os.ReadDir(path)
		if err != nil {
			return e
		}
		for _, n := range names {
			if strings.HasPrefix(n.Name(), ".mutagen-") {
				continue
			}
			if c := walk(filepath.Join(path, n.Name())); c != nil {
				if e.Contents == nil {
					e.Contents = map[string]*core.Entry{}
				}
				e.Contents[n.Name()] = c
			}
		}
		return e
	case fi.Mode().IsRegular():
		b, err := os.ReadFile(path)
		if err != nil {
			return nil
		}
		d := sha1.Sum(b)
		return &core.Entry{Kind: core.EntryKind_File, Digest: d[:], Executable: fi.Mode()&0o111 != 0}
	}
	return nil
}

// ---------------------------------------------------------------------------
// instrumented endpoint

type wrapped struct {
	env   *environment
	alpha bool
	inner synchronization.Endpoint
}

func (w *wrapped) isN() bool {
	return (w.alpha && w.env.script.N == "alpha") || (!w.alpha && w.env.script.N == "beta")
}

func (w *wrapped) Poll(ctx context.Context) error {
	w.env.mu.Lock()
	w.env.polls++
	w.env.cond.Broadcast()
	w.env.mu.Unlock()
	return w.inner.Poll(ctx)
}

// stripExec returns a deep copy with every file non-executable.
func stripExec(e *core.Entry) *core.Entry {
	if e == nil {
		return nil
	}
	c := &core.Entry{Kind: e.Kind, Digest: e.Digest, Target: e.Target, Problem: e.Problem}
	if len(e.Contents) > 0 {
		c.Contents = make(map[string]*core.Entry, len(e.Contents))
		for n, ch := range e.Contents {
			c.Contents[n] = stripExec(ch)
		}
	}
	return c
}

func (w *wrapped) Scan(ctx context.Context, ancestor *core.Entry, full bool) (*core.Snapshot, error, bool) {
	snap, err, retry := w.inner.Scan(ctx, ancestor, full)
	if err == nil && snap != nil && w.isN() {
		// a filesystem that does not store executability: every file scans as
		// non-executable and the snapshot says so
		snap = &core.Snapshot{
			Content:                stripExec(snap.Content),
			PreservesExecutability: false,
			DecomposesUnicode:      snap.DecomposesUnicode,
			Directories:            snap.Directories,
			Files:                  snap.Files,
			SymbolicLinks:          snap.SymbolicLinks,
			TotalFileSize:          snap.TotalFileSize,
		}
	}
	w.env.mu.Lock()
	if rec := w.env.cur; rec != nil && err == nil && snap != nil {
		rec.scans++
		content := snap.Content.Copy(core.EntryCopyBehaviorDeep)
		if w.alpha {
			rec.anc = ancestor.Copy(core.EntryCopyBehaviorDeep)
			rec.sa, rec.pa = content, snap.PreservesExecutability
		} else {
			rec.sb, rec.pb = content, snap.PreservesExecutability
		}
	} else if err != nil {
		w.env.tags["scan-error"] = true
	}
	w.env.mu.Unlock()
	return snap, err, retry
}

func (w *wrapped) Stage(paths []string, digests [][]byte) ([]string, []*rsync.Signature, rsync.Receiver, error) {
	w.env.mu.Lock()
	if rec := w.env.cur; rec != nil {
		rec.stage = true
	}
	w.env.mu.Unlock()
	return w.inner.Stage(paths, digests)
}

func (w *wrapped) Supply(paths []string, signatures []*rsync.Signature, receiver rsync.Receiver) error {
	return w.inner.Supply(paths, signatures, receiver)
}

// prune returns a copy of a directory entry with some of its content left out
// (at least one entry is left out when there is any); what is kept is a
// prefix-closed sub-tree.
func prune(e *core.Entry, dropFirst bool) (*core.Entry, bool) {
	if e == nil || e.Kind != core.EntryKind_Directory || len(e.Contents) == 0 {
		return e, false
	}
	names := make([]string, 0, len(e.Contents))
	for n := range e.Contents {
		names = append(names, n)
	}
	sort.Strings(names)
	c := &core.Entry{Kind: core.EntryKind_Directory, Contents: map[string]*core.Entry{}}
	drop := names[len(names)-1]
	if dropFirst {
		drop = names[0]
	}
	for _, n := range names {
		if n == drop {
			continue
		}
		c.Contents[n] = e.Contents[n].Copy(core.EntryCopyBehaviorDeep)
	}
	if len(c.Contents) == 0 {
		c.Contents = nil
	}
	return c, true
}

func (w *wrapped) Transition(ctx context.Context, transitions []*core.Change) ([]*core.Entry, []*core.Problem, bool, error) {
	env := w.env
	env.mu.Lock()
	rec := env.cur
	inject := env.inject
	if rec != nil {
		cp := make([]*core.Change, len(transitions))
		for i, t := range transitions {
			cp[i] = &core.Change{Path: t.Path, Old: t.Old.Copy(core.EntryCopyBehaviorDeep), New: t.New.Copy(core.EntryCopyBehaviorDeep)}
		}
		if w.alpha {
			rec.ta, rec.haveTa = cp, true
		} else {
			rec.tb, rec.haveTb = cp, true
		}
	}
	env.mu.Unlock()
	mine := func(kind string) bool {
		return (w.alpha && inject == kind+"A") || (!w.alpha && inject == kind+"B")
	}

	send := transitions
	var extra []*core.Problem
	if mine("partial") {
		// the endpoint manages to create only a part of each new directory
		send = make([]*core.Change, len(transitions))
		for i, t := range transitions {
			send[i] = t
			if p, ok := prune(t.New, i%2 == 1); ok {
				send[i] = &core.Change{Path: t.Path, Old: t.Old, New: p}
				extra = append(extra, &core.Problem{Path: t.Path, Error: "injected: directory created only in part"})
				env.tag("inject:partial-hit")
			}
		}
	}
	results, problems, missing, err := w.inner.Transition(ctx, send)
	problems = append(problems, extra...)
	if err == nil && mine("fail") {
		err = errors.New("injected: transition call failed as a whole")
		results, problems, missing = nil, nil, false
		env.tag("inject:fail-hit")
	}
	env.mu.Lock()
	if rec != nil && err == nil {
		cp := make([]*core.Entry, len(results))
		for i, r := range results {
			cp[i] = r.Copy(core.EntryCopyBehaviorDeep)
		}
		if w.alpha {
			rec.ra, rec.haveRa = cp, true
		} else {
			rec.rb, rec.haveRb = cp, true
		}
	}
	env.mu.Unlock()
	if mine("cancel") {
		// the session is paused while this endpoint is applying transitions:
		// the call returns once the cycle's context is cancelled
		env.tag("inject:cancel-hit")
		env.bg.Add(1)
		go func() {
			defer env.bg.Done()
			c, cancel := context.WithTimeout(context.Background(), 8*time.Second)
			defer cancel()
			env.manager.Pause(c, env.sel, "")
		}()
		select {
		case <-ctx.Done():
		case <-time.After(5 * time.Second):
			env.tag("cancel-timeout")
		}
	}
	return results, problems, missing, err
}

func (w *wrapped) Shutdown() error { return w.inner.Shutdown() }

type handler struct {
	mu  sync.Mutex
	env *environment
}

func (h *handler) Connect(_ context.Context, logger *logging.Logger, url *urlpkg.URL, prompter string, session string,
	version synchronization.Version, configuration *synchronization.Configuration, alpha bool) (synchronization.Endpoint, error) {
	h.mu.Lock()
	env := h.env
	h.mu.Unlock()
	inner, err := local.NewEndpoint(logger, url.Path, session, version, configuration, alpha)
	if err != nil {
		return nil, err
	}
	return &wrapped{env: env, alpha: alpha, inner: inner}, nil
}

var theHandler = &handler{}

func init() {
	synchronization.ProtocolHandlers[urlpkg.Protocol_Local] = theHandler
}

// ---------------------------------------------------------------------------
// driver

func (env *environment) waitPolls(target int) {
	deadline := time.Now().Add(5 * time.Second)
	timer := time.AfterFunc(5*time.Second, func() {
		env.mu.Lock()
		env.cond.Broadcast()
		env.mu.Unlock()
	})
	defer timer.Stop()
	env.mu.Lock()
	defer env.mu.Unlock()
	for env.polls < target {
		if !time.Now().Before(deadline) {
			env.tags["poll-timeout"] = true
			return
		}
		env.cond.Wait()
	}
}

func (env *environment) pollCount() int {
	env.mu.Lock()
	defer env.mu.Unlock()
	return env.polls
}

func ctxFor() (context.Context, context.CancelFunc) {
	return context.WithTimeout(context.Background(), 10*time.Second)
}

func (env *environment) config() *synchronization.Configuration {
	c := &synchronization.Configuration{
		SynchronizationMode: core.SynchronizationMode(env.script.Mode),
		WatchMode:           synchronization.WatchMode_WatchModeNoWatch,
		Ignores:             env.script.Ignores,
	}
	if env.script.Docker {
		c.IgnoreSyntax = ignore.Syntax_SyntaxDocker
	}
	return c
}

func (env *environment) create() {
	m, err := synchronization.NewManager(nil)
	if err != nil {
		panic(err)
	}
	env.manager = m
	base := env.pollCount()
	ctx, cancel := ctxFor()
	id, err := m.Create(ctx,
		&urlpkg.URL{Kind: urlpkg.Kind_Synchronization, Protocol: urlpkg.Protocol_Local, Path: env.alpha},
		&urlpkg.URL{Kind: urlpkg.Kind_Synchronization, Protocol: urlpkg.Protocol_Local, Path: env.beta},
		env.config(), &synchronization.Configuration{}, &synchronization.Configuration{},
		"", nil, false, "")
	cancel()
	if err != nil {
		panic(fmt.Errorf("create failed: %w", err))
	}
	env.session = id
	env.sel = &selection.Selection{Specifications: []string{id}}
	env.waitPolls(base + 2)
	env.fresh = true
}

func (env *environment) restartLoop() {
	// pause and resume: the synchronization loop ends and a new one loads the
	// archive from disk
	ctx, cancel := ctxFor()
	env.manager.Pause(ctx, env.sel, "")
	cancel()
	base := env.pollCount()
	ctx, cancel = ctxFor()
	err := env.manager.Resume(ctx, env.sel, "")
	cancel()
	if err != nil {
		env.tag("resume-error")
		env.note("resume: %v", err)
	}
	env.waitPolls(base + 2)
	env.fresh = true
}

func (env *environment) restartManager() {
	env.manager.Shutdown()
	base := env.pollCount()
	m, err := synchronization.NewManager(nil)
	if err != nil {
		panic(err)
	}
	env.manager = m
	env.waitPolls(base + 2)
	env.fresh = true
}

func (env *environment) archive() (*core.Entry, error) {
	a := &core.Archive{}
	if err := encoding.LoadAndUnmarshalProtobuf(filepath.Join(env.dir, "data", "archives", env.session), a); err != nil {
		return nil, err
	}
	return a.Content, nil
}

func (env *environment) cycle(inject string) {
	rec := &cycleRec{inject: inject, fresh: env.fresh}
	env.fresh = false
	rec.wa0, rec.wb0 = walk(env.alpha), walk(env.beta)
	env.mu.Lock()
	env.cur, env.inject = rec, inject
	env.mu.Unlock()
	ctx, cancel := ctxFor()
	err := env.manager.Flush(ctx, env.sel, "", false)
	cancel()
	env.bg.Wait()
	env.mu.Lock()
	env.cur, env.inject = nil, ""
	env.mu.Unlock()
	rec.ok = err == nil
	rec.disk, rec.diskErr = env.archive()
	rec.wa, rec.wb = walk(env.alpha), walk(env.beta)
	env.note("cycle inject=%q ok=%v err=%v scans=%d ta=%d tb=%d", inject, rec.ok, err, rec.scans, len(rec.ta), len(rec.tb))
	if rec.diskErr != nil {
		panic(fmt.Errorf("the archive on disk cannot be decoded after a cycle: %w", rec.diskErr))
	}
	if rec.scans == 2 {
		env.cycles = append(env.cycles, rec)
	} else {
		env.tag("cycle-without-scans")
	}
	if err != nil || strings.HasPrefix(inject, "cancel") {
		// the loop ended (or the session was paused under it): start a new one
		if err != nil {
			env.tag("flush-error")
		}
		env.restartLoop()
	}
}

func (env *environment) edit(op Op) {
	sides := []string{env.alpha}
	switch op.Side {
	case "beta":
		sides = []string{env.beta}
	case "both":
		sides = []string{env.alpha, env.beta}
	}
	for _, root := range sides {
		p := filepath.Join(root, op.Name)
		var err error
		switch op.Edit {
		case "write":
			clearWay(root, op.Name)
			mode := os.FileMode(0o644)
			if op.Exec {
				mode = 0o755
			}
			os.RemoveAll(p)
			if err = os.WriteFile(p, []byte(op.Content), mode); err == nil {
				err = os.Chmod(p, mode)
			}
		case "replace":
			fi, e := os.Lstat(p)
			if e != nil || !fi.Mode().IsRegular() {
				clearWay(root, op.Name)
				os.RemoveAll(p)
				err = os.WriteFile(p, []byte(op.Content), 0o644)
				break
			}
			env.tmpCount++
			tmp := filepath.Join(env.dir, fmt.Sprintf("replacement-%d", env.tmpCount))
			if err = os.WriteFile(tmp, []byte(op.Content), fi.Mode().Perm()); err == nil {
				if err = os.Chmod(tmp, fi.Mode().Perm()); err == nil {
					if err = os.Chtimes(tmp, fi.ModTime(), fi.ModTime()); err == nil {
						err = os.Rename(tmp, p)
					}
				}
			}
		case "remove":
			err = os.RemoveAll(p)
		case "mkdir":
			clearWay(root, op.Name)
			if fi, e := os.Lstat(p); e == nil && !fi.IsDir() {
				os.Remove(p)
			}
			err = os.MkdirAll(p, 0o755)
		case "rename":
			if _, e := os.Lstat(p); e == nil {
				clearWay(root, op.To)
				os.RemoveAll(filepath.Join(root, op.To))
				err = os.Rename(p, filepath.Join(root, op.To))
			}
		case "chmod":
			if fi, e := os.Lstat(p); e == nil && fi.Mode().IsRegular() {
				mode := os.FileMode(0o644)
				if op.Exec {
					mode = 0o755
				}
				err = os.Chmod(p, mode)
			}
		case "link":
			clearWay(root, op.Name)
			os.RemoveAll(p)
			err = os.Symlink(op.Content, p)
		default:
			panic("unknown edit " + op.Edit)
		}
		if err != nil {
			env.note("edit %s %s %s: %v", op.Edit, op.Side, op.Name, err)
		}
	}
}

// clearWay makes every proper prefix of name a directory.
func clearWay(root, name string) {
	parts := strings.Split(name, "/")
	p := root
	for _, c := range parts[:len(parts)-1] {
		p = filepath.Join(p, c)
		if fi, err := os.Lstat(p); err == nil && !fi.IsDir() {
			os.Remove(p)
		}
		os.MkdirAll(p, 0o755)
	}
}

func (env *environment) run() {
	defer func() {
		env.bg.Wait()
		if env.manager != nil {
			env.manager.Shutdown()
		}
	}()
	created := false
	timing := os.Getenv("VERIF_HIST_TIMING") != ""
	for _, op := range env.script.Ops {
		t0 := time.Now()
		if op.K != "edit" && !created {
			env.create()
			created = true
		}
		switch op.K {
		case "edit":
			env.edit(op)
		case "cycle":
			env.cycle(op.Inject)
		case "pause":
			env.restartLoop()
			env.tag("op:pause-resume")
		case "restart":
			env.restartManager()
			env.tag("op:manager-restart")
		default:
			panic("unknown op " + op.K)
		}
		if timing {
			env.note("  %s %s took %v", op.K, op.Edit, time.Since(t0))
		}
	}
}

// ---------------------------------------------------------------------------
// rendering

func (env *environment) rename(e *core.Entry) *core.Entry {
	if e == nil {
		return nil
	}
	c := &core.Entry{Kind: e.Kind, Executable: e.Executable, Target: e.Target, Problem: e.Problem}
	if e.Kind == core.EntryKind_File {
		k := string(e.Digest)
		n, ok := env.digests[k]
		if !ok {
			n = fmt.Sprintf("h%d", len(env.digests))
			env.digests[k] = n
		}
		c.Digest = []byte(n)
	}
	if e.Kind == core.EntryKind_Problematic {
		c.Problem = "p"
	}
	if len(e.Contents) > 0 {
		c.Contents = make(map[string]*core.Entry, len(e.Contents))
		for n, ch := range e.Contents {
			c.Contents[n] = env.rename(ch)
		}
	}
	return c
}

func (env *environment) entry(e *core.Entry) string { return coretree.Entry(env.rename(e)) }

func boolName(b bool) string {
	if b {
		return "true"
	}
	return "false"
}

func (env *environment) transitions(have bool, ts []*core.Change) string {
	if !have {
		return "None"
	}
	items := make([]string, len(ts))
	for i, t := range ts {
		items[i] = "(mk " + coretree.Path(t.Path) + " " + env.entry(t.Old) + " " + env.entry(t.New) + ")"
	}
	return "(Some [" + strings.Join(items, "; ") + "])"
}

func (env *environment) results(have bool, ts []*core.Change, rs []*core.Entry) string {
	if !have {
		return "None"
	}
	items := make([]string, len(rs))
	for i, r := range rs {
		path := "?"
		if i < len(ts) {
			path = ts[i].Path
		}
		items[i] = "(mk " + coretree.Path(path) + " None " + env.entry(r) + ")"
	}
	return "(Some [" + strings.Join(items, "; ") + "])"
}

var modeTerm = map[int]string{1: "TwoWaySafe", 2: "TwoWayResolved", 3: "OneWaySafe", 4: "OneWayReplica"}

func (env *environment) coqHist() string {
	var sb strings.Builder
	n := "None"
	switch env.script.N {
	case "alpha":
		n = "(Some true)"
	case "beta":
		n = "(Some false)"
	}
	fmt.Fprintf(&sb, "mkhist %s %s %s [\n", modeTerm[env.script.Mode], boolName(env.script.Docker), n)
	for i, c := range env.cycles {
		if i > 0 {
			sb.WriteString(";\n")
		}
		fmt.Fprintf(&sb, " mkcyc %s\n  %s\n  %s\n  %s %s %s\n  %s\n  %s\n  %s\n  %s\n  %s %s\n  %s\n  %s\n  %s\n  %s",
			env.entry(c.anc), env.entry(c.sa), env.entry(c.sb), boolName(c.pa), boolName(c.pb), boolName(c.stage),
			env.transitions(c.haveTa, c.ta), env.transitions(c.haveTb, c.tb),
			env.results(c.haveRa, c.ta, c.ra), env.results(c.haveRb, c.tb, c.rb),
			boolName(c.ok), env.entry(c.disk), env.entry(c.wa0), env.entry(c.wb0), env.entry(c.wa), env.entry(c.wb))
	}
	sb.WriteString("]")
	return sb.String()
}

func (env *environment) dump() string {
	var sb strings.Builder
	for _, l := range env.log {
		sb.WriteString(l + "\n")
	}
	keys := make([]string, 0, len(env.tags))
	for k := range env.tags {
		keys = append(keys, k)
	}
	sort.Strings(keys)
	fmt.Fprintf(&sb, "tags: %v\ncycles: %d\n", keys, len(env.cycles))
	return sb.String()
}
