package main

import (
	"fmt"
	"math/rand"
)

// The name space is small on purpose: the same paths and the same contents
// (hence digests) recur, so that histories contain twin edits, reverts to an
// earlier content, kind changes and renames onto existing names.
var filePool = []string{"f", "g", "d/x", "d/y", "d/z", "e/x", "e/y"}
var anyPool = []string{"f", "g", "d/x", "d/y", "d/z", "e/x", "e/y", "d", "e"}
var dockerPool = []string{"t/r", "t/o", "t/s/r"}
var contents = []string{"c0", "c1", "c2", "c3"}

func pick(r *rand.Rand, l []string) string { return l[r.Intn(len(l))] }

func edit(kind, side, name string) Op { return Op{K: "edit", Edit: kind, Side: side, Name: name} }

func write(side, name, content string, exec bool) Op {
	return Op{K: "edit", Edit: "write", Side: side, Name: name, Content: content, Exec: exec}
}

func cycle(inject string) Op { return Op{K: "cycle", Inject: inject} }

func randSide(r *rand.Rand) string {
	switch n := r.Intn(10); {
	case n < 4:
		return "alpha"
	case n < 8:
		return "beta"
	}
	return "both"
}

func randEdit(r *rand.Rand, docker bool) Op {
	side := randSide(r)
	files, all := filePool, anyPool
	if docker && r.Intn(2) == 0 {
		files, all = dockerPool, dockerPool
	}
	switch n := r.Intn(100); {
	case n < 45:
		return write(side, pick(r, files), pick(r, contents), r.Intn(4) == 0)
	case n < 65:
		return edit("remove", side, pick(r, all))
	case n < 72:
		return edit("mkdir", side, pick(r, []string{"d", "e", "d/z", "f"}))
	case n < 82:
		return Op{K: "edit", Edit: "rename", Side: side, Name: pick(r, all), To: pick(r, all)}
	case n < 94:
		return Op{K: "edit", Edit: "chmod", Side: side, Name: pick(r, files), Exec: r.Intn(2) == 0}
	case n < 97:
		return Op{K: "edit", Edit: "replace", Side: side, Name: pick(r, files), Content: pick(r, contents)}
	default:
		return Op{K: "edit", Edit: "link", Side: side, Name: pick(r, files), Content: pick(r, []string{"f", "k", "x"})}
	}
}

func randInject(r *rand.Rand, percent int) string {
	if r.Intn(100) >= percent {
		return ""
	}
	return pick(r, []string{"cancelA", "cancelB", "partialA", "partialB", "partialA", "partialB", "failA", "failB"})
}

func randMode(r *rand.Rand) int { return 1 + r.Intn(4) }

// prelude: the sentinel file that keeps both roots from looking emptied, and
// some initial content.
func prelude(r *rand.Rand, docker bool) []Op {
	ops := []Op{write("both", "k", "k", false)}
	for i, n := 0, 2+r.Intn(5); i < n; i++ {
		ops = append(ops, randEdit(r, docker))
	}
	return ops
}

func maybeRestart(r *rand.Rand, ops []Op, percent int) []Op {
	if r.Intn(100) < percent {
		if r.Intn(2) == 0 {
			return append(ops, Op{K: "pause"})
		}
		return append(ops, Op{K: "restart"})
	}
	return ops
}

// genGeneral: random edits, cycles with injected outcomes, loop and manager
// restarts.
func genGeneral(r *rand.Rand, mode int, injectPercent, restartPercent int) *Script {
	s := &Script{Mode: mode}
	s.Ops = prelude(r, false)
	for i, n := 0, 3+r.Intn(5); i < n; i++ {
		for j, m := 0, r.Intn(4); j < m; j++ {
			s.Ops = append(s.Ops, randEdit(r, false))
		}
		s.Ops = maybeRestart(r, s.Ops, restartPercent)
		s.Ops = append(s.Ops, cycle(randInject(r, injectPercent)))
	}
	s.Ops = append(s.Ops, cycle(""))
	return s
}

// genQuiescent: after every edit burst a complete cycle, then quiescent
// cycles (some after a loop or manager restart).
func genQuiescent(r *rand.Rand) *Script {
	s := &Script{Mode: randMode(r)}
	s.Ops = prelude(r, false)
	for i, n := 0, 2+r.Intn(3); i < n; i++ {
		for j, m := 0, 1+r.Intn(3); j < m; j++ {
			s.Ops = append(s.Ops, randEdit(r, false))
		}
		s.Ops = append(s.Ops, cycle(randInject(r, 10)))
		s.Ops = append(s.Ops, cycle(""))
		s.Ops = maybeRestart(r, s.Ops, 40)
		s.Ops = append(s.Ops, cycle(""))
	}
	return s
}

// genExec: one wrapper reports no executability; half of the sessions use
// Docker-style ignores with a phantom directory holding re-included files.
func genExec(r *rand.Rand) *Script {
	s := &Script{Mode: randMode(r), N: pick(r, []string{"alpha", "beta"})}
	if r.Intn(2) == 0 {
		s.Docker = true
		s.Ignores = [][]string{{"t", "!t/r"}, {"t", "!t/r", "!t/s/r"}, {"t/*", "!t/r"}}[r.Intn(3)]
	}
	s.Ops = prelude(r, s.Docker)
	p := "beta"
	if s.N == "beta" {
		p = "alpha"
	}
	for i, n := 0, 3+r.Intn(4); i < n; i++ {
		for j, m := 0, r.Intn(4); j < m; j++ {
			op := randEdit(r, s.Docker)
			if r.Intn(3) == 0 {
				// executable files and chmods on the preserving side
				if r.Intn(2) == 0 {
					op = write(p, op.Name, pick(r, contents), true)
				} else {
					op = Op{K: "edit", Edit: "chmod", Side: p, Name: op.Name, Exec: r.Intn(2) == 0}
				}
				if op.Name == "" || op.Name == "d" || op.Name == "e" {
					op.Name = "f"
				}
			}
			s.Ops = append(s.Ops, op)
		}
		s.Ops = maybeRestart(r, s.Ops, 15)
		s.Ops = append(s.Ops, cycle(randInject(r, 8)))
	}
	s.Ops = append(s.Ops, cycle(""))
	return s
}

// ---------------------------------------------------------------------------
// directed families (each with random parameters)

// twinThenRevert: both roots make the same change (the cycle only updates the
// last-synchronized state), the loop is restarted, then one root brings back
// the earlier content.
func twinThenRevert(r *rand.Rand, mode int) *Script {
	s := &Script{Mode: mode}
	name := pick(r, filePool)
	c0, c1 := contents[r.Intn(2)], contents[2+r.Intn(2)]
	side := pick(r, []string{"alpha", "beta"})
	s.Ops = []Op{write("both", "k", "k", false), write(pick(r, []string{"alpha", "beta", "both"}), name, c0, false), cycle("")}
	if r.Intn(2) == 0 {
		s.Ops = append(s.Ops, edit("remove", "both", name))
	} else {
		s.Ops = append(s.Ops, write("both", name, c1, false))
	}
	s.Ops = append(s.Ops, cycle(""))
	s.Ops = append(s.Ops, Op{K: pick(r, []string{"pause", "restart"})})
	s.Ops = append(s.Ops, write(side, name, c0, false), cycle(""), cycle(""))
	return s
}

// cancelled: several transitions are due on one endpoint and the session is
// paused while that endpoint applies them.
func cancelled(r *rand.Rand, mode int) *Script {
	s := &Script{Mode: mode}
	src, inj := "alpha", "cancelB"
	if mode != 3 && mode != 4 && r.Intn(2) == 0 {
		src, inj = "beta", "cancelA"
	}
	s.Ops = []Op{write("both", "k", "k", false), write(src, "f", pick(r, contents), false), cycle("")}
	for i, n := 0, 2+r.Intn(3); i < n; i++ {
		s.Ops = append(s.Ops, write(src, pick(r, filePool), pick(r, contents), false))
	}
	s.Ops = append(s.Ops, cycle(inj), cycle(""), cycle(""))
	return s
}

// partialDirectory: a new directory with several children is created only in
// part on the receiving endpoint.
func partialDirectory(r *rand.Rand, mode int) *Script {
	s := &Script{Mode: mode}
	src, inj := "alpha", "partialB"
	if mode != 3 && mode != 4 && r.Intn(2) == 0 {
		src, inj = "beta", "partialA"
	}
	dir := pick(r, []string{"d", "e"})
	s.Ops = []Op{write("both", "k", "k", false), cycle("")}
	for _, c := range []string{"x", "y", "z"}[:2+r.Intn(2)] {
		s.Ops = append(s.Ops, write(src, dir+"/"+c, pick(r, contents), false))
	}
	s.Ops = append(s.Ops, cycle(inj))
	if r.Intn(2) == 0 {
		s.Ops = append(s.Ops, Op{K: pick(r, []string{"pause", "restart"})})
	}
	s.Ops = append(s.Ops, cycle(""), cycle(""))
	return s
}

// phantomExecutable: Docker-style ignores, an executable file below a phantom
// directory on the preserving side.
func phantomExecutable(r *rand.Rand, mode int) *Script {
	s := &Script{Mode: mode, Docker: true, Ignores: []string{"t", "!t/r"}, N: pick(r, []string{"alpha", "beta"})}
	p := "beta"
	if s.N == "beta" {
		p = "alpha"
	}
	if (mode == 3 || mode == 4) && p == "beta" {
		// one-way: content only flows from alpha
		s.N, p = "beta", "alpha"
	}
	s.Ops = []Op{write("both", "k", "k", false), write(p, "t/r", pick(r, contents), true), write(p, "t/o", "c0", false),
		write(p, "f", pick(r, contents), r.Intn(2) == 0), cycle(""), cycle("")}
	if r.Intn(2) == 0 {
		s.Ops = append(s.Ops, Op{K: pick(r, []string{"pause", "restart"})})
	}
	s.Ops = append(s.Ops, cycle(""), cycle(""))
	return s
}

// oneSideFails: both endpoints have transitions to apply and the Transition
// call of one of them fails as a whole: what the other one reported must
// still be recorded.
func oneSideFails(r *rand.Rand, mode int) *Script {
	s := &Script{Mode: mode}
	s.Ops = []Op{write("both", "k", "k", false)}
	if r.Intn(2) == 0 {
		s.Ops = append(s.Ops, write("both", "f", "c0", false), cycle(""))
	}
	for i, n := 0, 1+r.Intn(3); i < n; i++ {
		s.Ops = append(s.Ops, write("alpha", pick(r, []string{"f", "g", "d/x", "d/y"}), pick(r, contents), false))
	}
	for i, n := 0, 1+r.Intn(3); i < n; i++ {
		s.Ops = append(s.Ops, write("beta", pick(r, []string{"e/x", "e/y", "d/z"}), pick(r, contents), false))
	}
	s.Ops = append(s.Ops, cycle(pick(r, []string{"failA", "failB"})))
	if r.Intn(2) == 0 {
		s.Ops = append(s.Ops, Op{K: "restart"})
	}
	s.Ops = append(s.Ops, cycle(""), cycle(""))
	return s
}

// replacedInPlace: a synchronized file is replaced atomically on one root by
// different content of the same size with the old modification time (new
// inode), while the other root modifies the same file: a conflict, both
// versions must stay.
func replacedInPlace(r *rand.Rand, mode int) *Script {
	s := &Script{Mode: mode}
	name := pick(r, filePool)
	side, other := "alpha", "beta"
	if mode != 3 && mode != 4 && r.Intn(2) == 0 {
		side, other = "beta", "alpha"
	}
	s.Ops = []Op{write("both", "k", "k", false), write(pick(r, []string{"alpha", "both"}), name, "c0", r.Intn(4) == 0), cycle(""), cycle("")}
	if r.Intn(3) == 0 {
		s.Ops = append(s.Ops, Op{K: pick(r, []string{"pause", "restart"})}, cycle(""))
	}
	s.Ops = append(s.Ops, Op{K: "edit", Edit: "replace", Side: side, Name: name, Content: "c1"})
	switch r.Intn(3) {
	case 0:
		s.Ops = append(s.Ops, write(other, name, "c2", false))
	case 1:
		s.Ops = append(s.Ops, edit("remove", other, name))
	default:
		s.Ops = append(s.Ops, Op{K: "edit", Edit: "replace", Side: other, Name: name, Content: "c3"})
	}
	s.Ops = append(s.Ops, cycle(""), cycle(""))
	return s
}

type named struct {
	s      *Script
	origin string
}

// plan returns the scripts of one run for a property.
func plan(prop string, r *rand.Rand, nRandom, nDirected int) []named {
	var out []named
	add := func(s *Script, origin string) { out = append(out, named{s, origin}) }
	switch prop {
	case "C01":
		for i := 0; i < nDirected; i++ {
			add(twinThenRevert(r, 1), "scripted")
			add(replacedInPlace(r, 1), "scripted")
			if i%2 == 0 {
				add(partialDirectory(r, 1), "scripted")
				add(cancelled(r, 1), "scripted")
				add(oneSideFails(r, 1), "scripted")
			}
		}
		for i := 0; i < nRandom; i++ {
			add(genGeneral(r, 1, 20, 35), "random")
		}
	case "C04":
		for i := 0; i < nDirected; i++ {
			add(twinThenRevert(r, randMode(r)), "scripted")
		}
		for i := 0; i < nRandom; i++ {
			add(genQuiescent(r), "random")
		}
	case "C05":
		for i := 0; i < nDirected; i++ {
			add(twinThenRevert(r, randMode(r)), "scripted")
			add(cancelled(r, randMode(r)), "scripted")
			add(partialDirectory(r, randMode(r)), "scripted")
			add(oneSideFails(r, 1+r.Intn(2)), "scripted")
			if i%2 == 0 {
				add(replacedInPlace(r, randMode(r)), "scripted")
			}
		}
		for i := 0; i < nRandom; i++ {
			add(genGeneral(r, randMode(r), 40, 25), "random")
		}
	case "C18":
		for i := 0; i < nDirected; i++ {
			add(phantomExecutable(r, randMode(r)), "scripted")
		}
		for i := 0; i < nRandom; i++ {
			add(genExec(r), "random")
		}
	default:
		panic(fmt.Sprintf("unknown property %q", prop))
	}
	return out
}
