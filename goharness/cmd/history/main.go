// History harness (an additional harness of C01, C04, C05 and C18): ties the
// CONTROLLER's use of the reconcile family to the models. It drives the real
// synchronization cycle (pkg/synchronization/controller.go:synchronize)
// through the public synchronization.Manager, with instrumented wrappers over
// real local endpoints on temporary roots, over random histories: external
// edits on both roots (create, modify, delete, rename, chmod, kind changes,
// symbolic links, the same edit on both roots, reverts to earlier content),
// cycles (waiting flushes of a manual session), pause/resume, manager restart
// (Shutdown + NewManager: the archive is loaded from disk again) and injected
// outcomes (a directory created only in part, a Transition call failing as a
// whole, the session paused in the middle of Transition). For C18 one
// wrapper reports every file as non-executable, and half of those sessions
// use Docker-style ignores with re-included files below an ignored (phantom)
// directory.
//
// After every cycle the record holds: the ancestor handed to Scan, the
// snapshots both endpoints returned, the transitions as received by the
// endpoints, the results they returned, whether the flush succeeded, the
// archive decoded from DISK, and walks of both roots made by the harness
// itself before and after the cycle. One history is one Coq case.
package main

import (
	"bytes"
	"context"
	"encoding/json"
	"flag"
	"fmt"
	"os"
	"os/exec"
	"sort"
	"sync"
	"time"

	"github.com/mutagen-io/mutagen/pkg/synchronization/core"

	"verifharness/internal/hx"
)

const header = "From Coq Require Import List String.\nImport ListNotations.\nOpen Scope string_scope.\nFrom Mv Require Import Common.Bytes Model.Entry Model.Reconcile Model.CheckHistory Harness.HistoryH."

// Case is the replay form of one case.
type Case struct {
	Script *Script `json:"script"`
	// Props restricts a corpus case to some properties (empty: all whose
	// profile fits: C18 needs a non-preserving side, the others need none).
	Props []string `json:"props,omitempty"`
}

type childResult struct {
	Coq        string   `json:"coq"`
	Tags       []string `json:"tags"`
	Nontrivial bool     `json:"nontrivial"`
}

func runScript(s *Script) *environment {
	env := newEnvironment(s)
	defer env.cleanup()
	env.run()
	return env
}

func summarize(env *environment) childResult {
	tags := map[string]bool{}
	for k := range env.tags {
		tags[k] = true
	}
	tags["mode:"+modeTerm[env.script.Mode]] = true
	if env.script.Docker {
		tags["ignores:docker"] = true
	}
	if env.script.N != "" {
		tags["nonpreserving:"+env.script.N] = true
	}
	transitions, fresh, failed, quiet := 0, 0, 0, 0
	for i, c := range env.cycles {
		if i > 0 && quiescent(env.cycles[i-1], c) {
			quiet++
		}
		if c.haveTa || c.haveTb {
			transitions++
		}
		if c.fresh && i > 0 {
			fresh++
		}
		if !c.ok {
			failed++
		}
		if c.haveTa != c.haveRa || c.haveTb != c.haveRb {
			tags["cycle:side-failed"] = true
		}
	}
	if transitions > 0 {
		tags["cycle:transitions"] = true
	}
	if fresh > 0 {
		tags["cycle:after-archive-reload"] = true
	}
	if failed > 0 {
		tags["cycle:flush-failed"] = true
	}
	if quiet > 0 {
		tags["cycle:quiescent-step"] = true
	}
	tags[fmt.Sprintf("cycles:%d", len(env.cycles)/3*3)] = true
	var tl []string
	for k := range tags {
		tl = append(tl, k)
	}
	sort.Strings(tl)
	return childResult{Coq: env.coqHist(), Tags: tl, Nontrivial: transitions > 0 && len(env.cycles) >= 3}
}

// quiescent mirrors Model/CheckHistory.v:quiet (used for the distribution
// only): the earlier cycle completed with every transition reported as
// applied exactly, and the walks show no edit before the later one.
func quiescent(c1, c2 *cycleRec) bool {
	ideal := func(have bool, ts []*core.Change, haveR bool, rs []*core.Entry) bool {
		if have != haveR || len(ts) != len(rs) {
			return false
		}
		for i := range ts {
			if !ts[i].New.Equal(rs[i], true) {
				return false
			}
		}
		return true
	}
	return c1.ok && ideal(c1.haveTa, c1.ta, c1.haveRa, c1.ra) && ideal(c1.haveTb, c1.tb, c1.haveRb, c1.rb) &&
		c1.wa.Equal(c2.wa0, true) && c1.wb.Equal(c2.wb0, true)
}

// runChild runs one history in a child process: a panic in a goroutine of the
// code under test, or a hang, must not take the harness down, and the data
// directory is process-global state. It panics with the child's output when
// the child fails, which hx.Writer.Guard records as a failing input.
func runChild(s *Script) childResult {
	in, _ := json.Marshal(s)
	ctx, cancel := context.WithTimeout(context.Background(), 120*time.Second)
	defer cancel()
	dir, derr := os.MkdirTemp("", "verif-hist-")
	if derr != nil {
		panic(derr)
	}
	defer os.RemoveAll(dir)
	cmd := exec.CommandContext(ctx, os.Args[0], "-child")
	cmd.Env = append(os.Environ(), "VERIF_HIST_DIR="+dir)
	cmd.Stdin = bytes.NewReader(in)
	var out, errb bytes.Buffer
	cmd.Stdout = &out
	cmd.Stderr = &errb
	err := cmd.Run()
	var r childResult
	if err != nil || json.Unmarshal(out.Bytes(), &r) != nil || r.Coq == "" {
		msg := errb.String()
		if len(msg) > 1500 {
			msg = msg[:1500]
		}
		panic(fmt.Sprintf("the process running the history died: %v\n%s", err, msg))
	}
	return r
}

func childMain() {
	var s Script
	if err := json.NewDecoder(os.Stdin).Decode(&s); err != nil {
		panic(err)
	}
	env := runScript(&s)
	json.NewEncoder(os.Stdout).Encode(summarize(env))
}

var failFns = map[string]string{"C01": "hist_failures_c01", "C04": "hist_failures_c04", "C05": "hist_failures_c05", "C18": "hist_failures_c18"}

func main() {
	if len(os.Args) > 1 && os.Args[1] == "-child" {
		childMain()
		return
	}
	if len(os.Args) > 1 && os.Args[1] == "-script" {
		// debugging aid: history -script file [coq-output-file]
		b, err := os.ReadFile(os.Args[2])
		if err != nil {
			panic(err)
		}
		var c Case
		if err := json.Unmarshal(b, &c); err != nil || c.Script == nil {
			panic(fmt.Sprint("bad script file: ", err))
		}
		t0 := time.Now()
		os.Setenv("VERIF_HIST_TIMING", "1")
		env := runScript(c.Script)
		fmt.Print(env.dump())
		fmt.Println("elapsed", time.Since(t0))
		if len(os.Args) > 3 {
			src := header + "\nDefinition h : hist := " + env.coqHist() + ".\nDefinition R := Eval vm_compute in (hist_verdicts h).\nPrint R.\n"
			os.WriteFile(os.Args[3], []byte(src), 0o644)
		}
		return
	}
	prop := flag.String("prop", "C05", "C01, C04, C05 or C18")
	nOverride := flag.Int("n", 0, "number of random histories (0 = tier default)")
	cfg := hx.Parse()
	failFn, ok := failFns[*prop]
	if !ok {
		fmt.Fprintln(os.Stderr, "unknown -prop", *prop)
		os.Exit(2)
	}
	w := hx.NewWriter(cfg, header, "hist", failFn, 12)
	w.Rule = "a case is one recorded history of a real manual-mode session (synchronization.Manager, instrumented wrappers over real local endpoints on temporary roots): per synchronization cycle the ancestor handed to Scan, both snapshots, the transitions received and the results returned by each endpoint, the flush outcome, the archive decoded from disk and the harness's own walks of both roots before and after; between cycles random external edits, pause/resume, manager restarts; some cycles with an injected outcome (directory created in part, Transition failing as a whole, pause during Transition); distinct = distinct Coq terms; non-trivial = at least three recorded cycles and at least one Transition call"
	type pending struct {
		s      *Script
		origin string
	}
	var queue []pending
	addHistory := func(s *Script, origin string) { queue = append(queue, pending{s, origin}) }
	flush := func() {
		const workers = 6
		results := make([]*childResult, len(queue))
		fails := make([]string, len(queue))
		var wg sync.WaitGroup
		sem := make(chan struct{}, workers)
		for i := range queue {
			wg.Add(1)
			go func(i int) {
				defer wg.Done()
				sem <- struct{}{}
				defer func() { <-sem }()
				defer func() {
					if r := recover(); r != nil {
						fails[i] = fmt.Sprint(r)
					}
				}()
				r := runChild(queue[i].s)
				results[i] = &r
			}(i)
		}
		wg.Wait()
		for i, q := range queue {
			if w.Aborted {
				break
			}
			if results[i] == nil {
				msg := fails[i]
				w.Guard(Case{Script: q.s}, time.Second, func() { panic(msg) })
				continue
			}
			w.Add(hx.Case{Coq: results[i].Coq, Replay: Case{Script: q.s}, Nontrivial: results[i].Nontrivial,
				Tags: results[i].Tags, Origin: q.origin})
		}
		queue = nil
	}
	if cfg.Replay != "" {
		b, err := os.ReadFile(cfg.Replay)
		if err != nil {
			panic(err)
		}
		var wrapper struct {
			Case Case `json:"case"`
		}
		if err := json.Unmarshal(b, &wrapper); err != nil {
			panic(err)
		}
		if wrapper.Case.Script != nil {
			addHistory(wrapper.Case.Script, "replay")
			flush()
		}
		w.Close()
		return
	}
	t0 := time.Now()
	for _, raw := range hx.LoadCorpus(cfg.Corpus) {
		var c Case
		if json.Unmarshal(raw, &c) != nil || c.Script == nil || len(c.Script.Ops) == 0 {
			continue
		}
		fits := (*prop == "C18") == (c.Script.N != "")
		if len(c.Props) > 0 {
			fits = false
			for _, p := range c.Props {
				fits = fits || p == *prop
			}
		}
		if fits {
			addHistory(c.Script, "corpus")
		}
	}
	nRandom, nDirected := 60, 4
	if cfg.Thorough() {
		nRandom, nDirected = 600, 30
	}
	if *nOverride > 0 {
		nRandom = *nOverride
	}
	for _, n := range plan(*prop, cfg.Rand, nRandom, nDirected) {
		addHistory(n.s, n.origin)
	}
	flush()
	w.Extra["traces_validated_against_impl"] = w.Total()
	w.Close()
	fmt.Printf("cases %d in %v\n", w.Total(), time.Since(t0))
}
