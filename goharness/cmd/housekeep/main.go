// Harness for C43: runs the real housekeeping.Housekeep() on scratch data
// directories (MUTAGEN_DATA_DIRECTORY) populated with agent installations,
// caches and staging roots whose access / modification times are spread around
// the thresholds (one second either side, and further away), including
// symbolic links that point into a canary directory outside the data
// directory, and records what disappeared.
//
// The instant the code samples with time.Now() is unknown to the harness; it
// reads the clock before and after the call and reports each child's age under
// both readings (lo <= real age <= hi).
package main

import (
	"encoding/json"
	"fmt"
	"io/fs"
	"os"
	"path/filepath"
	"sort"
	"strings"
	"time"

	"github.com/mutagen-io/mutagen/pkg/housekeeping"

	"verifharness/internal/coretree"
	"verifharness/internal/hx"
)

// Child is one direct child of agents/, caches/ or staging/.
//
// Kinds (agents):  install   directory holding mutagen-agent (access time = T)
//
//	nobinary  directory without the agent binary
//	file      regular file
//	linkdir   symbolic link to a canary directory holding mutagen-agent (T)
//	binlink   directory whose mutagen-agent is a symbolic link to a canary file (T)
//	dangling  directory whose mutagen-agent is a dangling symbolic link
//
// Kinds (caches):  file (modification time = T), emptydir (T), fulldir (T, not
//
//	removable by os.Remove), link (to a canary file, T), linkdir (to a
//	non-empty canary directory, T), dangling
//
// Kinds (staging): dir (staging root with nested content and an inner symbolic
//
//	link into the canary, T), file (T), link (to a canary directory, T),
//	dangling
//
// OffsetMs: T = (clock at set-up) - threshold - OffsetMs milliseconds, i.e.
// positive = older than the threshold by that much.
type Child struct {
	Name     string `json:"name"`
	Kind     string `json:"kind"`
	OffsetMs int64  `json:"offset_ms"`
}

// Case is one population of a data directory.
type Case struct {
	Const     bool    `json:"const,omitempty"` // emit the thresholds instead
	Agents    []Child `json:"agents"`
	Caches    []Child `json:"caches"`
	Staging   []Child `json:"staging"`
	NoAgents  bool    `json:"no_agents,omitempty"` // the directory does not exist
	NoCaches  bool    `json:"no_caches,omitempty"`
	NoStaging bool    `json:"no_staging,omitempty"`
}

const agentName = "mutagen-agent"

var (
	thrAgent, thrCache, thrStage time.Duration
)

func must(err error) {
	if err != nil {
		panic(err)
	}
}

func writeFile(p, content string) {
	must(os.WriteFile(p, []byte(content), 0o644))
}

// other is a time far from every threshold on the side opposite to t, so that
// using the wrong timestamp (mtime for agents, atime for caches) flips the
// decision.
func other(base time.Time, t time.Time, thr time.Duration) time.Time {
	if base.Sub(t) > thr {
		return base.Add(-time.Hour) // t is stale: the other stamp is recent
	}
	return base.Add(-thr - 100*24*time.Hour) // t is recent: the other stamp is very old
}

type built struct {
	name      string
	stamp     *time.Time // the timestamp the code should look at (nil: stat fails)
	removable bool
	proper    bool
}

// snapshot describes a tree: every path with type, size, mode, link target and
// (for files and directories) modification time.
func snapshot(root string) map[string]string {
	out := map[string]string{}
	filepath.WalkDir(root, func(p string, d fs.DirEntry, err error) error {
		if err != nil {
			out[p] = "ERR " + err.Error()
			return nil
		}
		info, err := os.Lstat(p)
		if err != nil {
			out[p] = "ERR " + err.Error()
			return nil
		}
		rel, _ := filepath.Rel(root, p)
		switch {
		case info.Mode()&os.ModeSymlink != 0:
			t, _ := os.Readlink(p)
			out[rel] = "L " + t
		case info.IsDir():
			out[rel] = fmt.Sprintf("D %d", info.ModTime().UnixNano())
		default:
			// no content read: reading would update access times, which are
			// what agent housekeeping looks at
			out[rel] = fmt.Sprintf("F %d %v %d", info.Size(), info.Mode(), info.ModTime().UnixNano())
		}
		return nil
	})
	return out
}

func names(dir string) ([]string, bool) {
	entries, err := os.ReadDir(dir)
	if err != nil {
		return nil, false
	}
	var out []string
	for _, e := range entries {
		out = append(out, e.Name())
	}
	sort.Strings(out)
	return out, true
}

type runner struct {
	root   string
	serial int
}

func (r *runner) run(c Case) (string, bool, []string) {
	if c.Const {
		return fmt.Sprintf("HConst %d %d %d", int64(thrAgent), int64(thrCache), int64(thrStage)), true, []string{"const"}
	}
	r.serial++
	top := filepath.Join(r.root, fmt.Sprintf("case%d", r.serial))
	data := filepath.Join(top, "data")
	canary := filepath.Join(top, "canary")
	must(os.MkdirAll(data, 0o755))
	must(os.MkdirAll(canary, 0o755))
	defer os.RemoveAll(top)
	must(os.Setenv("MUTAGEN_DATA_DIRECTORY", data))

	base := time.Now()
	stampOf := func(thr time.Duration, offMs int64) time.Time {
		return base.Add(-thr - time.Duration(offMs)*time.Millisecond)
	}
	canaryN := 0
	newCanaryDir := func(withAgent bool, atime, mtime time.Time) string {
		canaryN++
		d := filepath.Join(canary, fmt.Sprintf("dir%d", canaryN))
		must(os.MkdirAll(filepath.Join(d, "sub"), 0o755))
		writeFile(filepath.Join(d, "sub", "precious"), "do not delete")
		writeFile(filepath.Join(d, "keep"), "do not delete either")
		if withAgent {
			writeFile(filepath.Join(d, agentName), "canary agent")
			must(os.Chtimes(filepath.Join(d, agentName), atime, mtime))
		}
		must(os.Chtimes(d, atime, mtime))
		return d
	}
	newCanaryFile := func(atime, mtime time.Time) string {
		canaryN++
		f := filepath.Join(canary, fmt.Sprintf("file%d", canaryN))
		writeFile(f, "canary file")
		must(os.Chtimes(f, atime, mtime))
		return f
	}

	var tags []string
	build := func(dirName string, thr time.Duration, children []Child, absent bool) []built {
		if absent {
			tags = append(tags, dirName+":absent")
			return nil
		}
		dir := filepath.Join(data, dirName)
		must(os.MkdirAll(dir, 0o755))
		var out []built
		for _, ch := range children {
			p := filepath.Join(dir, ch.Name)
			t := stampOf(thr, ch.OffsetMs)
			o := other(base, t, thr)
			b := built{name: ch.Name, removable: true}
			tags = append(tags, dirName+":"+ch.Kind)
			switch {
			case ch.OffsetMs == 1000 || ch.OffsetMs == -1000:
				tags = append(tags, fmt.Sprintf("offset:%+ds", ch.OffsetMs/1000))
			case ch.OffsetMs > 0:
				tags = append(tags, "offset:older")
			default:
				tags = append(tags, "offset:younger")
			}
			switch dirName + "/" + ch.Kind {
			case "agents/install":
				must(os.Mkdir(p, 0o755))
				writeFile(filepath.Join(p, agentName), "agent binary")
				must(os.Chtimes(filepath.Join(p, agentName), t, o)) // atime = T, mtime = the other side
				must(os.Chtimes(p, o, o))
				b.stamp, b.proper = &t, true
			case "agents/nobinary":
				must(os.Mkdir(p, 0o755))
				writeFile(filepath.Join(p, "something-else"), "x")
				must(os.Chtimes(filepath.Join(p, "something-else"), t, t))
				must(os.Chtimes(p, t, t))
			case "agents/file", "staging/file", "caches/file":
				writeFile(p, "regular file")
				if dirName == "agents" {
					must(os.Chtimes(p, t, t))
				} else {
					must(os.Chtimes(p, o, t)) // mtime = T, atime = the other side
					b.stamp = &t
					b.proper = dirName == "caches"
				}
			case "agents/linkdir":
				must(os.Symlink(newCanaryDir(true, t, o), p))
				b.stamp = &t
			case "agents/binlink":
				must(os.Mkdir(p, 0o755))
				must(os.Symlink(newCanaryFile(t, o), filepath.Join(p, agentName)))
				must(os.Chtimes(p, o, o))
				b.stamp = &t
			case "agents/dangling":
				must(os.Mkdir(p, 0o755))
				must(os.Symlink(filepath.Join(canary, "missing"), filepath.Join(p, agentName)))
				must(os.Chtimes(p, t, t))
			case "caches/emptydir":
				must(os.Mkdir(p, 0o755))
				must(os.Chtimes(p, o, t))
				b.stamp = &t
			case "caches/fulldir":
				must(os.Mkdir(p, 0o755))
				writeFile(filepath.Join(p, "inner"), "x")
				must(os.Chtimes(p, o, t))
				b.stamp, b.removable = &t, false
			case "caches/link":
				must(os.Symlink(newCanaryFile(o, t), p))
				b.stamp = &t
			case "caches/linkdir", "staging/link":
				must(os.Symlink(newCanaryDir(false, o, t), p))
				b.stamp = &t
			case "caches/dangling", "staging/dangling":
				must(os.Symlink(filepath.Join(canary, "missing"), p))
			case "staging/dir":
				must(os.MkdirAll(filepath.Join(p, "ab", "cd"), 0o755))
				writeFile(filepath.Join(p, "ab", "cd", "staged-file"), "staged content")
				writeFile(filepath.Join(p, "top-file"), "x")
				must(os.Symlink(newCanaryDir(false, o, o), filepath.Join(p, "ab", "into-canary")))
				must(os.Chtimes(p, o, t))
				b.stamp, b.proper = &t, true
			default:
				panic("unknown child kind " + dirName + "/" + ch.Kind)
			}
			out = append(out, b)
		}
		// listing the directory must not depend on its own times
		must(os.Chtimes(dir, base.Add(-400*24*time.Hour), base.Add(-400*24*time.Hour)))
		return out
	}
	ag := build("agents", thrAgent, c.Agents, c.NoAgents)
	ca := build("caches", thrCache, c.Caches, c.NoCaches)
	st := build("staging", thrStage, c.Staging, c.NoStaging)

	// other content of the data directory, all of it very old
	veryOld := base.Add(-1000 * 24 * time.Hour)
	must(os.MkdirAll(filepath.Join(data, "sessions"), 0o755))
	writeFile(filepath.Join(data, "sessions", "sync_old"), "session")
	must(os.MkdirAll(filepath.Join(data, "daemon"), 0o755))
	writeFile(filepath.Join(data, "daemon", "daemon.lock"), "")
	writeFile(filepath.Join(data, "stray-file"), "stray")
	must(os.MkdirAll(filepath.Join(data, "archives"), 0o755))
	writeFile(filepath.Join(data, "archives", "sync_old"), "archive")
	for _, p := range []string{"sessions/sync_old", "sessions", "daemon/daemon.lock", "daemon", "stray-file", "archives/sync_old", "archives"} {
		must(os.Chtimes(filepath.Join(data, p), veryOld, veryOld))
	}
	must(os.Chtimes(data, veryOld, veryOld))

	canaryBefore := snapshot(canary)
	dataBefore := snapshot(data)

	now0 := time.Now()
	housekeeping.Housekeep()
	now1 := time.Now()

	canaryAfter := snapshot(canary)
	dataAfter := snapshot(data)

	// everything outside the direct children of the three directories
	intact := true
	var why []string
	for p, v := range canaryBefore {
		if canaryAfter[p] != v {
			intact = false
			why = append(why, "canary:"+p)
		}
	}
	if len(canaryAfter) != len(canaryBefore) {
		intact = false
	}
	isChildArea := func(rel string) (string, bool) { // (direct child path, true) if rel is at or below a direct child of the three
		parts := strings.Split(rel, string(filepath.Separator))
		if len(parts) >= 2 && (parts[0] == "agents" || parts[0] == "caches" || parts[0] == "staging") {
			return filepath.Join(parts[0], parts[1]), true
		}
		return "", false
	}
	for p, v := range dataBefore {
		childPath, inChild := isChildArea(p)
		if !inChild {
			// outside: must be unchanged, except that the three directories'
			// own modification times change when a child is removed
			if p == "agents" || p == "caches" || p == "staging" {
				if _, ok := dataAfter[p]; !ok {
					intact = false
					why = append(why, "directory removed:"+p)
				}
				continue
			}
			if dataAfter[p] != v {
				intact = false
				why = append(why, "outside:"+p)
			}
			continue
		}
		// inside a child: if the child survived, all of it must be unchanged
		if _, survived := dataAfter[childPath]; survived && dataAfter[p] != v {
			intact = false
			why = append(why, "inner content of survivor:"+p)
		}
	}
	for p := range dataAfter {
		if _, ok := dataBefore[p]; !ok {
			intact = false
			why = append(why, "appeared:"+p)
		}
	}

	age := func(now time.Time, t time.Time) int64 { return now.UnixNano() - t.UnixNano() }
	coqBool := func(b bool) string {
		if b {
			return "true"
		}
		return "false"
	}
	render := func(bs []built) string {
		items := make([]string, len(bs))
		for i, b := range bs {
			if b.stamp == nil {
				items[i] = fmt.Sprintf("On %s %s %s", coretree.Str(b.name), coqBool(b.removable), coqBool(b.proper))
			} else {
				items[i] = fmt.Sprintf("Oc %s (%d) (%d) %s %s", coretree.Str(b.name), age(now0, *b.stamp), age(now1, *b.stamp), coqBool(b.removable), coqBool(b.proper))
			}
		}
		return hx.List(items)
	}
	after := func(dirName string) string {
		ns, _ := names(filepath.Join(data, dirName))
		items := make([]string, len(ns))
		for i, n := range ns {
			items[i] = coretree.Str(n)
		}
		return hx.List(items)
	}
	removed := 0
	for _, d := range []struct {
		n  string
		bs []built
	}{{"agents", ag}, {"caches", ca}, {"staging", st}} {
		ns, _ := names(filepath.Join(data, d.n))
		removed += len(d.bs) - len(ns)
	}
	if removed > 0 {
		tags = append(tags, "some-removed")
	}
	if !intact {
		tags = append(tags, "NOT-INTACT")
		fmt.Fprintln(os.Stderr, "not intact:", why)
	}
	coq := fmt.Sprintf("HRun (Obs %s %s %s %s %s %s %s)", render(ag), after("agents"), render(ca), after("caches"),
		render(st), after("staging"), coqBool(intact))
	kept := len(ag) + len(ca) + len(st) - removed
	return coq, removed > 0 && kept > 0, tags
}

const header = "From Coq Require Import List String Bool ZArith.\nImport ListNotations.\nFrom Mv Require Import Common.Bytes Model.Housekeep Harness.HousekeepH.\nLocal Open Scope string_scope.\nLocal Open Scope list_scope."

var agentKinds = []string{"install", "install", "install", "nobinary", "file", "linkdir", "binlink", "dangling"}
var cacheKinds = []string{"file", "file", "file", "emptydir", "fulldir", "link", "linkdir", "dangling"}
var stagingKinds = []string{"dir", "dir", "dir", "file", "link", "dangling"}

func uniq(ss []string) []string {
	sort.Strings(ss)
	var out []string
	for i, s := range ss {
		if i == 0 || s != ss[i-1] {
			out = append(out, s)
		}
	}
	return out
}

func main() {
	cfg := hx.Parse()
	thrAgent, thrCache, thrStage = housekeeping.VerifThresholds()
	w := hx.NewWriter(cfg, header, "hcase", "housekeep_failures", 60)
	w.Rule = "a case = one run of the real housekeeping.Housekeep() on a scratch MUTAGEN_DATA_DIRECTORY: children of agents/, caches/, staging/ of several kinds (real artifacts, directories without agent binary, non-empty directories among caches, symbolic links into a canary directory outside the data directory, dangling links) with the relevant timestamp at threshold +/- 1 s, +/- hours, +/- days (the irrelevant timestamp on the other side of the threshold), each with its age under a clock reading before and after the call; names present afterwards; whether the canary, the rest of the data directory and the inner content of survivors are byte- and mtime-identical. distinct = distinct Coq terms; non-trivial = at least one child removed and at least one kept"
	root, err := os.MkdirTemp("", "verif-")
	must(err)
	defer os.RemoveAll(root)
	rn := &runner{root: root}

	add := func(c Case, origin string) {
		if w.Aborted {
			return
		}
		var coq string
		var nt bool
		var tags []string
		if w.Guard(c, 30*time.Second, func() { coq, nt, tags = rn.run(c) }) {
			w.Add(hx.Case{Coq: coq, Replay: c, Nontrivial: nt, Tags: uniq(tags), Origin: origin})
		}
	}
	finish := func() {
		w.Close()
		fmt.Printf("cases %d\n", w.Total())
	}
	if cfg.Replay != "" {
		b, err := os.ReadFile(cfg.Replay)
		must(err)
		var wrapper struct {
			Case Case `json:"case"`
		}
		must(json.Unmarshal(b, &wrapper))
		add(wrapper.Case, "replay")
		finish()
		return
	}
	for _, raw := range hx.LoadCorpus(cfg.Corpus) {
		var c Case
		if json.Unmarshal(raw, &c) == nil {
			add(c, "corpus")
		}
	}
	add(Case{Const: true}, "exhaustive")

	// exhaustive: every kind at every offset of a fixed grid, one population per offset pair
	day := int64(24 * 3600 * 1000)
	grid := []int64{1000, -1000, 3600 * 1000, -3600 * 1000, 10 * day, -3 * day, 400 * day, -8 * day, -40 * day}
	nExh := 0
	for gi, off := range grid {
		c := Case{}
		for i, k := range uniq(append([]string(nil), agentKinds...)) {
			c.Agents = append(c.Agents, Child{fmt.Sprintf("v0.%d.%d-%s", gi, i, k), k, off})
			c.Agents = append(c.Agents, Child{fmt.Sprintf("v1.%d.%d-%s", gi, i, k), k, grid[(gi+1)%len(grid)]})
		}
		for i, k := range uniq(append([]string(nil), cacheKinds...)) {
			c.Caches = append(c.Caches, Child{fmt.Sprintf("sync_%d_%d_%s", gi, i, k), k, off})
			c.Caches = append(c.Caches, Child{fmt.Sprintf("sync_x%d_%d_%s", gi, i, k), k, grid[(gi+1)%len(grid)]})
		}
		for i, k := range uniq(append([]string(nil), stagingKinds...)) {
			c.Staging = append(c.Staging, Child{fmt.Sprintf("sync_%d_%d_%s_alpha", gi, i, k), k, off})
			c.Staging = append(c.Staging, Child{fmt.Sprintf("sync_x%d_%d_%s_beta", gi, i, k), k, grid[(gi+1)%len(grid)]})
		}
		nExh++
		add(c, "exhaustive")
	}
	// missing and empty directories
	old := []Child{{"a", "install", 5000}}
	oldC := []Child{{"c", "file", 5000}}
	oldS := []Child{{"s", "dir", 5000}}
	for _, c := range []Case{
		{NoAgents: true, NoCaches: true, NoStaging: true},
		{NoAgents: true, Caches: oldC, Staging: oldS},
		{Agents: old, NoCaches: true, Staging: oldS},
		{Agents: old, Caches: oldC, NoStaging: true},
		{},
	} {
		nExh++
		add(c, "exhaustive")
	}
	w.Extra["exhaustive_scope"] = fmt.Sprintf("%d populations: every child kind (6 agent kinds, 6 cache kinds, 4 staging kinds) at every offset of {+1 s, -1 s, +1 h, -1 h, +10 d, -3 d, +400 d, -8 d, -40 d} relative to its threshold; each of the three directories missing; all empty", nExh)

	n := 120
	if cfg.Thorough() {
		n = 1000
	}
	r := cfg.Rand
	randOff := func() int64 {
		switch r.Intn(10) {
		case 0, 1, 2:
			return 1000
		case 3, 4, 5:
			return -1000
		case 6:
			return int64(r.Intn(7200*1000)) - 3600*1000
		case 7:
			return int64(r.Intn(60)) * day
		case 8:
			return -int64(r.Intn(7)) * day
		default:
			return -int64(8+r.Intn(60)) * day // timestamps possibly in the future
		}
	}
	for i := 0; i < n; i++ {
		c := Case{NoAgents: r.Intn(15) == 0, NoCaches: r.Intn(15) == 0, NoStaging: r.Intn(15) == 0}
		for j, k := 0, r.Intn(7); j < k && !c.NoAgents; j++ {
			c.Agents = append(c.Agents, Child{fmt.Sprintf("v0.18.%d", j), agentKinds[r.Intn(len(agentKinds))], randOff()})
		}
		for j, k := 0, r.Intn(7); j < k && !c.NoCaches; j++ {
			c.Caches = append(c.Caches, Child{fmt.Sprintf("sync_%d", j), cacheKinds[r.Intn(len(cacheKinds))], randOff()})
		}
		for j, k := 0, r.Intn(7); j < k && !c.NoStaging; j++ {
			c.Staging = append(c.Staging, Child{fmt.Sprintf("sync_%d_alpha", j), stagingKinds[r.Intn(len(stagingKinds))], randOff()})
		}
		add(c, "random")
	}
	finish()
}
