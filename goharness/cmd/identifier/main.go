// Harness for C39: drives the real identifier.New with crypto/rand.Reader
// replaced by a scripted reader (every pattern of k leading zero bytes x
// boundary tails, the powers of 62, seeded random draws), the real
// encoding.EncodeBase62 (validation of the base-x specification the theorems
// assume), identifier.IsValid / Truncated and selection.EnsureNameValid on
// names near the identifier shapes, and emits every case with the
// implementation's output as a Coq term of type Model.Identifier.icase.
package main

import (
	"crypto/rand"
	"encoding/json"
	"fmt"
	"math/big"
	"os"
	"regexp"
	"strconv"
	"strings"
	"time"

	"github.com/mutagen-io/mutagen/pkg/encoding"
	"github.com/mutagen-io/mutagen/pkg/identifier"
	"github.com/mutagen-io/mutagen/pkg/selection"

	"verifharness/internal/hx"
)

// Case is the replay form.
type Case struct {
	Kind   string `json:"kind"`             // new enc alpha name id
	Prefix []byte `json:"prefix,omitempty"` // new
	Bytes  []byte `json:"bytes,omitempty"`  // new: the 32 random bytes; enc: the input
	S      []byte `json:"s,omitempty"`      // name, id
}

// scripted is the replacement for crypto/rand.Reader.
type scripted struct {
	data []byte
	pos  int
}

func (s *scripted) Read(p []byte) (int, error) {
	n := copy(p, s.data[s.pos:])
	s.pos += n
	if n < len(p) {
		return n, fmt.Errorf("scripted reader exhausted")
	}
	return n, nil
}

// str prints a byte string: printable ASCII as a Coq string literal, anything
// else as its length and big-endian value.
func str(b []byte) string {
	if len(b) == 0 {
		return "[]"
	}
	plain := true
	for _, c := range b {
		if c < 0x20 || c > 0x7e || c == '"' {
			plain = false
			break
		}
	}
	if plain {
		return `(sb "` + string(b) + `")`
	}
	return raw(b)
}

// raw prints a byte string as (hb len 0x<hex>%N).
func raw(b []byte) string {
	if len(b) == 0 {
		return "[]"
	}
	return fmt.Sprintf("(hb %d 0x%x%%N)", len(b), b)
}

var indexRe = regexp.MustCompile(`^invalid name character at index (\d+): `)

func nameResCoq(err error) string {
	if err == nil {
		return "NOk"
	}
	m := err.Error()
	switch {
	case m == "name does not start with Unicode letter":
		return "NErrStart"
	case m == "name must not be a UUID":
		return "NErrUUID"
	case m == `"defaults" is disallowed as a name`:
		return "NErrDefaults"
	}
	if sub := indexRe.FindStringSubmatch(m); sub != nil {
		i, _ := strconv.Atoi(sub[1])
		return fmt.Sprintf("(NErrChar %d)", i)
	}
	return "NOutside" // an error the model does not know
}

func runCase(c Case) (coq string, nontrivial bool, tags []string) {
	tags = append(tags, "kind:"+c.Kind)
	switch c.Kind {
	case "new":
		if len(c.Bytes) != 32 {
			panic("harness: a new-case needs 32 bytes")
		}
		r := &scripted{data: c.Bytes}
		saved := rand.Reader
		rand.Reader = r
		id, err := identifier.New(string(c.Prefix))
		rand.Reader = saved
		res := "IdErr"
		if err == nil {
			// rand.Read must have honoured the replaced Reader, else the case
			// says nothing about the bytes it claims to be about.
			if r.pos != 32 {
				panic(fmt.Sprintf("harness: crypto/rand.Read did not use the scripted Reader (consumed %d bytes)", r.pos))
			}
			res = "(Ok " + str([]byte(id)) + ")"
		}
		coq = fmt.Sprintf("INew %s %s %s %v %s", str(c.Prefix), raw(c.Bytes), res,
			identifier.IsValid(id), str([]byte(identifier.Truncated(id))))
		lz := 0
		for lz < 32 && c.Bytes[lz] == 0 {
			lz++
		}
		tags = append(tags, fmt.Sprintf("leading-zero-bytes:%d", lz))
		if err != nil {
			tags = append(tags, "prefix:refused")
		}
		nontrivial = err == nil && lz > 0
	case "enc":
		out := encoding.EncodeBase62(c.Bytes)
		coq = fmt.Sprintf("IEnc %s %s", raw(c.Bytes), str([]byte(out)))
		tags = append(tags, fmt.Sprintf("enc-len:%d", min(len(c.Bytes)/8*8, 40)))
		nontrivial = len(c.Bytes) > 1 && c.Bytes[0] == 0
	case "alpha":
		coq = "IAlpha " + str([]byte(encoding.Base62Alphabet))
	case "name":
		err := selection.EnsureNameValid(string(c.S))
		res := nameResCoq(err)
		coq = fmt.Sprintf("IName %s %s", str(c.S), res)
		tags = append(tags, "name:"+strings.Trim(strings.Fields(res)[0], "()"))
		nontrivial = identifier.IsValid(string(c.S)) || res == "NErrUUID" || res == "NErrDefaults"
	case "id":
		s := string(c.S)
		v := identifier.IsValid(s)
		coq = fmt.Sprintf("IId %s %v %s", str(c.S), v, str([]byte(identifier.Truncated(s))))
		tags = append(tags, fmt.Sprintf("valid:%v", v))
		nontrivial = v
	default:
		panic("unknown kind " + c.Kind)
	}
	return
}

const header = "From Coq Require Import List Arith NArith String.\nImport ListNotations.\nFrom Mv Require Import Model.Identifier Harness.IdentifierH."

func main() {
	cfg := hx.Parse()
	w := hx.NewWriter(cfg, header, "icase", "identifier_failures", 300)
	w.Rule = "a case = identifier.New(prefix) under a scripted crypto/rand.Reader with its result, IsValid and Truncated / EncodeBase62(bytes) / EnsureNameValid(name) / IsValid+Truncated(string); distinct = distinct Coq terms; non-trivial = a generated identifier whose random value has leading zero bytes, an encoder input with a leading zero byte, a name that is an identifier, a UUID or the reserved word, a valid identifier string"
	add := func(c Case, origin string) {
		if w.Aborted {
			return
		}
		var coq string
		var nt bool
		var tags []string
		if w.Guard(c, 5*time.Second, func() { coq, nt, tags = runCase(c) }) {
			w.Add(hx.Case{Coq: coq, Replay: c, Nontrivial: nt, Tags: tags, Origin: origin})
		}
	}

	if cfg.Replay != "" {
		b, err := os.ReadFile(cfg.Replay)
		if err != nil {
			panic(err)
		}
		var wrapper struct {
			Case Case `json:"case"`
		}
		if err := json.Unmarshal(b, &wrapper); err != nil {
			panic(err)
		}
		add(wrapper.Case, "replay")
		w.Close()
		return
	}

	for _, raw := range hx.LoadCorpus(cfg.Corpus) {
		var c Case
		if json.Unmarshal(raw, &c) == nil && c.Kind != "" {
			add(c, "corpus")
		}
	}

	r := cfg.Rand
	prefixes := []string{"sync", "fwrd", "proj", "pmtr"}
	pad32 := func(b []byte) []byte {
		out := make([]byte, 32)
		copy(out[32-len(b):], b)
		return out
	}
	add(Case{Kind: "alpha"}, "exhaustive")

	// ---- identifier.New: k leading zero bytes x boundary tails ----
	tailKinds := 7
	for k := 0; k <= 32; k++ {
		for t := 0; t < tailKinds; t++ {
			b := make([]byte, 32)
			for i := k; i < 32; i++ {
				switch t {
				case 0:
					b[i] = 0xff
				case 1: // 1 then zeros
					if i == k {
						b[i] = 1
					}
				case 2: // only the last byte set
					if i == 31 {
						b[i] = 1
					}
				case 3:
					b[i] = 61
				case 4:
					if i == k {
						b[i] = 62
					}
				case 5:
					b[i] = byte(1 + r.Intn(255))
				case 6: // a zero byte inside
					if i != k+1 {
						b[i] = byte(1 + r.Intn(255))
					}
				}
			}
			if k < 32 && b[k] == 0 {
				b[k] = 1
			}
			add(Case{Kind: "new", Prefix: []byte(prefixes[(k+t)%4]), Bytes: b}, "exhaustive")
		}
	}
	// the powers of 62 (digit-count boundaries), +-1
	p := big.NewInt(1)
	sixtyTwo := big.NewInt(62)
	limit := new(big.Int).Lsh(big.NewInt(1), 256)
	for k := 0; k <= 43; k++ {
		for _, d := range []int64{-1, 0, 1} {
			v := new(big.Int).Add(p, big.NewInt(d))
			if v.Sign() >= 0 && v.Cmp(limit) < 0 {
				add(Case{Kind: "new", Prefix: []byte(prefixes[k%4]), Bytes: pad32(v.Bytes())}, "exhaustive")
			}
		}
		p = new(big.Int).Mul(p, sixtyTwo)
	}
	// prefixes
	for _, px := range []string{"", "syn", "syncs", "Sync", "s_nc", "sy1c", "s\xc3\xbcn", "sy c", "abcd", "zzzz", "aaaa", "a{aa", "`aaa"} {
		b := make([]byte, 32)
		r.Read(b)
		add(Case{Kind: "new", Prefix: []byte(px), Bytes: b}, "exhaustive")
	}
	// ---- the encoder on short inputs ----
	small := []byte{0, 1, 61, 62, 255}
	add(Case{Kind: "enc", Bytes: nil}, "exhaustive")
	for _, a := range small {
		add(Case{Kind: "enc", Bytes: []byte{a}}, "exhaustive")
		for _, b := range small {
			add(Case{Kind: "enc", Bytes: []byte{a, b}}, "exhaustive")
			for _, c := range small {
				add(Case{Kind: "enc", Bytes: []byte{a, b, c}}, "exhaustive")
			}
		}
	}
	for k := 1; k <= 40; k++ {
		add(Case{Kind: "enc", Bytes: make([]byte, k)}, "exhaustive")
	}
	w.Extra["exhaustive_scope"] = fmt.Sprintf("identifier.New: k = 0..32 leading zero bytes x %d tail patterns; 62^k - 1, 62^k, 62^k + 1 for k = 0..43 (below 2^256); 13 prefixes; EncodeBase62: all inputs of length <= 3 over {0,1,61,62,255} and all-zero inputs of length 1..40", tailKinds)

	// ---- seeded random ----
	nNew, nEnc, nName := 800, 300, 1000
	if cfg.Thorough() {
		nNew, nEnc, nName = 20000, 5000, 15000
	}
	var ids [][]byte
	for i := 0; i < nNew; i++ {
		b := make([]byte, 32)
		r.Read(b)
		for k := r.Intn(4) * r.Intn(4); k > 0; k-- { // sometimes a few leading zeros
			b[k-1] = 0
		}
		add(Case{Kind: "new", Prefix: []byte(prefixes[r.Intn(4)]), Bytes: b}, "random")
		if i < 200 {
			saved := rand.Reader
			rand.Reader = &scripted{data: b}
			id, _ := identifier.New("sync")
			rand.Reader = saved
			ids = append(ids, []byte(id))
		}
	}
	for i := 0; i < nEnc; i++ {
		b := make([]byte, r.Intn(41))
		r.Read(b)
		for k := r.Intn(4) * r.Intn(3); k > 0 && k <= len(b); k-- {
			b[k-1] = 0
		}
		add(Case{Kind: "enc", Bytes: b}, "random")
	}
	// names and identifier strings near the two identifier shapes
	hexl := "0123456789abcdef"
	uuid := func(alpha string) []byte {
		out := make([]byte, 36)
		for i := range out {
			if i == 8 || i == 13 || i == 18 || i == 23 {
				out[i] = '-'
			} else {
				out[i] = alpha[r.Intn(len(alpha))]
			}
		}
		return out
	}
	nameAlpha := "abcdefXYZ0189-_ .{}:"
	mutate := func(s []byte) []byte {
		s = append([]byte(nil), s...)
		switch r.Intn(7) {
		case 0:
			if len(s) > 0 {
				s[r.Intn(len(s))] = nameAlpha[r.Intn(len(nameAlpha))]
			}
		case 1:
			if len(s) > 0 {
				i := r.Intn(len(s))
				s = append(s[:i], s[i+1:]...)
			}
		case 2:
			i := r.Intn(len(s) + 1)
			s = append(s[:i], append([]byte{nameAlpha[r.Intn(len(nameAlpha))]}, s[i:]...)...)
		case 3:
			s = []byte(strings.ToUpper(string(s)))
		case 4:
			s = append([]byte("{"), append(s, '}')...)
		case 5:
			s = append([]byte("urn:uuid:"), s...)
		}
		return s
	}
	for _, fixed := range []string{"", "defaults", "default", "Defaults", "defaults-", "a", "-", "a-", "1a", "a1", "a_b",
		"abcdef12-1234-1234-1234-1234567890ab", "12345678-1234-1234-1234-1234567890ab",
		"ABCDEF12-1234-1234-1234-1234567890AB", "abcdef1212341234123412345678 90ab",
		"abcdef12123412341234123456789 0ab", "abcdef12123412341234123412345678", "abcdef1212341234123412341234567890ab",
		"xabcdef12-1234-1234-1234-1234567890abx", "urn:uuid:abcdef12-1234-1234-1234-1234567890ab"} {
		add(Case{Kind: "name", S: []byte(fixed)}, "exhaustive")
		add(Case{Kind: "id", S: []byte(fixed)}, "exhaustive")
	}
	for i := 0; i < nName; i++ {
		var s []byte
		switch r.Intn(6) {
		case 0:
			s = uuid(hexl)
		case 1:
			s = uuid(hexl + "ABCDEF")
		case 2:
			s = uuid("abcdef")
		case 3:
			if len(ids) > 0 {
				s = ids[r.Intn(len(ids))]
			}
		case 4:
			s = make([]byte, r.Intn(12))
			for j := range s {
				s[j] = nameAlpha[r.Intn(len(nameAlpha))]
			}
		case 5:
			s = []byte("defaults")
		}
		for k := r.Intn(3); k > 0; k-- {
			s = mutate(s)
		}
		kind := "name"
		if r.Intn(3) == 0 {
			kind = "id"
		}
		add(Case{Kind: kind, S: s}, "random")
	}
	w.Close()
	fmt.Println(strings.TrimSpace(fmt.Sprintf("cases %d", w.Total())))
}
