// Harness for C15 (Docker-style ignores). Runs the real code — the vendored
// pattern matcher's MatchesOrParentMatches (upstream reference) and
// MatchesForMutagen through the hook wrapper in ignore/docker, core.Scan with
// docker.NewIgnorer on real temporary trees, and core.ReifyPhantomDirectories —
// and emits every case with the implementation's outputs as a Coq term of
// Harness/IgnoreDockerH.v. The per-pattern match table of the Coq model is
// obtained from the real matcher (one single-pattern matcher per pattern).
package main

import (
	"encoding/json"
	"flag"
	"fmt"
	"math/rand"
	"os"
	pathpkg "path"
	"strings"
	"time"

	"github.com/mutagen-io/mutagen/pkg/synchronization/core"
	dockerignore "github.com/mutagen-io/mutagen/pkg/synchronization/core/ignore/docker"

	"verifharness/internal/coretree"
	"verifharness/internal/hx"
	"verifharness/internal/igntree"
)

// Case is one case (also the replay form).
type Case struct {
	K        string        `json:"k"` // query scan
	Raws     []string      `json:"raws"`
	Path     string        `json:"path,omitempty"`
	Dir      bool          `json:"dir,omitempty"`
	Tree     *igntree.Node `json:"tree,omitempty"`
	Anc      *coretree.J   `json:"anc,omitempty"`
	BetaSame bool          `json:"beta_same,omitempty"`
}

// refPrep is the harness' transcription of how Docker reads one line of a
// .dockerignore (buildkit dockerignore.ReadAll: trim, split off '!', trim,
// Clean, drop a leading '/', put '!' back) followed by patternmatcher.New (trim,
// Clean, leading '!' = exclusion). It is only used to build the match table of
// the reference patterns; the Coq side recomputes it (docker_prep) and rejects
// the case if the two differ.
func refPrep(raw string) (excl bool, text string, ok bool) {
	if strings.HasPrefix(raw, "#") {
		return
	}
	p := strings.TrimSpace(raw)
	if p == "" {
		return
	}
	invert := p[0] == '!'
	if invert {
		p = strings.TrimSpace(p[1:])
	}
	if len(p) > 0 {
		p = pathpkg.Clean(p)
		if len(p) > 1 && p[0] == '/' {
			p = p[1:]
		}
	}
	if invert {
		p = "!" + p
	}
	p = strings.TrimSpace(p)
	if p == "" {
		return
	}
	p = pathpkg.Clean(p)
	if p[0] == '!' {
		if len(p) == 1 {
			return
		}
		return true, p[1:], true
	}
	return false, p, true
}

// patsCoq renders the pattern list as rawpat terms: the user's text, what the
// real preprocessing made of it, the reference reading, and the subset of the
// given paths the reference pattern matches by itself (real per-pattern
// matcher, built from the already clean reference text).
func patsCoq(raws []string, m *dockerignore.VerifMatcher, paths []string) string {
	texts, excls := m.Patterns()
	if len(texts) != len(raws) {
		panic("pattern count changed during validation")
	}
	items := make([]string, len(texts))
	for i := range texts {
		re, rt, ok := refPrep(raws[i])
		if !ok {
			panic(fmt.Sprintf("the implementation accepts pattern %q, which Docker skips or rejects", raws[i]))
		}
		refRaw := rt
		if re {
			refRaw = "!" + rt
		}
		single, err := dockerignore.VerifNewMatcher([]string{refRaw})
		if err != nil {
			panic(fmt.Sprintf("reference pattern %q (from %q) rejected: %v", refRaw, raws[i], err))
		}
		var hits []string
		for _, p := range paths {
			if st, _ := single.MatchesForMutagen(p, false); st != 0 {
				hits = append(hits, p)
			}
		}
		items[i] = fmt.Sprintf("Dr %s %s %s %s %s %s", coretree.Str(raws[i]), igntree.Bool(excls[i]), coretree.Str(texts[i]),
			igntree.Bool(re), coretree.Str(rt), igntree.Strs(hits))
	}
	return "[" + strings.Join(items, "; ") + "]"
}

func statusCoq(s uint8) string {
	return []string{"Nominal", "Ignored", "Unignored"}[s]
}

func chain(path string) []string {
	parts := strings.Split(path, "/")
	out := make([]string, len(parts))
	for i := range parts {
		out[i] = strings.Join(parts[:i+1], "/")
	}
	return out
}

func hasPhantom(e *core.Entry) bool {
	if e == nil {
		return false
	}
	if e.Kind == core.EntryKind_PhantomDirectory {
		return true
	}
	for _, c := range e.Contents {
		if hasPhantom(c) {
			return true
		}
	}
	return false
}

func runCase(c Case) (coq string, nontrivial bool, tags []string) {
	tags = append(tags, "kind:"+c.K, fmt.Sprintf("patterns:%d", min(len(c.Raws), 6)))
	if c.K == "prep" {
		res := "None"
		if pm, err := dockerignore.VerifNewMatcher([]string{c.Path}); err == nil {
			texts, excls := pm.Patterns()
			if len(texts) == 1 {
				res = fmt.Sprintf("(Some (%s, %s))", igntree.Bool(excls[0]), coretree.Str(texts[0]))
				nontrivial = strings.TrimPrefix(c.Path, "!") != texts[0]
				tags = append(tags, "prep:accepted")
			} else {
				tags = append(tags, "prep:dropped")
			}
		} else {
			tags = append(tags, "prep:rejected")
		}
		coq = fmt.Sprintf("Dpp %s %s", coretree.Str(c.Path), res)
		return
	}
	m, err := dockerignore.VerifNewMatcher(c.Raws)
	if err != nil {
		panic("case with invalid patterns: " + err.Error())
	}
	_, excls := m.Patterns()
	nExcl := 0
	for _, e := range excls {
		if e {
			nExcl++
		}
	}
	tags = append(tags, fmt.Sprintf("negated-patterns:%d", min(nExcl, 3)))
	switch c.K {
	case "query":
		mo, err := m.MatchesOrParentMatches(c.Path)
		if err != nil {
			panic(err)
		}
		st, cont := m.MatchesForMutagen(c.Path, c.Dir)
		tags = append(tags, "docker-excluded:"+igntree.Bool(mo), "status:"+statusCoq(st), "continue:"+igntree.Bool(cont))
		nontrivial = mo != (st == 1) || cont
		coq = fmt.Sprintf("Dq %s %s %s %s (%s, %s)", patsCoq(c.Raws, m, chain(c.Path)), coretree.Str(c.Path),
			igntree.Bool(c.Dir), igntree.Bool(mo), statusCoq(st), igntree.Bool(cont))
	case "scan":
		ig, err := dockerignore.NewIgnorer(c.Raws)
		if err != nil {
			panic(err)
		}
		root, err := c.Tree.Materialize()
		if err != nil {
			panic(err)
		}
		defer os.RemoveAll(root)
		snap, _, err := igntree.Scan(root, ig)
		if err != nil {
			panic(err)
		}
		anc := coretree.FromJ(c.Anc)
		var beta *core.Entry
		if c.BetaSame {
			beta = snap.Copy(core.EntryCopyBehaviorDeep)
		}
		alpha, _, ca, cb := core.ReifyPhantomDirectories(anc, snap, beta)
		paths, _ := c.Tree.Paths()
		nontrivial = hasPhantom(snap)
		tags = append(tags, "phantoms:"+igntree.Bool(nontrivial), fmt.Sprintf("tree-nodes:%d", c.Tree.Size()/5*5),
			"ancestor:"+igntree.Bool(anc != nil), "beta:"+igntree.Bool(c.BetaSame))
		coq = fmt.Sprintf("Ds %s (%s) %s %s %s %s %d %d", patsCoq(c.Raws, m, paths), c.Tree.Coq(), coretree.Entry(anc),
			igntree.Bool(c.BetaSame), coretree.Entry(igntree.HexDigests(snap)), coretree.Entry(igntree.HexDigests(alpha)), ca, cb)
	default:
		panic("unknown case kind " + c.K)
	}
	return
}

// ---------- generators ----------

var names = []string{"a", "b", "c", "ab", "a.b", "abc"}

func genComp(r *rand.Rand) string {
	switch x := r.Intn(100); {
	case x < 62:
		return names[r.Intn(len(names))]
	case x < 72:
		return "*"
	case x < 80:
		return "**"
	case x < 86:
		return names[r.Intn(len(names))][:1] + "*"
	case x < 91:
		return "*." + names[r.Intn(3)]
	case x < 95:
		return "?"
	default:
		return "[ab]"
	}
}

func genPattern(r *rand.Rand) string {
	n := 1 + r.Intn(3)
	parts := make([]string, n)
	for i := range parts {
		parts[i] = genComp(r)
	}
	p := strings.Join(parts, "/")
	// texts that are not in clean form: Docker (and Mutagen) clean them after
	// the '!' has been split off
	switch r.Intn(24) {
	case 0:
		p = "/" + p
	case 1:
		p += "/"
	case 2:
		p = " " + p
	case 3, 4:
		p = "./" + p
	case 5:
		p = names[r.Intn(len(names))] + "/../" + p
	case 6:
		p = strings.Replace(p, "/", "//", 1)
	case 7:
		p += "/."
	case 8:
		p = strings.Replace(p, "/", "/./", 1)
	case 9:
		p = "./" + p + "/"
	}
	if r.Intn(5) < 2 {
		if r.Intn(8) == 0 {
			p = "! " + p
		} else {
			p = "!" + p
		}
	}
	return p
}

// genRawPattern generates one user pattern for the preprocessing cases,
// including texts the validation rejects.
func genRawPattern(r *rand.Rand) string {
	if r.Intn(10) == 0 {
		return []string{"", " ", "!", "! ", "/", "!/", ".", "!.", "..", "!..", "./", "!./", "//", "a/..", "!a/..", "/..", "!/a", "/a/", " a ", "!  a/b "}[r.Intn(20)]
	}
	return genPattern(r)
}

func genPatterns(r *rand.Rand, max int) []string {
	for {
		n := 1 + r.Intn(max)
		out := make([]string, n)
		for i := range out {
			out[i] = genPattern(r)
		}
		if _, err := dockerignore.VerifNewMatcher(out); err == nil {
			return out
		}
	}
}

func genPath(r *rand.Rand) string {
	n := 1 + r.Intn(4)
	parts := make([]string, n)
	for i := range parts {
		parts[i] = names[r.Intn(len(names))]
	}
	return strings.Join(parts, "/")
}

// dirPaths lists the directories of a tree with their nodes.
func dirPaths(t *igntree.Node) (paths []string, nodes []*igntree.Node) {
	ps, ns := t.Paths()
	for i, p := range ps {
		if ns[i].K == "dir" {
			paths = append(paths, p)
			nodes = append(nodes, ns[i])
		}
	}
	return
}

func validOrNil(raws []string) []string {
	if _, err := dockerignore.VerifNewMatcher(raws); err != nil {
		return nil
	}
	return raws
}

// genReinclude builds a pattern list around one directory D of the tree: a
// pattern excluding D, a "!" pattern beneath D (so that D is traversed under an
// ignore mask), and a few random patterns after them.
func genReinclude(r *rand.Rand, t *igntree.Node) []string {
	paths, nodes := dirPaths(t)
	if len(paths) == 0 {
		return nil
	}
	i := r.Intn(len(paths))
	d, node := paths[i], nodes[i]
	excl := d
	switch r.Intn(4) {
	case 0:
		parts := strings.Split(d, "/")
		parts[len(parts)-1] = parts[len(parts)-1][:1] + "*"
		excl = strings.Join(parts, "/")
	case 1:
		excl = "**/" + d[strings.LastIndex(d, "/")+1:]
	}
	keep := "keep"
	if kids := node.SortedNames(); len(kids) > 0 && r.Intn(3) > 0 {
		keep = kids[r.Intn(len(kids))]
	}
	reinc := d + "/" + keep
	switch r.Intn(6) {
	case 0:
		reinc = "./" + reinc
	case 1:
		reinc = names[r.Intn(len(names))] + "/../" + reinc
	case 2:
		reinc = strings.Replace(reinc, "/", "//", 1)
	}
	out := []string{excl, "!" + reinc}
	for k := r.Intn(3); k > 0; k-- {
		out = append(out, genPattern(r))
	}
	return validOrNil(out)
}

// genPrefixSibling builds a pattern list in which a "!" pattern starts with
// the characters of an excluded directory's path without lying beneath it
// (a sibling whose name extends the directory's name), together with a
// wildcard "!" pattern that matches something inside the excluded directory.
func genPrefixSibling(r *rand.Rand, t *igntree.Node) []string {
	paths, nodes := dirPaths(t)
	if len(paths) == 0 {
		return nil
	}
	i := r.Intn(len(paths))
	d, node := paths[i], nodes[i]
	base := d[strings.LastIndex(d, "/")+1:]
	excl := d
	if r.Intn(2) == 0 {
		excl = d + "*"
	}
	sibling := d + []string{"b", "c", "-x", ".b", "bc"}[r.Intn(5)]
	inner := "x"
	if kids := node.SortedNames(); len(kids) > 0 {
		inner = kids[r.Intn(len(kids))]
	}
	wild := []string{"!**/" + inner, "!*/" + inner, "!" + strings.Repeat("*/", strings.Count(d, "/")+1) + inner, "!**/" + inner[:1] + "*"}[r.Intn(4)]
	out := []string{excl, "!" + sibling + "/keep", wild}
	if r.Intn(3) == 0 {
		out = []string{excl, "!" + sibling, wild}
	}
	_ = base
	for k := r.Intn(2); k > 0; k-- {
		out = append(out, genPattern(r))
	}
	return validOrNil(out)
}

// genAncestor derives a previously synchronized state from the tree: a random
// sub-forest of its directories, files and links, fully tracked.
func genAncestor(r *rand.Rand, n *igntree.Node, keep int) *core.Entry {
	switch n.K {
	case "dir":
		e := coretree.Dir()
		for _, name := range n.SortedNames() {
			if r.Intn(10) < keep {
				if c := genAncestor(r, n.C[name], keep); c != nil {
					if e.Contents == nil {
						e.Contents = map[string]*core.Entry{}
					}
					e.Contents[name] = c
				}
			}
		}
		return e
	case "file":
		return coretree.File(igntree.Digest(n.D), false)
	case "link":
		return coretree.Link(n.D)
	}
	return nil
}

const header = "From Coq Require Import List Bool Arith String Ascii.\nImport ListNotations.\nFrom Mv Require Import Common.Bytes Model.Entry Model.IgnoreScan Model.IgnoreDocker Harness.IgnoreDockerH.\nOpen Scope string_scope.\nOpen Scope list_scope."

var propFlag = flag.String("prop", "C15", "C15, or C03 for the scan premise of C03 (ignored content never becomes synchronizable content of a snapshot)")

// mainC03 is the "-prop C03" mode: scans of real trees with docker.NewIgnorer,
// judged by Harness/ScanIgnoredH.v (no Docker reference semantics involved).
func mainC03(cfg *hx.Config) {
	w := hx.NewWriter(cfg, igntree.C03Header, "c3case", "c03scan_failures", 150)
	w.Rule = igntree.C03Rule
	add := func(c Case, origin string) {
		if w.Aborted || c.Tree == nil {
			return
		}
		var coq string
		var nt bool
		var tags []string
		if w.Guard(c, 5*time.Second, func() {
			ig, err := dockerignore.NewIgnorer(c.Raws)
			if err != nil {
				panic(err)
			}
			coq, nt, tags = igntree.C03Case(c.Tree, ig)
		}) {
			w.Add(hx.Case{Coq: coq, Replay: c, Nontrivial: nt, Tags: append(tags, "syntax:docker"), Origin: origin})
		}
	}
	if cfg.Replay != "" {
		b, err := os.ReadFile(cfg.Replay)
		if err != nil {
			panic(err)
		}
		var wrapper struct {
			Case Case `json:"case"`
		}
		if err := json.Unmarshal(b, &wrapper); err != nil {
			panic(err)
		}
		add(wrapper.Case, "replay")
		w.Close()
		return
	}
	// regression inputs live with C15's corpus (the C03 corpus holds reconcile triples)
	for _, raw := range hx.LoadCorpus(os.Getenv("VERIF_DIR") + "/corpus/C15") {
		var c Case
		if json.Unmarshal(raw, &c) == nil && c.K == "scan" {
			if _, err := dockerignore.VerifNewMatcher(c.Raws); err == nil {
				add(c, "corpus")
			}
		}
	}
	r := cfg.Rand
	scale := 1
	if cfg.Thorough() {
		scale = 25
	}
	for t := 0; t < 50*scale; t++ {
		tr := igntree.Random(r, 4, 4, names)
		for j := 0; j < 8; j++ {
			var raws []string
			switch {
			case j >= 7:
				raws = genPrefixSibling(r, tr)
			case j >= 3:
				raws = genReinclude(r, tr)
			}
			if raws == nil {
				raws = genPatterns(r, 5)
			}
			add(Case{K: "scan", Raws: raws, Tree: tr}, "random")
		}
	}
	w.Close()
	fmt.Printf("cases %d\n", w.Total())
}

func main() {
	cfg := hx.Parse()
	if *propFlag == "C03" {
		mainC03(cfg)
		return
	}
	w := hx.NewWriter(cfg, header, "dcase", "ignd_failures", 150)
	w.Rule = "a case = one run of the real code: query = MatchesOrParentMatches and MatchesForMutagen of the vendored matcher on one path; scan = core.Scan with docker.NewIgnorer on a real temporary tree followed by ReifyPhantomDirectories; distinct = distinct Coq terms; non-trivial = query: Docker's answer differs from the exact-path status or traversal must continue; scan: the raw snapshot contains a phantom directory (the ignore mask was exercised)"
	add := func(c Case, origin string) {
		if w.Aborted {
			return
		}
		var coq string
		var nt bool
		var tags []string
		if w.Guard(c, 5*time.Second, func() { coq, nt, tags = runCase(c) }) {
			w.Add(hx.Case{Coq: coq, Replay: c, Nontrivial: nt, Tags: tags, Origin: origin})
		}
	}

	if cfg.Replay != "" {
		b, err := os.ReadFile(cfg.Replay)
		if err != nil {
			panic(err)
		}
		var wrapper struct {
			Case Case `json:"case"`
		}
		if err := json.Unmarshal(b, &wrapper); err != nil {
			panic(err)
		}
		add(wrapper.Case, "replay")
		w.Close()
		return
	}

	for _, raw := range hx.LoadCorpus(cfg.Corpus) {
		var c Case
		if json.Unmarshal(raw, &c) == nil && c.K != "" {
			add(c, "corpus")
		}
	}

	// Exhaustive small scope: every list of 1..2 (thorough: 3) patterns over
	// a small alphabet, as queries on a few paths and as scans of one tree that
	// contains those paths.
	patAlpha := []string{"a", "!a", "a/b", "!a/b", "a/b/c", "!a/b/c", "*", "!*/b", "**/c", "b"}
	pathAlpha := []string{"a", "a/b", "a/b/c", "b", "b/c"}
	tree := &igntree.Node{K: "dir", C: map[string]*igntree.Node{
		"a": {K: "dir", C: map[string]*igntree.Node{
			"b": {K: "dir", C: map[string]*igntree.Node{"c": {K: "file", D: "1"}, "f": {K: "file", D: "2"}}},
			"c": {K: "file", D: "3"},
			"d": {K: "dir", C: map[string]*igntree.Node{}},
		}},
		"b": {K: "dir", C: map[string]*igntree.Node{"c": {K: "link", D: "t"}}},
		"c": {K: "file", D: "4"},
	}}
	var lists [][]string
	for _, p := range patAlpha {
		lists = append(lists, []string{p})
		for _, q := range patAlpha {
			lists = append(lists, []string{p, q})
			if cfg.Thorough() {
				for _, s := range patAlpha {
					lists = append(lists, []string{p, q, s})
				}
			}
		}
	}
	ancFull := coretree.ToJ(genAncestor(rand.New(rand.NewSource(1)), tree, 10))
	for _, l := range lists {
		for _, p := range pathAlpha {
			add(Case{K: "query", Raws: l, Path: p, Dir: p != "a/b/c" && p != "b/c"}, "exhaustive")
		}
		add(Case{K: "scan", Raws: l, Tree: tree}, "exhaustive")
		add(Case{K: "scan", Raws: l, Tree: tree, Anc: ancFull, BetaSame: true}, "exhaustive")
	}
	w.Extra["exhaustive_scope"] = fmt.Sprintf("every list of 1..%d patterns over %v: as queries on paths %v and as scans (with and without ancestor) of a fixed 9-node tree containing those paths (%d lists)", map[bool]int{false: 2, true: 3}[cfg.Thorough()], patAlpha, pathAlpha, len(lists))

	// Seeded random cases.
	r := cfg.Rand
	scale := 1
	if cfg.Thorough() {
		scale = 25
	}
	for i := 0; i < 800*scale; i++ {
		add(Case{K: "query", Raws: genPatterns(r, 5), Path: genPath(r), Dir: r.Intn(2) == 0}, "random")
	}
	for i := 0; i < 400*scale; i++ {
		add(Case{K: "prep", Path: genRawPattern(r)}, "random")
	}
	for t := 0; t < 60*scale; t++ {
		tr := igntree.Random(r, 4, 4, names)
		for j := 0; j < 10; j++ {
			var raws []string
			switch {
			case j >= 8:
				raws = genPrefixSibling(r, tr)
			case j >= 5:
				raws = genReinclude(r, tr)
			}
			if raws == nil {
				raws = genPatterns(r, 5)
			}
			c := Case{K: "scan", Raws: raws, Tree: tr, BetaSame: r.Intn(3) == 0}
			if r.Intn(2) == 0 {
				c.Anc = coretree.ToJ(genAncestor(r, tr, 3+r.Intn(8)))
			}
			add(c, "random")
		}
	}
	w.Close()
	fmt.Printf("cases %d\n", w.Total())
}
