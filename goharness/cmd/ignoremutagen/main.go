// Harness for C14 (Mutagen-style ignores). Runs the real code —
// doublestar.Match, newIgnorePattern (hook), NewIgnorer/Ignore (optionally
// wrapped by IgnoreVCS), core.Scan on real temporary trees, and the real VCS
// name table (hook) — and emits every case with the implementation's output as
// a Coq term of Harness/IgnoreMutagenH.v.
package main

import (
	"encoding/json"
	"flag"
	"fmt"
	"math/rand"
	"os"
	pathpkg "path"
	"strings"
	"time"

	"github.com/bmatcuk/doublestar/v4"

	"github.com/mutagen-io/mutagen/pkg/synchronization/core/ignore"
	mutagenignore "github.com/mutagen-io/mutagen/pkg/synchronization/core/ignore/mutagen"

	"verifharness/internal/coretree"
	"verifharness/internal/hx"
	"verifharness/internal/igntree"
)

// Case is one case (also the replay form).
type Case struct {
	K    string        `json:"k"` // glob parse ignore scan vcs
	Pat  string        `json:"pat,omitempty"`
	Name string        `json:"name,omitempty"`
	Raws []string      `json:"raws,omitempty"`
	Path string        `json:"path,omitempty"`
	Dir  bool          `json:"dir,omitempty"`
	Vcs  bool          `json:"vcs,omitempty"`
	Tree *igntree.Node `json:"tree,omitempty"`
}

func newIgnorer(raws []string, vcs bool) (ignore.Ignorer, error) {
	ig, err := mutagenignore.NewIgnorer(raws)
	if err != nil {
		return nil, err
	}
	if vcs {
		ig = ignore.IgnoreVCS(ig)
	}
	return ig, nil
}

// polarity statistics of a query, via the hook (for tags / non-triviality only)
func matchStats(raws []string, path string, dir bool) (matching int, mixed bool) {
	var sawNeg, sawPos bool
	for _, raw := range raws {
		p, err := mutagenignore.VerifNewIgnorePattern(raw)
		if err != nil {
			return 0, false
		}
		if p.Matches(path, dir) {
			matching++
			if p.Negated {
				sawNeg = true
			} else {
				sawPos = true
			}
		}
	}
	return matching, sawNeg && sawPos
}

func runCase(c Case) (coq string, nontrivial bool, tags []string) {
	tags = append(tags, "kind:"+c.K)
	switch c.K {
	case "glob":
		m, err := doublestar.Match(c.Pat, c.Name)
		res := "None"
		if err == nil {
			res = "(Some " + igntree.Bool(m) + ")"
			tags = append(tags, "glob:"+igntree.Bool(m))
			nontrivial = m && strings.ContainsAny(c.Pat, "*?[")
		} else {
			tags = append(tags, "glob:bad-pattern")
		}
		coq = fmt.Sprintf("G %s %s %s", coretree.Str(c.Pat), coretree.Str(c.Name), res)
	case "parse":
		p, err := mutagenignore.VerifNewIgnorePattern(c.Pat)
		res := "None"
		if err == nil {
			res = fmt.Sprintf("(Some (%s, %s, %s, %s))", igntree.Bool(p.Negated), igntree.Bool(p.DirectoryOnly),
				igntree.Bool(p.MatchLeaf), coretree.Str(p.Pattern))
			nontrivial = p.Pattern != c.Pat
			tags = append(tags, "parse:ok")
		} else {
			tags = append(tags, "parse:rejected")
		}
		coq = fmt.Sprintf("Pp %s %s", coretree.Str(c.Pat), res)
	case "ignore":
		res := "None"
		ig, err := newIgnorer(c.Raws, c.Vcs)
		if err == nil {
			st, cont := ig.Ignore(c.Path, c.Dir)
			res = fmt.Sprintf("(Some (%s, %s))", igntree.Status(st), igntree.Bool(cont))
			n, mixed := matchStats(c.Raws, c.Path, c.Dir)
			nontrivial = mixed
			tags = append(tags, "status:"+igntree.Status(st), fmt.Sprintf("matching-patterns:%d", min(n, 4)))
		} else {
			tags = append(tags, "ignorer:rejected")
		}
		tags = append(tags, fmt.Sprintf("patterns:%d", min(len(c.Raws), 6)))
		coq = fmt.Sprintf("Ig %s %s %s %s %s", igntree.Bool(c.Vcs), igntree.Strs(c.Raws), coretree.Str(c.Path),
			igntree.Bool(c.Dir), res)
	case "scan":
		ig, err := newIgnorer(c.Raws, c.Vcs)
		if err != nil {
			panic("scan case with invalid patterns: " + err.Error())
		}
		root, err := c.Tree.Materialize()
		if err != nil {
			panic(err)
		}
		defer os.RemoveAll(root)
		snap, consulted, err := igntree.Scan(root, ig)
		if err != nil {
			panic(err)
		}
		pruned := 0
		for _, k := range consulted {
			if st, _ := ig.Ignore(k.Path, k.Dir); st == ignore.IgnoreStatusIgnored && k.Dir {
				pruned++
			}
		}
		nontrivial = pruned > 0
		tags = append(tags, fmt.Sprintf("pruned-dirs:%d", min(pruned, 3)), fmt.Sprintf("tree-nodes:%d", c.Tree.Size()/5*5))
		coq = fmt.Sprintf("Sc %s %s (%s) %s %s", igntree.Bool(c.Vcs), igntree.Strs(c.Raws), c.Tree.Coq(),
			coretree.Entry(igntree.HexDigests(snap)), igntree.ConsultsCoq(consulted))
	case "vcs":
		coq = "Vc " + igntree.Strs(ignore.VerifVCSDirectoryNames())
		nontrivial = true
	default:
		panic("unknown case kind " + c.K)
	}
	if c.Vcs {
		tags = append(tags, "vcs:on")
	}
	return
}

// ---------- generators ----------

var literals = []string{"a", "b", "c", "ab", "bc", "a.b", ".git", ".hg", "_darcs", "a-c"}
var classes = []string{"[ab]", "[a-c]", "[!a]", "[^b]", "[.-0]", "[a-]", "[-a]", "[a-c-e]", "[!a-c]", "[!.]", "[b-a]", "[^^]", "[!!]"}
// the classes of the generators that admit '/'
var slashClasses = []string{"[!a]", "[^b]", "[.-0]", "[!a-c]", "[!.]", "[^^]", "[!!]"}
var atoms = []string{"a", "b", "c", ".", "-", "*", "?", "[ab]", "[!a]", "[a-c]", "_"}

func genComp(r *rand.Rand) string {
	switch x := r.Intn(100); {
	case x < 38:
		return literals[r.Intn(len(literals))]
	case x < 46:
		return "*"
	case x < 56:
		return "**"
	case x < 59:
		return "?"
	case x < 66:
		return literals[r.Intn(len(literals))][:1] + "*"
	case x < 72:
		return "*" + literals[r.Intn(len(literals))][:1]
	case x < 75:
		return "*." + literals[r.Intn(3)]
	case x < 80:
		return classes[r.Intn(len(classes))]
	case x < 85:
		return literals[r.Intn(3)] + classes[r.Intn(len(classes))] + literals[r.Intn(3)]
	case x < 88:
		return classes[r.Intn(len(classes))] + "*"
	default:
		n := 1 + r.Intn(4)
		var sb strings.Builder
		for i := 0; i < n; i++ {
			sb.WriteString(atoms[r.Intn(len(atoms))])
		}
		return sb.String()
	}
}

// inGrammar enforces the harness restrictions stated in Model/IgnoreMutagen.v:
// no run of three or more '*', no two adjacent "**" components, no final
// "**" component right after a component that ends in '*' (checked on the
// cleaned text too, since cleaning can bring components together), and no
// '*' in a component that has a class admitting '/'.
func inGrammar(body string) bool {
	cleaned := pathpkg.Clean(body)
	// (iv) a component with a class that admits '/' contains no '*': with a
	// star in play doublestar's single-backtrack-point search makes the outcome
	// depend on where the class happens to be tried (e.g. "*[!a]*" does not
	// match ".hg/a-c" although "[!a]" could take the '/').
	for _, comp := range strings.Split(body, "/") {
		if strings.Contains(comp, "*") {
			for _, c := range slashClasses {
				if strings.Contains(comp, c) {
					return false
				}
			}
		}
	}
	return !strings.Contains(cleaned, "***") && !strings.Contains(cleaned, "**/**") &&
		!strings.Contains(body, "***") && !strings.Contains(body, "**/**") &&
		!strings.HasSuffix(strings.TrimSuffix(cleaned, "/"), "*/**")
}

func genGlob(r *rand.Rand) string {
	for {
		n := 1 + r.Intn(3)
		if r.Intn(12) == 0 {
			n = 4
		}
		parts := make([]string, n)
		for i := range parts {
			parts[i] = genComp(r)
		}
		g := strings.Join(parts, "/")
		if inGrammar(g) {
			return g
		}
	}
}

var malformed = []string{"", "!", "/", "//", "!/", "!//", "[a", "a[", "[]", "[!]", "[^]a", "a/[b", "./", ".", "..", "../a", "a/..", "/.", "a/./b", "a//b", "/a//b/", "a/../b", "!a/../..", "a/b/../..", "[a-", "[!", "[a-]]", "!!a", "a!b", "^a", "]a", "a]"}

func genPattern(r *rand.Rand) string {
	if r.Intn(14) == 0 {
		return malformed[r.Intn(len(malformed))]
	}
	for {
		body := genGlob(r)
		if r.Intn(4) == 0 {
			body = "/" + body
		}
		if r.Intn(4) == 0 {
			body += "/"
		}
		switch r.Intn(25) {
		case 0:
			body = "./" + body
		case 1:
			body = strings.Replace(body, "/", "//", 1)
		case 2:
			body = strings.Replace(body, "/", "/./", 1)
		case 3:
			body = "x/../" + body
		}
		if !inGrammar(body) {
			continue
		}
		if r.Intn(3) == 0 {
			body = "!" + body
		}
		return body
	}
}

func genPatterns(r *rand.Rand, max int) []string {
	n := 1 + r.Intn(max)
	out := make([]string, n)
	for i := range out {
		out[i] = genPattern(r)
	}
	return out
}

func genValidPatterns(r *rand.Rand, max int) []string {
	for {
		ps := genPatterns(r, max)
		if _, err := mutagenignore.NewIgnorer(ps); err == nil {
			return ps
		}
	}
}

// genMatching generates a pattern that matches the given path with high
// probability (so that lists of them exercise last-match-wins and the skip
// rules), with random polarity.
func genMatching(r *rand.Rand, path string, dir bool) string {
	parts := strings.Split(path, "/")
	base := parts[len(parts)-1]
	var p string
	switch r.Intn(12) {
	case 0:
		p = base
	case 1:
		p = "*"
	case 2:
		p = "/" + path
	case 3:
		p = "**/" + base
	case 4:
		p = base[:1] + "*"
	case 5:
		p = parts[0] + "/**"
	case 6:
		p = "/" + strings.Join(parts[:len(parts)-1], "/") + "/*"
		if len(parts) == 1 {
			p = "/*"
		}
	case 7:
		p = "**"
		if len(parts) > 1 {
			p = "**/" + parts[len(parts)-2] + "/**"
		}
	case 8:
		p = "?" + base[1:]
	case 9:
		p = base
		if dir {
			p += "/"
		}
	default:
		return genPattern(r)
	}
	if !inGrammar(p) {
		return genPattern(r)
	}
	if r.Intn(5) < 2 {
		p = "!" + p
	}
	return p
}

func genPath(r *rand.Rand) string {
	n := 1 + r.Intn(3)
	if r.Intn(10) == 0 {
		n = 4
	}
	parts := make([]string, n)
	for i := range parts {
		parts[i] = igntree.Names[r.Intn(len(igntree.Names))]
	}
	return strings.Join(parts, "/")
}

const header = "From Coq Require Import List Bool Arith String Ascii.\nImport ListNotations.\nFrom Mv Require Import Common.Bytes Model.Entry Model.IgnoreScan Model.IgnoreMutagen Harness.IgnoreMutagenH.\nOpen Scope string_scope.\nOpen Scope list_scope."

var propFlag = flag.String("prop", "C14", "C14, or C03 for the scan premise of C03 (ignored content never becomes synchronizable content of a snapshot)")

// mainC03 is the "-prop C03" mode: scans of real trees with the Mutagen-style
// ignorer (optionally wrapped by IgnoreVCS), judged by Harness/ScanIgnoredH.v.
func mainC03(cfg *hx.Config) {
	w := hx.NewWriter(cfg, igntree.C03Header, "c3case", "c03scan_failures", 150)
	w.Rule = igntree.C03Rule
	add := func(c Case, origin string) {
		if w.Aborted || c.Tree == nil {
			return
		}
		var coq string
		var nt bool
		var tags []string
		if w.Guard(c, 5*time.Second, func() {
			ig, err := newIgnorer(c.Raws, c.Vcs)
			if err != nil {
				panic(err)
			}
			coq, nt, tags = igntree.C03Case(c.Tree, ig)
		}) {
			w.Add(hx.Case{Coq: coq, Replay: c, Nontrivial: nt, Tags: append(tags, "syntax:mutagen"), Origin: origin})
		}
	}
	if cfg.Replay != "" {
		b, err := os.ReadFile(cfg.Replay)
		if err != nil {
			panic(err)
		}
		var wrapper struct {
			Case Case `json:"case"`
		}
		if err := json.Unmarshal(b, &wrapper); err != nil {
			panic(err)
		}
		add(wrapper.Case, "replay")
		w.Close()
		return
	}
	r := cfg.Rand
	scale := 1
	if cfg.Thorough() {
		scale = 25
	}
	for t := 0; t < 30*scale; t++ {
		tree := igntree.Random(r, 4, 4, igntree.Names)
		for j := 0; j < 6; j++ {
			add(Case{K: "scan", Raws: genValidPatterns(r, 4), Vcs: r.Intn(3) == 0, Tree: tree}, "random")
		}
	}
	w.Close()
	fmt.Printf("cases %d\n", w.Total())
}

func main() {
	cfg := hx.Parse()
	if *propFlag == "C03" {
		mainC03(cfg)
		return
	}
	w := hx.NewWriter(cfg, header, "mcase", "ignm_failures", 200)
	w.Rule = "a case = one call of the real code with its result: doublestar.Match (glob), newIgnorePattern (parse), NewIgnorer+Ignore with or without IgnoreVCS (ignore), core.Scan of a real temporary tree (scan), the VCS name table (vcs); distinct = distinct Coq terms; non-trivial = glob: a pattern with a wildcard or class that matches; parse: cleaning changed the pattern; ignore: patterns of both polarities match the path (last-match-wins decides); scan: at least one directory was pruned"
	add := func(c Case, origin string) {
		if w.Aborted {
			return
		}
		var coq string
		var nt bool
		var tags []string
		if w.Guard(c, 5*time.Second, func() { coq, nt, tags = runCase(c) }) {
			w.Add(hx.Case{Coq: coq, Replay: c, Nontrivial: nt, Tags: tags, Origin: origin})
		}
	}

	if cfg.Replay != "" {
		b, err := os.ReadFile(cfg.Replay)
		if err != nil {
			panic(err)
		}
		var wrapper struct {
			Case Case `json:"case"`
		}
		if err := json.Unmarshal(b, &wrapper); err != nil {
			panic(err)
		}
		add(wrapper.Case, "replay")
		w.Close()
		return
	}

	for _, raw := range hx.LoadCorpus(cfg.Corpus) {
		var c Case
		if json.Unmarshal(raw, &c) == nil && c.K != "" {
			add(c, "corpus")
		}
	}

	// the table tie, every run
	add(Case{K: "vcs"}, "exhaustive")

	// Exhaustive small scopes.
	compAlpha := []string{"a", "b", "*", "?", "**", "a*", "[!a]", "[ab]"}
	nameAlpha := []string{"a", "b", "ab"}
	maxComps := 2
	if cfg.Thorough() {
		maxComps = 3
	}
	var pats, namesList []string
	var build func(alpha []string, prefix []string, depth, max int, out *[]string)
	build = func(alpha []string, prefix []string, depth, max int, out *[]string) {
		if depth > 0 {
			*out = append(*out, strings.Join(prefix, "/"))
		}
		if depth == max {
			return
		}
		for _, a := range alpha {
			build(alpha, append(append([]string{}, prefix...), a), depth+1, max, out)
		}
	}
	build(compAlpha, nil, 0, maxComps, &pats)
	build(nameAlpha, nil, 0, map[bool]int{false: 2, true: 3}[cfg.Thorough()], &namesList)
	nGlob := 0
	for _, p := range pats {
		if !inGrammar(p) {
			continue
		}
		for _, n := range namesList {
			add(Case{K: "glob", Pat: p, Name: n}, "exhaustive")
			nGlob++
		}
	}
	patAlpha := []string{"a", "!a", "/a", "a/", "a/b", "!a/b", "*", "**/b", "!b", "!**/a/"}
	pathAlpha := []string{"a", "b", "a/b", "b/a", "a/b/a"}
	var lists [][]string
	for _, p := range patAlpha {
		lists = append(lists, []string{p})
		for _, q := range patAlpha {
			lists = append(lists, []string{p, q})
		}
	}
	if cfg.Thorough() {
		for _, p := range patAlpha {
			for _, q := range patAlpha {
				for _, s := range patAlpha {
					lists = append(lists, []string{p, q, s})
				}
			}
		}
	}
	nIgn := 0
	for _, l := range lists {
		for _, p := range pathAlpha {
			for _, d := range []bool{false, true} {
				add(Case{K: "ignore", Raws: l, Path: p, Dir: d}, "exhaustive")
				nIgn++
			}
		}
	}
	w.Extra["exhaustive_scope"] = fmt.Sprintf("glob: every pattern of 1..%d components over %v (minus the stated restrictions) against every name of 1..%d components over %v (%d cases); ignore: every list of 1..%d patterns over %v against paths %v, file and directory (%d cases); the VCS table", maxComps, compAlpha, map[bool]int{false: 2, true: 3}[cfg.Thorough()], nameAlpha, nGlob, map[bool]int{false: 2, true: 3}[cfg.Thorough()], patAlpha, pathAlpha, nIgn)

	// Seeded random cases.
	r := cfg.Rand
	scale := 1
	if cfg.Thorough() {
		scale = 25
	}
	for i := 0; i < 900*scale; i++ {
		add(Case{K: "glob", Pat: genGlob(r), Name: genPath(r)}, "random")
	}
	for i := 0; i < 400*scale; i++ {
		add(Case{K: "parse", Pat: genPattern(r)}, "random")
	}
	for i := 0; i < 1000*scale; i++ {
		add(Case{K: "ignore", Raws: genPatterns(r, 6), Path: genPath(r), Dir: r.Intn(2) == 0, Vcs: r.Intn(4) == 0}, "random")
	}
	for i := 0; i < 1000*scale; i++ {
		path, dir := genPath(r), r.Intn(2) == 0
		raws := make([]string, 2+r.Intn(6))
		for j := range raws {
			raws[j] = genMatching(r, path, dir)
		}
		add(Case{K: "ignore", Raws: raws, Path: path, Dir: dir, Vcs: r.Intn(8) == 0}, "random")
	}
	for t := 0; t < 40*scale; t++ {
		tree := igntree.Random(r, 4, 4, igntree.Names)
		for j := 0; j < 6; j++ {
			add(Case{K: "scan", Raws: genValidPatterns(r, 4), Vcs: r.Intn(3) == 0, Tree: tree}, "random")
		}
	}
	w.Close()
	fmt.Printf("cases %d\n", w.Total())
}
