// Harness for C41: drives a real local endpoint (local.NewEndpoint, watching
// disabled) on a temporary root with random orders of Scan / Stage / Supply /
// Transition calls interleaved with external modifications of the root, and
// emits every history with what the endpoint returned as a Coq term for
// Harness/LocalEndpointH.v.
//
// Contents and digests are renamed to short identifiers (lepx.Ids); the Coq
// side instantiates the hash function with the identity on identifiers.
package main

import (
	"context"
	"encoding/json"
	"flag"
	"fmt"
	"os"
	"path/filepath"
	"strings"
	"sync"
	"time"

	"github.com/mutagen-io/mutagen/pkg/synchronization"
	"github.com/mutagen-io/mutagen/pkg/synchronization/core"
	"github.com/mutagen-io/mutagen/pkg/synchronization/rsync"

	"verifharness/internal/coretree"
	"verifharness/internal/hx"
	"verifharness/internal/lepx"
)

// Item is one staging request item: a path and the content whose digest is
// requested (Raw: a digest of no known content; Empty: the empty digest).
type Item struct {
	Path    string `json:"p"`
	Content string `json:"c"`
	Raw     string `json:"raw,omitempty"`
	Empty   bool   `json:"empty,omitempty"`
}

// Chg is one symbolic transition: set(path, content), del(path),
// mkdir(path, n files) or bogus (an Old entry larger than the root). Old is
// taken from the last snapshot Scan returned.
type Chg struct {
	K       string `json:"k"`
	Path    string `json:"p"`
	Content string `json:"c,omitempty"`
	N       int    `json:"n,omitempty"`
}

// Edit is one external modification of the root.
type Edit struct {
	K       string `json:"k"` // write remove copy rename rmtree
	Path    string `json:"p"`
	To      string `json:"to,omitempty"`
	Content string `json:"c,omitempty"`
}

// Op is one step of a history.
type Op struct {
	K      string   `json:"k"` // scan stage supply trans edit junk restart
	N      int      `json:"n,omitempty"` // junk: number of leftover temporary files put into the staging root
	Req    []Item   `json:"req,omitempty"`
	BadLen bool     `json:"badlen,omitempty"`
	Src    []string `json:"src,omitempty"` // supply: per needed path ok|other|missing
	Upto   int      `json:"upto,omitempty"`
	Chs    []Chg    `json:"chs,omitempty"`
	Edit   *Edit    `json:"edit,omitempty"`
}

// Case is a configuration, an initial root and a history.
type Case struct {
	RO          bool              `json:"ro"`
	Max         uint64            `json:"max"`
	Neighboring bool              `json:"neighboring,omitempty"`
	Init        map[string]string `json:"init"`
	Ops         []Op              `json:"ops"`
}

type result struct {
	coq   string
	nt    bool
	tags  []string
	panic string
}

var (
	scratch *lepx.Scratch
	fixed   bool
	seq     int
	seqMu   sync.Mutex
)

func nextSession() string {
	seqMu.Lock()
	defer seqMu.Unlock()
	seq++
	return fmt.Sprintf("s%06d", seq)
}

func writeFile(root, rel string, content []byte, tmpdir string) {
	full := filepath.Join(root, filepath.FromSlash(rel))
	// never turn an existing file into a directory or vice versa here
	if err := os.MkdirAll(filepath.Dir(full), 0o755); err != nil {
		return
	}
	if st, err := os.Lstat(full); err == nil && st.IsDir() {
		return
	}
	tmp, err := os.CreateTemp(tmpdir, "w")
	if err != nil {
		panic(err)
	}
	tmp.Write(content)
	tmp.Close()
	os.Chmod(tmp.Name(), 0o644)
	if err := os.Rename(tmp.Name(), full); err != nil {
		os.Remove(tmp.Name())
	}
}

func applyEdit(root string, e *Edit, tmpdir string) {
	full := func(p string) string { return filepath.Join(root, filepath.FromSlash(p)) }
	switch e.K {
	case "write":
		writeFile(root, e.Path, []byte(e.Content), tmpdir)
	case "remove":
		if st, err := os.Lstat(full(e.Path)); err == nil && !st.IsDir() {
			os.Remove(full(e.Path))
		}
	case "copy":
		if st, err := os.Lstat(full(e.Path)); err == nil && st.Mode().IsRegular() {
			b, _ := os.ReadFile(full(e.Path))
			writeFile(root, e.To, b, tmpdir)
		}
	case "rename":
		if st, err := os.Lstat(full(e.Path)); err == nil && st.Mode().IsRegular() {
			if st2, err := os.Lstat(full(e.To)); err == nil && st2.IsDir() {
				return
			}
			if os.MkdirAll(filepath.Dir(full(e.To)), 0o755) == nil {
				os.Rename(full(e.Path), full(e.To))
			}
		}
	case "rmtree":
		if e.Path != "" {
			os.RemoveAll(full(e.Path))
		}
	}
}

func coqDisk(ids *lepx.Ids, d lepx.Disk) string {
	items := make([]string, 0, len(d.Files))
	for _, p := range d.Paths() {
		items = append(items, fmt.Sprintf("(%s, %s)", coretree.Str(p), coretree.Str(ids.Content(d.Files[p]))))
	}
	return fmt.Sprintf("(Dk %d %s)", d.Count, hx.List(items))
}

func strList(xs []string) string {
	items := make([]string, len(xs))
	for i, x := range xs {
		items[i] = coretree.Str(x)
	}
	return hx.List(items)
}

func entries(ids *lepx.Ids, es []*core.Entry) string {
	items := make([]string, len(es))
	for i, e := range es {
		items[i] = coretree.Entry(ids.RenameEntry(e))
	}
	return hx.List(items)
}

func stageErr(err error) string {
	m := err.Error()
	switch {
	case strings.Contains(m, "read-only"):
		return "EReadOnly"
	case strings.Contains(m, "path count does not match"):
		return "ELength"
	case strings.Contains(m, "multiple staging operations performed without scan"):
		return "ENoScan"
	case strings.Contains(m, "staging would exceeded allowed entry count"):
		return "ELimit"
	case strings.Contains(m, "unable to query file staging status"):
		return "EQuery"
	}
	return "EOtherStage"
}

func transErr(err error) string {
	m := err.Error()
	switch {
	case strings.Contains(m, "read-only"):
		return "TReadOnly"
	case strings.Contains(m, "multiple transition operations performed without scan"):
		return "TNoScan"
	case strings.Contains(m, "requires removing more entries than exist"):
		return "TRemoveMore"
	}
	return "TOtherErr"
}

func runCase(c Case) (res result) {
	defer func() {
		if r := recover(); r != nil {
			res.panic = fmt.Sprint(r)
		}
	}()
	ids := lepx.NewIds()
	session := nextSession()
	base := scratch.Dir(session)
	defer os.RemoveAll(base)
	root := filepath.Join(base, "root")
	src := filepath.Join(base, "src")
	tmpdir := filepath.Join(base, "tmp")
	for _, d := range []string{root, src, tmpdir} {
		os.MkdirAll(d, 0o755)
	}
	for p, content := range c.Init {
		writeFile(root, p, []byte(content), tmpdir)
	}
	cfg := &synchronization.Configuration{
		MaximumEntryCount: c.Max,
		WatchMode:         synchronization.WatchMode_WatchModeNoWatch,
		StageMode:         synchronization.StageMode_StageModeMutagen,
	}
	if c.Neighboring {
		cfg.StageMode = synchronization.StageMode_StageModeNeighboring
	}
	alpha := false
	if c.RO {
		cfg.SynchronizationMode = core.SynchronizationMode_SynchronizationModeOneWaySafe
		alpha = true
	}
	ep := lepx.NewEndpoint(nil, root, session, cfg, alpha)
	defer func() { ep.Shutdown() }()
	stagingRoot := filepath.Join(os.Getenv("MUTAGEN_DATA_DIRECTORY"), "staging", session+"-beta")
	junk := 0
	sep := lepx.NewEndpoint(nil, src, session+"src", &synchronization.Configuration{
		WatchMode: synchronization.WatchMode_WatchModeNoWatch}, true)
	defer sep.Shutdown()

	ctx := context.Background()
	disk0 := lepx.Walk(root)
	var lastSnap *core.Entry
	var needed []string
	var sigs []*rsync.Signature
	var receiver rsync.Receiver
	expected := map[string]string{} // needed path -> content requested
	var hops []string
	tags := []string{}
	sawOmit, sawRefusal := false, false
	for _, o := range c.Ops {
		tags = append(tags, "op:"+o.K)
		switch o.K {
		case "scan":
			snap, err, _ := ep.Scan(ctx, nil, false)
			if err != nil {
				if strings.Contains(err.Error(), "exceeded allowed entry count") {
					hops = append(hops, fmt.Sprintf("HScan (SEx %d)", lepx.Walk(root).Count))
					tags = append(tags, "scan:exceeded")
					sawRefusal = true
				} else {
					hops = append(hops, "HScan ScErr")
					tags = append(tags, "scan:error")
				}
			} else {
				lastSnap = snap.Content
				hops = append(hops, fmt.Sprintf("HScan (SOk %d)", snap.Content.Count()))
			}
		case "stage":
			paths := make([]string, 0, len(o.Req))
			digests := make([][]byte, 0, len(o.Req))
			dcoq := make([]string, 0, len(o.Req))
			for _, it := range o.Req {
				paths = append(paths, it.Path)
				var d []byte
				switch {
				case it.Empty:
					d = nil
				case it.Raw != "":
					d = lepx.Sha1([]byte("raw:" + it.Raw))
					ids.Digest(d)
				default:
					d = lepx.Sha1([]byte(it.Content))
					ids.Content([]byte(it.Content))
				}
				digests = append(digests, d)
				dcoq = append(dcoq, coretree.Str(ids.Digest(d)))
			}
			if o.BadLen && len(digests) > 0 {
				digests = digests[:len(digests)-1]
				dcoq = dcoq[:len(dcoq)-1]
			}
			pcoq := strList(paths)
			callPaths := append([]string(nil), paths...)
			fp, sg, rc, err := ep.Stage(callPaths, digests)
			if err != nil {
				k := stageErr(err)
				hops = append(hops, fmt.Sprintf("HStage %s %s (StErr %s)", pcoq, hx.List(dcoq), k))
				tags = append(tags, "stage:"+k)
				sawRefusal = true
			} else {
				fp = append([]string(nil), fp...)
				hops = append(hops, fmt.Sprintf("HStage %s %s (StOk %s)", pcoq, hx.List(dcoq), strList(fp)))
				if len(fp) < len(paths) {
					tags = append(tags, "stage:omitted")
					sawOmit = true
				}
				if len(fp) > 0 {
					tags = append(tags, "stage:needed")
					needed, sigs, receiver = fp, sg, rc
					expected = map[string]string{}
					for _, it := range o.Req {
						if it.Raw == "" && !it.Empty {
							expected[it.Path] = it.Content
						}
					}
				}
			}
		case "supply":
			if receiver == nil {
				continue
			}
			upto := len(needed)
			if o.Upto > 0 && o.Upto < upto {
				upto = o.Upto
			}
			// what the source holds at each path (for a path requested twice
			// the last specification wins: both transmissions read that file)
			final := map[string][]byte{}
			for i := 0; i < upto; i++ {
				p := needed[i]
				mode := "ok"
				if i < len(o.Src) {
					mode = o.Src[i]
				}
				switch mode {
				case "missing":
					final[p] = nil
				case "other":
					final[p] = []byte("other:" + p)
				default:
					if e, ok := expected[p]; ok {
						final[p] = []byte(e)
					} else {
						final[p] = []byte("unknown:" + p)
					}
				}
			}
			delivered := make([]string, 0, upto)
			for i := 0; i < upto; i++ {
				p := needed[i]
				content := final[p]
				os.RemoveAll(filepath.Join(src, filepath.FromSlash(p)))
				if content != nil {
					writeFile(src, p, content, tmpdir)
				} else {
					content = []byte{}
				}
				delivered = append(delivered, coretree.Str(ids.Content(content)))
			}
			if err := sep.Supply(needed[:upto], sigs[:upto], receiver); err != nil {
				panic("Supply: " + err.Error())
			}
			receiver, needed, sigs = nil, nil, nil
			hops = append(hops, "HSupply "+hx.List(delivered))
			os.RemoveAll(src)
			os.MkdirAll(src, 0o755)
		case "trans":
			var chs []*core.Change
			for _, ch := range o.Chs {
				old := lepx.At(lastSnap, ch.Path)
				var nw *core.Entry
				switch ch.K {
				case "set":
					nw = &core.Entry{Kind: core.EntryKind_File, Digest: lepx.Sha1([]byte(ch.Content))}
				case "del":
				case "mkdir":
					nw = &core.Entry{Kind: core.EntryKind_Directory}
					if ch.N > 0 {
						nw.Contents = map[string]*core.Entry{}
						for i := 0; i < ch.N; i++ {
							nw.Contents[fmt.Sprintf("f%d", i)] = &core.Entry{Kind: core.EntryKind_File,
								Digest: lepx.Sha1([]byte(fmt.Sprintf("%s#%d", ch.Content, i)))}
						}
					}
				case "bogus":
					old = &core.Entry{Kind: core.EntryKind_Directory, Contents: map[string]*core.Entry{}}
					for i := 0; i < ch.N; i++ {
						old.Contents[fmt.Sprintf("g%d", i)] = &core.Entry{Kind: core.EntryKind_File, Digest: lepx.Sha1([]byte("g"))}
					}
				}
				chs = append(chs, &core.Change{Path: ch.Path, Old: old, New: nw})
			}
			renamed := make([]*core.Change, len(chs))
			for i, ch := range chs {
				renamed[i] = &core.Change{Path: ch.Path, Old: ids.RenameEntry(ch.Old), New: ids.RenameEntry(ch.New)}
			}
			receiver, needed, sigs = nil, nil, nil
			results, problems, missing, err := ep.Transition(ctx, chs)
			post := lepx.Walk(root)
			var obs string
			switch {
			case err != nil:
				k := transErr(err)
				obs = "TrErr " + k
				tags = append(tags, "trans:"+k)
				sawRefusal = true
			case len(problems) == 1 && problems[0].Path == "" && strings.Contains(problems[0].Error, "transitioning would exceeded allowed entry count"):
				obs = "TrLimit " + entries(ids, results)
				tags = append(tags, "trans:limit")
				sawRefusal = true
			default:
				obs = fmt.Sprintf("TD %s %d %v", entries(ids, results), len(problems), missing)
				tags = append(tags, "trans:done")
			}
			env := fmt.Sprintf("(Env %s %s %d %v)", coqDisk(ids, post), entries(ids, results), len(problems), missing)
			hops = append(hops, fmt.Sprintf("HTrans %s %s (%s)", coretree.Changes(renamed), env, obs))
		case "junk":
			// leftovers of an interrupted staging operation: uncommitted
			// temporary files in the staging root
			os.MkdirAll(stagingRoot, 0o700)
			for i := 0; i < o.N; i++ {
				junk++
				os.WriteFile(filepath.Join(stagingRoot, fmt.Sprintf("storage%09d", junk)), []byte("partial"), 0o600)
			}
		case "restart":
			// the endpoint goes away without a Transition (staging is kept); a
			// new instance takes over the same root and staging root
			ep.Shutdown()
			ep = lepx.NewEndpoint(nil, root, session, cfg, alpha)
			receiver, needed, sigs = nil, nil, nil
			lastSnap = nil
			hops = append(hops, "HRestart")
		case "edit":
			receiver, needed, sigs = nil, nil, nil
			applyEdit(root, o.Edit, tmpdir)
			hops = append(hops, "HEdit "+coqDisk(ids, lepx.Walk(root)))
			tags = append(tags, "edit:"+o.Edit.K)
		}
	}
	max := "None"
	if c.Max == 0 {
		tags = append(tags, "max:default")
	} else {
		max = fmt.Sprintf("(Some %d)", c.Max)
		tags = append(tags, "max:small")
	}
	if c.RO {
		tags = append(tags, "readonly")
	}
	res.coq = fmt.Sprintf("(%v, %v, %s, %s,\n  %s)", fixed, c.RO, max, coqDisk(ids, disk0), hx.List(hops))
	res.nt = sawOmit && sawRefusal
	res.tags = tags
	return
}

// ---------- generation ----------

var filePaths = []string{"a", "b", "c", "d/x", "d/y", "e/z/w", "k"}
var dirPaths = []string{"d", "e", "e/z", "n"}
var contents = []string{"", "A", "B", "hello", "hello world", "0123456789abcdef0123456789abcdef"}

func genCase(r interface{ Intn(int) int }) Case {
	c := Case{Init: map[string]string{}}
	if r.Intn(10) == 0 {
		c.RO = true
	}
	if r.Intn(3) != 0 {
		c.Max = uint64(2 + r.Intn(11))
	}
	c.Neighboring = r.Intn(4) == 0
	for i, n := 0, r.Intn(5); i < n; i++ {
		c.Init[filePaths[r.Intn(len(filePaths))]] = contents[r.Intn(len(contents))]
	}
	n := 4 + r.Intn(12)
	outstanding := false
	for i := 0; i < n; i++ {
		k := r.Intn(100)
		switch {
		case k < 28:
			c.Ops = append(c.Ops, Op{K: "scan"})
		case k < 55:
			op := Op{K: "stage"}
			m := r.Intn(5)
			if r.Intn(12) == 0 {
				m = 0
			}
			used := map[string]Item{}
			for j := 0; j < m; j++ {
				it := Item{Path: filePaths[r.Intn(len(filePaths))], Content: contents[r.Intn(len(contents))]}
				if prev, dup := used[it.Path]; dup {
					op.Req = append(op.Req, prev)
					continue
				}
				switch r.Intn(14) {
				case 0:
					it.Raw = fmt.Sprintf("%d", r.Intn(3))
				case 1:
					if r.Intn(3) == 0 {
						it.Empty = true
					}
				}
				used[it.Path] = it
				op.Req = append(op.Req, it)
				if r.Intn(8) == 0 { // identical duplicate
					op.Req = append(op.Req, it)
				}
			}
			op.BadLen = r.Intn(25) == 0
			if c.RO {
				// a read-only endpoint checks its arguments first: exercise the
				// empty request and the length mismatch there in particular
				switch r.Intn(3) {
				case 0:
					op.Req = nil
				case 1:
					op.BadLen = len(op.Req) > 0
				}
			}
			c.Ops = append(c.Ops, op)
			outstanding = true
		case k < 67:
			if !outstanding {
				c.Ops = append(c.Ops, Op{K: "scan"})
				continue
			}
			op := Op{K: "supply"}
			for j := 0; j < 6; j++ {
				switch r.Intn(8) {
				case 0:
					op.Src = append(op.Src, "other")
				case 1:
					op.Src = append(op.Src, "missing")
				default:
					op.Src = append(op.Src, "ok")
				}
			}
			if r.Intn(5) == 0 {
				op.Upto = 1 + r.Intn(3)
			}
			c.Ops = append(c.Ops, op)
			outstanding = false
		case k < 82:
			op := Op{K: "trans"}
			m := 1 + r.Intn(3)
			for j := 0; j < m; j++ {
				switch r.Intn(10) {
				case 0, 1, 2, 3:
					op.Chs = append(op.Chs, Chg{K: "set", Path: filePaths[r.Intn(len(filePaths))], Content: contents[r.Intn(len(contents))]})
				case 4, 5:
					if r.Intn(2) == 0 {
						op.Chs = append(op.Chs, Chg{K: "del", Path: filePaths[r.Intn(len(filePaths))]})
					} else {
						op.Chs = append(op.Chs, Chg{K: "del", Path: dirPaths[r.Intn(len(dirPaths))]})
					}
				case 6, 7, 8:
					op.Chs = append(op.Chs, Chg{K: "mkdir", Path: dirPaths[r.Intn(len(dirPaths))], N: r.Intn(5), Content: contents[r.Intn(len(contents))]})
				default:
					op.Chs = append(op.Chs, Chg{K: "bogus", Path: dirPaths[r.Intn(len(dirPaths))], N: 1 + r.Intn(20)})
				}
			}
			c.Ops = append(c.Ops, op)
			outstanding = false
		default:
			outstanding = false
			e := &Edit{Path: filePaths[r.Intn(len(filePaths))], To: filePaths[r.Intn(len(filePaths))], Content: contents[r.Intn(len(contents))]}
			switch r.Intn(10) {
			case 0, 1, 2, 3:
				e.K = "write"
			case 4:
				e.K = "remove"
			case 5, 6:
				e.K = "copy"
			case 7, 8:
				e.K = "rename"
			default:
				e.K = "rmtree"
				e.Path = dirPaths[r.Intn(len(dirPaths))]
			}
			c.Ops = append(c.Ops, Op{K: "edit", Edit: e})
		}
	}
	return c
}

const header = "From Coq Require Import List Bool NArith String.\nImport ListNotations.\nFrom Mv Require Import Common.Bytes Model.Entry Model.Staging Model.LocalEndpoint Harness.LocalEndpointH.\nLocal Open Scope string_scope."

func main() {
	flag.BoolVar(&fixed, "fixed", false, "expect Stage with the repaired limit test")
	cfg := hx.Parse()
	if strings.Contains(os.Getenv("VERIF_FIXED"), "C41") {
		fixed = true
	}
	scratch = lepx.NewScratch()
	defer scratch.Remove()
	w := hx.NewWriter(cfg, header, "lcase", "lep_failures", 250)
	w.Rule = "a case = (fixed, readOnly, maximumEntryCount, initial root, history of Scan/Stage/Supply/Transition/external-edit steps with what the real endpoint returned); distinct = distinct Coq terms; non-trivial = at least one Stage that omitted a requested file and at least one refused call (guard, limit or read-only)"
	emit := func(c Case, origin string, r result) {
		if w.Aborted {
			return
		}
		if w.Guard(c, 5*time.Second, func() {
			if r.panic != "" {
				panic(r.panic)
			}
		}) {
			w.Add(hx.Case{Coq: r.coq, Replay: c, Nontrivial: r.nt, Tags: r.tags, Origin: origin})
		}
	}
	runAll := func(cases []Case, origin string) {
		results := make([]result, len(cases))
		var wg sync.WaitGroup
		sem := make(chan struct{}, 16)
		for i := range cases {
			wg.Add(1)
			sem <- struct{}{}
			go func(i int) {
				defer wg.Done()
				defer func() { <-sem }()
				done := make(chan result, 1)
				go func() { done <- runCase(cases[i]) }()
				select {
				case r := <-done:
					results[i] = r
				case <-time.After(20 * time.Second):
					results[i] = result{panic: "hang: no return within 20s"}
				}
			}(i)
		}
		wg.Wait()
		for i := range cases {
			emit(cases[i], origin, results[i])
		}
	}
	if cfg.Replay != "" {
		b, err := os.ReadFile(cfg.Replay)
		if err != nil {
			panic(err)
		}
		var wrapper struct {
			Case Case `json:"case"`
		}
		if err := json.Unmarshal(b, &wrapper); err != nil {
			panic(err)
		}
		runAll([]Case{wrapper.Case}, "replay")
		w.Close()
		return
	}
	var corpus []Case
	for _, raw := range hx.LoadCorpus(cfg.Corpus) {
		var c Case
		if json.Unmarshal(raw, &c) == nil && len(c.Ops) > 0 {
			corpus = append(corpus, c)
		}
	}
	runAll(corpus, "corpus")
	// resumed staging: many digest prefixes and leftover temporary files in the
	// staging root, a new endpoint instance, the same request again
	nr := 3
	if cfg.Thorough() {
		nr = 12
	}
	resumed := make([]Case, nr)
	for i := range resumed {
		var req []Item
		for j := 0; j < 10+cfg.Rand.Intn(3); j++ { // small: the checker's alignment search is exponential in the request length
			req = append(req, Item{Path: fmt.Sprintf("r/f%03d", j), Content: fmt.Sprintf("resumed %d %d", i, j)})
		}
		resumed[i] = Case{Init: map[string]string{"a": "A"}, Ops: []Op{
			{K: "junk", N: 280 + cfg.Rand.Intn(100)}, {K: "scan"}, {K: "stage", Req: req}, {K: "supply"},
			{K: "junk", N: 280 + cfg.Rand.Intn(100)}, {K: "restart"}, {K: "scan"}, {K: "stage", Req: req},
			{K: "supply"}, {K: "scan"}, {K: "stage", Req: req[:5]}}}
	}
	runAll(resumed, "resumed")
	n := 2500
	if cfg.Thorough() {
		n = 40000
	}
	for done := 0; done < n; {
		k := 2000
		if n-done < k {
			k = n - done
		}
		batch := make([]Case, k)
		for i := range batch {
			batch[i] = genCase(cfg.Rand)
		}
		runAll(batch, "random")
		done += k
	}
	w.Close()
	fmt.Printf("cases %d\n", w.Total())
}
