// Harness for C44: drives the real logging.Logger (NewLogger, Sublogger, the
// level methods and Logger.Writer) into a recording sink with random messages
// and relayed byte streams containing LF, CR, ESC sequences and forged log
// prefixes, and emits every case with the records the sink received (one per
// Write call) as a Coq term of type Model.Logging.lcase.
package main

import (
	"bytes"
	"encoding/json"
	"fmt"
	"os"
	"strings"
	"time"

	"github.com/mutagen-io/mutagen/pkg/logging"
	"github.com/mutagen-io/mutagen/pkg/stream"

	"verifharness/internal/hx"
)

// Case is the replay form.
type Case struct {
	Lvl    int      `json:"lvl"`              // logger level 0..5
	Names  [][]byte `json:"names,omitempty"`  // chain of Sublogger names
	Act    string   `json:"act"`              // log | logf | relay
	Level  int      `json:"level"`            // level of the call / of Writer(level)
	Msg    []byte   `json:"msg,omitempty"`    // log, logf
	Writes [][]byte `json:"writes,omitempty"` // relay
}

// sink records every Write call separately.
type sink struct{ recs [][]byte }

func (s *sink) Write(p []byte) (int, error) {
	s.recs = append(s.recs, append([]byte(nil), p...))
	return len(p), nil
}

func (s *sink) take() string {
	items := make([]string, len(s.recs))
	for i, r := range s.recs {
		items[i] = hx.Bytes(r)
	}
	s.recs = nil
	return hx.List(items)
}

func bytesList(bs [][]byte) string {
	items := make([]string, len(bs))
	for i, b := range bs {
		items[i] = hx.Bytes(b)
	}
	return hx.List(items)
}

func errCoq(err error) string {
	switch err {
	case nil:
		return "ENil"
	case stream.ErrMaximumBufferSizeExceeded:
		return "EMax"
	}
	return "EUnk"
}

func runCase(c Case) (coq string, nontrivial bool, tags []string) {
	s := &sink{}
	l := logging.NewLogger(logging.Level(c.Lvl), s)
	for _, n := range c.Names {
		l = l.Sublogger(string(n))
	}
	build := s.take()
	tags = append(tags, "act:"+c.Act, fmt.Sprintf("logger-level:%d", c.Lvl), fmt.Sprintf("scope-depth:%d", min(len(c.Names), 3)))
	if l == nil {
		tags = append(tags, "nil-logger")
	}
	var all []byte
	switch c.Act {
	case "log", "logf":
		m := string(c.Msg)
		f := c.Act == "logf"
		switch c.Level {
		case 1:
			if f {
				l.Errorf("%s", m)
			} else {
				l.Error(m)
			}
		case 2:
			if f {
				l.Warnf("%s", m)
			} else {
				l.Warn(m)
			}
		case 3:
			if f {
				l.Infof("%s", m)
			} else {
				l.Info(m)
			}
		case 4:
			if f {
				l.Debugf("%s", m)
			} else {
				l.Debug(m)
			}
		case 5:
			if f {
				l.Tracef("%s", m)
			} else {
				l.Trace(m)
			}
		default:
			panic("harness: log level out of the API's range")
		}
		coq = fmt.Sprintf("LC %d %s (ALog %d %s) (OLog %s %s)", c.Lvl, bytesList(c.Names), c.Level, hx.Bytes(c.Msg), build, s.take())
		all = c.Msg
	case "relay":
		w := l.Writer(logging.Level(c.Level))
		res := make([]string, len(c.Writes))
		for i, d := range c.Writes {
			n, err := w.Write(d)
			res[i] = fmt.Sprintf("RR %d%%N %s %s", n, errCoq(err), s.take())
			all = append(all, d...)
		}
		coq = fmt.Sprintf("LC %d %s (ARelay %d %s) (ORelay %s %s)", c.Lvl, bytesList(c.Names), c.Level, bytesList(c.Writes), build, hx.List(res))
	default:
		panic("unknown act " + c.Act)
	}
	if bytes.IndexByte(all, '\r') >= 0 {
		tags = append(tags, "has:CR")
		nontrivial = true
	}
	if bytes.IndexByte(all, 0x1b) >= 0 {
		tags = append(tags, "has:ESC")
		nontrivial = true
	}
	if i := bytes.IndexByte(all, '\n'); i >= 0 && (c.Act != "relay" || i < len(all)-1) {
		tags = append(tags, "has:LF")
		nontrivial = true
	}
	if bytes.Contains(all, []byte("] ")) && bytes.Contains(all, []byte(" [")) {
		tags = append(tags, "forged-prefix")
		nontrivial = true
	}
	return
}

const header = "From Coq Require Import List Arith ZArith NArith.\nImport ListNotations.\nFrom Mv Require Import Model.Stream Model.Logging Harness.LoggingH."

func main() {
	cfg := hx.Parse()
	w := hx.NewWriter(cfg, header, "lcase", "logging_failures", 250)
	w.Rule = "a case = (logger level, Sublogger names, one log call or a byte stream relayed through Logger.Writer in several writes, the records received by the sink: one per Write call); distinct = distinct Coq terms (the real timestamps make most terms distinct; they are compared by layout only); non-trivial = the message / stream contains a CR, an ESC, an LF before its end, or a forged log prefix"
	add := func(c Case, origin string) {
		if w.Aborted {
			return
		}
		var coq string
		var nt bool
		var tags []string
		if w.Guard(c, 5*time.Second, func() { coq, nt, tags = runCase(c) }) {
			w.Add(hx.Case{Coq: coq, Replay: c, Nontrivial: nt, Tags: tags, Origin: origin})
		}
	}

	if cfg.Replay != "" {
		b, err := os.ReadFile(cfg.Replay)
		if err != nil {
			panic(err)
		}
		var wrapper struct {
			Case Case `json:"case"`
		}
		if err := json.Unmarshal(b, &wrapper); err != nil {
			panic(err)
		}
		add(wrapper.Case, "replay")
		w.Close()
		return
	}

	for _, raw := range hx.LoadCorpus(cfg.Corpus) {
		var c Case
		if json.Unmarshal(raw, &c) == nil && c.Act != "" {
			add(c, "corpus")
		}
	}

	// ---- exhaustive small scope ----
	alpha := []byte{'a', '\n', '\r', 0x1b}
	maxl := 4
	if cfg.Thorough() {
		maxl = 5
	}
	scopes := [][][]byte{nil, {[]byte("s")}}
	for l := 0; l <= maxl; l++ {
		total := 1
		for i := 0; i < l; i++ {
			total *= len(alpha)
		}
		for v := 0; v < total; v++ {
			m := make([]byte, l)
			x := v
			for i := range m {
				m[i] = alpha[x%len(alpha)]
				x /= len(alpha)
			}
			sc := scopes[v%2]
			act := "log"
			if v%3 == 0 {
				act = "logf"
			}
			add(Case{Lvl: 3, Names: sc, Act: act, Level: 1 + v%3, Msg: m}, "exhaustive")
			add(Case{Lvl: 3, Names: scopes[(v+1)%2], Act: "relay", Level: 1 + v%3, Writes: [][]byte{m[:l/2], m[l/2:], []byte("\n")}}, "exhaustive")
		}
	}
	// forged prefixes: every level letter (and two invalid ones) against every logger level
	const stamp = "2021-03-04 05:06:07.123456"
	for _, letter := range []byte("_EWIDTX?e") {
		for lvl := 0; lvl <= 5; lvl++ {
			for _, sc := range scopes {
				line := []byte(stamp + " [" + string(letter) + "] [remote] hello\x1b[2J\n")
				add(Case{Lvl: lvl, Names: sc, Act: "relay", Level: 2, Writes: [][]byte{line}}, "exhaustive")
				add(Case{Lvl: lvl, Names: sc, Act: "log", Level: 1 + lvl%5, Msg: line[:len(line)-1]}, "exhaustive")
			}
		}
	}
	// near misses of the prefix shape: one byte of a valid prefix changed
	valid := []byte(stamp + " [I] ")
	for i := range valid {
		for _, repl := range []byte{'x', '0', ' ', '\r'} {
			if valid[i] == repl {
				continue
			}
			line := append([]byte(nil), valid...)
			line[i] = repl
			line = append(line, []byte("msg\n")...)
			add(Case{Lvl: 4, Names: scopes[i%2], Act: "relay", Level: 1, Writes: [][]byte{line}}, "exhaustive")
		}
	}
	// invalid Sublogger names
	for _, n := range []string{"", "a b", "a.b", "ok", "A_9", "\n", "x\x1b", "é"} {
		for lvl := 0; lvl <= 3; lvl++ {
			add(Case{Lvl: lvl, Names: [][]byte{[]byte("p"), []byte(n), []byte("q")}, Act: "log", Level: 1, Msg: []byte("m")}, "exhaustive")
			add(Case{Lvl: lvl, Names: [][]byte{[]byte(n)}, Act: "relay", Level: 1, Writes: [][]byte{[]byte("m\n")}}, "exhaustive")
		}
	}
	w.Extra["exhaustive_scope"] = fmt.Sprintf("all messages / relayed streams of length 0..%d over {a, LF, CR, ESC} (streams cut into two writes); a forged prefix with every level letter _EWIDT and X ? e against every logger level 0..5, scoped and unscoped; every single-byte corruption of a valid prefix; valid and invalid Sublogger names", maxl)

	// ---- seeded random ----
	r := cfg.Rand
	n := 1500
	if cfg.Thorough() {
		n = 20000
	}
	words := []string{"hello", "error:", "x", "", " ", "rm -rf", "[E]", "] ", " ["}
	randStamp := func() string {
		d := func(k int) string {
			out := make([]byte, k)
			for i := range out {
				out[i] = byte('0' + r.Intn(10))
			}
			return string(out)
		}
		return d(4) + "-" + d(2) + "-" + d(2) + " " + d(2) + ":" + d(2) + ":" + d(2) + "." + d(6)
	}
	piece := func() []byte {
		switch r.Intn(12) {
		case 0:
			return []byte("\n")
		case 1:
			return []byte("\r")
		case 2:
			return []byte("\r\n")
		case 3:
			return []byte("\x1b[31m")
		case 4:
			return []byte("\x1b]0;title\x07")
		case 5: // a forged prefix, mostly well formed
			p := randStamp() + " [" + string("_EWIDTX"[r.Intn(7)]) + "] "
			if r.Intn(3) == 0 {
				p += "[fake.scope] "
			}
			if r.Intn(6) == 0 {
				b := []byte(p)
				b[r.Intn(len(b))] = byte(r.Intn(256))
				return b
			}
			return []byte(p)
		case 6:
			return []byte{byte(r.Intn(256))}
		default:
			return []byte(words[r.Intn(len(words))])
		}
	}
	randBytes := func() []byte {
		var out []byte
		for k := r.Intn(7); k > 0; k-- {
			out = append(out, piece()...)
		}
		return out
	}
	randNames := func() [][]byte {
		var names [][]byte
		for k := r.Intn(3); k > 0; k-- {
			switch r.Intn(8) {
			case 0:
				names = append(names, []byte("bad name"))
			default:
				names = append(names, []byte([]string{"sync", "a", "B_2", "forward7"}[r.Intn(4)]))
			}
		}
		return names
	}
	for i := 0; i < n; i++ {
		c := Case{Lvl: r.Intn(6), Names: randNames()}
		if r.Intn(2) == 0 {
			c.Act = []string{"log", "logf"}[r.Intn(2)]
			c.Level = 1 + r.Intn(5)
			c.Msg = randBytes()
		} else {
			c.Act = "relay"
			c.Level = r.Intn(7)
			stream := randBytes()
			for k := r.Intn(3); k > 0; k-- {
				stream = append(stream, '\n')
				stream = append(stream, randBytes()...)
			}
			if r.Intn(2) == 0 {
				stream = append(stream, '\n')
			}
			// cut the stream at random points (possibly inside a prefix or a CR LF)
			for len(stream) > 0 {
				k := 1 + r.Intn(len(stream))
				if r.Intn(3) == 0 {
					k = len(stream)
				}
				c.Writes = append(c.Writes, stream[:k])
				stream = stream[k:]
			}
		}
		add(c, "random")
	}
	w.Close()
	fmt.Println(strings.TrimSpace(fmt.Sprintf("cases %d", w.Total())))
}
