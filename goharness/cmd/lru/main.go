// Harness for C45: drives the real lru.Cache with operation sequences and
// emits each sequence with the implementation's results (returned values,
// lengths, eviction-callback invocations per operation) as a Coq term.
package main

import (
	"encoding/json"
	"fmt"
	"os"
	"time"

	"github.com/mutagen-io/mutagen/pkg/container/lru"

	"verifharness/internal/hx"
)

// Op is one operation: A(dd) k v, G(et) k, R(emove) k, L(en).
type Op struct {
	K   string `json:"k"`
	Key int    `json:"key,omitempty"`
	Val int    `json:"val,omitempty"`
}

// Case is a capacity and an operation sequence.
type Case struct {
	Cap int  `json:"cap"`
	Ops []Op `json:"ops"`
}

func kvs(l [][2]int) string {
	items := make([]string, len(l))
	for i, x := range l {
		items[i] = fmt.Sprintf("(%d, %d)", x[0], x[1])
	}
	return hx.List(items)
}

func runCase(c Case) (string, bool, []string) {
	var evicted [][2]int
	cache := lru.New[int, int](c.Cap, func(k, v int) { evicted = append(evicted, [2]int{k, v}) })
	ops := make([]string, len(c.Ops))
	res := make([]string, len(c.Ops))
	var tags []string
	evictions, hits := 0, 0
	for i, o := range c.Ops {
		evicted = nil
		tags = append(tags, "op:"+o.K)
		switch o.K {
		case "A":
			cache.Add(o.Key, o.Val)
			ops[i] = fmt.Sprintf("A %d %d", o.Key, o.Val)
			res[i] = "Ra " + kvs(evicted)
			evictions += len(evicted)
		case "G":
			v, ok := cache.Get(o.Key)
			ops[i] = fmt.Sprintf("G %d", o.Key)
			if ok {
				res[i] = fmt.Sprintf("Rg (Some %d)", v)
				hits++
			} else {
				res[i] = "Rg None"
			}
			if len(evicted) != 0 {
				// a callback during Get is not representable: make it visible
				res[i] = "Ra " + kvs(evicted)
			}
		case "R":
			cache.Remove(o.Key)
			ops[i] = fmt.Sprintf("Rm %d", o.Key)
			res[i] = "Rr " + kvs(evicted)
			evictions += len(evicted)
		case "L":
			ops[i] = "Ln"
			res[i] = fmt.Sprintf("Rl %d", cache.Len())
			if len(evicted) != 0 {
				res[i] = "Ra " + kvs(evicted)
			}
		default:
			panic("unknown op")
		}
	}
	if evictions > 0 {
		tags = append(tags, "evicted")
	}
	tags = append(tags, fmt.Sprintf("cap:%d", min(c.Cap, 9)))
	return fmt.Sprintf("(%d, %s, %s)", c.Cap, hx.List(ops), hx.List(res)), evictions > 0 && hits > 0, tags
}

const header = "From Coq Require Import List Arith.\nImport ListNotations.\nFrom Mv Require Import Model.Lru Harness.LruH."

func main() {
	cfg := hx.Parse()
	w := hx.NewWriter(cfg, header, "lcase", "lru_failures", 500)
	w.Rule = "a case = (capacity, operation sequence, implementation results incl. callback invocations per operation); distinct = distinct Coq terms; non-trivial = at least one callback invocation and at least one Get hit"
	add := func(c Case, origin string) {
		if w.Aborted {
			return
		}
		var coq string
		var nt bool
		var tags []string
		if w.Guard(c, 5*time.Second, func() { coq, nt, tags = runCase(c) }) {
			w.Add(hx.Case{Coq: coq, Replay: c, Nontrivial: nt, Tags: tags, Origin: origin})
		}
	}
	if cfg.Replay != "" {
		b, err := os.ReadFile(cfg.Replay)
		if err != nil {
			panic(err)
		}
		var wrapper struct {
			Case Case `json:"case"`
		}
		if err := json.Unmarshal(b, &wrapper); err != nil {
			panic(err)
		}
		add(wrapper.Case, "replay")
		w.Close()
		return
	}
	for _, raw := range hx.LoadCorpus(cfg.Corpus) {
		var c Case
		if json.Unmarshal(raw, &c) == nil {
			add(c, "corpus")
		}
	}
	// Exhaustive: all sequences up to maxLen over 3 keys; Add values are the
	// position in the sequence (so updates are visible); capacities 0..3.
	alphabet := []Op{{K: "A", Key: 0}, {K: "A", Key: 1}, {K: "A", Key: 2},
		{K: "G", Key: 0}, {K: "G", Key: 1}, {K: "G", Key: 2},
		{K: "R", Key: 0}, {K: "R", Key: 1}, {K: "L"}}
	maxLen := 3
	if cfg.Thorough() {
		maxLen = 5
	}
	for capacity := 0; capacity <= 3; capacity++ {
		for l := 1; l <= maxLen; l++ {
			idx := make([]int, l)
			for {
				ops := make([]Op, l, l+4)
				for i, a := range idx {
					ops[i] = alphabet[a]
					if ops[i].K == "A" {
						ops[i].Val = 10 + i
					}
				}
				ops = append(ops, Op{K: "L"}, Op{K: "G", Key: 0}, Op{K: "G", Key: 1}, Op{K: "G", Key: 2})
				add(Case{Cap: capacity, Ops: ops}, "exhaustive")
				j := l - 1
				for j >= 0 {
					idx[j]++
					if idx[j] < len(alphabet) {
						break
					}
					idx[j] = 0
					j--
				}
				if j < 0 {
					break
				}
			}
		}
	}
	w.Extra["exhaustive_scope"] = fmt.Sprintf("all sequences of length 1..%d over a %d-operation alphabet (3 keys), capacities 0..3, each followed by Len and Get of every key", maxLen, len(alphabet))
	nRandom := 4000
	if cfg.Thorough() {
		nRandom = 100000
	}
	r := cfg.Rand
	for i := 0; i < nRandom; i++ {
		capacity := r.Intn(6)
		keys := 2 + r.Intn(8)
		n := 5 + r.Intn(45)
		ops := make([]Op, n)
		for j := range ops {
			switch r.Intn(10) {
			case 0, 1, 2, 3:
				ops[j] = Op{K: "A", Key: r.Intn(keys), Val: 100 + j}
			case 4, 5, 6:
				ops[j] = Op{K: "G", Key: r.Intn(keys)}
			case 7, 8:
				ops[j] = Op{K: "R", Key: r.Intn(keys)}
			default:
				ops[j] = Op{K: "L"}
			}
		}
		add(Case{Cap: capacity, Ops: ops}, "random")
	}
	w.Close()
	fmt.Printf("cases %d\n", w.Total())
}
