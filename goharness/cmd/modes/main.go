// Harness for C01 and C02 (synchronization modes).
//
//	-prop c01: runs core.Reconcile in two-way-safe mode (a seed-dependent stride
//	           through the enumerated small scope, then random deeper triples)
//	           and emits (mode, ancestor, alpha, beta, plan) as rcase terms for
//	           Harness/C01H.v.
//	-prop c02: the same generators under the other three modes (RC cases), plus
//	           observations of the real local endpoint (GC cases): for every
//	           configured mode and both roles, local.NewEndpoint is created on a
//	           temporary root, scanned once, and asked to Stage a non-empty
//	           request and to perform a non-empty Transition; the harness records
//	           whether each call was refused and whether the root and the
//	           endpoint's staging store are unchanged. Request shapes 2 and 3 ask
//	           only for content whose digest already exists in the endpoint's own
//	           root (a copy/rename pushed back), so that nothing would have to be
//	           transmitted; a read-only endpoint must refuse those as well.
package main

import (
	"context"
	"crypto/sha1"
	"encoding/json"
	"flag"
	"fmt"
	"io/fs"
	"os"
	"path/filepath"
	"sort"
	"strings"
	"time"

	"github.com/mutagen-io/mutagen/pkg/filesystem"
	"github.com/mutagen-io/mutagen/pkg/synchronization"
	"github.com/mutagen-io/mutagen/pkg/synchronization/core"
	"github.com/mutagen-io/mutagen/pkg/synchronization/endpoint/local"

	"verifharness/internal/coretree"
	"verifharness/internal/hx"
)

// GuardCase is the replay form of one endpoint observation.
type GuardCase struct {
	Alpha bool `json:"alpha"`
	Mode  int  `json:"mode"` // 0 = left unset in the configuration, 1..4 as in core.SynchronizationMode
	Req   int  `json:"req"`  // request variant: 0,1 = new content; 2,3 = content already present in the root
}

// Case is the replay form of one case: a reconcile case, or (Guard != nil) an
// endpoint observation.
type Case struct {
	Mode  int         `json:"mode,omitempty"`
	Anc   *coretree.J `json:"anc,omitempty"`
	Alpha *coretree.J `json:"alpha,omitempty"`
	Beta  *coretree.J `json:"beta,omitempty"`
	Guard *GuardCase  `json:"guard,omitempty"`
}

var modeNames = map[int]string{1: "TwoWaySafe", 2: "TwoWayResolved", 3: "OneWaySafe", 4: "OneWayReplica"}

func kindTag(e *core.Entry) string {
	if e == nil {
		return "nil"
	}
	return e.Kind.String()
}

func hasUnsync(e *core.Entry) bool {
	if e == nil {
		return false
	}
	if e.Kind != core.EntryKind_Directory && e.Kind != core.EntryKind_File && e.Kind != core.EntryKind_SymbolicLink {
		return true
	}
	for _, c := range e.Contents {
		if hasUnsync(c) {
			return true
		}
	}
	return false
}

func runReconcile(c Case) (string, bool, []string) {
	anc, alpha, beta := coretree.FromJ(c.Anc), coretree.FromJ(c.Alpha), coretree.FromJ(c.Beta)
	ancCh, alphaCh, betaCh, conflicts := core.Reconcile(anc, alpha, beta, core.SynchronizationMode(c.Mode))
	coq := fmt.Sprintf("(%s, %s, %s, %s, mkplan %s %s %s %s)", modeNames[c.Mode],
		coretree.Entry(anc), coretree.Entry(alpha), coretree.Entry(beta),
		coretree.Changes(ancCh), coretree.Changes(alphaCh), coretree.Changes(betaCh), coretree.Conflicts(conflicts))
	tags := []string{"mode:" + modeNames[c.Mode]}
	if len(alphaCh) > 0 {
		tags = append(tags, "out:alpha-changes")
	}
	if len(betaCh) > 0 {
		tags = append(tags, "out:beta-changes")
	}
	if len(conflicts) > 0 {
		tags = append(tags, "out:conflicts")
	}
	if len(ancCh) > 0 {
		tags = append(tags, "out:ancestor-changes")
	}
	if hasUnsync(alpha) || hasUnsync(beta) {
		tags = append(tags, "in:unsynchronizable")
	}
	tags = append(tags, "root:"+kindTag(anc)+"/"+kindTag(alpha)+"/"+kindTag(beta))
	nontrivial := len(alphaCh)+len(betaCh)+len(conflicts) > 0
	return coq, nontrivial, tags
}

// ---------- endpoint observations ----------

// snapshotRoot returns a canonical description of everything below root.
func snapshotRoot(root string) string {
	var items []string
	filepath.WalkDir(root, func(p string, d fs.DirEntry, err error) error {
		if err != nil {
			items = append(items, p+" !"+err.Error())
			return nil
		}
		rel, _ := filepath.Rel(root, p)
		info, _ := d.Info()
		item := rel + " " + info.Mode().String()
		if info.Mode().IsRegular() {
			b, _ := os.ReadFile(p)
			item += " " + fmt.Sprintf("%x", sha1.Sum(b))
		} else if info.Mode()&os.ModeSymlink != 0 {
			t, _ := os.Readlink(p)
			item += " -> " + t
		}
		items = append(items, item)
		return nil
	})
	sort.Strings(items)
	return strings.Join(items, "\n")
}

func coqBool(b bool) string {
	if b {
		return "true"
	}
	return "false"
}

func runGuard(g GuardCase, scratch string) (string, bool, []string) {
	base, err := os.MkdirTemp(scratch, "ep-")
	if err != nil {
		panic(err)
	}
	defer os.RemoveAll(base)
	// every observation gets its own Mutagen data directory, so that the
	// staging store seen below belongs to this endpoint alone
	dataDir := filepath.Join(base, "data")
	os.Setenv("MUTAGEN_DATA_DIRECTORY", dataDir)
	stagingDir := filepath.Join(dataDir, filesystem.MutagenSynchronizationStagingDirectoryName)
	root := filepath.Join(base, "root")
	if err := os.MkdirAll(filepath.Join(root, "sub"), 0o755); err != nil {
		panic(err)
	}
	if err := os.WriteFile(filepath.Join(root, "keep"), []byte("original"), 0o644); err != nil {
		panic(err)
	}
	if err := os.WriteFile(filepath.Join(root, "sub", "inner"), []byte("inner"), 0o644); err != nil {
		panic(err)
	}
	cfg := &synchronization.Configuration{
		SynchronizationMode: core.SynchronizationMode(g.Mode),
		WatchMode:           synchronization.WatchMode_WatchModeNoWatch,
		StageMode:           synchronization.StageMode_StageModeMutagen,
	}
	session := fmt.Sprintf("sync_guard%d_%v_%d", g.Mode, g.Alpha, g.Req)
	ep, err := local.NewEndpoint(nil, root, session, synchronization.Version_Version1, cfg, g.Alpha)
	if err != nil {
		panic(fmt.Errorf("NewEndpoint: %w", err))
	}
	defer ep.Shutdown()
	ctx := context.Background()
	snapshot, err, _ := ep.Scan(ctx, nil, true)
	if err != nil {
		panic(fmt.Errorf("Scan: %w", err))
	}
	// digests of existing content as the endpoint itself computed them
	keepEntry := snapshot.Content.GetContents()["keep"]
	innerEntry := snapshot.Content.GetContents()["sub"].GetContents()["inner"]
	if keepEntry == nil || innerEntry == nil || len(keepEntry.Digest) == 0 || len(innerEntry.Digest) == 0 {
		panic("scan did not report the prepared files")
	}
	before := snapshotRoot(root)
	stagingBefore := snapshotRoot(stagingDir)

	// A non-empty staging request.
	content := []byte("staged content")
	digest := sha1.Sum(content)
	paths := []string{"new-file"}
	digests := [][]byte{digest[:]}
	switch g.Req {
	case 1:
		paths = []string{"sub/new-file", "other"}
		digests = [][]byte{digest[:], digest[:]}
	case 2:
		// a copy of an existing file: satisfiable from the root itself
		paths = []string{"copy-of-keep"}
		digests = [][]byte{keepEntry.Digest}
	case 3:
		// several copies/renames, all satisfiable from the root itself
		paths = []string{"renamed-inner", "sub/copy-of-keep", "sub/inner-again"}
		digests = [][]byte{innerEntry.Digest, keepEntry.Digest, innerEntry.Digest}
	}
	_, _, _, stageErr := ep.Stage(paths, digests)
	// (Transition finalizes the stager, which wipes the store: look now)
	stagingAfterStage := snapshotRoot(stagingDir)

	// A non-empty transition: create a directory (needs no staged content),
	// or delete an existing file exactly as scanned.
	var transitions []*core.Change
	if g.Req == 0 || g.Req == 2 {
		transitions = []*core.Change{{Path: "new-dir", New: &core.Entry{Kind: core.EntryKind_Directory}}}
	} else {
		d := sha1.Sum([]byte("original"))
		transitions = []*core.Change{
			{Path: "keep", Old: &core.Entry{Kind: core.EntryKind_File, Digest: d[:]}},
			{Path: "new-dir", New: &core.Entry{Kind: core.EntryKind_Directory}},
		}
	}
	_, _, _, transitionErr := ep.Transition(ctx, transitions)
	after := snapshotRoot(root)
	stagingAfter := snapshotRoot(stagingDir)

	mode := "None"
	if g.Mode != 0 {
		mode = "(Some " + modeNames[g.Mode] + ")"
	}
	coq := fmt.Sprintf("(GC (mkobs %s %s %s %s %s %s))", coqBool(g.Alpha), mode,
		coqBool(stageErr != nil), coqBool(transitionErr != nil), coqBool(before == after),
		coqBool(stagingBefore == stagingAfterStage && stagingBefore == stagingAfter))
	tags := []string{"guard", fmt.Sprintf("guard:alpha=%v", g.Alpha), fmt.Sprintf("guard:mode=%d", g.Mode), fmt.Sprintf("guard:req=%d", g.Req)}
	if stagingBefore != stagingAfterStage || stagingBefore != stagingAfter {
		tags = append(tags, "guard:staging-store-changed")
	}
	if stageErr != nil {
		tags = append(tags, "guard:stage-refused")
	}
	if transitionErr != nil {
		tags = append(tags, "guard:transition-refused")
	}
	return coq, stageErr != nil || transitionErr != nil, tags
}

const header = "From Coq Require Import List String.\nImport ListNotations.\nOpen Scope string_scope.\nFrom Mv Require Import Common.Bytes Model.Entry Model.Reconcile Harness.ReconcileH."

func main() {
	prop := flag.String("prop", "c01", "c01|c02")
	cfg := hx.Parse()
	var hdr, caseType, fn string
	var modes []int
	switch *prop {
	case "c01":
		hdr, caseType, fn = header+"\nFrom Mv Require Import Harness.C01H.", "rcase", "c01_failures"
		modes = []int{1}
	case "c02":
		hdr, caseType, fn = header+"\nFrom Mv Require Import Model.CheckC02 Harness.C02H.", "c02case", "c02_failures"
		modes = []int{2, 3, 4}
	default:
		fmt.Fprintln(os.Stderr, "unknown -prop")
		os.Exit(2)
	}
	wrap := func(s string) string {
		if *prop == "c02" {
			return "(RC " + s + ")"
		}
		return s
	}
	w := hx.NewWriter(cfg, hdr, caseType, fn, 250)
	w.Rule = "a reconcile case = (mode, ancestor, alpha, beta, plan returned by core.Reconcile); non-trivial = the plan contains at least one alpha/beta change or conflict; a guard case (c02 only) = one real local endpoint asked to Stage and to Transition, non-trivial = at least one of the two calls was refused; distinct = distinct Coq terms"

	scratch, err := os.MkdirTemp("", "verif-")
	if err != nil {
		panic(err)
	}
	defer os.RemoveAll(scratch)
	os.Setenv("MUTAGEN_DATA_DIRECTORY", filepath.Join(scratch, "data"))

	add := func(c Case, origin string) {
		if w.Aborted {
			return
		}
		var coq string
		var nt bool
		var tags []string
		ok := w.Guard(c, 5*time.Second, func() {
			if c.Guard != nil {
				coq, nt, tags = runGuard(*c.Guard, scratch)
			} else {
				coq, nt, tags = runReconcile(c)
				coq = wrap(coq)
			}
		})
		if ok {
			w.Add(hx.Case{Coq: coq, Replay: c, Nontrivial: nt, Tags: tags, Origin: origin})
		}
	}
	allowed := func(c Case) bool {
		if c.Guard != nil {
			return *prop == "c02"
		}
		for _, m := range modes {
			if m == c.Mode {
				return true
			}
		}
		return false
	}
	if cfg.Replay != "" {
		b, err := os.ReadFile(cfg.Replay)
		if err != nil {
			panic(err)
		}
		var wrapper struct {
			Case Case `json:"case"`
		}
		if err := json.Unmarshal(b, &wrapper); err != nil {
			panic(err)
		}
		add(wrapper.Case, "replay")
		w.Close()
		return
	}
	for _, raw := range hx.LoadCorpus(cfg.Corpus) {
		var c Case
		if json.Unmarshal(raw, &c) == nil && (c.Mode != 0 || c.Guard != nil) && allowed(c) {
			add(c, "corpus")
		}
	}

	// endpoint observations: every configured mode x both roles x two requests
	if *prop == "c02" {
		for mode := 0; mode <= 4; mode++ {
			for _, alpha := range []bool{true, false} {
				for req := 0; req < 4; req++ {
					add(Case{Guard: &GuardCase{Alpha: alpha, Mode: mode, Req: req}}, "exhaustive")
				}
			}
		}
		w.Extra["exhaustive"] = "endpoint guard: all 5 configured modes (unset, 1..4) x alpha/beta x 4 request shapes (2 asking for new content, 2 asking only for content already present in the endpoint's own root) on real local endpoints; root and staging store compared before/after"
	}

	r := cfg.Rand
	sides, ancestors := coretree.SmallScope()
	nA, nS := len(ancestors), len(sides)
	total := nA * nS * nS
	nStride, nSample, nRandom := 2200, 1200, 1400
	if cfg.Thorough() {
		nStride, nSample, nRandom = 60000, 20000, 20000
	}
	w.Extra["exhaustive_scope"] = fmt.Sprintf("scope of %d ancestors x %d alphas x %d betas (names {a,b}/{c}, depth <= 2, every entry kind) = %d triples per mode; this run walks %d of them with a seed-dependent stride, in modes %v", nA, nS, nS, total, nStride, modes)
	// a stride coprime with the size of the scope visits distinct triples
	const stride = 104729
	start := r.Intn(total)
	for k := 0; k < nStride; k++ {
		idx := (start + k*stride) % total
		anc := ancestors[idx/(nS*nS)]
		alpha := sides[(idx/nS)%nS]
		beta := sides[idx%nS]
		mode := modes[k%len(modes)]
		add(Case{Mode: mode, Anc: coretree.ToJ(anc), Alpha: coretree.ToJ(alpha), Beta: coretree.ToJ(beta)}, "exhaustive")
	}
	// sides derived from the ancestor by a few edits (most plans non-trivial)
	for i := 0; i < nSample; i++ {
		anc := ancestors[r.Intn(nA)]
		var alpha, beta *core.Entry
		if r.Intn(3) == 0 {
			alpha = sides[r.Intn(nS)]
		} else {
			alpha = coretree.Mutate(r, anc, 2, true)
		}
		if r.Intn(3) == 0 {
			beta = sides[r.Intn(nS)]
		} else {
			beta = coretree.Mutate(r, anc, 2, true)
		}
		add(Case{Mode: modes[r.Intn(len(modes))], Anc: coretree.ToJ(anc), Alpha: coretree.ToJ(alpha), Beta: coretree.ToJ(beta)}, "random")
	}
	// deeper and wider random triples
	for i := 0; i < nRandom; i++ {
		var anc *core.Entry
		if r.Intn(8) != 0 {
			anc = coretree.RandomEntry(r, 3, true)
		}
		alpha := coretree.Mutate(r, anc, 3, true)
		beta := coretree.Mutate(r, anc, 3, true)
		if r.Intn(6) == 0 {
			beta = coretree.Mutate(r, alpha, 3, true)
		}
		add(Case{Mode: modes[r.Intn(len(modes))], Anc: coretree.ToJ(anc), Alpha: coretree.ToJ(alpha), Beta: coretree.ToJ(beta)}, "random")
	}
	w.Close()
	fmt.Printf("cases %d\n", w.Total())
}
