package main

import (
	"context"
	"fmt"
	"math/rand"
	"strings"
	"sync"
	"time"

	"github.com/mutagen-io/mutagen/pkg/multiplexing"

	"verifharness/internal/hx"
)

// protocolErrors lists the protocol-violation returns of Multiplexer.read in
// source order; the index + 1 is perr_code in Model/MuxMon.v.
var protocolErrors = []string{
	"zero-value stream identifier received",
	"outbound stream identifier used by remote to open stream",
	"remote stream identifiers not monotonically increasing",
	"inbound stream identifier used by remote to accept stream",
	"received for unopened inbound stream identifier",
	"received for unused outbound stream identifier",
	"remote accepted the same stream twice",
	"remote accepted stream after closing it",
	"zero-length data received",
	"data received for partially established stream",
	"data received for write-closed stream",
	"data received for closed stream",
	"remote violated stream receive window",
	"zero-valued window increment received",
	"window increment received for partially established outbound stream",
	"window increment received for closed stream",
	"window increment overflows maximum value",
	"close write received for partially established outbound stream",
	"close write received for closed stream",
	"close write received for the same stream twice",
	"close received the same stream twice",
}

// classify maps InternalError() to 0 (nil), k >= 1 (protocol violation k) or
// -1 (anything else).
func classify(err error) int {
	if err == nil {
		return 0
	}
	s := err.Error()
	if strings.HasPrefix(s, "read error: ") {
		for k, m := range protocolErrors {
			if strings.Contains(s, m) {
				return k + 1
			}
		}
	}
	return -1
}

// IOp is one step of an inject case.
type IOp struct {
	K string `json:"k"`           // F frame, O open, A accept, R read, C close
	F *Frame `json:"f,omitempty"` // F
	I uint64 `json:"i,omitempty"` // R, C: stream
	N int    `json:"n,omitempty"` // R: buffer length
}

// InjectCase feeds one real multiplexer (even = true) hand-made frames.
type InjectCase struct {
	W       int   `json:"w"`
	Backlog int   `json:"backlog"`
	Ops     []IOp `json:"ops"`
}

func streamID(s *multiplexing.Stream) uint64 {
	var id uint64
	fmt.Sscanf(s.LocalAddr().String(), "local:%d", &id)
	return id
}

func frameCoq(f Frame) string {
	switch f.Kind {
	case kHb:
		return "H_"
	case kOpen:
		return fmt.Sprintf("O_ %d %d", f.ID, f.Val)
	case kAccept:
		return fmt.Sprintf("A_ %d %d", f.ID, f.Val)
	case kData:
		return fmt.Sprintf("D_ %d %s", f.ID, nlist(f.Data))
	case kIncr:
		return fmt.Sprintf("I_ %d %d", f.ID, f.Val)
	case kCW:
		return fmt.Sprintf("W_ %d", f.ID)
	default:
		return fmt.Sprintf("C_ %d", f.ID)
	}
}

func runInject(c InjectCase, fx string) (coq string, code int, tags []string) {
	ab, ba := newPipe(1<<22), newPipe(1<<22)
	car := &carrier{side: 1, in: ab, out: ba}
	m := multiplexing.Multiplex(car, true, &multiplexing.Configuration{
		StreamReceiveWindow: c.W, WriteBufferCount: 3, AcceptBacklog: c.Backlog})
	ctx, cancel := context.WithCancel(context.Background())
	defer func() {
		cancel()
		m.Close()
	}()

	// Watch the multiplexer's output for open frames.
	var outMu sync.Mutex
	opensSeen := 0
	outCond := sync.NewCond(&outMu)
	go func() {
		var d decoder
		buf := make([]byte, 4096)
		for {
			n, err := ba.read(buf)
			if n > 0 {
				outMu.Lock()
				d.buf = append(d.buf, buf[:n]...)
				for {
					f, ok := d.next(false)
					if !ok {
						break
					}
					if f.Kind == kOpen {
						opensSeen++
					}
				}
				outCond.Broadcast()
				outMu.Unlock()
			}
			if err != nil {
				outMu.Lock()
				outCond.Broadcast()
				outMu.Unlock()
				return
			}
		}
	}()

	streams := map[uint64]*multiplexing.Stream{}
	type openResult struct {
		s   *multiplexing.Stream
		err error
	}
	pendingOpen := map[uint64]chan openResult{}
	nextLocal := uint64(2)
	opsCoq := make([]string, 0, len(c.Ops))

	waitIdle := func() {
		deadline := time.Now().Add(3 * time.Second)
		for {
			if isClosedCh(m.Closed()) || ab.readerIdle() {
				return
			}
			if time.Now().After(deadline) {
				panic("inject: reader did not become idle")
			}
			time.Sleep(20 * time.Microsecond)
		}
	}

	for _, o := range c.Ops {
		tags = append(tags, "iop:"+o.K)
		switch o.K {
		case "F":
			ab.write(encodeFrame(*o.F))
			waitIdle()
			opsCoq = append(opsCoq, "IFrame ("+frameCoq(*o.F)+")")
			tags = append(tags, fmt.Sprintf("frame:%d", o.F.Kind))
			if ch, ok := pendingOpen[o.F.ID]; ok && (o.F.Kind == kAccept || o.F.Kind == kClose) {
				select {
				case r := <-ch:
					if r.err == nil {
						streams[o.F.ID] = r.s
					}
					delete(pendingOpen, o.F.ID)
				case <-time.After(3 * time.Second):
					panic("inject: OpenStream did not return after accept/close")
				}
			}
		case "O":
			id := nextLocal
			nextLocal += 2
			ch := make(chan openResult, 1)
			pendingOpen[id] = ch
			outMu.Lock()
			want := opensSeen + 1
			outMu.Unlock()
			go func() {
				s, err := m.OpenStream(ctx)
				ch <- openResult{s, err}
			}()
			deadline := time.Now().Add(3 * time.Second)
			outMu.Lock()
			for opensSeen < want && time.Now().Before(deadline) {
				select {
				case <-m.Closed():
					want = 0
				default:
					outMu.Unlock()
					time.Sleep(200 * time.Microsecond)
					outMu.Lock()
				}
			}
			outMu.Unlock()
			opsCoq = append(opsCoq, "IOpen")
		case "A":
			actx, acancel := context.WithTimeout(ctx, 40*time.Millisecond)
			s, err := m.AcceptStream(actx)
			acancel()
			got := uint64(0)
			if err == nil {
				got = streamID(s)
				streams[got] = s
			}
			opsCoq = append(opsCoq, fmt.Sprintf("IAccept %d", got))
		case "R":
			if s := streams[o.I]; s != nil {
				s.SetReadDeadline(time.Now().Add(12 * time.Millisecond))
				s.Read(make([]byte, o.N))
			}
			opsCoq = append(opsCoq, fmt.Sprintf("IRead %d %d", o.I, o.N))
		case "C":
			if s := streams[o.I]; s != nil {
				s.Close()
			}
			opsCoq = append(opsCoq, fmt.Sprintf("IClose %d", o.I))
		}
	}
	// Let a reader error travel to closeWithError.
	select {
	case <-m.Closed():
	case <-time.After(time.Millisecond):
	}
	if isClosedCh(m.Closed()) {
		time.Sleep(time.Millisecond)
	}
	code = classify(m.InternalError())
	tags = append(tags, fmt.Sprintf("verdict:%d", code))
	coq = fmt.Sprintf("KInject %s %d %d %s %d", fx, c.W, c.Backlog, hx.List(opsCoq), max(code, 0))
	if code < 0 {
		coq = fmt.Sprintf("KInject %s %d %d %s 999", fx, c.W, c.Backlog, hx.List(opsCoq))
	}
	return
}

func isClosedCh(c <-chan struct{}) bool {
	select {
	case <-c:
		return true
	default:
		return false
	}
}

// genInject produces a mostly valid random script, keeping a light shadow of
// the receiver so that blocking local calls are issued when they can return.
func genInject(r *rand.Rand) InjectCase {
	c := InjectCase{W: []int{0, 1, 4, 8}[r.Intn(4)], Backlog: 1 + r.Intn(3)}
	type sh struct{ user, rc, inBacklog, mineR, opening bool }
	shadow := map[uint64]*sh{}
	var backlog []uint64
	peerNext, localNext := uint64(1), uint64(2)
	known := func() uint64 {
		if len(shadow) == 0 || r.Intn(12) == 0 {
			return uint64(r.Intn(8))
		}
		k := r.Intn(len(shadow))
		for id := range shadow {
			if k == 0 {
				return id
			}
			k--
		}
		return 1
	}
	data := func(n int) []byte {
		b := make([]byte, n)
		for i := range b {
			b[i] = byte(1 + r.Intn(250))
		}
		return b
	}
	n := 3 + r.Intn(14)
	for len(c.Ops) < n {
		switch r.Intn(16) {
		case 0, 1, 2:
			id := peerNext
			switch r.Intn(12) {
			case 0:
				id = uint64(r.Intn(6))
			default:
				peerNext += 2
				if r.Intn(10) == 0 {
					peerNext += 2
				}
			}
			c.Ops = append(c.Ops, IOp{K: "F", F: &Frame{Kind: kOpen, ID: id, Val: uint64(r.Intn(6))}})
			if id%2 == 1 && shadow[id] == nil {
				if len(backlog) < c.Backlog {
					shadow[id] = &sh{inBacklog: true}
					backlog = append(backlog, id)
				}
			}
		case 3, 4:
			if len(backlog) > 0 && !shadow[backlog[0]].rc {
				id := backlog[0]
				backlog = backlog[1:]
				shadow[id].inBacklog = false
				shadow[id].user = true
				c.Ops = append(c.Ops, IOp{K: "A"})
			}
		case 5, 6, 7:
			c.Ops = append(c.Ops, IOp{K: "F", F: &Frame{Kind: kData, ID: known(), Data: data(r.Intn(c.W + 3))}})
		case 8, 9:
			c.Ops = append(c.Ops, IOp{K: "F", F: &Frame{Kind: kIncr, ID: known(), Val: uint64(r.Intn(4))}})
		case 10:
			c.Ops = append(c.Ops, IOp{K: "F", F: &Frame{Kind: kCW, ID: known()}})
		case 11:
			id := known()
			c.Ops = append(c.Ops, IOp{K: "F", F: &Frame{Kind: kClose, ID: id}})
			if s := shadow[id]; s != nil {
				s.rc = true
				if s.opening {
					s.opening = false
				}
			}
		case 12:
			c.Ops = append(c.Ops, IOp{K: "O"})
			shadow[localNext] = &sh{mineR: true, opening: true}
			localNext += 2
		case 13:
			id := known()
			c.Ops = append(c.Ops, IOp{K: "F", F: &Frame{Kind: kAccept, ID: id, Val: uint64(r.Intn(6))}})
			if s := shadow[id]; s != nil && s.opening {
				s.opening = false
				s.user = true
			}
		case 14:
			id := known()
			if s := shadow[id]; s != nil && s.user {
				c.Ops = append(c.Ops, IOp{K: "R", I: id, N: r.Intn(4)})
			}
		case 15:
			id := known()
			if s := shadow[id]; s != nil && s.user && r.Intn(2) == 0 {
				c.Ops = append(c.Ops, IOp{K: "C", I: id})
				delete(shadow, id)
			} else if r.Intn(4) == 0 {
				c.Ops = append(c.Ops, IOp{K: "F", F: &Frame{Kind: kHb}})
			}
		}
	}
	return c
}
