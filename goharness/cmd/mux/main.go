// Harness for C23/C24/C25 (the multiplexer). It runs the REAL
// pkg/multiplexing code in three ways and emits what it observed as Coq terms
// for coq/Harness/MuxH.v:
//   - constants and codec: the message kind bytes compiled into the package,
//     and bytes real multiplexers wrote together with the frames decoded
//     from them;
//   - inject cases (C24): one real multiplexer fed hand-made frames
//     interleaved with local calls; its reader's verdict is compared with the
//     model's transcription of Multiplexer.read;
//   - trace cases: two real multiplexers over an in-memory carrier pair that
//     records every frame in a global order, under random concurrent
//     workloads; the history is checked against the model's sender
//     discipline and check_C23/C24/C25 are applied to what the API showed.
package main

import (
	"encoding/json"
	"flag"
	"fmt"
	"math/rand"
	"os"
	"runtime/debug"
	"sync"
	"time"

	"github.com/mutagen-io/mutagen/pkg/multiplexing"

	"verifharness/internal/hx"
)

// Case is the replay form of any case of this harness.
type Case struct {
	Type     string      `json:"type"` // kinds | inject | trace | openrace
	Inject   *InjectCase `json:"inject,omitempty"`
	Workload *Workload   `json:"workload,omitempty"`
	Repeat   int         `json:"repeat,omitempty"`
}

const header = "From Coq Require Import List NArith Bool.\nImport ListNotations.\nFrom Mv Require Import Model.Mux Model.MuxCodec Model.MuxMon Harness.MuxH."

func main() {
	prop := flag.String("prop", "C24", "C23|C24|C25")
	fixed := flag.Bool("fixed", false, "the tree under test carries the C24 repairs (zero increment, open order)")
	cfg := hx.Parse()
	kinds, maxBlock := multiplexing.VerifMessageKinds()
	kindBytes = kinds

	if os.Getenv("VERIF_MUX_FIXED") == "1" {
		*fixed = true
	}
	fx := "FXu"
	if *fixed {
		fx = "FXf"
	}
	failFn := map[string]string{"C23": "mux_failures_c23", "C24": "mux_failures_c24", "C25": "mux_failures_c25"}[*prop]
	if failFn == "" {
		fmt.Fprintln(os.Stderr, "unknown -prop")
		os.Exit(2)
	}
	w := hx.NewWriter(cfg, header, "mcase", failFn, 120)
	w.Rule = "cases: kinds (constants), codec (bytes written by a real multiplexer vs the model decoder), inject (one real multiplexer fed frames + local calls; verdict of its reader vs the model), trace (two real multiplexers under a concurrent workload: global frame history vs the model's sender discipline, per-stream byte summaries, InternalError of both sides, call durations). distinct = distinct Coq terms; non-trivial = an inject case that reaches a protocol error or has >= 4 steps, or a trace with >= 2 streams or a data frame"
	w.Extra["fixed_flag"] = *fixed
	w.Extra["property"] = *prop
	traces := 0

	addKinds := func() {
		l := make([]int, 7)
		for i, k := range kinds {
			l[i] = int(k)
		}
		ok := maxBlock == 65535
		if !ok {
			l = append(l, maxBlock)
		}
		kb := make([]byte, len(l))
		for i, v := range l {
			kb[i] = byte(v)
		}
		ks := nlist(kb)
		if !ok {
			ks = "[]"
		}
		w.Add(hx.Case{Coq: "KKinds " + ks, Replay: Case{Type: "kinds"}, Origin: "exhaustive", Tags: []string{"kinds"}})
	}
	// Cases are run by a small pool (each has its own multiplexers) and
	// added in their original order. A panic or a hang of the code under
	// test is registered through the writer's watchdog.
	type job struct {
		c      Case
		origin string
	}
	type outcome struct {
		cases []hx.Case
		crash string
		hang  bool
	}
	var queue []job
	runJob := func(j job) (o outcome) {
		c := j.c
		switch c.Type {
		case "inject":
			coq, code, tags := runInject(*c.Inject, fx)
			o.cases = append(o.cases, hx.Case{Coq: coq, Replay: c, Nontrivial: code != 0 || len(c.Inject.Ops) >= 4, Tags: tags, Origin: j.origin})
		default:
			var res *traceResult
			used := *c.Workload
			rounds := max(c.Repeat, 1)
			for i := 0; i < rounds; i++ {
				wl := *c.Workload
				if c.Type == "openrace" || c.Type == "race" {
					wl.Seed += int64(i) // each round sweeps different delays
				}
				used = wl
				res = runWorkload(wl)
				if c.Type == "openrace" || c.Type == "race" {
					if res.errA > 0 || res.errB > 0 {
						break
					}
					continue
				}
				// timing: re-run once before reporting a late call
				if res.late && i == 0 && rounds == 1 {
					rounds = 2
					continue
				}
				break
			}
			coq, tags := traceCoq(used, res, fx)
			nt := len(c.Workload.Streams) >= 2
			for _, e := range res.events {
				if e.F.Kind == kData {
					nt = true
				}
			}
			tags = append(tags, "workload:"+c.Type)
			o.cases = append(o.cases, hx.Case{Coq: coq, Replay: c, Nontrivial: nt, Tags: tags, Origin: j.origin})
			// codec case from the first bytes each side wrote
			if j.origin != "corpus" && c.Workload.Seed%8 == 1 {
				for side := 0; side < 2; side++ {
					raw := res.raw[side]
					d := decoder{buf: append([]byte(nil), raw...)}
					var fs []string
					for {
						f, ok := d.next(true)
						if !ok {
							break
						}
						fs = append(fs, frameCoq(f))
					}
					used := raw[:len(raw)-len(d.buf)]
					if len(fs) > 0 && len(used) <= 300 {
						o.cases = append(o.cases, hx.Case{Coq: fmt.Sprintf("KCodec %s %s", nlist(used), hx.List(fs)), Replay: c,
							Nontrivial: true, Tags: []string{"codec"}, Origin: j.origin})
					}
				}
			}
		}
		return
	}
	flush := func(workers int) {
		outs := make([]outcome, len(queue))
		next := make(chan int)
		var wg sync.WaitGroup
		for k := 0; k < workers; k++ {
			wg.Add(1)
			go func() {
				defer wg.Done()
				for i := range next {
					done := make(chan outcome, 1)
					go func() {
						defer func() {
							if r := recover(); r != nil {
								done <- outcome{crash: fmt.Sprintf("panic: %v\n%s", r, debug.Stack())}
							}
						}()
						done <- runJob(queue[i])
					}()
					select {
					case o := <-done:
						outs[i] = o
					case <-time.After(30 * time.Second):
						outs[i] = outcome{hang: true}
					}
				}
			}()
		}
		for i := range queue {
			next <- i
		}
		close(next)
		wg.Wait()
		for i, o := range outs {
			if w.Aborted {
				break
			}
			switch {
			case o.hang:
				w.Guard(queue[i].c, 20*time.Millisecond, func() { select {} })
			case o.crash != "":
				msg := o.crash
				w.Guard(queue[i].c, 5*time.Second, func() { panic(msg) })
			default:
				for _, c := range o.cases {
					if c.Tags != nil && c.Tags[len(c.Tags)-1] != "codec" && queue[i].c.Type != "inject" {
						traces++
					}
					w.Add(c)
				}
			}
		}
		queue = queue[:0]
	}
	addInject := func(c InjectCase, origin string) {
		cc := c
		queue = append(queue, job{Case{Type: "inject", Inject: &cc}, origin})
	}
	addTrace := func(c Case, origin string) {
		queue = append(queue, job{c, origin})
	}
	dispatch := func(c Case, origin string) {
		switch c.Type {
		case "kinds":
			addKinds()
		case "inject":
			if *prop == "C24" {
				addInject(*c.Inject, origin)
			}
		case "trace", "openrace", "race":
			addTrace(c, origin)
		}
	}

	if cfg.Replay != "" {
		b, err := os.ReadFile(cfg.Replay)
		if err != nil {
			panic(err)
		}
		var wrapper struct {
			Case Case `json:"case"`
		}
		if err := json.Unmarshal(b, &wrapper); err != nil {
			panic(err)
		}
		dispatch(wrapper.Case, "replay")
		flush(1)
		w.Close()
		return
	}

	addKinds()
	for _, raw := range hx.LoadCorpus(cfg.Corpus) {
		var c Case
		if json.Unmarshal(raw, &c) == nil {
			dispatch(c, "corpus")
		}
	}

	r := cfg.Rand
	if *prop == "C24" {
		// exhaustive small scope: every pair (triple in the thorough tier)
		// of steps after a prefix that sets up one inbound and one outbound
		// established stream and one stream waiting in the backlog.
		prefix := []IOp{
			{K: "F", F: &Frame{Kind: kOpen, ID: 1, Val: 4}}, {K: "A"},
			{K: "O"}, {K: "F", F: &Frame{Kind: kAccept, ID: 2, Val: 4}},
			{K: "F", F: &Frame{Kind: kOpen, ID: 3, Val: 4}},
		}
		alphabet := []IOp{
			{K: "F", F: &Frame{Kind: kData, ID: 1, Data: []byte{7, 8, 9}}},
			{K: "F", F: &Frame{Kind: kData, ID: 2, Data: []byte{5}}},
			{K: "F", F: &Frame{Kind: kData, ID: 3, Data: []byte{6}}},
			{K: "F", F: &Frame{Kind: kData, ID: 1, Data: []byte{}}},
			{K: "F", F: &Frame{Kind: kData, ID: 5, Data: []byte{1}}},
			{K: "F", F: &Frame{Kind: kData, ID: 4, Data: []byte{1}}},
			{K: "F", F: &Frame{Kind: kIncr, ID: 1, Val: 2}},
			{K: "F", F: &Frame{Kind: kIncr, ID: 2, Val: 0}},
			{K: "F", F: &Frame{Kind: kIncr, ID: 1, Val: 18446744073709551615}},
			{K: "F", F: &Frame{Kind: kCW, ID: 1}},
			{K: "F", F: &Frame{Kind: kCW, ID: 2}},
			{K: "F", F: &Frame{Kind: kClose, ID: 1}},
			{K: "F", F: &Frame{Kind: kClose, ID: 2}},
			{K: "F", F: &Frame{Kind: kClose, ID: 3}},
			{K: "F", F: &Frame{Kind: kAccept, ID: 2, Val: 1}},
			{K: "F", F: &Frame{Kind: kAccept, ID: 1, Val: 1}},
			{K: "F", F: &Frame{Kind: kOpen, ID: 5, Val: 4}},
			{K: "F", F: &Frame{Kind: kOpen, ID: 3, Val: 4}},
			{K: "F", F: &Frame{Kind: kOpen, ID: 0, Val: 4}},
			{K: "F", F: &Frame{Kind: kOpen, ID: 6, Val: 4}},
			{K: "A"}, {K: "O"},
			{K: "R", I: 1, N: 2}, {K: "R", I: 1, N: 0},
			{K: "C", I: 1}, {K: "C", I: 2},
		}
		depth := 2
		if cfg.Thorough() {
			depth = 3
		}
		idx := make([]int, depth)
		count := 0
		for {
			ops := append([]IOp(nil), prefix...)
			for _, a := range idx {
				ops = append(ops, alphabet[a])
			}
			addInject(InjectCase{W: 4, Backlog: 2, Ops: ops}, "exhaustive")
			count++
			j := depth - 1
			for j >= 0 {
				idx[j]++
				if idx[j] < len(alphabet) {
					break
				}
				idx[j] = 0
				j--
			}
			if j < 0 {
				break
			}
		}
		w.Extra["exhaustive_scope"] = fmt.Sprintf("inject: all %d sequences of %d steps over a %d-step alphabet (frames of every kind for established/backlogged/unknown/zero identifiers, local open/accept/read/close) after a 5-step prefix", count, depth, len(alphabet))
		nInject := 500
		if cfg.Thorough() {
			nInject = 20000
		}
		for i := 0; i < nInject; i++ {
			addInject(genInject(r), "random")
		}
	}

	flush(8)

	nTrace := 200
	if cfg.Thorough() {
		nTrace = 5000
	}
	if *prop == "C24" && !cfg.Thorough() {
		nTrace = 150
	}
	stress := *fixed || *prop == "C24"
	// head-of-line workloads (slow): a few, run in the background
	nHol := 2
	if cfg.Thorough() {
		nHol = 12
	}
	if *prop == "C25" {
		for i := 0; i < nHol; i++ {
			wl := holWorkload(r.Int63(), []int{7, 1000, 65535}[i%3])
			addTrace(Case{Type: "trace", Workload: &wl}, "random")
		}
	}
	for i := 0; i < nTrace; i++ {
		wl := genWorkload(rand.New(rand.NewSource(r.Int63())), cfg.Thorough(), stress, stress)
		addTrace(Case{Type: "trace", Workload: &wl}, "random")
	}
	flush(4)
	w.Extra["traces_validated_against_impl"] = traces
	w.Close()
	fmt.Printf("cases %d traces %d\n", w.Total(), traces)
}
