package main

import (
	"context"
	"errors"
	"fmt"
	"io"
	"math/rand"
	"runtime"
	"sort"
	"sync"
	"sync/atomic"
	"time"

	"github.com/mutagen-io/mutagen/pkg/multiplexing"

	"verifharness/internal/hx"
)

// DirPlan is what happens on one direction of one stream.
type DirPlan struct {
	Writes          []int  `json:"writes"`               // Write sizes in order
	WriteDeadlineMs int    `json:"wdl,omitempty"`        // 0 = none
	End             string `json:"end"`                  // cw | close | none
	EndAfterMs      int    `json:"endafter,omitempty"`   // > 0: End runs concurrently with the writes, after this delay
	PastDeadlineMs  int    `json:"pastdl,omitempty"`     // > 0: after this delay a second goroutine moves the write deadline into the past
	PastDeadlineAll bool   `json:"pastdlall,omitempty"`  // ... using SetDeadline instead of SetWriteDeadline
	EndAfterUsMax   int    `json:"endafterus,omitempty"` // > 0: End runs concurrently, after a seed-derived delay below this many microseconds
	Reads           []int  `json:"reads"`                // buffer sizes, cycled
	ReadMode        string `json:"rmode"`                // drain | some | stall
	ReadCount       int    `json:"rcount,omitempty"`     // some: number of reads
	ReadDeadlineMs  int    `json:"rdl,omitempty"`
	StallMs         int    `json:"stall,omitempty"`  // sleep before the first read
	ReaderClose     bool   `json:"rclose,omitempty"` // the reader calls Close() when it stops
}

// StreamPlan is one stream: Dir[0] flows opener -> acceptor.
type StreamPlan struct {
	Opener      int        `json:"opener"`
	Dir         [2]DirPlan `json:"dir"`
	CloseOpener bool       `json:"co"` // Close() on the opener side when its programs end
	CloseAccept bool       `json:"ca"`
	YLimitMs    int        `json:"ylimit,omitempty"` // tight limit for its calls (head-of-line check)
}

// Workload is a replayable concurrent scenario on two real multiplexers.
type Workload struct {
	Kind        string       `json:"kind"` // streams | backlog
	W           [2]int       `json:"w"`
	Bufs        [2]int       `json:"bufs"`
	Backlog     [2]int       `json:"backlog"`
	HeartbeatMs int          `json:"hb,omitempty"`
	Streams     []StreamPlan `json:"streams,omitempty"`
	Concurrent  bool         `json:"concurrent,omitempty"` // opens issued concurrently
	Opens       int          `json:"opens,omitempty"`      // backlog kind
	ExplicitMs  int          `json:"explicit,omitempty"`   // A.Close() after this many ms (0 = never)
	PipeLimit   int          `json:"pipe,omitempty"`
	Seed        int64        `json:"seed"`
}

func pattern(seed int64, stream, dir int, j int) byte {
	x := uint64(seed)*0x9E3779B97F4A7C15 + uint64(stream)*0xBF58476D1CE4E5B9 + uint64(dir)*0x94D049BB133111EB + uint64(j)*0xD6E8FEB86659FD93
	x ^= x >> 29
	x *= 0xBF58476D1CE4E5B9
	x ^= x >> 32
	return byte(x)
}

type cksum struct{ h uint32 }

func (c *cksum) sum() uint32 {
	if c.h == 0 {
		return 2166136261
	}
	return c.h
}

func (c *cksum) add(b []byte) {
	h := c.h
	if h == 0 {
		h = 2166136261
	}
	for _, x := range b {
		h ^= uint32(x)
		h *= 16777619
	}
	c.h = h
}

// dirResult is what the API showed on one direction of one stream.
type dirResult struct {
	wlen, rlen   int
	rck          cksum
	read         []byte // literal while short
	eof          bool
	peerClosed   bool
	drained      bool
	closeStarted atomic.Bool // writer side began CloseWrite/Close (or never got the stream)
}

type callLog struct {
	mu         sync.Mutex
	calls      [][2]int
	kinds      map[string]int
	bufferFull bool
}

func (l *callLog) add(kind string, start time.Time, limitMs int, err error) {
	el := int(time.Since(start) / time.Millisecond)
	l.mu.Lock()
	l.calls = append(l.calls, [2]int{el, limitMs})
	l.kinds[kind]++
	if err != nil && errors.Is(err, errBufferFullSentinel) {
		l.bufferFull = true
	}
	l.mu.Unlock()
}

var errBufferFullSentinel = errors.New("buffer full")

const slackMs = 3000

type traceResult struct {
	events  []Event
	raw     [2][]byte
	errA    int
	errB    int
	dirs    []*dirResult // 2 per stream
	ids     []uint64
	calls   *callLog
	backlog [4]int
	hasBL   bool
	late    bool
}

func runWorkload(wl Workload) *traceResult {
	rec := &recorder{}
	limit := wl.PipeLimit
	if limit == 0 {
		limit = 1 << 17
	}
	ca, cb := carrierPair(rec, limit)
	cfg := func(s int) *multiplexing.Configuration {
		return &multiplexing.Configuration{
			StreamReceiveWindow: wl.W[s], WriteBufferCount: wl.Bufs[s], AcceptBacklog: wl.Backlog[s],
			HeartbeatTransmitInterval: time.Duration(wl.HeartbeatMs) * time.Millisecond,
		}
	}
	mux := [2]*multiplexing.Multiplexer{
		multiplexing.Multiplex(ca, false, cfg(0)),
		multiplexing.Multiplex(cb, true, cfg(1)),
	}
	res := &traceResult{calls: &callLog{kinds: map[string]int{}}}
	ctx, cancel := context.WithCancel(context.Background())
	defer cancel()

	if wl.Kind == "backlog" {
		res.hasBL = true
		var rejected, pending, other int32
		var wg sync.WaitGroup
		open := func() {
			defer wg.Done()
			octx, ocancel := context.WithTimeout(ctx, 60*time.Millisecond)
			defer ocancel()
			t0 := time.Now()
			s, err := mux[0].OpenStream(octx)
			res.calls.add("open", t0, 60+slackMs, err)
			switch {
			case err == multiplexing.ErrStreamRejected:
				atomic.AddInt32(&rejected, 1)
			case err == context.Canceled:
				atomic.AddInt32(&pending, 1)
			case err == nil:
				s.Close()
				atomic.AddInt32(&other, 1)
			default:
				atomic.AddInt32(&other, 1)
			}
		}
		for i := 0; i < wl.Opens; i++ {
			wg.Add(1)
			if wl.Concurrent {
				go open()
			} else {
				open()
			}
		}
		wg.Wait()
		finish(res, rec, mux, ca, cb, false)
		// Judge the acceptor, not the round trip: count the open frames that
		// reached the wire and the close frames the (never accepting) peer
		// answered with; what it did not reject is what it keeps pending.
		_, _ = rejected, pending
		opensSeen, rejectsSeen := 0, 0
		for _, e := range res.events {
			if e.Side == 0 && e.F.Kind == kOpen {
				opensSeen++
			}
			if e.Side == 1 && e.F.Kind == kClose {
				rejectsSeen++
			}
		}
		res.backlog = [4]int{opensSeen, wl.Backlog[1], rejectsSeen, opensSeen - rejectsSeen}
		return res
	}

	n := len(wl.Streams)
	res.dirs = make([]*dirResult, 2*n)
	for i := range res.dirs {
		res.dirs[i] = &dirResult{}
	}
	res.ids = make([]uint64, n)

	// id -> plan index, filled by openers, awaited by acceptors
	var idMu sync.Mutex
	idCond := sync.NewCond(&idMu)
	idToPlan := map[uint64]int{}
	openFailed := make([]bool, n)

	var wg sync.WaitGroup
	runSide := func(k int, s *multiplexing.Stream, isOpener bool) {
		// this side writes on direction wd and reads direction rd
		p := wl.Streams[k]
		wd, rd := 0, 1
		if !isOpener {
			wd, rd = 1, 0
		}
		lim := func(deadlineMs int) int {
			if p.YLimitMs > 0 {
				return p.YLimitMs
			}
			return deadlineMs + slackMs
		}
		var sideWG sync.WaitGroup
		sideWG.Add(2)
		go func() { // writer
			defer sideWG.Done()
			d := p.Dir[wd]
			r := res.dirs[2*k+wd]
			if d.WriteDeadlineMs > 0 {
				s.SetWriteDeadline(time.Now().Add(time.Duration(d.WriteDeadlineMs) * time.Millisecond))
			}
			pastDone := make(chan struct{})
			if d.PastDeadlineMs > 0 {
				// while the Write below is parked on an exhausted window, another
				// goroutine sets a deadline that has already expired
				go func() {
					defer close(pastDone)
					time.Sleep(time.Duration(d.PastDeadlineMs) * time.Millisecond)
					past := time.Now().Add(-time.Second)
					t0 := time.Now()
					var err error
					if d.PastDeadlineAll {
						err = s.SetDeadline(past)
					} else {
						err = s.SetWriteDeadline(past)
					}
					res.calls.add("setdeadline", t0, lim(0), err)
				}()
			} else {
				close(pastDone)
			}
			endDone := make(chan struct{})
			endAction := func() {
				defer close(endDone)
				switch d.End {
				case "cw":
					r.closeStarted.Store(true)
					t0 := time.Now()
					err := s.CloseWrite()
					res.calls.add("closewrite", t0, lim(0), err)
				case "close":
					r.closeStarted.Store(true)
					t0 := time.Now()
					err := s.Close()
					res.calls.add("close", t0, lim(0), err)
				}
			}
			if d.EndAfterMs > 0 {
				go func() {
					time.Sleep(time.Duration(d.EndAfterMs) * time.Millisecond)
					endAction()
				}()
			} else if d.EndAfterUsMax > 0 {
				// a second goroutine ends the direction while the Write below is in
				// progress; the delay is derived from the seed so that repeated
				// rounds sweep the interleavings
				x := uint64(wl.Seed)*0x9E3779B97F4A7C15 + uint64(k)*0xBF58476D1CE4E5B9 + uint64(wd)
				x ^= x >> 31
				delay := time.Duration(x%uint64(d.EndAfterUsMax)) * time.Microsecond
				go func() {
					t0 := time.Now()
					for time.Since(t0) < delay {
						runtime.Gosched()
					}
					endAction()
				}()
			}
			off := 0
			for _, sz := range d.Writes {
				buf := make([]byte, sz)
				for j := range buf {
					buf[j] = pattern(wl.Seed, k, wd, off+j)
				}
				t0 := time.Now()
				c, err := s.Write(buf)
				res.calls.add("write", t0, lim(d.WriteDeadlineMs), err)
				off += c
				r.wlen = off
				if err != nil {
					break
				}
			}
			r.wlen = off
			if d.EndAfterMs == 0 && d.EndAfterUsMax == 0 {
				endAction()
			}
			<-endDone
			<-pastDone
		}()
		go func() { // reader
			defer sideWG.Done()
			d := p.Dir[rd]
			r := res.dirs[2*k+rd]
			if d.ReaderClose {
				defer func() {
					res.dirs[2*k+wd].closeStarted.Store(true)
					t0 := time.Now()
					err := s.Close()
					res.calls.add("close", t0, lim(0), err)
				}()
			}
			if d.StallMs > 0 {
				time.Sleep(time.Duration(d.StallMs) * time.Millisecond)
			}
			if d.ReadMode == "stall" {
				return
			}
			if d.ReadDeadlineMs > 0 {
				s.SetReadDeadline(time.Now().Add(time.Duration(d.ReadDeadlineMs) * time.Millisecond))
			}
			for it := 0; ; it++ {
				if d.ReadMode == "some" && it >= d.ReadCount {
					return
				}
				buf := make([]byte, d.Reads[it%len(d.Reads)])
				t0 := time.Now()
				c, err := s.Read(buf)
				res.calls.add("read", t0, lim(d.ReadDeadlineMs), err)
				r.rck.add(buf[:c])
				if r.rlen+c <= 48 {
					r.read = append(r.read, buf[:c]...)
				}
				r.rlen += c
				if err == io.EOF {
					r.eof = true
					r.peerClosed = r.closeStarted.Load()
					r.drained = d.ReadMode == "drain"
					return
				}
				if err != nil {
					return
				}
			}
		}()
		sideWG.Wait()
		if (isOpener && p.CloseOpener) || (!isOpener && p.CloseAccept) {
			// closing this side also ends the direction it writes
			res.dirs[2*k+wd].closeStarted.Store(true)
			t0 := time.Now()
			err := s.Close()
			res.calls.add("close", t0, lim(0), err)
		}
	}

	// acceptors
	for side := 0; side < 2; side++ {
		expect := 0
		for _, p := range wl.Streams {
			if p.Opener != side {
				expect++
			}
		}
		if expect == 0 {
			continue
		}
		wg.Add(1)
		go func(side, expect int) {
			defer wg.Done()
			for got := 0; got < expect; {
				actx, acancel := context.WithTimeout(ctx, 2*time.Second)
				t0 := time.Now()
				s, err := mux[side].AcceptStream(actx)
				acancel()
				res.calls.add("accept", t0, 2000+slackMs, err)
				if err != nil {
					// openers that failed will never show up
					idMu.Lock()
					failed := 0
					for k, p := range wl.Streams {
						if p.Opener != side && openFailed[k] {
							failed++
						}
					}
					idMu.Unlock()
					if err != context.Canceled || got+failed >= expect {
						return
					}
					continue
				}
				got++
				id := streamID(s)
				wg.Add(1)
				go func() {
					defer wg.Done()
					idMu.Lock()
					deadline := time.Now().Add(3 * time.Second)
					for {
						if _, ok := idToPlan[id]; ok || time.Now().After(deadline) {
							break
						}
						idMu.Unlock()
						time.Sleep(200 * time.Microsecond)
						idMu.Lock()
					}
					k, ok := idToPlan[id]
					idMu.Unlock()
					if !ok {
						s.Close()
						return
					}
					runSide(k, s, false)
				}()
			}
		}(side, expect)
	}
	_ = idCond

	// openers
	var openSeq [2]sync.Mutex
	for k := range wl.Streams {
		wg.Add(1)
		go func(k int) {
			defer wg.Done()
			p := wl.Streams[k]
			if !wl.Concurrent {
				openSeq[p.Opener].Lock()
			}
			octx, ocancel := context.WithTimeout(ctx, 2*time.Second)
			t0 := time.Now()
			s, err := mux[p.Opener].OpenStream(octx)
			ocancel()
			res.calls.add("open", t0, 2000+slackMs, err)
			if !wl.Concurrent {
				openSeq[p.Opener].Unlock()
			}
			if err != nil {
				idMu.Lock()
				openFailed[k] = true
				idMu.Unlock()
				res.dirs[2*k].closeStarted.Store(true)
				return
			}
			id := streamID(s)
			idMu.Lock()
			idToPlan[id] = k
			res.ids[k] = id
			idMu.Unlock()
			runSide(k, s, true)
		}(k)
	}

	explicit := false
	if wl.ExplicitMs > 0 {
		explicit = true
		wg.Add(1)
		go func() {
			defer wg.Done()
			time.Sleep(time.Duration(wl.ExplicitMs) * time.Millisecond)
			mux[0].Close()
		}()
	}
	wg.Wait()
	finish(res, rec, mux, ca, cb, explicit)
	return res
}

// finish waits for the wires to drain, samples InternalError on both sides,
// then closes both multiplexers.
func finish(res *traceResult, rec *recorder, mux [2]*multiplexing.Multiplexer, ca, cb *carrier, explicit bool) {
	deadline := time.Now().Add(500 * time.Millisecond)
	last := -1
	for time.Now().Before(deadline) {
		rec.mu.Lock()
		n := rec.nonHb
		rec.mu.Unlock()
		if ca.in.drained() && cb.in.drained() && n == last {
			break
		}
		last = n
		time.Sleep(2 * time.Millisecond)
	}
	res.errA = classify(mux[0].InternalError())
	res.errB = classify(mux[1].InternalError())
	mux[0].Close()
	mux[1].Close()
	rec.mu.Lock()
	res.events = append([]Event(nil), rec.events...)
	res.raw = rec.raw
	rec.mu.Unlock()
	for _, c := range res.calls.calls {
		if c[0] > c[1] {
			res.late = true
		}
	}
}

func ierrCoq(c int) string {
	switch {
	case c == 0:
		return "INone"
	case c > 0:
		return fmt.Sprintf("(IProto %d)", c)
	default:
		return "IOther"
	}
}

func eventCoq(e Event) string {
	s := "a"
	if e.Side == 1 {
		s = "b"
	}
	f := e.F
	switch f.Kind {
	case kHb:
		return s + " fh"
	case kOpen:
		return fmt.Sprintf("%s (fo %d %d)", s, f.ID, f.Val)
	case kAccept:
		return fmt.Sprintf("%s (fa %d %d)", s, f.ID, f.Val)
	case kData:
		return fmt.Sprintf("%s (fd %d %d)", s, f.ID, f.Val)
	case kIncr:
		return fmt.Sprintf("%s (fi %d %d)", s, f.ID, f.Val)
	case kCW:
		return fmt.Sprintf("%s (fw %d)", s, f.ID)
	default:
		return fmt.Sprintf("%s (fc %d)", s, f.ID)
	}
}

func boolCoq(b bool) string {
	if b {
		return "true"
	}
	return "false"
}

// traceCoq renders the observed run as a Coq term.
func traceCoq(wl Workload, res *traceResult, fx string) (string, []string) {
	var tags []string
	evs := make([]string, 0, len(res.events))
	hb := 0
	for _, e := range res.events {
		if e.F.Kind == kHb {
			hb++
			if hb > 3 { // heartbeats carry nothing; keep a few
				continue
			}
		}
		evs = append(evs, eventCoq(e))
		tags = append(tags, fmt.Sprintf("frame:%d", e.F.Kind))
		if e.F.Kind == kIncr && e.F.Val == 0 {
			tags = append(tags, "frame:zero-incr")
		}
	}
	var ss []string
	for k := range wl.Streams {
		for d := 0; d < 2; d++ {
			r := res.dirs[2*k+d]
			writer := wl.Streams[k].Opener
			if d == 1 {
				writer = 1 - writer
			}
			var wck cksum
			pre := make([]byte, r.rlen)
			for j := range pre {
				pre[j] = pattern(wl.Seed, k, d, j)
			}
			wck.add(pre)
			small := "None"
			if r.wlen <= 48 && r.rlen <= 48 {
				w := make([]byte, r.wlen)
				for j := range w {
					w[j] = pattern(wl.Seed, k, d, j)
				}
				small = fmt.Sprintf("(Some (%s, %s))", nlist(w), nlist(r.read))
			}
			side := "SA"
			if writer == 1 {
				side = "SB"
			}
			ss = append(ss, fmt.Sprintf("SS %d %s %d %d %d %d %s %s %s %s", res.ids[k], side, r.wlen, r.rlen,
				r.rck.sum(), wck.sum(), small, boolCoq(r.eof), boolCoq(r.peerClosed), boolCoq(r.drained)))
			if r.eof {
				tags = append(tags, "stream:eof")
			}
			if r.drained {
				tags = append(tags, "stream:drained")
			}
			if r.rlen < r.wlen {
				tags = append(tags, "stream:partial-read")
			}
		}
	}
	calls := make([]string, len(res.calls.calls))
	for i, c := range res.calls.calls {
		calls[i] = fmt.Sprintf("(%d%%N,%d%%N)", c[0], c[1])
	}
	kinds := make([]string, 0)
	for k := range res.calls.kinds {
		kinds = append(kinds, k)
	}
	sort.Strings(kinds)
	for _, k := range kinds {
		tags = append(tags, "call:"+k)
	}
	bl := "None"
	if res.hasBL {
		bl = fmt.Sprintf("(Some (%d%%N,%d%%N,%d%%N,%d%%N))", res.backlog[0], res.backlog[1], res.backlog[2], res.backlog[3])
		tags = append(tags, "workload:backlog")
	}
	tags = append(tags, fmt.Sprintf("errA:%d", res.errA), fmt.Sprintf("errB:%d", res.errB),
		fmt.Sprintf("window:%d", wl.W[0]), fmt.Sprintf("bufs:%d", wl.Bufs[0]))
	coq := fmt.Sprintf("T %s %d %d %s %s %s %s %s %s %s", fx, wl.W[0], wl.W[1], boolCoq(wl.ExplicitMs > 0),
		hx.List(evs), ierrCoq(res.errA), ierrCoq(res.errB), hx.List(ss), hx.List(calls), bl)
	return coq, tags
}

// genWorkload draws a random scenario. zeroReads/concurrent are used only
// when the tree under test is expected to survive them (or for C24 itself).
func genWorkload(r *rand.Rand, thorough, zeroReads, concurrent bool) Workload {
	windows := []int{0, 1, 7, 65535, 64, 1000, 131072, 1 << 20}
	w := windows[r.Intn(len(windows))]
	wl := Workload{Kind: "streams", Seed: r.Int63()}
	wl.W = [2]int{w, w}
	if r.Intn(3) == 0 {
		wl.W[1] = windows[r.Intn(len(windows))]
	}
	bufs := []int{1, 2, 5}
	wl.Bufs = [2]int{bufs[r.Intn(3)], bufs[r.Intn(3)]}
	wl.Backlog = [2]int{1 + r.Intn(10), 1 + r.Intn(10)}
	if r.Intn(4) == 0 {
		wl.HeartbeatMs = 2
	}
	if r.Intn(20) == 0 {
		wl.Kind = "backlog"
		wl.Backlog[1] = 1 + r.Intn(4)
		wl.Opens = wl.Backlog[1] + 1 + r.Intn(4)
		wl.Concurrent = concurrent && r.Intn(2) == 0
		return wl
	}
	maxStreams := 5
	if thorough {
		maxStreams = 12
	}
	n := 1 + r.Intn(maxStreams)
	wl.Concurrent = concurrent && r.Intn(2) == 0
	if wl.Concurrent {
		// concurrent opens all reach the backlog before the accept loop runs;
		// rejections are the subject of the backlog workloads, not of these
		wl.Backlog = [2]int{max(wl.Backlog[0], n), max(wl.Backlog[1], n)}
	}
	if r.Intn(15) == 0 {
		wl.ExplicitMs = 1 + r.Intn(20)
	}
	for k := 0; k < n; k++ {
		p := StreamPlan{Opener: r.Intn(2)}
		for d := 0; d < 2; d++ {
			// the reader of direction d sits on the side whose window bounds it
			readerSide := 1 - p.Opener
			if d == 1 {
				readerSide = p.Opener
			}
			win := wl.W[readerSide]
			var sizes []int
			if win >= 65535 {
				sizes = []int{0, 1, 65534, 65535, 65536, 65537, 200000, 100, 3000}
			} else {
				sizes = []int{0, 1, max(win-1, 0), win, win + 1, 3*win + 2, 2, 5}
			}
			dp := DirPlan{}
			nw := r.Intn(4)
			total := 0
			for j := 0; j < nw; j++ {
				sz := sizes[r.Intn(len(sizes))]
				dp.Writes = append(dp.Writes, sz)
				total += sz
			}
			dp.End = []string{"cw", "cw", "close", "none"}[r.Intn(4)]
			switch r.Intn(6) {
			case 0:
				dp.ReadMode = "stall"
			case 1:
				dp.ReadMode = "some"
				dp.ReadCount = 1 + r.Intn(4)
			default:
				dp.ReadMode = "drain"
			}
			// buffer sizes: keep the number of calls bounded
			big := max(total/40, 1)
			dp.Reads = []int{big, big + 1 + r.Intn(7), 1 + r.Intn(3)*big}
			if total <= 64 {
				dp.Reads = []int{1 + r.Intn(3), 1 + r.Intn(8), 1}
			}
			if zeroReads && r.Intn(3) == 0 {
				dp.Reads = append(dp.Reads, 0)
			}
			if r.Intn(5) == 0 {
				dp.StallMs = 1 + r.Intn(15)
			}
			if total > win && win > 0 && r.Intn(4) == 0 {
				// the Write parks on the exhausted window; its deadline is then
				// moved into the past from outside; the reader drains later
				dp.PastDeadlineMs = 2 + r.Intn(6)
				dp.StallMs = dp.PastDeadlineMs + 10 + r.Intn(10)
				dp.ReadMode = "drain"
				if dp.End == "none" {
					dp.End = "cw"
				}
			} else if total > 0 && dp.End != "none" && r.Intn(5) == 0 {
				dp.EndAfterMs = 1 + r.Intn(8)
			} else if total > 0 && dp.End != "none" && r.Intn(4) == 0 {
				dp.EndAfterUsMax = 50 + r.Intn(2000)
			}
			// nobody may block for ever: a writer without a deadline needs a
			// reader that drains to the end or closes the stream when it stops;
			// a reader without a deadline needs a writer that ends the direction
			if r.Intn(3) == 0 {
				dp.WriteDeadlineMs = 15 + r.Intn(40)
			}
			if dp.ReadMode == "drain" && (dp.End == "none" || r.Intn(6) == 0) {
				dp.ReadDeadlineMs = 20 + r.Intn(40)
			}
			if dp.ReadMode == "some" {
				dp.ReadDeadlineMs = 20 + r.Intn(30)
			}
			pureDrain := dp.ReadMode == "drain" && dp.ReadDeadlineMs == 0
			if dp.WriteDeadlineMs == 0 && !pureDrain {
				if r.Intn(2) == 0 {
					dp.ReaderClose = true
					if dp.StallMs == 0 {
						dp.StallMs = 1 + r.Intn(10)
					}
				} else {
					dp.WriteDeadlineMs = 15 + r.Intn(40)
				}
			}
			if win == 0 && total > 0 && dp.WriteDeadlineMs == 0 && !dp.ReaderClose {
				dp.WriteDeadlineMs = 10 + r.Intn(20)
			}
			p.Dir[d] = dp
		}
		if r.Intn(3) == 0 {
			p.CloseOpener = true
		}
		if r.Intn(3) == 0 {
			p.CloseAccept = true
		}
		// a direction whose writer side closes fully when done also ends it
		wl.Streams = append(wl.Streams, p)
	}
	return wl
}

// holWorkload: stream 0 has a reader that stalls for a long time while its
// writer keeps the window full; stream 1 must still move its data quickly.
func holWorkload(seed int64, window int) Workload {
	wl := Workload{Kind: "streams", Seed: seed, W: [2]int{window, window}, Bufs: [2]int{1, 1}, Backlog: [2]int{4, 4}}
	stalled := StreamPlan{Opener: 0, CloseOpener: true, CloseAccept: true}
	stalled.Dir[0] = DirPlan{Writes: []int{4*window + 4}, WriteDeadlineMs: 1200, End: "none", ReadMode: "some", ReadCount: 1,
		Reads: []int{1}, StallMs: 1200, ReadDeadlineMs: 1500}
	stalled.Dir[1] = DirPlan{End: "none", ReadMode: "stall", Reads: []int{1}}
	quick := StreamPlan{Opener: 0, CloseOpener: true, CloseAccept: true, YLimitMs: 600}
	quick.Dir[0] = DirPlan{Writes: []int{window, 2*window + 1, 5}, End: "cw", ReadMode: "drain", Reads: []int{max(window/3, 1)}}
	quick.Dir[1] = DirPlan{Writes: []int{3}, End: "cw", ReadMode: "drain", Reads: []int{4}}
	wl.Streams = []StreamPlan{stalled, quick}
	return wl
}
