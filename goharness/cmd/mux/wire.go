package main

import (
	"encoding/binary"
	"errors"
	"fmt"
	"io"
	"sync"
)

// Frame is one decoded protocol message. Kind is the index into the kind
// table (0 heartbeat .. 6 close), not the wire byte.
type Frame struct {
	Kind int    `json:"k"`
	ID   uint64 `json:"i,omitempty"`
	Val  uint64 `json:"v,omitempty"` // window, increment or data length
	Data []byte `json:"d,omitempty"` // only kept by the encoder / small captures
}

const (
	kHb = iota
	kOpen
	kAccept
	kData
	kIncr
	kCW
	kClose
)

// kindBytes is filled from the package under test (hook VerifMessageKinds).
var kindBytes [7]byte

func encodeFrame(f Frame) []byte {
	out := []byte{kindBytes[f.Kind]}
	if f.Kind == kHb {
		return out
	}
	out = binary.AppendUvarint(out, f.ID)
	switch f.Kind {
	case kOpen, kAccept, kIncr:
		out = binary.AppendUvarint(out, f.Val)
	case kData:
		out = append(out, byte(len(f.Data)>>8), byte(len(f.Data)))
		out = append(out, f.Data...)
	}
	return out
}

// decoder reassembles frames from the byte stream one side writes.
type decoder struct {
	buf    []byte
	broken bool // the byte stream stopped making sense (a malformed frame went by)
}

var errNeedMore = errors.New("need more")

func (d *decoder) next(keepData bool) (Frame, bool) {
	b := d.buf
	if len(b) == 0 || d.broken {
		return Frame{}, false
	}
	kind := -1
	for k, kb := range kindBytes {
		if kb == b[0] {
			kind = k
		}
	}
	if kind < 0 {
		// what follows a malformed frame cannot be delimited any more; the
		// frames decoded so far (including the malformed one) stay in the log
		d.broken = true
		d.buf = nil
		return Frame{}, false
	}
	if kind == kHb {
		d.buf = b[1:]
		return Frame{Kind: kHb}, true
	}
	id, n := binary.Uvarint(b[1:])
	if n <= 0 {
		return Frame{}, false
	}
	p := 1 + n
	f := Frame{Kind: kind, ID: id}
	switch kind {
	case kOpen, kAccept, kIncr:
		v, m := binary.Uvarint(b[p:])
		if m <= 0 {
			return Frame{}, false
		}
		f.Val = v
		p += m
	case kData:
		if len(b) < p+2 {
			return Frame{}, false
		}
		l := int(b[p])<<8 | int(b[p+1])
		if len(b) < p+2+l {
			return Frame{}, false
		}
		f.Val = uint64(l)
		if keepData {
			f.Data = append([]byte(nil), b[p+2:p+2+l]...)
		}
		p += 2 + l
	}
	d.buf = b[p:]
	return f, true
}

// Event is a frame in the global history with its sender (0 = A, 1 = B).
type Event struct {
	Side int
	F    Frame
}

// recorder is the global, totally ordered history of frames handed to the
// carriers. A frame is logged before its last byte is forwarded, so a frame
// that was caused by the reception of another one is always logged after it.
type recorder struct {
	mu     sync.Mutex
	events []Event
	dec    [2]decoder
	raw    [2][]byte // first bytes of each direction (codec cases)
	nonHb  int       // number of non-heartbeat events
}

func (r *recorder) wrote(side int, p []byte) {
	r.mu.Lock()
	if len(r.raw[side]) < 400 {
		r.raw[side] = append(r.raw[side], p...)
	}
	r.dec[side].buf = append(r.dec[side].buf, p...)
	for {
		f, ok := r.dec[side].next(false)
		if !ok {
			break
		}
		r.events = append(r.events, Event{side, f})
		if f.Kind != kHb {
			r.nonHb++
		}
	}
	r.mu.Unlock()
}

// pipe is one direction of the in-memory carrier pair.
type pipe struct {
	mu      sync.Mutex
	cond    *sync.Cond
	buf     []byte
	closed  bool
	limit   int
	idle    chan struct{} // strobed when a reader finds the pipe empty
	waiting bool          // a reader is blocked on the empty pipe
}

func newPipe(limit int) *pipe {
	p := &pipe{limit: limit, idle: make(chan struct{}, 1)}
	p.cond = sync.NewCond(&p.mu)
	return p
}

func (p *pipe) write(b []byte) (int, error) {
	n := 0
	p.mu.Lock()
	defer p.mu.Unlock()
	for len(b) > 0 {
		for !p.closed && len(p.buf) >= p.limit {
			p.cond.Wait()
		}
		if p.closed {
			return n, io.ErrClosedPipe
		}
		c := min(len(b), p.limit-len(p.buf))
		p.buf = append(p.buf, b[:c]...)
		b = b[c:]
		n += c
		p.cond.Broadcast()
	}
	return n, nil
}

func (p *pipe) read(b []byte) (int, error) {
	p.mu.Lock()
	defer p.mu.Unlock()
	for !p.closed && len(p.buf) == 0 {
		select {
		case p.idle <- struct{}{}:
		default:
		}
		p.waiting = true
		p.cond.Wait()
		p.waiting = false
	}
	if len(p.buf) == 0 {
		return 0, io.EOF
	}
	c := copy(b, p.buf)
	p.buf = p.buf[c:]
	p.cond.Broadcast()
	return c, nil
}

func (p *pipe) close() {
	p.mu.Lock()
	p.closed = true
	p.cond.Broadcast()
	p.mu.Unlock()
}

// readerIdle reports whether the pipe is empty and its reader is blocked
// waiting for more: everything written so far has been fully processed.
func (p *pipe) readerIdle() bool {
	p.mu.Lock()
	defer p.mu.Unlock()
	return p.waiting && len(p.buf) == 0
}

// drained reports whether the pipe is empty.
func (p *pipe) drained() bool {
	p.mu.Lock()
	defer p.mu.Unlock()
	return len(p.buf) == 0
}

// carrier implements multiplexing.Carrier on a pair of pipes.
type carrier struct {
	side int
	in   *pipe
	out  *pipe
	rec  *recorder
}

func (c *carrier) Read(b []byte) (int, error) {
	if len(b) == 0 {
		return 0, nil
	}
	return c.in.read(b)
}

func (c *carrier) ReadByte() (byte, error) {
	var b [1]byte
	if _, err := c.in.read(b[:]); err != nil {
		return 0, err
	}
	return b[0], nil
}

func (c *carrier) Discard(n int) (int, error) {
	var scratch [4096]byte
	done := 0
	for done < n {
		k, err := c.in.read(scratch[:min(len(scratch), n-done)])
		done += k
		if err != nil {
			return done, err
		}
	}
	return done, nil
}

func (c *carrier) Write(b []byte) (int, error) {
	if c.rec != nil {
		c.rec.wrote(c.side, b)
	}
	return c.out.write(b)
}

func (c *carrier) Close() error {
	c.in.close()
	c.out.close()
	return nil
}

func carrierPair(rec *recorder, limit int) (*carrier, *carrier) {
	ab, ba := newPipe(limit), newPipe(limit)
	return &carrier{side: 0, in: ba, out: ab, rec: rec}, &carrier{side: 1, in: ab, out: ba, rec: rec}
}

// nlist prints bytes as a Coq list of N literals.
func nlist(b []byte) string {
	var sb []byte
	sb = append(sb, '[')
	for i, v := range b {
		if i > 0 {
			sb = append(sb, ';')
		}
		sb = append(sb, fmt.Sprintf("%d%%N", v)...)
	}
	return string(append(sb, ']'))
}
