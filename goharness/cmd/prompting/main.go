// Harness for C32. (1) Drives the real prompter registry (RegisterPrompter-
// WithIdentifier, Message, Prompt, UnregisterPrompter) from several goroutines
// with instrumented prompters that log the begin and end of every invocation,
// and emits each history (ordered by a global atomic counter) as a Coq term.
// (2) Prints echoedPromptSuffixes and determineResponseMode(prompt) -- through
// the add-only verif hook -- for the literal suffixes, near-misses (missing
// trailing space, different case, extra characters) and random prompts.
package main

import (
	"encoding/json"
	"fmt"
	"os"
	"runtime"
	"sort"
	"strconv"
	"strings"
	"sync"
	"sync/atomic"
	"time"

	"github.com/mutagen-io/mutagen/pkg/prompting"

	"verifharness/internal/hx"
)

// Step is one API call of a scenario goroutine.
type Step struct {
	K     string `json:"k"`           // R register, U unregister, M message, P prompt
	ID    int    `json:"id"`          // prompter
	Delay int    `json:"d,omitempty"` // scheduler yields before the call
}

// Case is either a registry scenario or a response-mode query.
type Case struct {
	Threads [][]Step `json:"threads,omitempty"`
	Hold    int      `json:"hold,omitempty"` // yields inside every invocation
	HoldUs  int      `json:"hold_us,omitempty"` // sleep inside every invocation (microseconds)
	Prompt  *string  `json:"prompt,omitempty"`
}

type event struct {
	seq uint64
	s   string
}

type recorder struct {
	seq atomic.Uint64
	mu  sync.Mutex
	evs []event
}

func (r *recorder) log(format string, args ...any) {
	s := r.seq.Add(1)
	text := fmt.Sprintf(format, args...)
	r.mu.Lock()
	r.evs = append(r.evs, event{s, text})
	r.mu.Unlock()
}

// probe is the instrumented prompter. The calling goroutine's number travels
// in the message / prompt text.
type probe struct {
	id     int
	rec    *recorder
	hold   int
	holdUs int
	active atomic.Int32
	maxAct atomic.Int32
}

func (p *probe) invoke(text string) {
	t, _ := strconv.Atoi(text)
	p.rec.log("Bg %d %d", t, p.id)
	if n := p.active.Add(1); n > p.maxAct.Load() {
		p.maxAct.Store(n)
	}
	for i := 0; i < p.hold; i++ {
		runtime.Gosched()
	}
	if p.holdUs > 0 {
		time.Sleep(time.Duration(p.holdUs) * time.Microsecond)
	}
	p.active.Add(-1)
	p.rec.log("En %d %d", t, p.id)
}

func (p *probe) Message(m string) error { p.invoke(m); return nil }
func (p *probe) Prompt(m string) (string, error) {
	p.invoke(m)
	return "response", nil
}

var scenarioCounter atomic.Uint64

func resName(err error) string {
	switch {
	case err == nil:
		return "Ok"
	case strings.Contains(err.Error(), "prompter not found"):
		return "Nf"
	case strings.Contains(err.Error(), "unable to acquire prompter"):
		return "Cd"
	default:
		panic("unexpected error: " + err.Error())
	}
}

type result struct {
	coq     string
	tags    []string
	nontriv bool
}

func runTrace(c Case) result {
	rec := &recorder{}
	sc := scenarioCounter.Add(1)
	name := func(id int) string { return fmt.Sprintf("verif-%d-%d", sc, id) }
	probes := map[int]*probe{}
	for _, th := range c.Threads {
		for _, st := range th {
			if _, ok := probes[st.ID]; !ok {
				probes[st.ID] = &probe{id: st.ID, rec: rec, hold: c.Hold, holdUs: c.HoldUs}
			}
		}
	}
	var wg sync.WaitGroup
	var notFound, closed, okCalls atomic.Int32
	var panicked atomic.Value // a panic of the code under test inside a scenario goroutine
	for ti := range c.Threads {
		wg.Add(1)
		go func(ti int, script []Step) {
			defer wg.Done()
			defer func() {
				if r := recover(); r != nil {
					panicked.CompareAndSwap(nil, fmt.Sprintf("%v", r))
				}
			}()
			for _, st := range script {
				for i := 0; i < st.Delay; i++ {
					runtime.Gosched()
				}
				switch st.K {
				case "R":
					rec.log("Cl %d (Rg %d)", ti, st.ID)
					if err := prompting.RegisterPrompterWithIdentifier(name(st.ID), probes[st.ID]); err != nil {
						panic("registration failed: " + err.Error())
					}
					rec.log("Rt %d (Rg %d) Ok", ti, st.ID)
				case "U":
					rec.log("Cl %d (Ur %d)", ti, st.ID)
					prompting.UnregisterPrompter(name(st.ID))
					rec.log("Rt %d (Ur %d) Ok", ti, st.ID)
				case "M", "P":
					rec.log("Cl %d (Iv %d)", ti, st.ID)
					var err error
					if st.K == "M" {
						err = prompting.Message(name(st.ID), strconv.Itoa(ti))
					} else {
						_, err = prompting.Prompt(name(st.ID), strconv.Itoa(ti))
					}
					r := resName(err)
					switch r {
					case "Ok":
						okCalls.Add(1)
					case "Nf":
						notFound.Add(1)
					case "Cd":
						closed.Add(1)
					}
					rec.log("Rt %d (Iv %d) %s", ti, st.ID, r)
				default:
					panic("unknown step " + st.K)
				}
			}
		}(ti, c.Threads[ti])
	}
	wg.Wait()
	if p := panicked.Load(); p != nil {
		panic(p)
	}
	sort.Slice(rec.evs, func(i, j int) bool { return rec.evs[i].seq < rec.evs[j].seq })
	items := make([]string, len(rec.evs))
	for i, e := range rec.evs {
		items[i] = e.s
	}
	tags := []string{fmt.Sprintf("threads:%d", len(c.Threads)), "kind:trace"}
	for _, th := range c.Threads {
		for _, st := range th {
			tags = append(tags, "op:"+st.K)
		}
	}
	if notFound.Load() > 0 {
		tags = append(tags, "result:not-found")
	}
	if closed.Load() > 0 {
		tags = append(tags, "result:unable-to-acquire")
	}
	if okCalls.Load() > 0 {
		tags = append(tags, "result:ok")
	}
	return result{coq: "PT " + hx.List(items), tags: tags,
		nontriv: okCalls.Load() >= 2 && (closed.Load() > 0 || notFound.Load() > 0)}
}

func runEcho(prompt string) result {
	mode := prompting.VerifDetermineResponseMode(prompt)
	tags := []string{"kind:echo", fmt.Sprintf("mode:%d", mode)}
	// RS is defined once per shard (in the header) as the list printed by the real code
	return result{coq: fmt.Sprintf("PE RS %s %d", hx.Bytes([]byte(prompt)), mode), tags: tags,
		nontriv: len(prompt) > 0}
}

const header = "From Coq Require Import List Arith.\nImport ListNotations.\nFrom Mv Require Import Model.Prompting Harness.PromptingH."

func main() {
	cfg := hx.Parse()
	realSufs := prompting.VerifEchoedPromptSuffixes()
	sufItems := make([]string, len(realSufs))
	for i, s := range realSufs {
		sufItems[i] = hx.Bytes([]byte(s))
	}
	// echoedPromptSuffixes as printed by the real code, once per shard
	fullHeader := header + "\nDefinition RS : list (list nat) := " + hx.List(sufItems) + "."
	w := hx.NewWriter(cfg, fullHeader, "pcase", "prompting_failures", 300)
	w.Rule = "a case = either one concurrent scenario against the real prompter registry recorded as a history (calls, returns, begin/end of every prompter invocation, global atomic order) or one (echoedPromptSuffixes, prompt, determineResponseMode(prompt)) triple printed by the real code; distinct = distinct terms; non-trivial = a scenario with at least two successful invocations and at least one call that lost against (un)registration, or a non-empty prompt"

	add := func(c Case, origin string) {
		if w.Aborted {
			return
		}
		var r result
		kind, detail := hx.RunGuarded(8*time.Second, func() {
			if c.Prompt != nil {
				r = runEcho(*c.Prompt)
			} else {
				r = runTrace(c)
			}
		})
		if kind != "" {
			w.RecordCrash(kind, detail, c)
			return
		}
		w.Add(hx.Case{Coq: r.coq, Replay: c, Nontrivial: r.nontriv, Tags: r.tags, Origin: origin})
	}

	if cfg.Replay != "" {
		b, err := os.ReadFile(cfg.Replay)
		if err != nil {
			panic(err)
		}
		var wrapper struct {
			Case Case `json:"case"`
		}
		if err := json.Unmarshal(b, &wrapper); err != nil {
			panic(err)
		}
		n := 1
		if wrapper.Case.Prompt == nil {
			n = 50 // the interleaving is not reproducible: run the scenario repeatedly
		}
		for i := 0; i < n; i++ {
			add(wrapper.Case, "replay")
		}
		w.Close()
		return
	}

	for _, raw := range hx.LoadCorpus(cfg.Corpus) {
		var c Case
		if json.Unmarshal(raw, &c) == nil && (c.Prompt != nil || len(c.Threads) > 0) {
			add(c, "corpus")
		}
	}

	// Response mode: the literal suffixes and their near-misses, exhaustively.
	sufs := prompting.VerifEchoedPromptSuffixes()
	prefixes := []string{"", "x", "Are you sure you want to continue connecting ", "(yes/no)? ", "\n"}
	for _, s := range sufs {
		variants := []string{s, strings.TrimRight(s, " "), s + " ", s + "x", strings.ToUpper(s), strings.ToLower(s),
			strings.Title(s), s[1:], s[:len(s)-2] + " ", strings.Replace(s, "yes", "Yes", 1), s + s, s + "\n", "\t" + s,
			strings.Replace(s, " ", " ", -1), strings.Replace(s, "?", ":", 1)}
		for _, v := range variants {
			for _, p := range prefixes {
				q := p + v
				add(Case{Prompt: &q}, "exhaustive")
			}
		}
	}
	for _, q := range []string{"", " ", "password: ", "Password:", "user@host's password: ", "Enter passphrase for key '/home/u/.ssh/id_ed25519': ",
		"Verification code: ", "(yes/no)", "yes/no)? ", "(yes/no)?", "Please type 'yes', 'no' or the fingerprint:"} {
		q := q
		add(Case{Prompt: &q}, "exhaustive")
	}
	w.Extra["exhaustive_scope"] = "every literal echo suffix with 15 near-miss variants (trailing space removed/added, case changed, characters dropped/appended/replaced, doubled) under 5 prefixes, plus 11 typical OpenSSH prompts"

	r := cfg.Rand
	nEcho, nTrace := 700, 1000
	if cfg.Thorough() {
		nEcho, nTrace = 40000, 40000
	}
	alphabet := "abcdefghijklmnopqrstuvwxyzYESNO()/?:' []\n\t0123456789"
	for i := 0; i < nEcho; i++ {
		var sb strings.Builder
		for j, n := 0, r.Intn(30); j < n; j++ {
			sb.WriteByte(alphabet[r.Intn(len(alphabet))])
		}
		switch r.Intn(6) {
		case 0: // ends with a literal suffix
			sb.WriteString(sufs[r.Intn(len(sufs))])
		case 1: // a suffix with one byte changed
			s := []byte(sufs[r.Intn(len(sufs))])
			s[r.Intn(len(s))] = alphabet[r.Intn(len(alphabet))]
			sb.Write(s)
		case 2: // a suffix with one byte dropped
			s := sufs[r.Intn(len(sufs))]
			k := r.Intn(len(s))
			sb.WriteString(s[:k] + s[k+1:])
		case 3: // a suffix followed by something
			sb.WriteString(sufs[r.Intn(len(sufs))])
			sb.WriteByte(alphabet[r.Intn(len(alphabet))])
		case 4: // arbitrary bytes
			for j, n := 0, r.Intn(12); j < n; j++ {
				sb.WriteByte(byte(r.Intn(256)))
			}
		}
		q := sb.String()
		add(Case{Prompt: &q}, "random")
	}

	// Registry scenarios: owners register and unregister their prompters while
	// other goroutines message and prompt them.
	for i := 0; i < nTrace; i++ {
		nProbes := 1 + r.Intn(2)
		nThreads := 2 + r.Intn(3)
		c := Case{Hold: r.Intn(4) * r.Intn(20)}
		if r.Intn(3) == 0 {
			c.HoldUs = 20 + r.Intn(300)
		}
		c.Threads = make([][]Step, nThreads)
		for id := 0; id < nProbes; id++ {
			owner := r.Intn(nThreads)
			var script []Step
			for j, n := 0, r.Intn(3); j < n; j++ {
				script = append(script, Step{K: pick(r.Intn(2)), ID: id, Delay: r.Intn(6)})
			}
			script = append(script, Step{K: "R", ID: id, Delay: r.Intn(10)})
			for j, n := 0, r.Intn(4); j < n; j++ {
				script = append(script, Step{K: pick(r.Intn(2)), ID: id, Delay: r.Intn(6)})
			}
			if r.Intn(8) != 0 {
				script = append(script, Step{K: "U", ID: id, Delay: r.Intn(30)})
				for j, n := 0, r.Intn(3); j < n; j++ {
					script = append(script, Step{K: pick(r.Intn(2)), ID: id, Delay: r.Intn(6)})
				}
			}
			c.Threads[owner] = append(c.Threads[owner], script...)
		}
		for t := 0; t < nThreads; t++ {
			for j, n := 0, 1+r.Intn(7); j < n; j++ {
				c.Threads[t] = append(c.Threads[t], Step{K: pick(r.Intn(2)), ID: r.Intn(nProbes), Delay: r.Intn(12)})
			}
		}
		add(c, "random")
	}
	// Storms: many goroutines hammer one prompter without any delay while its
	// owner unregisters it (reaches the "unable to acquire prompter" path).
	nStorm := nTrace / 10
	for i := 0; i < nStorm; i++ {
		c := Case{}
		nThreads := 5 + r.Intn(4)
		c.Threads = make([][]Step, nThreads)
		c.Threads[0] = []Step{{K: "R", ID: 0}, {K: "M", ID: 0}, {K: "U", ID: 0, Delay: 20 + r.Intn(200)}}
		for t := 1; t < nThreads; t++ {
			for j, n := 0, 8+r.Intn(10); j < n; j++ {
				c.Threads[t] = append(c.Threads[t], Step{K: pick(r.Intn(2)), ID: 0})
			}
		}
		add(c, "random")
	}
	w.Extra["traces_validated_against_impl"] = nTrace + nStorm
	w.Close()
	fmt.Println(strings.TrimSpace(fmt.Sprintf("cases %d", w.Total())))
}

func pick(i int) string {
	if i == 0 {
		return "M"
	}
	return "P"
}
