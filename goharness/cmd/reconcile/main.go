// Harness for the reconcile family (C01-C06, C11 predicates, C18): runs
// core.Reconcile on (mode, ancestor, alpha, beta) and emits the inputs and the
// implementation's plan (in the implementation's own order) as Coq terms.
package main

import (
	"encoding/json"
	"flag"
	"fmt"
	"os"
	"time"

	"github.com/mutagen-io/mutagen/pkg/synchronization/core"

	"verifharness/internal/coretree"
	"verifharness/internal/hx"
)

// Case is the replay form of one case.
type Case struct {
	Mode  int         `json:"mode"` // 1..4 as in core.SynchronizationMode
	Anc   *coretree.J `json:"anc"`
	Alpha *coretree.J `json:"alpha"`
	Beta  *coretree.J `json:"beta"`
}

var modeNames = map[int]string{1: "TwoWaySafe", 2: "TwoWayResolved", 3: "OneWaySafe", 4: "OneWayReplica"}

func kindTag(e *core.Entry) string {
	if e == nil {
		return "nil"
	}
	return e.Kind.String()
}

func hasUnsync(e *core.Entry) bool {
	if e == nil {
		return false
	}
	if e.Kind != core.EntryKind_Directory && e.Kind != core.EntryKind_File && e.Kind != core.EntryKind_SymbolicLink {
		return true
	}
	for _, c := range e.Contents {
		if hasUnsync(c) {
			return true
		}
	}
	return false
}

func runCase(c Case, slim bool) (string, bool, []string) {
	anc, alpha, beta := coretree.FromJ(c.Anc), coretree.FromJ(c.Alpha), coretree.FromJ(c.Beta)
	ancCh, alphaCh, betaCh, conflicts := core.Reconcile(anc, alpha, beta, core.SynchronizationMode(c.Mode))
	coq := fmt.Sprintf("(%s, %s, %s, %s, mkplan %s %s %s %s)", modeNames[c.Mode],
		coretree.Entry(anc), coretree.Entry(alpha), coretree.Entry(beta),
		coretree.Changes(ancCh), coretree.Changes(alphaCh), coretree.Changes(betaCh), coretree.Conflicts(conflicts))
	if slim {
		// C06: also emit the reported form, Slim() of every conflict, in the
		// order of the plan's conflicts; the case becomes (rcase, [conflict]).
		reported := make([]*core.Conflict, len(conflicts))
		for i, cf := range conflicts {
			reported[i] = cf.Slim()
		}
		coq = "(" + coq + ", " + coretree.Conflicts(reported) + ")"
	}
	tags := []string{"mode:" + modeNames[c.Mode]}
	if len(alphaCh) > 0 {
		tags = append(tags, "out:alpha-changes")
	}
	if len(betaCh) > 0 {
		tags = append(tags, "out:beta-changes")
	}
	if len(conflicts) > 0 {
		tags = append(tags, "out:conflicts")
	}
	if len(ancCh) > 0 {
		tags = append(tags, "out:ancestor-changes")
	}
	if hasUnsync(alpha) || hasUnsync(beta) {
		tags = append(tags, "in:unsynchronizable")
	}
	tags = append(tags, "root:"+kindTag(anc)+"/"+kindTag(alpha)+"/"+kindTag(beta))
	nontrivial := len(alphaCh)+len(betaCh)+len(conflicts) > 0
	return coq, nontrivial, tags
}

const header = "From Coq Require Import List String.\nImport ListNotations.\nOpen Scope string_scope.\nFrom Mv Require Import Common.Bytes Model.Entry Model.Reconcile Harness.ReconcileH."

func main() {
	fn := flag.String("fn", "rc_failures", "Coq failure function to apply")
	slim := flag.Bool("slim", false, "also emit Slim() of every conflict: cases have Coq type rscase = (rcase * list conflict), defined in Harness.C06H")
	imp := flag.String("import", "", "extra Coq modules (under Mv) to import, space separated, e.g. Harness.C06H")
	cfg := hx.Parse()
	hdr := header
	if *imp != "" {
		hdr += "\nFrom Mv Require Import " + *imp + "."
	}
	caseType := "rcase"
	if *slim {
		caseType = "rscase"
	}
	w := hx.NewWriter(cfg, hdr, caseType, *fn, 250)
	w.Rule = "a case = (mode, ancestor, alpha, beta, plan returned by core.Reconcile); distinct = distinct Coq terms; non-trivial = the plan contains at least one alpha/beta change or conflict"
	if *slim {
		w.Rule += "; with -slim each case also carries Conflict.Slim() of every conflict of the plan (the reported form)"
	}
	add := func(c Case, origin string) {
		if w.Aborted {
			return
		}
		var coq string
		var nt bool
		var tags []string
		if w.Guard(c, 5*time.Second, func() { coq, nt, tags = runCase(c, *slim) }) {
			w.Add(hx.Case{Coq: coq, Replay: c, Nontrivial: nt, Tags: tags, Origin: origin})
		}
	}
	if cfg.Replay != "" {
		b, err := os.ReadFile(cfg.Replay)
		if err != nil {
			panic(err)
		}
		var wrapper struct {
			Case Case `json:"case"`
		}
		if err := json.Unmarshal(b, &wrapper); err != nil {
			panic(err)
		}
		add(wrapper.Case, "replay")
		w.Close()
		return
	}
	for _, raw := range hx.LoadCorpus(cfg.Corpus) {
		var c Case
		if json.Unmarshal(raw, &c) == nil && c.Mode != 0 {
			add(c, "corpus")
		}
	}
	r := cfg.Rand
	sides, ancestors := coretree.SmallScope()
	w.Extra["exhaustive_scope"] = fmt.Sprintf("scope of %d ancestors x %d alphas x %d betas x 4 modes (names {a,b}/{c}, depth <= 2, every entry kind); this run samples it uniformly at random", len(ancestors), len(sides), len(sides))
	nScope, nRandom := 3500, 1500
	if cfg.Thorough() {
		nScope, nRandom = 120000, 40000
	}
	for i := 0; i < nScope; i++ {
		anc := ancestors[r.Intn(len(ancestors))]
		var alpha, beta *core.Entry
		// bias towards sides that share structure with the ancestor
		if r.Intn(3) == 0 {
			alpha = sides[r.Intn(len(sides))]
		} else {
			alpha = coretree.Mutate(r, anc, 2, true)
		}
		if r.Intn(3) == 0 {
			beta = sides[r.Intn(len(sides))]
		} else {
			beta = coretree.Mutate(r, anc, 2, true)
		}
		add(Case{Mode: 1 + r.Intn(4), Anc: coretree.ToJ(anc), Alpha: coretree.ToJ(alpha), Beta: coretree.ToJ(beta)}, "scope-sample")
	}
	for i := 0; i < nRandom; i++ {
		var anc *core.Entry
		if r.Intn(8) != 0 {
			anc = coretree.RandomEntry(r, 3, true)
		}
		alpha := coretree.Mutate(r, anc, 3, true)
		beta := coretree.Mutate(r, anc, 3, true)
		if r.Intn(6) == 0 {
			beta = coretree.Mutate(r, alpha, 3, true)
		}
		add(Case{Mode: 1 + r.Intn(4), Anc: coretree.ToJ(anc), Alpha: coretree.ToJ(alpha), Beta: coretree.ToJ(beta)}, "random")
	}
	w.Close()
	fmt.Printf("cases %d\n", w.Total())
}
