package main

import (
	"fmt"

	"github.com/mutagen-io/mutagen/pkg/synchronization/core"
	"github.com/mutagen-io/mutagen/pkg/synchronization/endpoint/remote"
	"github.com/mutagen-io/mutagen/pkg/synchronization/rsync"

	"verifharness/internal/hx"
)

// ensureValid cases: the response is described to the Coq side by the facts
// ensureValid may depend on (counts, validity of each element as decided by
// the element's own EnsureValid, whether an error is set) and by the verdict
// of the real ensureValid.

const (
	evStageCount = 4 * 4 * 4 * 3 * 2
	evTransCount = 3 * 4 * 4 * 3 * 3
	evScanCount  = 3 * 3 * 2
)

func boolList(bs []bool) string {
	items := make([]string, len(bs))
	for i, b := range bs {
		items[i] = boolTerm(b)
	}
	return hx.List(items)
}

func runEV(spec CaseSpec) result {
	i := spec.Idx
	switch spec.Prof {
	case "stage-ev":
		withErr := i%2 == 1
		i /= 2
		bad := i % 3 // 0 none, 1 first, 2 last
		i /= 3
		ns := i % 4
		i /= 4
		np := i % 4
		i /= 4
		nreq := i % 4
		req := make([]string, nreq)
		for k := range req {
			req[k] = fmt.Sprintf("q%d", k)
		}
		resp := &remote.StageResponse{}
		for k := 0; k < np; k++ {
			resp.Paths = append(resp.Paths, fmt.Sprintf("q%d", k))
		}
		valid := make([]bool, ns)
		for k := 0; k < ns; k++ {
			s := scriptSigs[k%len(scriptSigs)]
			if (bad == 1 && k == 0) || (bad == 2 && k == ns-1) {
				s = &rsync.Signature{BlockSize: 0, LastBlockSize: 5}
			}
			valid[k] = s.EnsureValid() == nil
			resp.Signatures = append(resp.Signatures, s)
		}
		if withErr {
			resp.Error = "some error"
		}
		ok := remote.VerifStageResponseEnsureValid(resp, req) == nil
		return result{coq: fmt.Sprintf("(CStageEV %d %d %s %s %s)", nreq, np, boolList(valid), boolTerm(withErr), boolTerm(ok)),
			tags: []string{"ev:stage", "ev:stage-accepted-" + boolTerm(ok)}, nontrivial: true}
	case "trans-ev":
		badP := i % 3
		i /= 3
		badR := i % 3
		i /= 3
		nprob := i % 4
		i /= 4
		nres := i % 4
		i /= 4
		expected := i % 3
		resp := &remote.TransitionResponse{}
		rv := make([]bool, nres)
		for k := 0; k < nres; k++ {
			a := &core.Archive{Content: fileEntry(byte(k), false)}
			if k%2 == 1 {
				a = &core.Archive{}
			}
			if (badR == 1 && k == 0) || (badR == 2 && k == nres-1) {
				a = &core.Archive{Content: &core.Entry{Kind: core.EntryKind_Untracked}}
			}
			rv[k] = a.EnsureValid(true) == nil
			resp.Results = append(resp.Results, a)
		}
		pv := make([]bool, nprob)
		for k := 0; k < nprob; k++ {
			q := &core.Problem{Path: "p", Error: "e"}
			if (badP == 1 && k == 0) || (badP == 2 && k == nprob-1) {
				q = &core.Problem{Path: "p"}
			}
			pv[k] = q.EnsureValid() == nil
			resp.Problems = append(resp.Problems, q)
		}
		ok := remote.VerifTransitionResponseEnsureValid(resp, expected) == nil
		return result{coq: fmt.Sprintf("(CTransEV %d %s %s %s)", expected, boolList(rv), boolList(pv), boolTerm(ok)),
			tags: []string{"ev:transition", "ev:transition-accepted-" + boolTerm(ok)}, nontrivial: true}
	case "scan-ev":
		withErr := i%2 == 1
		i /= 2
		bad := i % 3
		i /= 3
		nops := i % 3
		resp := &remote.ScanResponse{}
		ov := make([]bool, nops)
		for k := 0; k < nops; k++ {
			o := &rsync.Operation{Data: []byte{1, 2}}
			if k%2 == 1 {
				o = &rsync.Operation{Start: 1, Count: 2}
			}
			if (bad == 1 && k == 0) || (bad == 2 && k == nops-1) {
				o = &rsync.Operation{Data: []byte{1}, Count: 1}
			}
			ov[k] = o.EnsureValid() == nil
			resp.SnapshotDelta = append(resp.SnapshotDelta, o)
		}
		if withErr {
			resp.Error = "e"
		}
		ok := remote.VerifScanResponseEnsureValid(resp) == nil
		return result{coq: fmt.Sprintf("(CScanEV %s %s %s)", boolList(ov), boolTerm(withErr), boolTerm(ok)),
			tags: []string{"ev:scan", "ev:scan-accepted-" + boolTerm(ok)}, nontrivial: true}
	}
	panic("unknown ev scope " + spec.Prof)
}
