// Harness for C21 (remote endpoints behave exactly like local endpoints).
//
// Three kinds of cases:
//
//	real:   two mirrored temporary roots; one local.NewEndpoint used directly,
//	        one reached through remote.NewEndpoint <-> remote.ServeEndpoint
//	        over a buffered in-memory pipe (compression none and deflate;
//	        zstandard needs the SSPL build); random sequences of
//	        external edits, Scan (plain and full), Stage (+ transmission of the
//	        files), Supply and Transition are applied to both, and the case
//	        records what both returned plus what crossed the wire (decoded
//	        from a tap on the pipe).
//	script: the same client and server code (request loop `serve`, all client
//	        methods) over the same kind of pipe, uncompressed, but dispatching to a scripted
//	        endpoint whose answers are data (the "abstract local endpoint" of
//	        the model made concrete); the same script is executed directly as
//	        the reference. Exhaustive small scopes + random scripts.
//	ev:     StageResponse/ScanResponse/TransitionResponse.ensureValid applied
//	        to generated responses (well-formed and malformed).
//
// Every case is emitted as a Coq term for Harness/RemoteH.v, which compares
// the two endpoints' outputs by value (bit 2) and the model with the wire and
// with the client's outputs (bit 1).
package main

import (
	"encoding/json"
	"fmt"
	"os"
	"time"

	"verifharness/internal/hx"
)

// CaseSpec is the replay form of a case: everything is derived from it.
type CaseSpec struct {
	Mode string `json:"mode"`           // real | script | ev
	Seed int64  `json:"seed"`           // PRNG seed of the case
	Alg  int    `json:"alg,omitempty"`  // real: 1 = none, 2 = deflate
	Prof string `json:"prof,omitempty"` // real: small|big|limit|readonly; script: scope name
	N    int    `json:"n,omitempty"`    // number of operations
	Idx  int    `json:"idx,omitempty"`  // script/ev: index into an enumerated scope
	// Thorough selects the thorough tier's enumeration of a scope
	Thorough bool `json:"thorough,omitempty"`
}

const header = "From Coq Require Import List Bool Arith String NArith.\nImport ListNotations.\nFrom Mv Require Import Common.Bytes Model.Entry Model.Remote Harness.RemoteH.\nOpen Scope string_scope."

type result struct {
	coq        string
	tags       []string
	nontrivial bool
}

var baseDir string

func runSpec(spec CaseSpec) result {
	switch spec.Mode {
	case "real":
		w := newWorld(baseDir, spec)
		defer w.close()
		if spec.Prof == "readonly-empty-stage" {
			// the known finding's witness (corpus): scan, then Stage with no paths
			w.opScan()
			w.p.stage(nil, nil, nil)
		} else {
			w.run(spec.N)
		}
		p := w.p
		nt := p.nScanOk >= 2 && (p.nTransOk > 0 || p.nStageAll+p.nStagePart+p.nStageNone > 0 || p.nScanErr > 0 || p.nNilContent > 0)
		if p.nBlockOps > 0 {
			p.tag("scan:delta-with-block-ops")
		}
		return result{coq: p.coq(), tags: p.tags, nontrivial: nt}
	case "script":
		return runScript(spec)
	case "ev":
		return runEV(spec)
	}
	panic("unknown case mode " + spec.Mode)
}

func main() {
	cfg := hx.Parse()
	var err error
	baseDir, err = os.MkdirTemp("", "verif-")
	must(err)
	defer os.RemoveAll(baseDir)
	must(os.Setenv("MUTAGEN_DATA_DIRECTORY", baseDir+"/data"))

	w := hx.NewWriter(cfg, header, "rcase", "remote_failures", 200)
	w.Rule = "a case = one session: the table of snapshots occurring in it and, per operation, the outputs of the directly used endpoint, of the endpoint behind client/server, and the decoded wire messages (real and script cases), or one response handed to ensureValid (ev cases); distinct = distinct Coq terms; non-trivial (real/script) = at least two successful scans and at least one of: staging that filtered/required paths, a successful transition, a scan error, a nil-content snapshot; (ev) = every case"
	add := func(spec CaseSpec, origin string) {
		if w.Aborted {
			return
		}
		var res result
		if w.Guard(spec, 20*time.Second, func() { res = runSpec(spec) }) {
			w.Add(hx.Case{Coq: res.coq, Replay: spec, Nontrivial: res.nontrivial, Tags: res.tags, Origin: origin})
		}
	}
	finish := func() {
		w.Close()
		os.RemoveAll(baseDir)
		fmt.Printf("cases %d\n", w.Total())
	}
	if cfg.Replay != "" {
		b, err := os.ReadFile(cfg.Replay)
		must(err)
		var wrapper struct {
			Case CaseSpec `json:"case"`
		}
		must(json.Unmarshal(b, &wrapper))
		add(wrapper.Case, "replay")
		finish()
		return
	}
	for _, raw := range hx.LoadCorpus(cfg.Corpus) {
		var c CaseSpec
		if json.Unmarshal(raw, &c) == nil && c.Mode != "" {
			add(c, "corpus")
		}
	}

	// exhaustive scopes (scripted endpoint, ensureValid)
	scopes := map[string]string{}
	for _, sc := range scriptScopes(cfg.Thorough()) {
		for i := 0; i < sc.count; i++ {
			add(CaseSpec{Mode: sc.mode, Prof: sc.name, Idx: i, Seed: int64(i), Thorough: cfg.Thorough()}, "exhaustive")
		}
		scopes[sc.name] = sc.describe
	}
	w.Extra["exhaustive_scope"] = scopes

	// random
	r := cfg.Rand
	nReal, nScript := 160, 160
	if cfg.Thorough() {
		nReal, nScript = 1200, 1500
	}
	if os.Getenv("VERIF_REAL_ONLY") != "" { // development aid: many real cases, nothing else
		fmt.Sscan(os.Getenv("VERIF_REAL_ONLY"), &nReal)
		nScript = 0
	}
	for i := 0; i < nScript; i++ {
		add(CaseSpec{Mode: "script", Prof: "random", Seed: r.Int63(), N: 4 + r.Intn(12)}, "random")
	}
	profs := []string{"small", "small", "small", "big", "limit", "limit", "readonly", "small"}
	for i := 0; i < nReal; i++ {
		prof := profs[i%len(profs)]
		n := 6 + r.Intn(10)
		if prof == "big" {
			n = 5 + r.Intn(5)
		}
		add(CaseSpec{Mode: "real", Seed: r.Int63(), Alg: 1 + (i/len(profs))%2, Prof: prof, N: n}, "random")
	}
	finish()
}
