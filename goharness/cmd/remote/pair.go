package main

import (
	"bytes"
	"context"
	"crypto/sha1"
	"fmt"
	"io"
	"os"
	"sort"
	"strings"
	"sync"

	"google.golang.org/protobuf/proto"

	"github.com/mutagen-io/mutagen/pkg/synchronization"
	"github.com/mutagen-io/mutagen/pkg/synchronization/core"
	"github.com/mutagen-io/mutagen/pkg/synchronization/endpoint/remote"
	"github.com/mutagen-io/mutagen/pkg/synchronization/rsync"

	"verifharness/internal/hx"
)

var detMarshal = proto.MarshalOptions{Deterministic: true}

// pool tokenises strings. Elaborating a literal in Coq costs time per
// character, and the Coq side only ever COMPARES the strings of a case (names,
// paths, digests, serialised rsync signatures, file contents, messages), so
// every string of three or more characters, and every string that is not
// printable ASCII, is replaced -- injectively within the case -- by a
// three-character token "~xy"; strings of at most two printable characters
// (in particular the empty string) are printed as they are, so tokens and
// literals cannot collide. Error texts are classified on this side into the
// model's error constructors (see cerrTerm) before their message is tokenised.
type pool struct {
	index map[string]int
}

func newPool() *pool { return &pool{index: map[string]int{}} }

const tokenAlphabet = "0123456789abcdefghijklmnopqrstuvwxyzABCDEFGHIJKLMNOPQRSTUVWXYZ!#$%&'()*+,-./:;<=>?@[]^_`{|}"

func printable(s string) bool {
	for i := 0; i < len(s); i++ {
		if s[i] < 0x20 || s[i] > 0x7e || s[i] == '"' {
			return false
		}
	}
	return true
}

// modelLiterals are the messages the model itself produces (Model/Remote.v);
// they are compared with the model's own literals and therefore never
// tokenised.
var modelLiterals = map[string]bool{
	"path count does not match digest count": true,
	"unable to marshal snapshot":             true,
}

// lit renders a printable string literally (entry names: their order and
// validity matter to the Coq side).
func (p *pool) lit(x string) string {
	if !printable(x) {
		panic("harness: unprintable entry name")
	}
	return `"` + x + `"`
}

// s renders a Go string as a Coq string term.
func (p *pool) s(x string) string {
	if (len(x) <= 2 || modelLiterals[x]) && printable(x) {
		return `"` + x + `"`
	}
	k, ok := p.index[x]
	if !ok {
		k = len(p.index)
		p.index[x] = k
	}
	n := len(tokenAlphabet)
	if k >= n*n {
		panic("harness: more distinct strings in one case than tokens")
	}
	return `"~` + string(tokenAlphabet[k/n]) + string(tokenAlphabet[k%n]) + `"`
}

// cerrTerm classifies the text of an error returned by an endpoint client
// method into the model's error constructors.
func (p *pool) cerrTerm(msg string) string {
	for _, c := range []struct{ prefix, term string }{
		{"invalid scan response: ", "EInvalidResponse"},
		{"invalid stage response: ", "EInvalidResponse"},
		{"invalid transition response: ", "EInvalidResponse"},
		{"unable to patch base snapshot: ", "EPatch"},
		{"unable to unmarshal snapshot: ", "EUnmarshal"},
		{"invalid snapshot received: ", "EInvalidSnapshot"},
		{"unable to marshal ancestor-based snapshot: ", "EMarshalAncestor"},
		{"unable to send ", "ETransport"},
		{"unable to receive ", "ETransport"},
		{"unable to decode ", "ETransport"},
	} {
		if strings.HasPrefix(msg, c.prefix) {
			return c.term
		}
	}
	if rest, ok := strings.CutPrefix(msg, "remote error: "); ok {
		return "(ERemote " + p.s(rest) + ")"
	}
	return "(ELocal " + p.s(msg) + ")"
}

func (p *pool) strs(xs []string) string {
	items := make([]string, len(xs))
	for i, x := range xs {
		items[i] = p.s(x)
	}
	return hx.List(items)
}

func (p *pool) entryBody(e *core.Entry) string {
	if e == nil {
		return "ENilChildNotRepresentable"
	}
	contents := func() string {
		names := make([]string, 0, len(e.Contents))
		for n := range e.Contents {
			names = append(names, n)
		}
		sort.Strings(names)
		items := make([]string, len(names))
		for i, n := range names {
			items[i] = "(" + p.lit(n) + ", " + p.entryBody(e.Contents[n]) + ")"
		}
		return "[" + strings.Join(items, "; ") + "]"
	}
	switch e.Kind {
	case core.EntryKind_Directory:
		return "EDir " + contents()
	case core.EntryKind_File:
		return "EFile " + boolTerm(e.Executable) + " " + p.s(string(e.Digest))
	case core.EntryKind_SymbolicLink:
		return "ELink " + p.s(e.Target)
	case core.EntryKind_Untracked:
		return "EUntracked"
	case core.EntryKind_Problematic:
		return "EProblem " + p.s(e.Problem)
	case core.EntryKind_PhantomDirectory:
		return "EPhantom " + contents()
	default:
		return fmt.Sprintf("EUnknownKind%d", int(e.Kind))
	}
}

// entry renders a possibly-nil entry as a Coq oentry term (as coretree.Entry
// does, with strings going through the pool).
func (p *pool) entry(e *core.Entry) string {
	if e == nil {
		return "None"
	}
	return "(Some (" + p.entryBody(e) + "))"
}

// table interns snapshots by their deterministic serialisation; the Coq side
// receives the table once per case and compares entries by value.
type table struct {
	keys  map[string]int
	terms []string
	bytes [][]byte
	pool  *pool
}

func newTable() *table { return &table{keys: map[string]int{}, pool: newPool()} }

func (t *table) snapTerm(s *core.Snapshot) string {
	b := func(x bool) string {
		if x {
			return "true"
		}
		return "false"
	}
	return fmt.Sprintf("(mkS %s %s %s \"%d\" \"%d\" \"%d\" \"%d\")", t.pool.entry(s.Content),
		b(s.PreservesExecutability), b(s.DecomposesUnicode), s.Directories, s.Files, s.SymbolicLinks, s.TotalFileSize)
}

func (t *table) add(s *core.Snapshot) int {
	raw, err := detMarshal.Marshal(s)
	if err != nil {
		panic("harness: snapshot not marshallable: " + err.Error())
	}
	if i, ok := t.keys[string(raw)]; ok {
		return i
	}
	i := len(t.terms)
	t.keys[string(raw)] = i
	t.terms = append(t.terms, t.snapTerm(s))
	t.bytes = append(t.bytes, raw)
	return i
}

func (t *table) term() string { return "[" + strings.Join(t.terms, ";\n  ") + "]" }

func optNat(i int) string {
	if i < 0 {
		return "None"
	}
	return fmt.Sprintf("(Some %d)", i)
}

func boolTerm(b bool) string {
	if b {
		return "true"
	}
	return "false"
}

func (p *pair) str(x string) string { return p.tbl.pool.s(x) }

func (p *pair) strList(xs []string) string {
	items := make([]string, len(xs))
	for i, x := range xs {
		items[i] = p.str(x)
	}
	return hx.List(items)
}

// sigStr is the canonical value of an rsync signature: its deterministic
// serialisation (a nil signature is not a valid list element and shows as "nil").
func sigStr(s *rsync.Signature) string {
	if s == nil {
		return "<nil>"
	}
	raw, err := detMarshal.Marshal(s)
	if err != nil {
		return "<unmarshallable>"
	}
	return string(raw)
}

func (p *pair) sigList(ss []*rsync.Signature) string {
	items := make([]string, len(ss))
	for i, s := range ss {
		items[i] = p.str(sigStr(s))
	}
	return hx.List(items)
}

func (p *pair) entryList(es []*core.Entry) string {
	items := make([]string, len(es))
	for i, e := range es {
		items[i] = p.tbl.pool.entry(e)
	}
	return hx.List(items)
}

// pair drives one directly used endpoint (L) and one reached through the
// client/server protocol (R), and records what both return and what the wire
// carried.
type pair struct {
	L, R  synchronization.Endpoint
	obs   *observer
	tbl   *table
	out   []string
	tags  []string
	normL func(string) string
	normR func(string) string
	dead  bool // the session ended (an operation failed in a way that ends it)
	ro    bool // the endpoints are read-only
	// quiesce waits until the server has consumed everything sent so far
	quiesce func()
	engine  *rsync.Engine
	// statistics for the non-triviality rule
	nScanOk, nScanErr, nNilContent, nStageAll, nStageNone, nStagePart, nTransOk, nMissing, nBlockOps int
}

func (p *pair) tag(s string) { p.tags = append(p.tags, s) }

// noteDiff is a development aid (VERIF_DEBUG): it reports outputs whose
// printed forms differ although neither is an error. The verdict itself is
// computed in Coq.
func (p *pair) noteDiff(op, loc, rem string) {
	if os.Getenv("VERIF_DEBUG") != "" && loc != rem && !strings.Contains(loc, "Err ") && !strings.Contains(rem, "Err ") {
		fmt.Fprintln(os.Stderr, "DIFF", op, loc, "<>", rem)
	}
}

func (p *pair) problems(ps []*core.Problem, norm func(string) string) string {
	items := make([]string, len(ps))
	for i, q := range ps {
		if q == nil {
			items[i] = "(\"<nil>\", \"<nil>\")"
			continue
		}
		items[i] = "(" + p.str(q.Path) + ", " + p.str(norm(q.Error)) + ")"
	}
	return hx.List(items)
}

// ---------------------------------------------------------------- scan

// errTerm renders an error: the directly used endpoint's as (ELocal message),
// the client's classified by cerrTerm.
func (p *pair) errTerm(err error, norm func(string) string, client bool) string {
	if client {
		return p.tbl.pool.cerrTerm(norm(err.Error()))
	}
	return "(ELocal " + p.str(norm(err.Error())) + ")"
}

func (p *pair) scanOut(s *core.Snapshot, err error, tryAgain bool, norm func(string) string, client bool) string {
	if err != nil {
		return fmt.Sprintf("(SErr %s %s)", p.errTerm(err, norm, client), boolTerm(tryAgain))
	}
	return fmt.Sprintf("(SOk %d)", p.tbl.add(s))
}

func deltaEqual(a, b []*rsync.Operation) bool {
	if len(a) != len(b) {
		return false
	}
	for i := range a {
		if !proto.Equal(a[i], b[i]) {
			return false
		}
	}
	return true
}

// scan performs Scan on both endpoints and decodes the request and response
// that crossed the wire. The request's signature is identified with the table
// entry whose serialisation has that signature; the response's delta with the
// table entry it reconstructs and the entry against whose signature the real
// deltification reproduces it.
func (p *pair) scan(ancestor *core.Entry, full bool) (*core.Snapshot, error) {
	return p.scanCtx(context.Background(), context.Background(), ancestor, full)
}

// scanCtx is scan with the contexts the two callers pass (they may be
// cancelled while the scan runs: the client then sends its completion request
// early and the server cancels the context of the endpoint's Scan).
func (p *pair) scanCtx(ctxL, ctxR context.Context, ancestor *core.Entry, full bool) (*core.Snapshot, error) {
	ancIdx := p.tbl.add(&core.Snapshot{Content: ancestor, PreservesExecutability: true})
	sl, el, tl := p.L.Scan(ctxL, ancestor, full)
	sr, er, tr := p.R.Scan(ctxR, ancestor, full)
	loc := p.scanOut(sl, el, tl, p.normL, false)
	rem := p.scanOut(sr, er, tr, p.normR, true)
	p.noteDiff("scan", loc, rem)

	// wire: request (+ completion request), response
	req := &remote.EndpointRequest{}
	if err := p.obs.up.Decode(req); err != nil || req.Scan == nil {
		panic(fmt.Sprintf("wire tap: no scan request on the wire (%v)", err))
	}
	if err := p.obs.up.Decode(&remote.ScanCompletionRequest{}); err != nil {
		panic(fmt.Sprintf("wire tap: no scan completion request on the wire (%v)", err))
	}
	resp := &remote.ScanResponse{}
	if err := p.obs.down.Decode(resp); err != nil {
		panic(fmt.Sprintf("wire tap: no scan response on the wire (%v)", err))
	}
	wbase := -1
	for i, raw := range p.tbl.bytes {
		if proto.Equal(p.engine.BytesSignature(raw, 0), req.Scan.BaselineSnapshotSignature) {
			wbase = i
			break
		}
	}
	wresp := ""
	if resp.Error != "" {
		wresp = fmt.Sprintf("(WErr %s %s)", p.str(p.normR(resp.Error)), boolTerm(resp.TryAgain))
	} else {
		target, against := -1, -1
		if wbase >= 0 {
			if raw, err := p.engine.PatchBytes(p.tbl.bytes[wbase], req.Scan.BaselineSnapshotSignature, resp.SnapshotDelta); err == nil {
				snap := &core.Snapshot{}
				if proto.Unmarshal(raw, snap) == nil {
					if i, ok := p.tbl.keys[string(raw)]; ok {
						target = i
					} else if again, err := detMarshal.Marshal(snap); err == nil && bytes.Equal(again, raw) {
						target = p.tbl.add(snap)
					}
				}
				if target >= 0 {
					if deltaEqual(p.engine.DeltifyBytes(raw, req.Scan.BaselineSnapshotSignature, 0), resp.SnapshotDelta) {
						against = wbase
					} else {
						for j, other := range p.tbl.bytes {
							if deltaEqual(p.engine.DeltifyBytes(raw, p.engine.BytesSignature(other, 0), 0), resp.SnapshotDelta) {
								against = j
								break
							}
						}
					}
				}
			}
		}
		for _, o := range resp.SnapshotDelta {
			if len(o.Data) == 0 {
				p.nBlockOps++
			}
		}
		wresp = fmt.Sprintf("(WDelta %s %s)", optNat(target), optNat(against))
	}
	p.out = append(p.out, fmt.Sprintf("OScan %d %s %s %s %s %s %s", ancIdx, boolTerm(full), loc, rem,
		optNat(wbase), boolTerm(req.Scan.Full), wresp))
	p.tag("op:scan")
	if el != nil {
		p.nScanErr++
		p.tag("scan:error")
	} else {
		p.nScanOk++
		if sl.Content == nil {
			p.nNilContent++
			p.tag("scan:nil-content")
		}
	}
	if full {
		p.tag("scan:full")
	}
	return sl, el
}

// ---------------------------------------------------------------- stage

func (p *pair) stageOut(paths []string, sigs []*rsync.Signature, err error, norm func(string) string, client bool) string {
	if err != nil {
		return fmt.Sprintf("(GErr %s)", p.errTerm(err, norm, client))
	}
	return fmt.Sprintf("(GOk %s %s)", p.strList(paths), p.sigList(sigs))
}

// feeder transmits the files for the paths an endpoint asked for through the
// receiver it returned (which finalizes the receiver).
type feeder func(paths []string, sigs []*rsync.Signature, receiver rsync.Receiver) error

// stage performs Stage on both endpoints, feeds each returned receiver, and
// decodes the response (and the forwarded transmissions) from the wire.
func (p *pair) stage(paths []string, digests [][]byte, feed feeder) (failed bool) {
	ds := make([]string, len(digests))
	for i, d := range digests {
		ds[i] = string(d)
	}
	// The endpoints may filter their argument slice in place: hand over copies.
	pl, sl, rl, el := p.L.Stage(append([]string(nil), paths...), digests)
	pr, sr, rr, er := p.R.Stage(append([]string(nil), paths...), digests)
	loc := p.stageOut(pl, sl, el, p.normL, false)
	rem := p.stageOut(pr, sr, er, p.normR, true)
	p.noteDiff("stage", loc, rem)
	wresp := "None"
	onWire := len(paths) == len(digests) && len(paths) > 0
	if onWire {
		req := &remote.EndpointRequest{}
		if err := p.obs.up.Decode(req); err != nil || req.Stage == nil {
			panic(fmt.Sprintf("wire tap: no stage request on the wire (%v)", err))
		}
		if strings.Join(req.Stage.Paths, "\x00") != strings.Join(paths, "\x00") {
			panic("wire tap: stage request carries other paths than requested")
		}
		resp := &remote.StageResponse{}
		if err := p.obs.down.Decode(resp); err != nil {
			panic(fmt.Sprintf("wire tap: no stage response on the wire (%v)", err))
		}
		wresp = fmt.Sprintf("(Some (%s, %s, %s))", p.strList(resp.Paths), p.sigList(resp.Signatures), p.str(p.normR(resp.Error)))
	}
	p.out = append(p.out, fmt.Sprintf("OStage %s %s %s %s %s", p.strList(paths), p.strList(ds), loc, rem, wresp))
	p.tag("op:stage")
	if rl != nil {
		feed(pl, sl, rl)
	}
	if rr != nil {
		feed(pr, sr, rr)
		if p.quiesce != nil {
			p.quiesce()
		}
		// the transmissions forwarded to the server: consume them from the tap
		for range pr {
			for {
				t := &rsync.Transmission{}
				if err := p.obs.up.Decode(t); err != nil {
					panic(fmt.Sprintf("wire tap: forwarded transmissions missing (%v)", err))
				}
				if t.Done {
					break
				}
			}
		}
	}
	switch {
	case el != nil:
		p.tag("stage:error")
	case len(pl) == 0 && len(paths) > 0:
		p.nStageNone++
		p.tag("stage:none-required")
	case len(pl) == len(paths) && len(paths) > 0:
		p.nStageAll++
		p.tag("stage:all-required")
	case len(paths) > 0:
		p.nStagePart++
		p.tag(fmt.Sprintf("stage:filtered-%d", min(len(paths)-len(pl), 3)))
	}
	if el != nil || er != nil {
		// a failed Stage ends the server's request loop: the session is over
		p.dead = true
		return true
	}
	return false
}

// ---------------------------------------------------------------- transition

func (p *pair) transOut(rs []*core.Entry, ps []*core.Problem, missing bool, err error, norm func(string) string, client bool) string {
	if err != nil {
		return fmt.Sprintf("(TErr %s)", p.errTerm(err, norm, client))
	}
	return fmt.Sprintf("(TOk %s %s %s)", p.entryList(rs), p.problems(ps, norm), boolTerm(missing))
}

func cloneChanges(cs []*core.Change) []*core.Change {
	out := make([]*core.Change, len(cs))
	for i, c := range cs {
		out[i] = proto.Clone(c).(*core.Change)
	}
	return out
}

func (p *pair) transition(changes []*core.Change) {
	rl, pl, ml, el := p.L.Transition(context.Background(), cloneChanges(changes))
	rr, pr, mr, er := p.R.Transition(context.Background(), cloneChanges(changes))
	loc := p.transOut(rl, pl, ml, el, p.normL, false)
	rem := p.transOut(rr, pr, mr, er, p.normR, true)
	p.noteDiff("transition", loc, rem)
	req := &remote.EndpointRequest{}
	if err := p.obs.up.Decode(req); err != nil || req.Transition == nil {
		panic(fmt.Sprintf("wire tap: no transition request on the wire (%v)", err))
	}
	if err := p.obs.up.Decode(&remote.TransitionCompletionRequest{}); err != nil {
		panic(fmt.Sprintf("wire tap: no transition completion request on the wire (%v)", err))
	}
	resp := &remote.TransitionResponse{}
	if err := p.obs.down.Decode(resp); err != nil {
		panic(fmt.Sprintf("wire tap: no transition response on the wire (%v)", err))
	}
	unwrapped := make([]*core.Entry, len(resp.Results))
	for i, a := range resp.Results {
		if a != nil {
			unwrapped[i] = a.Content
		}
	}
	wresp := fmt.Sprintf("(Some (%s, %s, %s, %s))", p.entryList(unwrapped), p.problems(resp.Problems, p.normR),
		boolTerm(resp.StagerMissingFiles), p.str(p.normR(resp.Error)))
	p.out = append(p.out, fmt.Sprintf("OTrans %d %s %s %s", len(changes), loc, rem, wresp))
	p.tag("op:transition")
	if el != nil {
		p.tag("transition:error")
	} else {
		p.nTransOk++
		if ml {
			p.nMissing++
			p.tag("transition:missing-files")
		}
		if len(pl) > 0 {
			p.tag("transition:problems")
		}
	}
}

// ---------------------------------------------------------------- supply

// recSinker records what a real rsync receiver reconstructs per path.
type recSinker struct {
	mu    sync.Mutex
	files map[string]*bytes.Buffer
}

type recSink struct{ b *bytes.Buffer }

func (s recSink) Write(p []byte) (int, error) { return s.b.Write(p) }
func (s recSink) Close() error                { return nil }

func (r *recSinker) Sink(path string) (io.WriteCloser, error) {
	r.mu.Lock()
	defer r.mu.Unlock()
	b := &bytes.Buffer{}
	r.files[path] = b
	return recSink{b}, nil
}

func (r *recSinker) term(p *pair) string {
	names := make([]string, 0, len(r.files))
	for n := range r.files {
		names = append(names, n)
	}
	sort.Strings(names)
	items := make([]string, len(names))
	for i, n := range names {
		c := r.files[n].Bytes()
		v := "D" + string(c)
		if len(c) > 48 {
			h := sha1.Sum(c)
			v = fmt.Sprintf("H%d:%x", len(c), h)
		}
		items[i] = "(" + p.str(n) + ", " + p.str(v) + ")"
	}
	return hx.List(items)
}

// supply asks both endpoints to transmit the given paths against the given
// base signatures into real receivers rooted at dstL/dstR (which hold the
// bases), and records the reconstructed files.
func (p *pair) supply(paths []string, sigs []*rsync.Signature, dstL, dstR string) {
	run := func(e synchronization.Endpoint, dst string) (string, bool) {
		sink := &recSinker{files: map[string]*bytes.Buffer{}}
		receiver, err := rsync.NewReceiver(dst, paths, sigs, sink)
		if err != nil {
			panic("harness: receiver: " + err.Error())
		}
		err = e.Supply(paths, sigs, receiver)
		return fmt.Sprintf("(%s, %s)", sink.term(p), boolTerm(err != nil)), err != nil
	}
	loc, _ := run(p.L, dstL)
	rem, failedR := run(p.R, dstR)
	p.noteDiff("supply", loc, rem)
	req := &remote.EndpointRequest{}
	if err := p.obs.up.Decode(req); err != nil || req.Supply == nil {
		panic(fmt.Sprintf("wire tap: no supply request on the wire (%v)", err))
	}
	if !failedR {
		for range paths {
			for {
				t := &rsync.Transmission{}
				if err := p.obs.down.Decode(t); err != nil {
					panic(fmt.Sprintf("wire tap: supplied transmissions missing (%v)", err))
				}
				if t.Done {
					break
				}
			}
		}
	} else {
		p.dead = true
	}
	p.out = append(p.out, fmt.Sprintf("OSupply %s %s", loc, rem))
	p.tag("op:supply")
}

func (p *pair) coq() string {
	return "(CSeq " + boolTerm(p.ro) + " " + p.tbl.term() + "\n " + hx.List(p.out) + ")"
}
