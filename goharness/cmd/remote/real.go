package main

import (
	"crypto/sha1"
	"fmt"
	"math/rand"
	"os"
	"path/filepath"
	"sort"
	"strings"

	"google.golang.org/protobuf/proto"

	"github.com/mutagen-io/mutagen/pkg/synchronization"
	"github.com/mutagen-io/mutagen/pkg/synchronization/compression"
	"github.com/mutagen-io/mutagen/pkg/synchronization/core"
	"github.com/mutagen-io/mutagen/pkg/synchronization/endpoint/local"
	"github.com/mutagen-io/mutagen/pkg/synchronization/endpoint/remote"
	"github.com/mutagen-io/mutagen/pkg/synchronization/rsync"
)

// world is one case in real mode: two mirrored temporary roots, one local
// endpoint used directly, one reached through client and server over net.Pipe.
type world struct {
	r                  *rand.Rand
	dir                string
	rootL, rootR       string
	srcDir             string
	p                  *pair
	serverDone         chan struct{}
	pool               [][]byte
	last               *core.Snapshot   // last snapshot the direct endpoint returned
	history            []*core.Snapshot // all of them (ancestor candidates)
	plan               *plan
	big                bool
	nameCounter        int
	scannedSinceStage  bool
	scannedSinceTrans  bool
	everScanned        bool
	maxEntries         uint64
	readOnly           bool
	externalEditsSince bool
	debugSeen          int
}

// plan is what a synchronization cycle wants to create on the endpoint.
type plan struct {
	files  map[string][]byte // path -> content to create/replace
	exec   map[string]bool
	remove []string
}

var caseCounter int

func must(err error) {
	if err != nil {
		panic("harness: " + err.Error())
	}
}

func newWorld(base string, spec CaseSpec) *world {
	caseCounter++
	r := rand.New(rand.NewSource(spec.Seed))
	w := &world{r: r, dir: filepath.Join(base, fmt.Sprintf("c%d", caseCounter)), big: spec.Prof == "big"}
	w.rootL = filepath.Join(w.dir, "L", "root")
	w.rootR = filepath.Join(w.dir, "R", "root")
	w.srcDir = filepath.Join(w.dir, "src")
	must(os.MkdirAll(filepath.Dir(w.rootL), 0o755))
	must(os.MkdirAll(filepath.Dir(w.rootR), 0o755))
	must(os.MkdirAll(w.srcDir, 0o755))

	// content pool
	for i := 0; i < 12; i++ {
		n := r.Intn(40)
		if i == 0 {
			n = 0
		}
		if r.Intn(6) == 0 {
			n = 1500 + r.Intn(3000)
		}
		b := make([]byte, n)
		for j := range b {
			b[j] = byte('a' + r.Intn(4))
		}
		w.pool = append(w.pool, b)
	}

	// initial population of the roots (same on both sides)
	switch r.Intn(4) {
	case 0: // roots do not exist
	case 1:
		w.both(func(root string) { must(os.MkdirAll(root, 0o755)) })
	default:
		w.both(func(root string) { must(os.MkdirAll(root, 0o755)) })
		n := 1 + r.Intn(6)
		if w.big {
			n = 55 + r.Intn(15)
		}
		for i := 0; i < n; i++ {
			w.editCreate()
		}
	}

	cfg := &synchronization.Configuration{
		WatchMode: synchronization.WatchMode_WatchModeNoWatch,
	}
	if r.Intn(2) == 0 {
		cfg.StageMode = synchronization.StageMode_StageModeNeighboring
	}
	alpha := r.Intn(2) == 0
	switch spec.Prof {
	case "limit":
		w.maxEntries = uint64(3 + r.Intn(6))
		cfg.MaximumEntryCount = w.maxEntries
	case "readonly", "readonly-empty-stage":
		cfg.SynchronizationMode = core.SynchronizationMode_SynchronizationModeOneWaySafe
		alpha = true
		w.readOnly = true
	}
	alg := compression.Algorithm(spec.Alg)
	cfg.CompressionAlgorithm = alg
	must(cfg.EnsureValid(false))

	sessL := fmt.Sprintf("verif%dL", caseCounter)
	sessR := fmt.Sprintf("verif%dR", caseCounter)
	epL, err := local.NewEndpoint(nil, w.rootL, sessL, synchronization.Version_Version1, cfg, alpha)
	must(err)
	clientConn, serverConn := memPipe()
	tap := &tapConn{Conn: clientConn, up: newTapBuf(), down: newTapBuf()}
	w.serverDone = make(chan struct{})
	go func() {
		remote.ServeEndpoint(nil, serverConn)
		close(w.serverDone)
	}()
	epR, err := remote.NewEndpoint(nil, tap, w.rootR, sessR, synchronization.Version_Version1, cfg, alpha)
	must(err)
	obs := newObserver(tap, alg, true)
	if err := obs.up.Decode(&remote.InitializeSynchronizationRequest{}); err != nil {
		panic("wire tap: no initialize request on the wire: " + err.Error())
	}
	if err := obs.down.Decode(&remote.InitializeSynchronizationResponse{}); err != nil {
		panic("wire tap: no initialize response on the wire: " + err.Error())
	}
	norm := func(root, sess string) func(string) string {
		return func(s string) string {
			s = strings.ReplaceAll(s, root, "<root>")
			s = strings.ReplaceAll(s, filepath.Dir(root), "<parent>")
			s = strings.ReplaceAll(s, sess, "<session>")
			return s
		}
	}
	w.p = &pair{L: epL, R: epR, obs: obs, tbl: newTable(), engine: rsync.NewEngine(),
		normL: norm(w.rootL, sessL), normR: norm(w.rootR, sessR), ro: w.readOnly, quiesce: clientConn.out.quiesce}
	w.p.tag(fmt.Sprintf("real:alg-%d", spec.Alg))
	w.p.tag("real:prof-" + spec.Prof)
	return w
}

func (w *world) close() {
	w.p.L.Shutdown()
	w.p.R.Shutdown()
	<-w.serverDone
	os.RemoveAll(w.dir)
}

func (w *world) both(f func(root string)) {
	f(w.rootL)
	f(w.rootR)
}

// ---------------------------------------------------------------- external edits

func (w *world) freshName() string {
	w.nameCounter++
	return fmt.Sprintf("n%d", w.nameCounter)
}

// listing returns the relative paths of directories and files currently under
// the left root (both roots are mirrored).
func (w *world) listing() (dirs, files []string) {
	filepath.Walk(w.rootL, func(p string, info os.FileInfo, err error) error {
		if err != nil {
			return nil
		}
		rel, _ := filepath.Rel(w.rootL, p)
		if rel == "." {
			rel = ""
		}
		if info.IsDir() {
			dirs = append(dirs, rel)
		} else if info.Mode().IsRegular() {
			files = append(files, rel)
		}
		return nil
	})
	sort.Strings(dirs)
	sort.Strings(files)
	return
}

func (w *world) editCreate() {
	dirs, _ := w.listing()
	if len(dirs) == 0 {
		w.both(func(root string) {
			os.RemoveAll(root)
			must(os.MkdirAll(root, 0o755))
		})
		dirs = []string{""}
	}
	d := dirs[w.r.Intn(len(dirs))]
	name := filepath.Join(d, w.freshName())
	switch k := w.r.Intn(10); {
	case k < 6:
		c := w.pool[w.r.Intn(len(w.pool))]
		mode := os.FileMode(0o644)
		if w.r.Intn(4) == 0 {
			mode = 0o755
		}
		w.both(func(root string) { must(os.WriteFile(filepath.Join(root, name), c, mode)) })
	case k < 8 && !w.big:
		w.both(func(root string) { must(os.Mkdir(filepath.Join(root, name), 0o755)) })
	case k < 9:
		target := []string{"n1", "../x", "missing", "/abs"}[w.r.Intn(4)]
		w.both(func(root string) { must(os.Symlink(target, filepath.Join(root, name))) })
	default:
		c := w.pool[w.r.Intn(len(w.pool))]
		w.both(func(root string) { must(os.WriteFile(filepath.Join(root, name), c, 0o644)) })
	}
}

func (w *world) edit() {
	w.externalEditsSince = true
	dirs, files := w.listing()
	switch k := w.r.Intn(20); {
	case k < 9:
		w.editCreate()
	case k < 12 && len(files) > 0:
		f := files[w.r.Intn(len(files))]
		w.both(func(root string) { must(os.Remove(filepath.Join(root, f))) })
	case k < 15 && len(files) > 0:
		// Overwrite in place with content of a DIFFERENT size: a same-size
		// rewrite within one timestamp granule of the scan is invisible to
		// the scan cache (type, mtime, size, file ID), on local endpoints
		// too, and would make the two mirrored roots diverge by timing alone.
		f := files[w.r.Intn(len(files))]
		var size int64 = -1
		if fi, err := os.Stat(filepath.Join(w.rootL, f)); err == nil {
			size = fi.Size()
		}
		c := w.pool[w.r.Intn(len(w.pool))]
		for i := 0; int64(len(c)) == size && i < len(w.pool); i++ {
			c = w.pool[i]
		}
		if int64(len(c)) == size {
			c = append(append([]byte{}, c...), 'x')
		}
		w.both(func(root string) { must(os.WriteFile(filepath.Join(root, f), c, 0o644)) })
	case k < 16 && len(files) > 0:
		f := files[w.r.Intn(len(files))]
		w.both(func(root string) { must(os.Chmod(filepath.Join(root, f), 0o755)) })
	case k < 17 && len(dirs) > 1:
		d := dirs[1+w.r.Intn(len(dirs)-1)]
		w.both(func(root string) { must(os.RemoveAll(filepath.Join(root, d))) })
	case k < 19:
		// the whole root disappears (snapshot content becomes nil) ...
		w.both(func(root string) { must(os.RemoveAll(root)) })
	default:
		// ... or is replaced by a file
		w.both(func(root string) {
			must(os.RemoveAll(root))
			must(os.WriteFile(root, w.pool[1], 0o644))
		})
	}
}

// ---------------------------------------------------------------- operations

func (w *world) opScan() {
	var ancestor *core.Entry
	switch k := w.r.Intn(6); {
	case k < 2 || len(w.history) == 0:
	case k < 4:
		ancestor = syncable(w.history[len(w.history)-1].Content)
	default:
		ancestor = syncable(w.history[w.r.Intn(len(w.history))].Content)
	}
	s, err := w.p.scan(ancestor, w.r.Intn(3) == 0)
	if err == nil {
		w.last = s
		w.history = append(w.history, s)
		w.scannedSinceStage, w.scannedSinceTrans, w.everScanned = true, true, true
		w.externalEditsSince = false
	}
}

// syncable drops unsynchronizable content (the harness-side analogue of the
// controller handing only synchronizable ancestors and changes to endpoints).
func syncable(e *core.Entry) *core.Entry {
	if e == nil {
		return nil
	}
	switch e.Kind {
	case core.EntryKind_Directory:
		out := &core.Entry{Kind: core.EntryKind_Directory}
		for n, c := range e.Contents {
			if s := syncable(c); s != nil {
				if out.Contents == nil {
					out.Contents = map[string]*core.Entry{}
				}
				out.Contents[n] = s
			}
		}
		return out
	case core.EntryKind_File, core.EntryKind_SymbolicLink:
		return proto.Clone(e).(*core.Entry)
	default:
		return nil
	}
}

func lookupEntry(e *core.Entry, path string) *core.Entry {
	if path == "" {
		return e
	}
	for _, c := range strings.Split(path, "/") {
		if e == nil || e.Kind != core.EntryKind_Directory {
			return nil
		}
		e = e.Contents[c]
	}
	return e
}

func walkEntry(e *core.Entry, path string, f func(path string, e *core.Entry)) {
	if e == nil {
		return
	}
	f(path, e)
	names := make([]string, 0, len(e.Contents))
	for n := range e.Contents {
		names = append(names, n)
	}
	sort.Strings(names)
	for _, n := range names {
		child := n
		if path != "" {
			child = path + "/" + n
		}
		walkEntry(e.Contents[n], child, f)
	}
}

func (w *world) makePlan() {
	pl := &plan{files: map[string][]byte{}, exec: map[string]bool{}}
	var dirs, files []string
	var content *core.Entry
	if w.last != nil {
		content = syncable(w.last.Content)
	}
	walkEntry(content, "", func(p string, e *core.Entry) {
		if e.Kind == core.EntryKind_Directory {
			dirs = append(dirs, p)
		} else if e.Kind == core.EntryKind_File {
			files = append(files, p)
		}
	})
	if len(dirs) == 0 {
		// root absent or not a directory: plan to create (or replace by) a single root file
		pl.files[""] = w.pool[w.r.Intn(len(w.pool))]
		w.plan = pl
		return
	}
	n := 1 + w.r.Intn(4)
	if w.r.Intn(5) == 0 {
		n += 3
	}
	for i := 0; i < n; i++ {
		d := dirs[w.r.Intn(len(dirs))]
		name := w.freshName()
		if w.r.Intn(5) == 0 {
			name = w.freshName() + "/" + name // inside a directory that must be created too
		}
		path := name
		if d != "" {
			path = d + "/" + name
		}
		var c []byte
		if len(files) > 0 && w.r.Intn(3) == 0 {
			// same content as a file already in the root (found through the reverse lookup map)
			if b, err := os.ReadFile(filepath.Join(w.rootL, files[w.r.Intn(len(files))])); err == nil {
				c = b
			}
		}
		if c == nil {
			c = w.pool[w.r.Intn(len(w.pool))]
		}
		if len(files) > 0 && w.r.Intn(6) == 0 {
			path = files[w.r.Intn(len(files))] // replace an existing file
		}
		pl.files[path] = c
		pl.exec[path] = w.r.Intn(4) == 0
	}
	for _, f := range files {
		if _, replaced := pl.files[f]; !replaced && w.r.Intn(6) == 0 {
			pl.remove = append(pl.remove, f)
		}
	}
	w.plan = pl
}

func (w *world) planPaths() []string {
	paths := make([]string, 0, len(w.plan.files))
	for p := range w.plan.files {
		paths = append(paths, p)
	}
	sort.Strings(paths)
	return paths
}

func (w *world) opStage() {
	if w.plan == nil || w.r.Intn(4) == 0 {
		w.makePlan()
	}
	paths := w.planPaths()
	digests := make([][]byte, len(paths))
	for i, p := range paths {
		h := sha1.Sum(w.plan.files[p])
		digests[i] = h[:]
	}
	switch w.r.Intn(25) {
	case 0:
		paths, digests = nil, nil
	case 1:
		digests = digests[:len(digests)-1]
	}
	// the source of the files: a directory holding them under the same paths;
	// now and then one file is withheld (the transmission reports an error).
	os.RemoveAll(w.srcDir)
	must(os.MkdirAll(w.srcDir, 0o755))
	withhold := -1
	if w.r.Intn(6) == 0 && len(paths) > 0 {
		withhold = w.r.Intn(len(paths))
	}
	for i, p := range paths {
		if i == withhold {
			continue
		}
		full := filepath.Join(w.srcDir, p)
		if p == "" {
			full = filepath.Join(w.srcDir, "rootfile")
		}
		must(os.MkdirAll(filepath.Dir(full), 0o755))
		must(os.WriteFile(full, w.plan.files[p], 0o644))
	}
	feed := func(ps []string, sigs []*rsync.Signature, receiver rsync.Receiver) error {
		src := make([]string, len(ps))
		for i, p := range ps {
			src[i] = p
			if p == "" {
				src[i] = "rootfile"
			}
		}
		return rsync.Transmit(w.srcDir, src, sigs, receiver)
	}
	w.p.stage(paths, digests, feed)
	w.scannedSinceStage = false
}

func (w *world) opTransition() {
	if w.plan == nil {
		w.makePlan()
		if w.r.Intn(2) == 0 {
			// deletions only need no staging
			w.plan.files = map[string][]byte{}
		}
	}
	var base *core.Entry
	if w.last != nil {
		base = syncable(w.last.Content)
	}
	target := proto.Clone(&core.Archive{Content: base}).(*core.Archive).Content
	set := func(path string, e *core.Entry) {
		if path == "" {
			target = e
			return
		}
		parts := strings.Split(path, "/")
		if target == nil || target.Kind != core.EntryKind_Directory {
			target = &core.Entry{Kind: core.EntryKind_Directory}
		}
		cur := target
		for i, c := range parts {
			if cur.Contents == nil {
				cur.Contents = map[string]*core.Entry{}
			}
			if i == len(parts)-1 {
				if e == nil {
					delete(cur.Contents, c)
				} else {
					cur.Contents[c] = e
				}
				return
			}
			next := cur.Contents[c]
			if next == nil || next.Kind != core.EntryKind_Directory {
				next = &core.Entry{Kind: core.EntryKind_Directory}
				cur.Contents[c] = next
			}
			cur = next
		}
	}
	for _, p := range w.planPaths() {
		h := sha1.Sum(w.plan.files[p])
		set(p, &core.Entry{Kind: core.EntryKind_File, Digest: h[:], Executable: w.plan.exec[p]})
	}
	for _, p := range w.plan.remove {
		if lookupEntry(target, p) != nil {
			set(p, nil)
		}
	}
	changes := core.Diff(base, target)
	sort.Slice(changes, func(i, j int) bool { return changes[i].Path < changes[j].Path })
	for _, c := range changes {
		must(c.EnsureValid(true))
	}
	w.p.transition(changes)
	w.scannedSinceTrans = false
	w.plan = nil
}

func (w *world) opSupply() {
	_, files := w.listing()
	if len(files) == 1 && files[0] == "" {
		return // the root is a file: nothing is supplied from it in this harness
	}
	n := 1 + w.r.Intn(3)
	var paths []string
	for i := 0; i < n; i++ {
		if len(files) > 0 && w.r.Intn(5) != 0 {
			paths = append(paths, files[w.r.Intn(len(files))])
		} else {
			paths = append(paths, "absent"+w.freshName())
		}
	}
	dstL := filepath.Join(w.dir, "dstL")
	dstR := filepath.Join(w.dir, "dstR")
	os.RemoveAll(dstL)
	os.RemoveAll(dstR)
	sigs := make([]*rsync.Signature, len(paths))
	for i, p := range paths {
		var basis []byte
		switch w.r.Intn(3) {
		case 0:
		case 1:
			basis, _ = os.ReadFile(filepath.Join(w.rootL, p))
		default:
			basis = w.pool[w.r.Intn(len(w.pool))]
		}
		sigs[i] = w.p.engine.BytesSignature(basis, 0)
		for _, dst := range []string{dstL, dstR} {
			full := filepath.Join(dst, p)
			must(os.MkdirAll(filepath.Dir(full), 0o755))
			must(os.WriteFile(full, basis, 0o644))
		}
	}
	w.p.supply(paths, sigs, dstL, dstR)
}

// run performs n operations (ending early if the session ends).
func (w *world) run(n int) {
	for i := 0; i < n && !w.p.dead; i++ {
		if os.Getenv("VERIF_DEBUG") != "" {
			for _, o := range w.p.out[w.debugSeen:] {
				fmt.Fprintln(os.Stderr, "OBS", o)
			}
			w.debugSeen = len(w.p.out)
		}
		switch k := w.r.Intn(100); {
		case k < 28:
			w.edit()
		case k < 58 || !w.everScanned:
			w.opScan()
		case k < 72:
			// Staging twice without a scan in between ends the session: rarely.
			// Otherwise stage right after a scan, as the controller does: with
			// stale cache entries (edits or a transition since the scan) the
			// local endpoint's own answer depends on Go's map iteration order
			// (which of several cached paths with the wanted digest it tries
			// to copy from), so two local endpoints need not agree either.
			if !w.scannedSinceStage && w.r.Intn(8) == 0 {
				w.opStage()
			} else {
				if !w.scannedSinceStage || !w.scannedSinceTrans || w.externalEditsSince {
					w.opScan()
				}
				if w.scannedSinceStage && !w.p.dead {
					w.opStage()
				}
			}
		case k < 88:
			if !w.scannedSinceTrans && w.r.Intn(4) != 0 {
				w.opScan()
			} else {
				if w.externalEditsSince && w.r.Intn(3) != 0 {
					w.opScan()
				}
				w.opTransition()
			}
		default:
			w.opSupply()
		}
	}
}
