package main

import (
	"context"
	"errors"
	"fmt"
	"io"
	"math/rand"
	"os"
	"path/filepath"

	"github.com/mutagen-io/mutagen/pkg/synchronization/core"
	"github.com/mutagen-io/mutagen/pkg/synchronization/endpoint/remote"
	"github.com/mutagen-io/mutagen/pkg/synchronization/rsync"
)

// ---------------------------------------------------------------- scripted endpoint

type scanAns struct {
	snap *core.Snapshot
	err  string
	try  bool
}

// sop is one scripted operation together with the endpoint's answer to it.
type sop struct {
	kind string // scan | stage | trans
	// scan
	anc     *core.Entry
	full    bool
	ans     scanAns // the endpoint's answer when it is asked for a plain scan
	ansFull scanAns // ... and when it is asked for a full scan
	// cancel: the caller cancels its context while the endpoint is inside
	// Scan; the endpoint blocks until its context is done, then answers
	cancel bool
	// stage
	req      int    // number of requested paths
	digests  int    // number of digests handed in (= req unless the caller errs)
	keep     []bool // which requested paths the endpoint says it still needs
	sigs     []*rsync.Signature
	stageErr string
	// transition
	changes  int
	results  []*core.Entry
	problems []*core.Problem
	missing  bool
	transErr string
}

// fake is a synchronization.Endpoint whose answers are the script's.
type fake struct {
	script []sop
	pos    int
	tmp    string
	// entered receives a token when a cancellable Scan has been entered
	entered chan struct{}
}

func newFake(script []sop, tmp string) *fake {
	return &fake{script: script, tmp: tmp, entered: make(chan struct{}, 1)}
}

func (f *fake) next(kind string) *sop {
	if f.pos >= len(f.script) || f.script[f.pos].kind != kind {
		panic(fmt.Sprintf("scripted endpoint: call %q out of script order at %d", kind, f.pos))
	}
	s := &f.script[f.pos]
	f.pos++
	return s
}

func (f *fake) Poll(ctx context.Context) error { <-ctx.Done(); return nil }

func (f *fake) Scan(ctx context.Context, _ *core.Entry, full bool) (*core.Snapshot, error, bool) {
	s := f.next("scan")
	if s.cancel {
		// a scan that is preempted: wait for the cancellation, then answer
		f.entered <- struct{}{}
		<-ctx.Done()
	}
	a := s.ans
	if full {
		a = s.ansFull
	}
	if a.snap == nil {
		return nil, errors.New(a.err), a.try
	}
	return a.snap, nil, false
}

type discardSinker struct{}
type discardSink struct{}

func (discardSink) Write(p []byte) (int, error)           { return len(p), nil }
func (discardSink) Close() error                          { return nil }
func (discardSinker) Sink(string) (io.WriteCloser, error) { return discardSink{}, nil }

func (f *fake) Stage(paths []string, _ [][]byte) ([]string, []*rsync.Signature, rsync.Receiver, error) {
	s := f.next("stage")
	if s.stageErr != "" {
		return nil, nil, nil, errors.New(s.stageErr)
	}
	var out []string
	for i, p := range paths {
		if i < len(s.keep) && s.keep[i] {
			out = append(out, p)
		}
	}
	if len(out) == 0 {
		return nil, nil, nil, nil
	}
	receiver, err := rsync.NewReceiver(f.tmp, out, s.sigs, discardSinker{})
	if err != nil {
		panic("scripted endpoint: " + err.Error())
	}
	return out, s.sigs, receiver, nil
}

func (f *fake) Supply([]string, []*rsync.Signature, rsync.Receiver) error {
	panic("scripted endpoint: Supply is not scripted")
}

func (f *fake) Transition(context.Context, []*core.Change) ([]*core.Entry, []*core.Problem, bool, error) {
	s := f.next("trans")
	if s.transErr != "" {
		return nil, nil, false, errors.New(s.transErr)
	}
	return s.results, s.problems, s.missing, nil
}

func (f *fake) Shutdown() error { return nil }

// ---------------------------------------------------------------- fixed material

func fileEntry(seed byte, exec bool) *core.Entry {
	d := make([]byte, 20)
	for i := range d {
		d[i] = seed + byte(i)*7
	}
	return &core.Entry{Kind: core.EntryKind_File, Digest: d, Executable: exec}
}

func dirEntry(n int, salt byte) *core.Entry {
	e := &core.Entry{Kind: core.EntryKind_Directory, Contents: map[string]*core.Entry{}}
	for i := 0; i < n; i++ {
		e.Contents[fmt.Sprintf("%c%d", 'a'+i/10, i%10)] = fileEntry(byte(i)+salt, i%5 == 0)
	}
	return e
}

func snapOf(c *core.Entry, dirs, files uint64) *core.Snapshot {
	return &core.Snapshot{Content: c, PreservesExecutability: true, Directories: dirs, Files: files, TotalFileSize: files * 3}
}

// scriptSnaps: 0 nil content, 1 small dir, 2 small dir variant, 3 the zero
// snapshot (serialises to no bytes at all), 4 a root that is a file, 5 a large
// directory (serialisation spans several rsync blocks), 6 the large directory
// with a few entries changed, 7 a directory with unsynchronizable content.
var scriptSnaps = func() []*core.Snapshot {
	s1 := dirEntry(2, 1)
	s2 := dirEntry(3, 1)
	s2.Contents["sub"] = &core.Entry{Kind: core.EntryKind_Directory, Contents: map[string]*core.Entry{
		"l": {Kind: core.EntryKind_SymbolicLink, Target: "a0"}}}
	big := dirEntry(60, 3)
	big2 := dirEntry(60, 3)
	big2.Contents["e0"] = fileEntry(200, true)
	delete(big2.Contents, "e1")
	big2.Contents["zz"] = fileEntry(201, false)
	s7 := dirEntry(1, 9)
	s7.Contents["u"] = &core.Entry{Kind: core.EntryKind_Untracked}
	s7.Contents["p"] = &core.Entry{Kind: core.EntryKind_Problematic, Problem: "unreadable"}
	return []*core.Snapshot{
		{PreservesExecutability: true},
		snapOf(s1, 1, 2),
		snapOf(s2, 2, 3),
		{},
		snapOf(fileEntry(77, false), 0, 1),
		snapOf(big, 1, 60),
		snapOf(big2, 1, 60),
		{Content: s7, DecomposesUnicode: true, Directories: 1, Files: 1},
	}
}()

var scriptSigs = func() []*rsync.Signature {
	e := rsync.NewEngine()
	return []*rsync.Signature{{}, e.BytesSignature([]byte("hello world"), 0), e.BytesSignature(make([]byte, 3000), 0)}
}()

func okAns(i int) scanAns { return scanAns{snap: scriptSnaps[i]} }

// the answer alphabet for exhaustive scan histories
var scanAlphabet = []scanAns{okAns(1), okAns(2), okAns(0), okAns(3), {err: "scan failed", try: true}}

func scanOp(a scanAns, anc *core.Entry, full bool) sop {
	// the endpoint's answer depends on the flag it receives, so that losing
	// or inverting the flag on the way is visible in the result
	other := scanAns{err: "answer to the other value of the full flag", try: false}
	s := sop{kind: "scan", anc: anc, full: full, ans: a, ansFull: other}
	if full {
		s.ans, s.ansFull = other, a
	}
	return s
}

func stageOp(n int, mask int) sop {
	s := sop{kind: "stage", req: n, digests: n}
	for i := 0; i < n; i++ {
		k := mask&(1<<i) != 0
		s.keep = append(s.keep, k)
		if k {
			s.sigs = append(s.sigs, scriptSigs[(i+mask)%len(scriptSigs)])
		}
	}
	return s
}

func transOp(results []int, nproblems int, missing bool) sop {
	s := sop{kind: "trans", changes: len(results), missing: missing}
	for _, r := range results {
		switch r {
		case 0:
			s.results = append(s.results, nil)
		case 1:
			s.results = append(s.results, fileEntry(5, true))
		default:
			s.results = append(s.results, dirEntry(2, 40))
		}
	}
	for i := 0; i < nproblems; i++ {
		s.problems = append(s.problems, &core.Problem{Path: fmt.Sprintf("p%d", i), Error: fmt.Sprintf("problem %d", i)})
	}
	return s
}

// ---------------------------------------------------------------- scopes

type scope struct {
	mode     string
	name     string
	count    int
	describe string
}

func pow(b, e int) int {
	r := 1
	for i := 0; i < e; i++ {
		r *= b
	}
	return r
}

const maxStageN = 5

func scriptScopes(thorough bool) []scope {
	scan2, scan3 := 10+100, 125
	if thorough {
		scan2, scan3 = 20+400, 250
	}
	nStage := 0
	for n := 1; n <= maxStageN; n++ {
		nStage += 1 << n
	}
	out := []scope{
		{"script", "stage-exh", nStage + 3, fmt.Sprintf("Stage: every request length 1..%d with every subset of the requested paths as the endpoint's answer (all, none, every filtered subsequence), plus an endpoint error, an empty request and a path/digest count mismatch", maxStageN)},
		{"script", "scan-exh2", scan2, "Scan: every history of length 1..2 over 5 endpoint answers (two populated snapshots, a nil-content snapshot, the zero snapshot, an error with try-again) x full flag (quick) x ancestor nil / a populated tree (thorough; in the quick tier the ancestor alternates with the position)"},
		{"script", "scan-exh3", scan3, "Scan: every history of length 3 over the same 5 answers (thorough: two ancestor patterns)"},
		{"script", "scan-cancel", 24, "Scan cancelled by the caller's context while the endpoint is inside Scan: the endpoint then answers an error with try-again true / an error with try-again false / a snapshot, x full flag x (first scan of the session / after a populated scan), each followed by a plain scan (baseline unchanged by the cancelled one unless it delivered content), ancestor nil / populated"},
		{"script", "trans-exh", 13*3*2 + 1, "Transition: 0..2 results each nil/file/directory x 0..2 problems x missing-files flag, plus an endpoint error"},
		{"ev", "stage-ev", evStageCount, "StageResponse.ensureValid: request length 0..3 x 0..3 paths x 0..3 signatures x position of one invalid signature (none/first/last) x error set or not"},
		{"ev", "trans-ev", evTransCount, "TransitionResponse.ensureValid: expected count 0..2 x 0..3 results (one possibly invalid) x 0..2 problems (one possibly invalid)"},
		{"ev", "scan-ev", evScanCount, "ScanResponse.ensureValid: 0..2 delta operations (one possibly invalid) x error set or not"},
	}
	if thorough {
		out = append(out, scope{"script", "scan-exh4", 625 * 4, "Scan: every history of length 4 over the 5 answers, full flag and ancestor patterns by position"})
	}
	return out
}

func genScript(spec CaseSpec) []sop {
	ancTree := scriptSnaps[1].Content
	switch spec.Prof {
	case "stage-exh":
		i := spec.Idx
		for n := 1; n <= maxStageN; n++ {
			if i < 1<<n {
				return []sop{scanOp(okAns(1), nil, false), stageOp(n, i)}
			}
			i -= 1 << n
		}
		switch i {
		case 0:
			s := stageOp(3, 7)
			s.stageErr = "staging refused"
			return []sop{s}
		case 1:
			return []sop{{kind: "stage", req: 0, digests: 0}, scanOp(okAns(1), nil, false)}
		default:
			return []sop{{kind: "stage", req: 2, digests: 1}, scanOp(okAns(1), nil, false)}
		}
	case "scan-exh2":
		sym := func(k int) sop {
			a := scanAlphabet[k%5]
			full := (k/5)%2 == 1
			var anc *core.Entry
			if (k/10)%2 == 1 {
				anc = ancTree
			}
			return scanOp(a, anc, full)
		}
		if !spec.Thorough {
			// 10 symbols (answer x full); the ancestor alternates
			sym10 := func(k, pos int) sop { return sym(k + 10*((k+pos)%2)) }
			if spec.Idx < 10 {
				return []sop{sym10(spec.Idx, 0)}
			}
			i := spec.Idx - 10
			return []sop{sym10(i/10, 0), sym10(i%10, 1)}
		}
		if spec.Idx < 20 {
			return []sop{sym(spec.Idx)}
		}
		i := spec.Idx - 20
		return []sop{sym(i / 20), sym(i % 20)}
	case "scan-exh3":
		i := spec.Idx % 125
		variant := spec.Idx / 125
		var out []sop
		for pos, k := range []int{i / 25, (i / 5) % 5, i % 5} {
			var anc *core.Entry
			if (pos+variant)%2 == 1 {
				anc = ancTree
			}
			out = append(out, scanOp(scanAlphabet[k], anc, false))
		}
		return out
	case "scan-exh4":
		i := spec.Idx % 625
		variant := spec.Idx / 625
		var out []sop
		for pos, k := range []int{i / 125, (i / 25) % 5, (i / 5) % 5, i % 5} {
			var anc *core.Entry
			if (pos+variant)%2 == 1 {
				anc = ancTree
			}
			out = append(out, scanOp(scanAlphabet[k], anc, (pos+variant/2)%2 == 1))
		}
		return out
	case "scan-cancel":
		i := spec.Idx
		answers := []scanAns{{err: "scan interrupted", try: true}, {err: "scan cancelled", try: false}, okAns(2)}
		a := answers[i%3]
		full := (i/3)%2 == 1
		after := (i/6)%2 == 1
		var anc *core.Entry
		if (i/12)%2 == 1 {
			anc = ancTree
		}
		c := scanOp(a, anc, full)
		c.cancel = true
		var out []sop
		if after {
			out = append(out, scanOp(okAns(1), nil, false))
		}
		return append(out, c, scanOp(okAns(1), anc, false))
	case "trans-exh":
		i := spec.Idx
		if i == 13*3*2 {
			s := transOp([]int{1}, 0, false)
			s.transErr = "transition refused"
			return []sop{s, scanOp(okAns(1), nil, false)}
		}
		missing := i%2 == 1
		i /= 2
		np := i % 3
		i /= 3
		var results []int
		switch {
		case i == 0:
		case i < 4:
			results = []int{i - 1}
		default:
			results = []int{(i - 4) / 3, (i - 4) % 3}
		}
		return []sop{transOp(results, np, missing)}
	}
	// random
	r := rand.New(rand.NewSource(spec.Seed))
	useBig := r.Intn(6) == 0
	pick := func() scanAns {
		switch k := r.Intn(12); {
		case k < 2:
			return scanAns{err: []string{"scan failed", "exceeded allowed entry count", "x"}[r.Intn(3)], try: r.Intn(2) == 0}
		case k < 4:
			return okAns(0)
		case k < 5:
			return okAns(3)
		case useBig && k < 9:
			return okAns(5 + r.Intn(2))
		default:
			return okAns([]int{1, 2, 4, 7}[r.Intn(4)])
		}
	}
	var out []sop
	for i := 0; i < spec.N; i++ {
		switch k := r.Intn(10); {
		case k < 6:
			var anc *core.Entry
			switch r.Intn(4) {
			case 0:
				anc = ancTree
			case 1:
				anc = scriptSnaps[2].Content
			case 2:
				if useBig {
					anc = scriptSnaps[5].Content
				}
			}
			so := scanOp(pick(), anc, r.Intn(3) == 0)
			so.cancel = r.Intn(5) == 0
			out = append(out, so)
		case k < 8:
			n := 1 + r.Intn(6)
			mask := r.Intn(1 << n)
			switch r.Intn(4) {
			case 0:
				mask = 1<<n - 1
			case 1:
				mask = (1<<n - 1) &^ (1 << r.Intn(n))
			}
			s := stageOp(n, mask)
			if r.Intn(30) == 0 {
				s.stageErr = "multiple staging operations performed without scan"
			}
			out = append(out, s)
		default:
			n := r.Intn(4)
			results := make([]int, n)
			for j := range results {
				results[j] = r.Intn(3)
			}
			s := transOp(results, r.Intn(3), r.Intn(2) == 0)
			if r.Intn(10) == 0 {
				s.transErr = "multiple transition operations performed without scan"
			}
			out = append(out, s)
		}
	}
	return out
}

// runScript executes one script directly on a scripted endpoint and through
// client and server (the package's own request loop and client methods, over an
// uncompressed net.Pipe) on a second scripted endpoint with the same script.
func runScript(spec CaseSpec) result {
	script := genScript(spec)
	// Stage calls that the client answers itself never reach an endpoint
	var epScript []sop
	for _, s := range script {
		if s.kind == "stage" && (s.req == 0 || s.req != s.digests) {
			continue
		}
		epScript = append(epScript, s)
	}
	tmp := filepath.Join(baseDir, "script-empty")
	must(os.MkdirAll(tmp, 0o755))
	fakeL, fakeR := newFake(epScript, tmp), newFake(epScript, tmp)
	clientConn, serverConn := memPipe()
	tap := &tapConn{Conn: clientConn, up: newTapBuf(), down: newTapBuf()}
	done := make(chan struct{})
	go func() {
		remote.VerifServeOver(fakeR, serverConn)
		serverConn.Close()
		close(done)
	}()
	id := func(s string) string { return s }
	p := &pair{L: fakeL, R: remote.VerifClientOver(tap), obs: newObserver(tap, 0, false),
		tbl: newTable(), engine: rsync.NewEngine(), normL: id, normR: id, quiesce: clientConn.out.quiesce}
	defer func() {
		p.R.Shutdown()
		<-done
	}()
	p.tag("script:" + spec.Prof)
	feed := func(ps []string, sigs []*rsync.Signature, receiver rsync.Receiver) error {
		return rsync.Transmit(tmp, ps, sigs, receiver)
	}
	for _, s := range script {
		if p.dead {
			break
		}
		switch s.kind {
		case "scan":
			if s.cancel {
				// each caller's context is cancelled once the endpoint behind it
				// is inside Scan (for the remote path: the server-side endpoint)
				ctxL, cancelL := context.WithCancel(context.Background())
				ctxR, cancelR := context.WithCancel(context.Background())
				go func() { <-fakeL.entered; cancelL() }()
				go func() { <-fakeR.entered; cancelR() }()
				p.scanCtx(ctxL, ctxR, s.anc, s.full)
				cancelL()
				cancelR()
				p.tag("scan:cancelled-by-caller")
			} else {
				p.scan(s.anc, s.full)
			}
		case "stage":
			paths := make([]string, s.req)
			for i := range paths {
				paths[i] = fmt.Sprintf("q%d", i)
			}
			digests := make([][]byte, s.digests)
			for i := range digests {
				digests[i] = []byte{byte(i), 1, 2}
			}
			if s.req == 0 || s.req != s.digests {
				// the client answers these without asking the server; the
				// scripted endpoint used directly has to do the same
				// (local endpoints that are not read-only do)
				p.stageShortCircuit(paths, digests)
				continue
			}
			p.stage(paths, digests, feed)
		case "trans":
			changes := make([]*core.Change, s.changes)
			for i := range changes {
				changes[i] = &core.Change{Path: fmt.Sprintf("t%d", i), New: fileEntry(byte(i), false)}
			}
			p.transition(changes)
		}
	}
	nt := p.nScanOk >= 2 && (p.nScanErr > 0 || p.nNilContent > 0) || p.nStagePart > 0 || p.nStageAll > 0 || p.nStageNone > 0 || p.nTransOk > 0
	if p.nBlockOps > 0 {
		p.tag("scan:delta-with-block-ops")
	}
	return result{coq: p.coq(), tags: p.tags, nontrivial: nt}
}

// stageShortCircuit records a Stage call that the client answers itself (no
// paths, or path/digest counts differ); the reference answer is that of a
// local endpoint that is not read-only (same two checks, same messages).
func (p *pair) stageShortCircuit(paths []string, digests [][]byte) {
	pr, sr, rr, er := p.R.Stage(paths, digests)
	if rr != nil {
		panic("scripted endpoint: receiver returned without a request")
	}
	var el error
	if len(paths) != len(digests) {
		el = errors.New("path count does not match digest count")
	}
	ds := make([]string, len(digests))
	for i, d := range digests {
		ds[i] = string(d)
	}
	p.out = append(p.out, fmt.Sprintf("OStage %s %s %s %s None", p.strList(paths), p.strList(ds),
		p.stageOut(nil, nil, el, p.normL, false), p.stageOut(pr, sr, er, p.normR, true)))
	p.tag("op:stage")
	p.tag("stage:answered-by-client")
}
