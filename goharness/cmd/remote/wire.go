package main

import (
	"bufio"
	"errors"
	"io"
	"sync"
	"time"

	"github.com/mutagen-io/mutagen/pkg/encoding"
	"github.com/mutagen-io/mutagen/pkg/synchronization/compression"
)

// tapBuf is an unbounded byte queue with a blocking (time-limited) Read. It
// holds a copy of everything that crossed the pipe in one direction.
type tapBuf struct {
	mu     sync.Mutex
	cond   *sync.Cond
	buf    []byte
	closed bool
}

func newTapBuf() *tapBuf {
	b := &tapBuf{}
	b.cond = sync.NewCond(&b.mu)
	return b
}

func (b *tapBuf) put(p []byte) {
	if len(p) == 0 {
		return
	}
	b.mu.Lock()
	b.buf = append(b.buf, p...)
	b.mu.Unlock()
	b.cond.Broadcast()
}

func (b *tapBuf) close() {
	b.mu.Lock()
	b.closed = true
	b.mu.Unlock()
	b.cond.Broadcast()
}

var errTapStarved = errors.New("wire tap: expected bytes never crossed the pipe")

func (b *tapBuf) Read(p []byte) (int, error) {
	deadline := time.Now().Add(3 * time.Second)
	b.mu.Lock()
	defer b.mu.Unlock()
	for len(b.buf) == 0 {
		if b.closed {
			return 0, io.EOF
		}
		if time.Now().After(deadline) {
			return 0, errTapStarved
		}
		// wake up periodically to check the deadline
		t := time.AfterFunc(50*time.Millisecond, b.cond.Broadcast)
		b.cond.Wait()
		t.Stop()
	}
	n := copy(p, b.buf)
	b.buf = b.buf[n:]
	return n, nil
}

// queue is one direction of the in-memory pipe: an unbounded FIFO of bytes
// (like the buffered OS pipes an agent process is reached through; net.Pipe is
// unbuffered, so two ends that flush while closing would block each other).
type queue struct {
	mu      sync.Mutex
	cond    *sync.Cond
	buf     []byte
	closed  bool
	waiting int // readers blocked on an empty queue
}

func newQueue() *queue {
	q := &queue{}
	q.cond = sync.NewCond(&q.mu)
	return q
}

func (q *queue) Write(p []byte) (int, error) {
	q.mu.Lock()
	defer q.mu.Unlock()
	if q.closed {
		return 0, io.ErrClosedPipe
	}
	q.buf = append(q.buf, p...)
	q.cond.Broadcast()
	return len(p), nil
}

func (q *queue) Read(p []byte) (int, error) {
	q.mu.Lock()
	defer q.mu.Unlock()
	for len(q.buf) == 0 {
		if q.closed {
			return 0, io.EOF
		}
		q.waiting++
		q.cond.Broadcast()
		q.cond.Wait()
		q.waiting--
	}
	n := copy(p, q.buf)
	q.buf = q.buf[n:]
	return n, nil
}

// quiesce blocks until everything written so far has been consumed and the
// reader is blocked waiting for more (or the queue is closed). The server
// reads requests and forwarded transmissions synchronously in one loop, so at
// that point it has finished acting on everything the client sent. (A remote
// Stage receiver is finalized once its last transmission is flushed, which is
// before the server has stored the files; external edits of the root must not
// race with that.)
func (q *queue) quiesce() {
	q.mu.Lock()
	defer q.mu.Unlock()
	for !(q.closed || (len(q.buf) == 0 && q.waiting > 0)) {
		q.cond.Wait()
	}
}

func (q *queue) Close() {
	q.mu.Lock()
	q.closed = true
	q.mu.Unlock()
	q.cond.Broadcast()
}

// end is one end of the in-memory pipe.
type end struct {
	in, out *queue
}

func (e *end) Read(p []byte) (int, error)  { return e.in.Read(p) }
func (e *end) Write(p []byte) (int, error) { return e.out.Write(p) }
func (e *end) Close() error {
	e.in.Close()
	e.out.Close()
	return nil
}

// memPipe creates a buffered, in-memory, bidirectional pipe; closing either
// end unblocks reads and writes on both.
func memPipe() (*end, *end) {
	a, b := newQueue(), newQueue()
	return &end{in: a, out: b}, &end{in: b, out: a}
}

// tapConn is the client's end of the in-memory pipe; it copies every byte the
// client writes (up) and reads (down).
type tapConn struct {
	Conn     *end
	up, down *tapBuf
}

func (t *tapConn) Write(p []byte) (int, error) {
	n, err := t.Conn.Write(p)
	t.up.put(p[:n])
	return n, err
}

func (t *tapConn) Read(p []byte) (int, error) {
	n, err := t.Conn.Read(p)
	t.down.put(p[:n])
	return n, err
}

func (t *tapConn) Close() error {
	err := t.Conn.Close()
	t.up.close()
	t.down.close()
	return err
}

// observer decodes the two tapped directions with the same reader stack the
// endpoints use (bufio -> decompressor -> bufio -> length-prefixed protobuf).
type observer struct {
	up, down *encoding.ProtobufDecoder
}

// newObserver builds the decoders. With handshake = true the first byte of
// each direction is the compression handshake, which is checked and skipped.
func newObserver(t *tapConn, alg compression.Algorithm, handshake bool) *observer {
	mk := func(b *tapBuf, want byte) *encoding.ProtobufDecoder {
		if handshake {
			var one [1]byte
			if _, err := io.ReadFull(b, one[:]); err != nil || one[0] != want {
				panic("wire tap: unexpected compression handshake byte")
			}
		}
		compressed := bufio.NewReaderSize(b, 64*1024)
		var plain io.Reader = compressed
		if handshake {
			plain = alg.Decompress(compressed)
		}
		return encoding.NewProtobufDecoder(bufio.NewReaderSize(plain, 64*1024))
	}
	return &observer{up: mk(t.up, byte(alg)), down: mk(t.down, 1)}
}
