// Harness for C26: drives the real ring.Buffer with operation sequences
// (corpus, exhaustive small scope, seeded random long sequences with
// short-reading / short-writing / failing peers) and emits each sequence
// together with the implementation's results as a Coq term.
package main

import (
	"encoding/json"
	"errors"
	"fmt"
	"io"
	"os"
	"strings"
	"time"

	"github.com/mutagen-io/mutagen/pkg/multiplexing/ring"

	"verifharness/internal/hx"
)

var errOther = errors.New("other")

// Op is one operation of a case (also the replay format).
type Op struct {
	K      string   `json:"k"`                // W WB R RB RS RN WT ST
	D      []byte   `json:"d,omitempty"`      // W: data; RN: source
	X      byte     `json:"x,omitempty"`      // WB
	N      int      `json:"n,omitempty"`      // R: len(buffer); RN: n
	Script [][2]int `json:"script,omitempty"` // RN, WT: (k, err code)
}

// Case is a capacity and an operation sequence.
type Case struct {
	Cap int  `json:"cap"`
	Ops []Op `json:"ops"`
}

func errCode(err error) int {
	switch {
	case err == nil:
		return 0
	case err == ring.ErrBufferFull:
		return 1
	case err == io.EOF:
		return 2
	default:
		return 3
	}
}

var errNames = []string{"ENil", "EFull", "EEOF", "EOther"}

func codeErr(c int) error {
	switch c {
	case 0:
		return nil
	case 2:
		return io.EOF
	default:
		return errOther
	}
}

type logEntry struct{ m, c, e int }

func logCoq(l []logEntry) string {
	items := make([]string, len(l))
	for i, x := range l {
		items[i] = fmt.Sprintf("(%d, %d, %s)", x.m, x.c, errNames[x.e])
	}
	return hx.List(items)
}

func scriptCoq(s [][2]int) string {
	items := make([]string, len(s))
	for i, x := range s {
		items[i] = fmt.Sprintf("(%d, %s)", x[0], errNames[x[1]])
	}
	return hx.List(items)
}

// scriptedReader mirrors Model/Ring.v reader_read.
type scriptedReader struct {
	src    []byte
	script [][2]int
	log    []logEntry
}

func (r *scriptedReader) Read(p []byte) (int, error) {
	m := len(p)
	if len(r.script) == 0 {
		r.log = append(r.log, logEntry{m, 0, 2})
		return 0, io.EOF
	}
	k, e := r.script[0][0], r.script[0][1]
	r.script = r.script[1:]
	c := min(min(k, m), len(r.src))
	copy(p, r.src[:c])
	r.src = r.src[c:]
	r.log = append(r.log, logEntry{m, c, e})
	return c, codeErr(e)
}

// scriptedWriter mirrors Model/Ring.v writer_write.
type scriptedWriter struct {
	sink   []byte
	script [][2]int
	log    []logEntry
}

func (w *scriptedWriter) Write(p []byte) (int, error) {
	m := len(p)
	if len(w.script) == 0 {
		w.sink = append(w.sink, p...)
		w.log = append(w.log, logEntry{m, m, 0})
		return m, nil
	}
	k, e := w.script[0][0], w.script[0][1]
	w.script = w.script[1:]
	c := min(k, m)
	w.sink = append(w.sink, p[:c]...)
	w.log = append(w.log, logEntry{m, c, e})
	return c, codeErr(e)
}

// runCase executes the case on the real buffer and renders the Coq term.
func runCase(c Case) (coq string, nontrivial bool, tags []string) {
	b := ring.NewBuffer(c.Cap)
	accepted := 0 // bytes ever stored; > capacity means the storage wrapped
	peerShort := false
	ops := make([]string, len(c.Ops))
	res := make([]string, len(c.Ops))
	for i, o := range c.Ops {
		tags = append(tags, "op:"+o.K)
		switch o.K {
		case "W":
			n, err := b.Write(o.D)
			ops[i] = "W " + hx.Bytes(o.D)
			res[i] = fmt.Sprintf("Rc %d %s", n, errNames[errCode(err)])
			accepted += n
			if err != nil {
				tags = append(tags, "err:"+errNames[errCode(err)])
			}
		case "WB":
			err := b.WriteByte(o.X)
			ops[i] = fmt.Sprintf("WB %d", o.X)
			res[i] = "Re " + errNames[errCode(err)]
			if err != nil {
				tags = append(tags, "err:"+errNames[errCode(err)])
			} else {
				accepted++
			}
		case "R":
			buf := make([]byte, o.N)
			n, err := b.Read(buf)
			ops[i] = fmt.Sprintf("R %d", o.N)
			res[i] = fmt.Sprintf("Rd %s %s", hx.Bytes(buf[:n]), errNames[errCode(err)])
			if err != nil {
				tags = append(tags, "err:"+errNames[errCode(err)])
			}
		case "RB":
			x, err := b.ReadByte()
			ops[i] = "RB"
			if err == nil {
				res[i] = fmt.Sprintf("Rb (Some %d) ENil", x)
			} else {
				res[i] = "Rb None " + errNames[errCode(err)]
				tags = append(tags, "err:"+errNames[errCode(err)])
			}
		case "RS":
			b.Reset()
			ops[i] = "RS"
			res[i] = "Ru"
		case "RN":
			r := &scriptedReader{src: append([]byte(nil), o.D...), script: append([][2]int(nil), o.Script...)}
			n, err := b.ReadNFrom(r, o.N)
			consumed := o.D[:len(o.D)-len(r.src)]
			ops[i] = fmt.Sprintf("RN %s %s %d", hx.Bytes(o.D), scriptCoq(o.Script), o.N)
			res[i] = fmt.Sprintf("Rn %d %s %s %s", n, errNames[errCode(err)], hx.Bytes(consumed), logCoq(r.log))
			accepted += n
			if err != nil {
				tags = append(tags, "err:"+errNames[errCode(err)])
			}
			for _, l := range r.log {
				if l.c < l.m {
					tags = append(tags, "peer:short-read")
					peerShort = true
					break
				}
			}
		case "WT":
			w := &scriptedWriter{script: append([][2]int(nil), o.Script...)}
			n, err := b.WriteTo(w)
			ops[i] = "WT " + scriptCoq(o.Script)
			res[i] = fmt.Sprintf("Rw %d %s %s %s", n, errNames[errCode(err)], hx.Bytes(w.sink), logCoq(w.log))
			if err != nil {
				tags = append(tags, "err:"+errNames[errCode(err)])
			}
			for _, l := range w.log {
				if l.c < l.m {
					tags = append(tags, "peer:short-write")
					peerShort = true
					break
				}
			}
		case "ST":
			ops[i] = "ST"
			res[i] = fmt.Sprintf("Rs %d %d %d", b.Size(), b.Used(), b.Free())
		default:
			panic("unknown op " + o.K)
		}
	}
	nontrivial = (c.Cap > 0 && accepted > c.Cap) || peerShort
	if c.Cap > 0 && accepted > c.Cap {
		tags = append(tags, "wrapped")
	}
	tags = append(tags, fmt.Sprintf("cap:%d", min(c.Cap, 9)), fmt.Sprintf("len:%d", lenBucket(len(c.Ops))))
	coq = fmt.Sprintf("(%d, %s, %s)", c.Cap, hx.List(ops), hx.List(res))
	return
}

func lenBucket(n int) int {
	switch {
	case n <= 4:
		return n
	case n <= 10:
		return 10
	case n <= 20:
		return 20
	default:
		return 40
	}
}

const header = "From Coq Require Import List Arith.\nImport ListNotations.\nFrom Mv Require Import Model.Ring Harness.RingH."

func main() {
	cfg := hx.Parse()
	w := hx.NewWriter(cfg, header, "rcase", "ring_failures", 500)
	w.Rule = "a case = (capacity, operation sequence, implementation results); distinct = distinct Coq terms; non-trivial = more bytes were stored over the sequence than the capacity (the storage wrapped around) or a peer short-read/short-wrote"
	add := func(c Case, origin string) {
		if w.Aborted {
			return
		}
		var coq string
		var nt bool
		var tags []string
		if w.Guard(c, 5*time.Second, func() { coq, nt, tags = runCase(c) }) {
			w.Add(hx.Case{Coq: coq, Replay: c, Nontrivial: nt, Tags: tags, Origin: origin})
		}
	}

	if cfg.Replay != "" {
		b, err := os.ReadFile(cfg.Replay)
		if err != nil {
			panic(err)
		}
		var wrapper struct {
			Case Case `json:"case"`
		}
		if err := json.Unmarshal(b, &wrapper); err != nil {
			panic(err)
		}
		add(wrapper.Case, "replay")
		w.Close()
		return
	}

	for _, raw := range hx.LoadCorpus(cfg.Corpus) {
		var c Case
		if json.Unmarshal(raw, &c) == nil {
			add(c, "corpus")
		}
	}

	// Exhaustive small scope: every sequence up to maxLen over a fixed
	// alphabet, capacities 0..3. Bytes are distinct so order errors show.
	alphabet := func(next *byte) []Op {
		nb := func(n int) []byte {
			out := make([]byte, n)
			for i := range out {
				*next = *next%250 + 1
				out[i] = *next
			}
			return out
		}
		return []Op{
			{K: "W", D: nb(1)}, {K: "W", D: nb(2)}, {K: "W", D: nb(3)},
			{K: "WB", X: nb(1)[0]},
			{K: "R", N: 0}, {K: "R", N: 1}, {K: "R", N: 2},
			{K: "RB"},
			{K: "RN", D: nb(3), Script: [][2]int{{1, 0}, {5, 0}}, N: 2},
			{K: "RN", D: nb(2), Script: [][2]int{{2, 2}}, N: 3},
			{K: "WT", Script: [][2]int{{1, 0}}},
			{K: "WT", Script: [][2]int{{1, 3}}},
		}
	}
	maxLen := 3
	if cfg.Thorough() {
		maxLen = 4
	}
	nAlpha := len(alphabet(new(byte)))
	for capacity := 0; capacity <= 3; capacity++ {
		for l := 1; l <= maxLen; l++ {
			idx := make([]int, l)
			for {
				var next byte
				ops := make([]Op, l)
				for i, a := range idx {
					ops[i] = alphabet(&next)[a]
				}
				ops = append(ops, Op{K: "ST"}, Op{K: "R", N: 4})
				add(Case{Cap: capacity, Ops: ops}, "exhaustive")
				// increment
				j := l - 1
				for j >= 0 {
					idx[j]++
					if idx[j] < nAlpha {
						break
					}
					idx[j] = 0
					j--
				}
				if j < 0 {
					break
				}
			}
		}
	}
	w.Extra["exhaustive_scope"] = fmt.Sprintf("all sequences of length 1..%d over a %d-operation alphabet, capacities 0..3, each followed by Stat and Read(4)", maxLen, nAlpha)

	// Seeded random long sequences.
	nRandom := 6000
	if cfg.Thorough() {
		nRandom = 150000
	}
	r := cfg.Rand
	for i := 0; i < nRandom; i++ {
		capacity := r.Intn(9)
		if r.Intn(10) == 0 {
			capacity = 9 + r.Intn(24)
		}
		n := 3 + r.Intn(30)
		var next byte
		nb := func(k int) []byte {
			out := make([]byte, k)
			for i := range out {
				next = next%250 + 1
				out[i] = next
			}
			return out
		}
		script := func() [][2]int {
			s := make([][2]int, r.Intn(4))
			for i := range s {
				e := 0
				switch r.Intn(8) {
				case 0:
					e = 2
				case 1:
					e = 3
				}
				s[i] = [2]int{r.Intn(capacity + 2), e}
			}
			return s
		}
		ops := make([]Op, 0, n)
		for j := 0; j < n; j++ {
			switch r.Intn(12) {
			case 0, 1, 2:
				ops = append(ops, Op{K: "W", D: nb(r.Intn(capacity + 3))})
			case 3:
				ops = append(ops, Op{K: "WB", X: nb(1)[0]})
			case 4, 5, 6:
				ops = append(ops, Op{K: "R", N: r.Intn(capacity + 3)})
			case 7:
				ops = append(ops, Op{K: "RB"})
			case 8:
				if r.Intn(4) == 0 {
					ops = append(ops, Op{K: "RS"})
				} else {
					ops = append(ops, Op{K: "ST"})
				}
			case 9, 10:
				ops = append(ops, Op{K: "RN", D: nb(r.Intn(capacity + 3)), Script: script(), N: r.Intn(capacity + 3)})
			case 11:
				ops = append(ops, Op{K: "WT", Script: script()})
			}
		}
		add(Case{Cap: capacity, Ops: ops}, "random")
	}
	w.Close()
	fmt.Println(strings.TrimSpace(fmt.Sprintf("cases %d", w.Total())))
}
