// Harness for C19 and C20: drives the real rsync engine (Signature, Deltify,
// DeltifyBytes, PatchBytes) and rsync.Transmit and emits every case together
// with the implementation's outputs as a Coq term (see coq/Harness/RsyncH.v).
//
//	-prop C19   signature + delta + patch on exhaustive small strings and random
//	            edited inputs, no faults
//	-prop C20   Deltify with a transmitter that fails at call k (once or from k
//	            on), for every k; Transmit with a receiver that fails likewise
//	-fixed      (C20) compare against the model variant with the repaired
//	            sendBlock (return err); default: the variant of the unchanged tree
package main

import (
	"bytes"
	"encoding/json"
	"errors"
	"flag"
	"fmt"
	"io"
	"math/rand"
	"os"
	"path/filepath"
	"strings"
	"time"

	"google.golang.org/protobuf/proto"

	"github.com/mutagen-io/mutagen/pkg/synchronization/rsync"

	"verifharness/internal/hx"
)

// Bytes is a byte string that is stored in JSON as text when it is printable
// ASCII and as an array of numbers otherwise.
type Bytes []byte

func (b Bytes) MarshalJSON() ([]byte, error) {
	for _, c := range b {
		if c < 0x20 || c > 0x7e {
			xs := make([]int, len(b))
			for i, v := range b {
				xs[i] = int(v)
			}
			return json.Marshal(xs)
		}
	}
	return json.Marshal(string(b))
}

func (b *Bytes) UnmarshalJSON(raw []byte) error {
	var s string
	if json.Unmarshal(raw, &s) == nil {
		*b = Bytes(s)
		return nil
	}
	var xs []int
	if err := json.Unmarshal(raw, &xs); err != nil {
		return err
	}
	out := make([]byte, len(xs))
	for i, v := range xs {
		out[i] = byte(v)
	}
	*b = out
	return nil
}

// File is one file of a Transmit case.
type File struct {
	Base    Bytes `json:"base"`
	Target  Bytes `json:"target"`
	Missing bool  `json:"missing,omitempty"` // the sender cannot open it
	Blk     int   `json:"blk"`
}

// Case is the replay form of every case of this harness.
type Case struct {
	Kind   string `json:"kind"` // c19 | deltify | transmit
	Base   Bytes  `json:"base,omitempty"`
	Target Bytes  `json:"target,omitempty"`
	Blk    int    `json:"blk,omitempty"`
	MaxOps []int  `json:"maxops,omitempty"` // c19: one run per entry
	MaxOp  int    `json:"maxop,omitempty"`  // deltify
	Fail   string `json:"fail,omitempty"`   // never | once | from
	K      int    `json:"k,omitempty"`      // failing call index
	Files  []File `json:"files,omitempty"`  // transmit
}

var errInjected = errors.New("injected transmission failure")

func failFn(mode string, k int) func(int) bool {
	switch mode {
	case "once":
		return func(i int) bool { return i == k }
	case "from":
		return func(i int) bool { return i >= k }
	default:
		return func(int) bool { return false }
	}
}

func patCoq(mode string, k int) string {
	switch mode {
	case "once":
		return fmt.Sprintf("FO %d", k)
	case "from":
		return fmt.Sprintf("FF %d", k)
	default:
		return "FN"
	}
}

func opCoq(o *rsync.Operation) string {
	switch {
	case len(o.Data) > 0 && o.Start == 0 && o.Count == 0:
		if printable(o.Data) {
			return "Dt " + coqString(o.Data)
		}
		return "Dl " + coqBytes(o.Data)
	case len(o.Data) == 0:
		return fmt.Sprintf("Bk %d %d", o.Start, o.Count)
	default:
		return fmt.Sprintf("Op %s %d %d", coqBytes(o.Data), o.Start, o.Count)
	}
}

func opsCoq(ops []*rsync.Operation) string {
	items := make([]string, len(ops))
	for i, o := range ops {
		items[i] = opCoq(o)
	}
	return hx.List(items)
}

// coqBytes prints a byte slice as a Coq list of Init.Byte.byte constructors.
func coqBytes(b []byte) string {
	var sb strings.Builder
	sb.WriteByte('[')
	for i, v := range b {
		if i > 0 {
			sb.WriteByte(';')
		}
		fmt.Fprintf(&sb, "x%02x", v)
	}
	sb.WriteByte(']')
	return sb.String()
}

// printable reports whether b can be written as a Coq string literal.
func printable(b []byte) bool {
	for _, c := range b {
		if c < 0x20 || c > 0x7e {
			return false
		}
	}
	return true
}

// coqString prints printable bytes as a Coq string literal.
func coqString(b []byte) string {
	return "\"" + strings.ReplaceAll(string(b), "\"", "\"\"") + "\""
}

func boolCoq(b bool) string {
	if b {
		return "true"
	}
	return "false"
}

func optBytes(b []byte, present bool) string {
	if !present {
		return "PN"
	}
	if printable(b) {
		return "(Ps " + coqString(b) + ")"
	}
	return "(Pl " + coqBytes(b) + ")"
}

// ---------------------------------------------------------------- C19

func runC19(c Case) (coq string, nontrivial bool, tags []string) {
	e := rsync.NewEngine()
	sig := e.BytesSignature(c.Base, uint64(c.Blk))
	weaks := make([]string, len(sig.Hashes))
	for i, h := range sig.Hashes {
		weaks[i] = fmt.Sprintf("%d%%Z", h.Weak)
	}
	sigsum := fmt.Sprintf("(SS %d %d %s %s)", sig.BlockSize, sig.LastBlockSize, hx.List(weaks), boolCoq(sig.EnsureValid() == nil))
	runs := make([]string, len(c.MaxOps))
	for i, m := range c.MaxOps {
		ops := e.DeltifyBytes(c.Target, sig, uint64(m))
		patched, err := e.PatchBytes(c.Base, sig, ops)
		runs[i] = fmt.Sprintf("Rn %d %s %s", m, opsCoq(ops), optBytes(patched, err == nil))
		nb, nd := 0, 0
		for _, o := range ops {
			if len(o.Data) > 0 {
				nd++
			} else {
				nb++
			}
		}
		if nb > 0 && nd > 0 {
			nontrivial = true
		}
		if i == 0 {
			switch {
			case nb > 0 && nd > 0:
				tags = append(tags, "delta:mixed")
			case nb > 0:
				tags = append(tags, "delta:blocks-only")
			case nd > 0:
				tags = append(tags, "delta:data-only")
			default:
				tags = append(tags, "delta:empty")
			}
		}
	}
	if len(sig.Hashes) > 0 && sig.LastBlockSize != sig.BlockSize {
		tags = append(tags, "base:short-last-block")
	}
	if len(sig.Hashes) == 0 {
		tags = append(tags, "base:empty")
	}
	if bytes.Equal(c.Base, c.Target) {
		tags = append(tags, "target:unchanged")
	}
	tags = append(tags, fmt.Sprintf("blk:%d", min(c.Blk, 9)))
	if printable(c.Base) && printable(c.Target) {
		coq = fmt.Sprintf("Cs %s %s %d %s %s", coqString(c.Base), coqString(c.Target), c.Blk, sigsum, hx.List(runs))
	} else {
		coq = fmt.Sprintf("Cl %s %s %d %s %s", coqBytes(c.Base), coqBytes(c.Target), c.Blk, sigsum, hx.List(runs))
	}
	return
}

// ---------------------------------------------------------------- C20, Deltify

type call struct {
	op *rsync.Operation
	ok bool
}

// deltifyWithFaults runs Engine.Deltify with a transmitter whose k-th call
// fails (without delivering) according to fail.
func deltifyWithFaults(c Case, fail func(int) bool) (log []call, err error) {
	e := rsync.NewEngine()
	sig := e.BytesSignature(c.Base, uint64(c.Blk))
	n := 0
	transmit := func(o *rsync.Operation) error {
		k := n
		n++
		cp := proto.Clone(o).(*rsync.Operation)
		if fail(k) {
			log = append(log, call{cp, false})
			return errInjected
		}
		log = append(log, call{cp, true})
		return nil
	}
	err = e.Deltify(bytes.NewReader(c.Target), sig, uint64(c.MaxOp), transmit)
	return
}

func runDeltify(c Case) (coq string, nontrivial bool, tags []string) {
	log, err := deltifyWithFaults(c, failFn(c.Fail, c.K))
	items := make([]string, len(log))
	for i, l := range log {
		items[i] = fmt.Sprintf("Lg (%s) %s", opCoq(l.op), boolCoq(l.ok))
		if !l.ok {
			nontrivial = true
		}
	}
	tags = append(tags, "level:deltify", "fail:"+c.Fail)
	if err != nil {
		tags = append(tags, "result:error")
	} else {
		tags = append(tags, "result:nil")
	}
	if nontrivial {
		tags = append(tags, "fault:hit")
	}
	if printable(c.Base) && printable(c.Target) {
		coq = fmt.Sprintf("CDs %s %s %d %d (%s) %s %s", coqString(c.Base), coqString(c.Target), c.Blk, c.MaxOp,
			patCoq(c.Fail, c.K), boolCoq(err != nil), hx.List(items))
	} else {
		coq = fmt.Sprintf("CD %s %s %d %d (%s) %s %s", coqBytes(c.Base), coqBytes(c.Target), c.Blk, c.MaxOp,
			patCoq(c.Fail, c.K), boolCoq(err != nil), hx.List(items))
	}
	return
}

// ---------------------------------------------------------------- C20, Transmit

type rcall struct {
	coq string
	ok  bool
}

// faultyReceiver wraps the real receiver; the k-th Receive fails (and is not
// forwarded) according to fail. finalize is the wrapped receiver's.
type faultyReceiver struct {
	rsync.Receiver
	fail func(int) bool
	n    int
	log  []rcall
}

func (f *faultyReceiver) Receive(t *rsync.Transmission) error {
	k := f.n
	f.n++
	var m string
	if t.Done {
		m = "TD " + boolCoq(t.Error != "")
	} else {
		m = fmt.Sprintf("TO %d (%s)", t.ExpectedSize, opCoq(t.Operation))
	}
	if f.fail(k) {
		f.log = append(f.log, rcall{m, false})
		return errInjected
	}
	if err := f.Receiver.Receive(t); err != nil {
		f.log = append(f.log, rcall{m, false})
		return err
	}
	f.log = append(f.log, rcall{m, true})
	return nil
}

type memSink struct {
	files map[string]*bytes.Buffer
}

type memFile struct{ *bytes.Buffer }

func (memFile) Close() error { return nil }

func (s *memSink) Sink(path string) (io.WriteCloser, error) {
	b := &bytes.Buffer{}
	s.files[path] = b
	return memFile{b}, nil
}

func runTransmit(c Case) (coq string, nontrivial bool, tags []string) {
	sendRoot, err := os.MkdirTemp("", "verif-rsync-s-")
	if err != nil {
		panic(err)
	}
	defer os.RemoveAll(sendRoot)
	recvRoot, err := os.MkdirTemp("", "verif-rsync-r-")
	if err != nil {
		panic(err)
	}
	defer os.RemoveAll(recvRoot)
	e := rsync.NewEngine()
	paths := make([]string, len(c.Files))
	sigs := make([]*rsync.Signature, len(c.Files))
	files := make([]string, len(c.Files))
	for i, f := range c.Files {
		paths[i] = fmt.Sprintf("f%02d", i)
		if !f.Missing {
			if err := os.WriteFile(filepath.Join(sendRoot, paths[i]), f.Target, 0o600); err != nil {
				panic(err)
			}
		}
		if err := os.WriteFile(filepath.Join(recvRoot, paths[i]), f.Base, 0o600); err != nil {
			panic(err)
		}
		sigs[i] = e.BytesSignature(f.Base, uint64(f.Blk))
		if printable(f.Base) {
			files[i] = fmt.Sprintf("Fs %s %s %d", coqString(f.Base), optBytes(f.Target, !f.Missing), f.Blk)
		} else {
			files[i] = fmt.Sprintf("Fl %s %s %d", coqBytes(f.Base), optBytes(f.Target, !f.Missing), f.Blk)
		}
	}
	sink := &memSink{files: map[string]*bytes.Buffer{}}
	inner, err := rsync.NewReceiver(recvRoot, paths, sigs, sink)
	if err != nil {
		panic(err)
	}
	fr := &faultyReceiver{Receiver: inner, fail: failFn(c.Fail, c.K)}
	terr := rsync.Transmit(sendRoot, paths, sigs, fr)
	items := make([]string, len(fr.log))
	for i, l := range fr.log {
		items[i] = fmt.Sprintf("Rg (%s) %s", l.coq, boolCoq(l.ok))
		if !l.ok {
			nontrivial = true
		}
	}
	staged := make([]string, len(paths))
	for i, p := range paths {
		if b, ok := sink.files[p]; ok {
			staged[i] = optBytes(b.Bytes(), true)
		} else {
			staged[i] = "PN"
		}
	}
	tags = append(tags, "level:transmit", "fail:"+c.Fail, fmt.Sprintf("files:%d", len(c.Files)))
	if terr != nil {
		tags = append(tags, "result:error")
	} else {
		tags = append(tags, "result:nil")
	}
	if nontrivial {
		tags = append(tags, "fault:hit")
	}
	coq = fmt.Sprintf("CT %s (%s) %s %s %s", hx.List(files), patCoq(c.Fail, c.K), boolCoq(terr != nil), hx.List(items), hx.List(staged))
	return
}

// ---------------------------------------------------------------- generators

// allStrings returns every string over alphabet of length 0..maxLen.
func allStrings(alphabet string, maxLen int) [][]byte {
	out := [][]byte{{}}
	prev := [][]byte{{}}
	for l := 1; l <= maxLen; l++ {
		var next [][]byte
		for _, p := range prev {
			for i := 0; i < len(alphabet); i++ {
				s := append(append([]byte{}, p...), alphabet[i])
				next = append(next, s)
			}
		}
		out = append(out, next...)
		prev = next
	}
	return out
}

func randBytes(r *rand.Rand, n int, alpha int) []byte {
	out := make([]byte, n)
	for i := range out {
		if alpha >= 256 {
			out[i] = byte(r.Intn(256))
		} else {
			out[i] = byte('a' + r.Intn(alpha))
		}
	}
	return out
}

// edit applies random edits (replace, insert, delete, move, duplicate,
// truncate, append) to a copy of base.
func edit(r *rand.Rand, base []byte, alpha int, blk int) []byte {
	t := append([]byte{}, base...)
	for n := r.Intn(5); n >= 0; n-- {
		pos := 0
		if len(t) > 0 {
			pos = r.Intn(len(t) + 1)
		}
		span := 1 + r.Intn(2*blk+1)
		switch r.Intn(8) {
		case 0: // replace bytes
			for i := pos; i < len(t) && i < pos+span; i++ {
				t[i] = randBytes(r, 1, alpha)[0]
			}
		case 1: // insert
			t = append(t[:pos:pos], append(randBytes(r, span, alpha), t[pos:]...)...)
		case 2: // delete
			end := min(len(t), pos+span)
			t = append(t[:pos:pos], t[end:]...)
		case 3: // move a span to the front
			end := min(len(t), pos+span)
			seg := append([]byte{}, t[pos:end]...)
			rest := append(append([]byte{}, t[:pos]...), t[end:]...)
			t = append(seg, rest...)
		case 4: // duplicate a span
			end := min(len(t), pos+span)
			seg := append([]byte{}, t[pos:end]...)
			t = append(t[:end:end], append(seg, t[end:]...)...)
		case 5: // truncate
			t = t[:pos]
		case 6: // append
			t = append(t, randBytes(r, span, alpha)...)
		case 7: // nothing
		}
	}
	return t
}

// shuffledBlocks builds a base of nb distinct blocks of size blk and a target
// that is a random rearrangement (with drops, repeats and literal insertions)
// of those blocks, so that coalescing and non-adjacent matches both occur.
func shuffledBlocks(r *rand.Rand) (base, target []byte, blk int) {
	blk = 1 + r.Intn(4)
	nb := 2 + r.Intn(6)
	blocks := make([][]byte, nb)
	for i := range blocks {
		b := make([]byte, blk)
		for j := range b {
			b[j] = byte('a' + (i*7+j*3+r.Intn(2))%26)
		}
		b[0] = byte('A' + i) // distinct first byte: distinct blocks
		blocks[i] = b
		base = append(base, b...)
	}
	if blk > 1 && r.Intn(3) == 0 { // short last block
		base = append(base, randBytes(r, 1+r.Intn(blk-1), 4)...)
	}
	n := 1 + r.Intn(nb+3)
	i := r.Intn(nb)
	for ; n > 0; n-- {
		switch r.Intn(6) {
		case 0:
			i = r.Intn(nb)
		case 1:
			target = append(target, randBytes(r, 1+r.Intn(3), 3)...)
		default:
		}
		target = append(target, blocks[i%nb]...)
		i++
	}
	if r.Intn(2) == 0 && len(base) > nb*blk {
		target = append(target, base[nb*blk:]...)
	}
	return
}

// ---------------------------------------------------------------- main

const header = "From Coq Require Import List Arith ZArith Bool.\nFrom Coq Require Import Init.Byte Strings.String.\nImport ListNotations.\nFrom Mv Require Import Model.Rsync Harness.RsyncH."

func main() {
	prop := flag.String("prop", "C19", "C19|C20")
	fixed := flag.Bool("fixed", false, "C20: compare with the model of the repaired sendBlock")
	cfg := hx.Parse()
	if os.Getenv("VERIF_C20_FIXED") == "1" { // scratch-worktree runs against the repaired tree
		*fixed = true
	}

	var w *hx.Writer
	switch *prop {
	case "C19":
		w = hx.NewWriter(cfg, header, "c19case", "c19_failures", 1500)
		w.Rule = "a case = (base, target, block size, observed signature summary, one DeltifyBytes+PatchBytes run per maximum data-operation size with the observed operations and patched bytes); distinct = distinct Coq terms; non-trivial = some run's delta mixes block and data operations"
	case "C20":
		fn := "c20_failures_unfixed"
		if *fixed {
			fn = "c20_failures_fixed"
		}
		w = hx.NewWriter(cfg, header, "c20case", fn, 1500)
		w.Rule = "a case = one Engine.Deltify run (base, target, block size, max data-operation size) or one rsync.Transmit run (files) with a transmitter/receiver that fails at call k once or from k on, together with the returned error flag and the full call log; distinct = distinct Coq terms; non-trivial = at least one call actually failed"
		w.Extra["model_variant"] = map[bool]string{false: "sendBlock as in the unchanged tree (return nil on a failed flush)", true: "repaired sendBlock (return err)"}[*fixed]
	default:
		fmt.Fprintln(os.Stderr, "unknown -prop", *prop)
		os.Exit(2)
	}

	add := func(c Case, origin string) {
		if w.Aborted {
			return
		}
		var coq string
		var nt bool
		var tags []string
		run := func() {
			switch c.Kind {
			case "c19":
				coq, nt, tags = runC19(c)
			case "deltify":
				coq, nt, tags = runDeltify(c)
			case "transmit":
				coq, nt, tags = runTransmit(c)
			default:
				panic("unknown case kind " + c.Kind)
			}
		}
		if w.Guard(c, 5*time.Second, run) {
			w.Add(hx.Case{Coq: coq, Replay: c, Nontrivial: nt, Tags: tags, Origin: origin})
		}
	}
	wantKind := func(k string) bool {
		if *prop == "C19" {
			return k == "c19"
		}
		return k == "deltify" || k == "transmit"
	}

	if cfg.Replay != "" {
		b, err := os.ReadFile(cfg.Replay)
		if err != nil {
			panic(err)
		}
		var wrapper struct {
			Case Case `json:"case"`
		}
		if err := json.Unmarshal(b, &wrapper); err != nil {
			panic(err)
		}
		add(wrapper.Case, "replay")
		w.Close()
		return
	}

	for _, raw := range hx.LoadCorpus(cfg.Corpus) {
		var c Case
		if json.Unmarshal(raw, &c) == nil && wantKind(c.Kind) {
			add(c, "corpus")
		}
	}

	r := cfg.Rand
	if *prop == "C19" {
		genC19(cfg, w, r, add)
	} else {
		genC20(cfg, w, r, add)
	}
	w.Close()
	fmt.Println(strings.TrimSpace(fmt.Sprintf("cases %d", w.Total())))
}

func genC19(cfg *hx.Config, w *hx.Writer, r *rand.Rand, add func(Case, string)) {
	maxLen := 4
	if cfg.Thorough() {
		maxLen = 7
	}
	strs := allStrings("ab", maxLen)
	maxops := []int{1, 2, 3, 0}
	for _, b := range strs {
		for _, t := range strs {
			for blk := 1; blk <= 8; blk++ {
				add(Case{Kind: "c19", Base: b, Target: t, Blk: blk, MaxOps: maxops}, "exhaustive")
			}
		}
	}
	w.Extra["exhaustive_scope"] = fmt.Sprintf("every base and target over {a,b} of length 0..%d (%d strings each), every block size 1..8, maximum data-operation size in {1,2,3,0(default)}: %d (base,target,block size) cases x 4 runs, operation lists compared verbatim", maxLen, len(strs), len(strs)*len(strs)*8)

	n := 300
	if cfg.Thorough() {
		n = 6000
	}
	for i := 0; i < n; i++ {
		alpha := []int{2, 3, 4, 26, 256}[r.Intn(5)]
		var base, target []byte
		var blk int
		switch r.Intn(4) {
		case 0:
			base, target, blk = shuffledBlocks(r)
		default:
			blk = 1 + r.Intn(16)
			if r.Intn(6) == 0 {
				blk = 17 + r.Intn(48)
			}
			base = randBytes(r, r.Intn(40*blk/(1+blk/8)+1), alpha)
			if len(base) > 600 {
				base = base[:600]
			}
			target = edit(r, base, alpha, blk)
		}
		m := 1 + r.Intn(3*blk+2)
		add(Case{Kind: "c19", Base: base, Target: target, Blk: blk, MaxOps: []int{m, 0}}, "random")
	}
}

func genC20(cfg *hx.Config, w *hx.Writer, r *rand.Rand, add func(Case, string)) {
	// every failure point of one (base, target, blk, maxop): k ranges over the
	// calls of the failure-free run; once and persistently.
	sweep := func(c Case, origin string) {
		c.Kind = "deltify"
		c.Fail, c.K = "never", 0
		var n int
		func() {
			defer func() { recover() }()
			log, _ := deltifyWithFaults(c, failFn("never", 0))
			n = len(log)
		}()
		add(c, origin)
		for k := 0; k < n; k++ {
			for _, mode := range []string{"once", "from"} {
				c.Fail, c.K = mode, k
				add(c, origin)
			}
		}
	}
	lb, lt, maxBlk := 3, 4, 3
	maxops := []int{1, 0}
	if cfg.Thorough() {
		lb, lt, maxBlk = 4, 5, 4
		maxops = []int{1, 2, 0}
	}
	bases := allStrings("ab", lb)
	targets := allStrings("ab", lt)
	for _, b := range bases {
		for _, t := range targets {
			for blk := 1; blk <= maxBlk; blk++ {
				for _, m := range maxops {
					sweep(Case{Base: b, Target: t, Blk: blk, MaxOp: m}, "exhaustive")
				}
			}
		}
	}
	w.Extra["exhaustive_scope"] = fmt.Sprintf("Engine.Deltify on every base over {a,b} of length 0..%d and target of length 0..%d, block sizes 1..%d, maximum data-operation size in %v, with the transmitter failing at every call index of the failure-free run, once and from that call on", lb, lt, maxBlk, maxops)

	n := 150
	nt := 60
	if cfg.Thorough() {
		n = 3000
		nt = 1200
	}
	for i := 0; i < n; i++ {
		base, target, blk := shuffledBlocks(r)
		sweep(Case{Base: base, Target: target, Blk: blk, MaxOp: []int{0, 1, 2, 5}[r.Intn(4)]}, "random")
	}

	// Transmit: file sets with every Receive failure point.
	for i := 0; i < nt; i++ {
		nf := 1 + r.Intn(3)
		files := make([]File, nf)
		for j := range files {
			base, target, blk := shuffledBlocks(r)
			switch r.Intn(8) {
			case 0:
				base = nil
			case 1:
				target = nil
			case 2:
				target = base
			}
			files[j] = File{Base: base, Target: target, Blk: blk, Missing: r.Intn(7) == 0}
		}
		c := Case{Kind: "transmit", Files: files, Fail: "never"}
		var calls int
		func() {
			defer func() { recover() }()
			coq, _, _ := runTransmit(c)
			calls = strings.Count(coq, "Rg (")
		}()
		add(c, "random")
		for k := 0; k < calls; k++ {
			for _, mode := range []string{"once", "from"} {
				c.Fail, c.K = mode, k
				add(c, "random")
			}
		}
	}
}
