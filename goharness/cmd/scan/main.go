// Harness for C12 and C13: builds random real directory trees, runs the real
// core.Scan on them (cold, and accelerated after random edit batches), walks
// the same trees independently with lstat/readlink/read, and emits the walked
// tree (as a Model/Fs.v node), the configuration and the results of core.Scan
// as Coq cases.
package main

import (
	"bytes"
	"context"
	"encoding/hex"
	"encoding/json"
	"flag"
	"fmt"
	"hash"
	"hash/fnv"
	"net"
	"os"
	"path/filepath"
	"sort"
	"strings"
	"syscall"
	"time"
	"unicode/utf8"

	"github.com/mutagen-io/mutagen/pkg/filesystem"
	"github.com/mutagen-io/mutagen/pkg/filesystem/behavior"
	"github.com/mutagen-io/mutagen/pkg/synchronization/core"
	"github.com/mutagen-io/mutagen/pkg/synchronization/core/ignore"
	dockerignore "github.com/mutagen-io/mutagen/pkg/synchronization/core/ignore/docker"
	mutagenignore "github.com/mutagen-io/mutagen/pkg/synchronization/core/ignore/mutagen"

	"verifharness/internal/coretree"
	"verifharness/internal/hx"
)

// ---------- replayable descriptions ----------

// HS is a byte string that survives JSON (hex encoded): names and targets may
// be invalid UTF-8.
type HS string

func (h HS) MarshalJSON() ([]byte, error) { return json.Marshal(hex.EncodeToString([]byte(h))) }
func (h *HS) UnmarshalJSON(b []byte) error {
	var s string
	if err := json.Unmarshal(b, &s); err != nil {
		return err
	}
	raw, err := hex.DecodeString(s)
	if err != nil {
		return err
	}
	*h = HS(raw)
	return nil
}

// Spec describes a filesystem object to create.
type Spec struct {
	Kind   string  `json:"k"` // dir file link fifo sock chr
	Name   HS      `json:"n"`
	Mode   uint32  `json:"m,omitempty"`
	Data   HS      `json:"d,omitempty"`
	Target HS      `json:"t,omitempty"`
	Kids   []*Spec `json:"c,omitempty"`
}

// Op is one edit of a batch.
type Op struct {
	Op   string `json:"op"` // write writeolder replace replacekeep chmod create remove rename touch swapdir
	Path HS     `json:"p"`
	To   HS     `json:"to,omitempty"`
	Data HS     `json:"d,omitempty"`
	Mode uint32 `json:"m,omitempty"`
	Node *Spec  `json:"node,omitempty"`
}

// Batch is an edit batch with the recheck paths handed to the accelerated scan.
type Batch struct {
	Ops     []Op `json:"ops"`
	Recheck []HS `json:"recheck"`
}

// Run is one scan configuration.
type Run struct {
	Sym        int  `json:"sym"`  // 1 ignore 2 portable 3 posix-raw
	Perm       int  `json:"perm"` // 1 portable 2 manual
	NoPreserve bool `json:"nopreserve,omitempty"`
}

// Case is a complete replayable case.
type Case struct {
	Prop     string   `json:"prop"`
	Root     *Spec    `json:"root"` // nil = absent root
	Syntax   string   `json:"syntax"`
	Patterns []string `json:"patterns"`
	Runs     []Run    `json:"runs"`
	Batches  []Batch  `json:"batches,omitempty"`
	// Abort: before the recorded scans, a scan of another root is cancelled
	// while a large file is being hashed with the hasher the case then keeps
	// using (an endpoint reuses one hasher for all its scans).
	Abort bool `json:"abort,omitempty"`
	// MidHash: an in-place rewrite (same size, other content, new mtime) applied
	// to a file while the initial scan is hashing it; its path is among the
	// recheck paths of the first batch.
	MidHash *Op `json:"midhash,omitempty"`
}

var fixed16 bool

// ---------- building ----------

type builder struct {
	clock int64
}

func (b *builder) stamp(path string) {
	b.clock++
	t := time.Unix(1600000000+b.clock*7, (b.clock*104729)%1000000000)
	_ = os.Chtimes(path, t, t)
}

func (b *builder) create(dir string, s *Spec) error {
	p := filepath.Join(dir, string(s.Name))
	if dir == "" {
		p = string(s.Name)
	}
	switch s.Kind {
	case "dir":
		if err := os.Mkdir(p, 0o755); err != nil {
			return err
		}
		for _, k := range s.Kids {
			if err := b.create(p, k); err != nil {
				return err
			}
		}
		if s.Mode != 0 {
			return syscall.Chmod(p, s.Mode)
		}
		return nil
	case "file":
		if err := os.WriteFile(p, []byte(s.Data), 0o600); err != nil {
			return err
		}
		if err := syscall.Chmod(p, s.Mode); err != nil {
			return err
		}
		b.stamp(p)
		return nil
	case "link":
		return os.Symlink(string(s.Target), p)
	case "fifo":
		return syscall.Mkfifo(p, 0o644)
	case "sock":
		l, err := net.Listen("unix", p)
		if err != nil {
			return syscall.Mkfifo(p, 0o600)
		}
		l.(*net.UnixListener).SetUnlinkOnClose(false)
		return l.Close()
	case "chr":
		if err := syscall.Mknod(p, syscall.S_IFCHR|0o600, 0x0103); err != nil {
			return syscall.Mkfifo(p, 0o600)
		}
		return nil
	}
	return fmt.Errorf("unknown kind %q", s.Kind)
}

func rel(root string, p HS) string {
	if p == "" {
		return root
	}
	return filepath.Join(root, string(p))
}

func (b *builder) apply(root string, op Op) error {
	p := rel(root, op.Path)
	switch op.Op {
	case "write": // rewrite in place (same inode), new mtime
		f, err := os.OpenFile(p, os.O_WRONLY|os.O_TRUNC, 0)
		if err != nil {
			return err
		}
		f.Write([]byte(op.Data))
		f.Close()
		b.stamp(p)
	case "replace": // new inode renamed over the old name
		tmp := p + ".verif-new"
		st, err := os.Lstat(p)
		if err != nil {
			return err
		}
		if err := os.WriteFile(tmp, []byte(op.Data), 0o600); err != nil {
			return err
		}
		syscall.Chmod(tmp, uint32(st.Mode().Perm()))
		b.stamp(tmp)
		return os.Rename(tmp, p)
	case "replacekeep": // new inode with the old size and the old mtime, other content
		var st syscall.Stat_t
		if err := syscall.Lstat(p, &st); err != nil {
			return err
		}
		tmp := p + ".verif-new"
		if err := os.WriteFile(tmp, []byte(op.Data), 0o600); err != nil {
			return err
		}
		syscall.Chmod(tmp, st.Mode&0o7777)
		t := time.Unix(st.Mtim.Sec, st.Mtim.Nsec)
		if err := os.Chtimes(tmp, t, t); err != nil {
			return err
		}
		return os.Rename(tmp, p)
	case "chmod":
		return syscall.Chmod(p, op.Mode)
	case "touch":
		b.stamp(p)
	case "writeolder": // rewrite in place (same inode, same size), mtime moved into the past
		var st syscall.Stat_t
		if err := syscall.Lstat(p, &st); err != nil {
			return err
		}
		f, err := os.OpenFile(p, os.O_WRONLY, 0)
		if err != nil {
			return err
		}
		f.Write([]byte(op.Data))
		f.Close()
		t := time.Unix(st.Mtim.Sec-int64(1000+len(op.Data)), st.Mtim.Nsec)
		return os.Chtimes(p, t, t)
	case "create":
		return b.create(filepath.Dir(p), &Spec{Kind: op.Node.Kind, Name: HS(filepath.Base(p)), Mode: op.Node.Mode,
			Data: op.Node.Data, Target: op.Node.Target, Kids: op.Node.Kids})
	case "remove":
		return os.RemoveAll(p)
	case "rename":
		return os.Rename(p, rel(root, op.To))
	case "swapdir": // remove the (empty) directory at Path and rename To into its place
		if err := os.Remove(p); err != nil {
			return err
		}
		return os.Rename(rel(root, op.To), p)
	default:
		return fmt.Errorf("unknown op %q", op.Op)
	}
	return nil
}

// ---------- the independent walk ----------

type walked struct {
	coq     string
	digests map[string]string  // content -> digest
	paths   map[[2]string]bool // (relative path, "d"/"f") of every object with a queryable name
	objs    []walkedObj        // for edit generation
	nodes   int
	kinds   map[string]int
}

type walkedObj struct {
	path string
	kind string // dir file link other
}

func meta(st *syscall.Stat_t) string {
	return fmt.Sprintf("(M %d %d %d %d %d)", st.Mode&0o7777, st.Size,
		st.Mtim.Sec*1000000000+st.Mtim.Nsec, st.Ino, st.Dev)
}

func (w *walked) node(abs, relp string, queryable bool) (string, error) {
	var st syscall.Stat_t
	if err := syscall.Lstat(abs, &st); err != nil {
		return "", err
	}
	w.nodes++
	switch st.Mode & syscall.S_IFMT {
	case syscall.S_IFDIR:
		w.kinds["dir"]++
		if queryable {
			w.paths[[2]string{relp, "d"}] = true
		}
		w.objs = append(w.objs, walkedObj{relp, "dir"})
		f, err := os.Open(abs)
		if err != nil {
			return "", err
		}
		names, err := f.Readdirnames(-1)
		f.Close()
		if err != nil {
			return "", err
		}
		sort.Strings(names)
		items := make([]string, 0, len(names))
		for _, n := range names {
			cr := n
			if relp != "" {
				cr = relp + "/" + n
			}
			q := queryable && utf8.ValidString(n) && !strings.HasPrefix(n, filesystem.TemporaryNamePrefix)
			c, err := w.node(filepath.Join(abs, n), cr, q)
			if err != nil {
				return "", err
			}
			items = append(items, "("+coretree.Str(n)+", "+c+")")
		}
		return "D " + meta(&st) + " [" + strings.Join(items, "; ") + "]", nil
	case syscall.S_IFREG:
		w.kinds["file"]++
		if queryable {
			w.paths[[2]string{relp, "f"}] = true
		}
		w.objs = append(w.objs, walkedObj{relp, "file"})
		data, err := os.ReadFile(abs)
		if err != nil {
			return "", err
		}
		h := fnv.New32a()
		h.Write(data)
		w.digests[string(data)] = string(h.Sum(nil))
		return "F " + meta(&st) + " " + coretree.Str(string(data)), nil
	case syscall.S_IFLNK:
		w.kinds["link"]++
		if queryable {
			w.paths[[2]string{relp, "f"}] = true
		}
		w.objs = append(w.objs, walkedObj{relp, "link"})
		t, err := os.Readlink(abs)
		if err != nil {
			return "", err
		}
		return "L " + meta(&st) + " " + coretree.Str(t), nil
	default:
		w.kinds["other"]++
		w.objs = append(w.objs, walkedObj{relp, "other"})
		return fmt.Sprintf("X %s %d", meta(&st), st.Mode&syscall.S_IFMT), nil
	}
}

func walk(root string) (*walked, error) {
	w := &walked{digests: map[string]string{}, paths: map[[2]string]bool{}, kinds: map[string]int{}}
	if _, err := os.Lstat(root); err != nil {
		if os.IsNotExist(err) {
			w.coq = "None"
			return w, nil
		}
		return nil, err
	}
	c, err := w.node(root, "", true)
	if err != nil {
		return nil, err
	}
	w.coq = "(Some (" + c + "))"
	return w, nil
}

// ---------- printing results of core.Scan ----------

func b2s(b bool) string {
	if b {
		return "true"
	}
	return "false"
}

func cfgCoq(r Run, pres, dec bool) string {
	sym := map[int]string{1: "SLIgnore", 2: "SLPortable", 3: "SLPosixRaw"}[r.Sym]
	perm := map[int]string{1: "PMPortable", 2: "PMManual"}[r.Perm]
	return fmt.Sprintf("(CFG %s %s %s %s %s)", sym, perm, b2s(pres), b2s(dec), b2s(fixed16))
}

func statusCoq(s ignore.IgnoreStatus) string {
	switch s {
	case ignore.IgnoreStatusNominal:
		return "IN"
	case ignore.IgnoreStatusIgnored:
		return "II"
	default:
		return "IU"
	}
}

func icacheCoq(ic ignore.IgnoreCache) string {
	keys := make([]ignore.IgnoreCacheKey, 0, len(ic))
	for k := range ic {
		keys = append(keys, k)
	}
	sort.Slice(keys, func(i, j int) bool {
		if keys[i].Path != keys[j].Path {
			return keys[i].Path < keys[j].Path
		}
		return !keys[i].Directory && keys[j].Directory
	})
	items := make([]string, len(keys))
	for i, k := range keys {
		v := ic[k]
		items[i] = fmt.Sprintf("((%s, %s), (%s, %s))", coretree.Path(k.Path), b2s(k.Directory), statusCoq(v.Status), b2s(v.ContinueTraversal))
	}
	return hx.List(items)
}

func cacheCoq(c *core.Cache) string {
	if c == nil {
		return "[]"
	}
	keys := make([]string, 0, len(c.Entries))
	for k := range c.Entries {
		keys = append(keys, k)
	}
	sort.Strings(keys)
	items := make([]string, len(keys))
	for i, k := range keys {
		e := c.Entries[k]
		items[i] = fmt.Sprintf("(%s, CE %d %d %d %d %s)", coretree.Path(k), e.Mode,
			e.ModificationTime.Seconds*1000000000+int64(e.ModificationTime.Nanos), e.Size, e.FileID, coretree.Str(string(e.Digest)))
	}
	return hx.List(items)
}

type result struct {
	snap *core.Snapshot
	c    *core.Cache
	ic   ignore.IgnoreCache
	err  error
}

func (r result) coq() string {
	if r.err != nil || r.snap == nil {
		return "IErr"
	}
	s := r.snap
	return fmt.Sprintf("(IOk (SN %s %s %s %d %d %d %d) %s %s)", coretree.Entry(s.Content), b2s(s.PreservesExecutability),
		b2s(s.DecomposesUnicode), s.Directories, s.Files, s.SymbolicLinks, s.TotalFileSize, cacheCoq(r.c), icacheCoq(r.ic))
}

// editingHasher runs an edit the first time the content of the chosen file
// flows into the hasher, i.e. while the scanner is hashing that file.
type editingHasher struct {
	hash.Hash
	target []byte
	fire   func()
	fired  bool
}

func (h *editingHasher) Write(data []byte) (int, error) {
	if !h.fired && bytes.Equal(data, h.target) {
		h.fired = true
		h.fire()
	}
	return h.Hash.Write(data)
}

// cancellingHasher cancels a context as soon as data flows into the hasher.
type cancellingHasher struct {
	hash.Hash
	cancel context.CancelFunc
}

func (h *cancellingHasher) Write(data []byte) (int, error) {
	h.cancel()
	return h.Hash.Write(data)
}

var bigRoot string

// abortedScan runs core.Scan on a root holding one large sparse file and
// cancels it while that file is being hashed with the given hasher. The
// hasher is left with whatever state the implementation leaves it in.
func abortedScan(hasher hash.Hash, ign ignore.Ignorer) error {
	if bigRoot == "" {
		d, err := os.MkdirTemp("", "verif-big-")
		if err != nil {
			return err
		}
		f, err := os.Create(filepath.Join(d, "big"))
		if err != nil {
			return err
		}
		// larger than scannerCopyBufferSize*scannerCopyPreemptionInterval (32 MiB)
		if err := f.Truncate(2*32*1024*1024 + 17); err != nil {
			return err
		}
		f.Close()
		bigRoot = d
	}
	ctx, cancel := context.WithCancel(context.Background())
	defer cancel()
	_, _, _, err := core.Scan(ctx, bigRoot, nil, nil, &cancellingHasher{hasher, cancel}, nil, ign, nil,
		behavior.ProbeMode_ProbeModeProbe, core.SymbolicLinkMode_SymbolicLinkModePortable, core.PermissionsMode_PermissionsModePortable)
	if err != core.ErrScanCancelled {
		return fmt.Errorf("the scan that was to be cancelled while hashing returned: %v", err)
	}
	return nil
}

func scan(hasher hash.Hash, root string, base *result, recheck map[string]bool, ign ignore.Ignorer, r Run) result {
	var baseline *core.Snapshot
	var cache *core.Cache
	var icache ignore.IgnoreCache
	if base != nil {
		baseline, cache, icache = base.snap, base.c, base.ic
	}
	s, c, ic, err := core.Scan(context.Background(), root, baseline, recheck, hasher, cache, ign, icache,
		behavior.ProbeMode_ProbeModeProbe, core.SymbolicLinkMode(r.Sym), core.PermissionsMode(r.Perm))
	return result{s, c, ic, err}
}

func deviceOf(path string) uint64 {
	var st syscall.Stat_t
	if err := syscall.Stat(path, &st); err != nil {
		return 0
	}
	return uint64(st.Dev)
}

func newIgnorer(syntax string, patterns []string) (ignore.Ignorer, error) {
	if syntax == "docker" {
		return dockerignore.NewIgnorer(patterns)
	}
	return mutagenignore.NewIgnorer(patterns)
}

func tablesCoq(ws []*walked, ign ignore.Ignorer) (string, string) {
	dig := map[string]string{}
	keys := map[[2]string]bool{}
	for _, w := range ws {
		for k, v := range w.digests {
			dig[k] = v
		}
		for k := range w.paths {
			keys[k] = true
		}
	}
	dk := make([]string, 0, len(dig))
	for k := range dig {
		dk = append(dk, k)
	}
	sort.Strings(dk)
	ditems := make([]string, len(dk))
	for i, k := range dk {
		ditems[i] = "(" + coretree.Str(k) + ", " + coretree.Str(dig[k]) + ")"
	}
	kk := make([][2]string, 0, len(keys))
	for k := range keys {
		if k[0] != "" {
			kk = append(kk, k)
		}
	}
	sort.Slice(kk, func(i, j int) bool {
		if kk[i][0] != kk[j][0] {
			return kk[i][0] < kk[j][0]
		}
		return kk[i][1] < kk[j][1]
	})
	iitems := make([]string, len(kk))
	for i, k := range kk {
		st, ct := ign.Ignore(k[0], k[1] == "d")
		iitems[i] = fmt.Sprintf("((%s, %s), (%s, %s))", coretree.Path(k[0]), b2s(k[1] == "d"), statusCoq(st), b2s(ct))
	}
	return hx.List(ditems), hx.List(iitems)
}

// ---------- running one case ----------

type outcome struct {
	coq  string
	nt   bool
	tags []string
}

func runCase(c Case) (out outcome, err error) {
	tmp, err := os.MkdirTemp("", "verif-")
	if err != nil {
		return out, err
	}
	defer os.RemoveAll(tmp)
	root := filepath.Join(tmp, "root")
	b := &builder{}
	if c.Root != nil {
		spec := *c.Root
		spec.Name = HS(root)
		if err := b.create("", &spec); err != nil {
			return out, fmt.Errorf("build: %w", err)
		}
	}
	ign, err := newIgnorer(c.Syntax, c.Patterns)
	if err != nil {
		return out, err
	}
	dev := deviceOf(tmp)
	defer core.VerifClearBehaviorCache(dev)
	setBehavior := func(r Run) {
		core.VerifClearBehaviorCache(dev)
		if r.NoPreserve {
			core.VerifSetBehaviorCache(dev, false, false)
		}
	}
	w0, err := walk(root)
	if err != nil {
		return out, err
	}
	hasher := fnv.New32a()
	tags := []string{"syntax:" + c.Syntax}
	if c.Abort {
		if err := abortedScan(hasher, ign); err != nil {
			return out, err
		}
		tags = append(tags, "hasher:after-aborted-scan")
	}
	for k, v := range w0.kinds {
		if v > 0 {
			tags = append(tags, "has:"+k)
		}
	}
	if c.Root == nil {
		tags = append(tags, "root:absent")
	} else {
		tags = append(tags, "root:"+c.Root.Kind)
	}
	if c.Prop == "C12" {
		runs := make([]string, 0, len(c.Runs))
		for _, r := range c.Runs {
			setBehavior(r)
			res := scan(hasher, root, nil, nil, ign, r)
			pres, dec := !r.NoPreserve, false
			if res.snap != nil && res.err == nil && res.snap.Content != nil {
				pres, dec = res.snap.PreservesExecutability, res.snap.DecomposesUnicode
			}
			runs = append(runs, "("+cfgCoq(r, pres, dec)+", "+res.coq()+")")
			if res.err != nil {
				tags = append(tags, "scan:error")
			}
		}
		// the scans must not have disturbed the tree
		w1, err := walk(root)
		if err != nil {
			return out, err
		}
		if w1.coq != w0.coq {
			return out, fmt.Errorf("tree changed during the scans")
		}
		ht, it := tablesCoq([]*walked{w0}, ign)
		out.coq = fmt.Sprintf("(%s, %s, %s, %s)", w0.coq, ht, it, hx.List(runs))
		out.nt = w0.nodes >= 4
		out.tags = tags
		return out, nil
	}
	// C13
	r := c.Runs[0]
	setBehavior(r)
	var firstHasher hash.Hash = hasher
	var editor *editingHasher
	var midErr error
	if c.MidHash != nil {
		target, err := os.ReadFile(rel(root, c.MidHash.Path))
		if err != nil {
			return out, fmt.Errorf("mid-hash target: %w", err)
		}
		editor = &editingHasher{Hash: hasher, target: target, fire: func() { midErr = b.apply(root, *c.MidHash) }}
		firstHasher = editor
	}
	res0 := scan(firstHasher, root, nil, nil, ign, r)
	if editor != nil {
		if editor.fired {
			tags = append(tags, "midhash:during-hashing")
		} else {
			// the file was not hashed (ignored, below an ignored directory):
			// the edit still belongs to the first batch
			midErr = b.apply(root, *c.MidHash)
			tags = append(tags, "midhash:not-hashed")
		}
		if midErr != nil {
			return out, fmt.Errorf("mid-hash edit: %w", midErr)
		}
	}
	pres, dec := !r.NoPreserve, false
	if res0.snap != nil && res0.err == nil && res0.snap.Content != nil {
		pres, dec = res0.snap.PreservesExecutability, res0.snap.DecomposesUnicode
	}
	ws := []*walked{w0}
	prev := res0
	steps := make([]string, 0, len(c.Batches))
	for _, batch := range c.Batches {
		for _, op := range batch.Ops {
			tags = append(tags, "op:"+op.Op)
			if err := b.apply(root, op); err != nil {
				return out, fmt.Errorf("edit %s %q: %w", op.Op, string(op.Path), err)
			}
		}
		w, err := walk(root)
		if err != nil {
			return out, err
		}
		ws = append(ws, w)
		recheck := map[string]bool{}
		rc := make([]string, len(batch.Recheck))
		for i, p := range batch.Recheck {
			recheck[string(p)] = true
			rc[i] = coretree.Path(string(p))
		}
		var acc result
		if prev.err == nil && prev.snap != nil {
			acc = scan(hasher, root, &prev, recheck, ign, r)
		} else {
			acc = scan(hasher, root, nil, nil, ign, r)
		}
		full := scan(hasher, root, nil, nil, ign, r)
		steps = append(steps, fmt.Sprintf("(%s, %s, %s, %s)", w.coq, hx.List(rc), acc.coq(), full.coq()))
		if acc.err != nil {
			tags = append(tags, "accel:error")
			break
		}
		prev = acc
	}
	ht, it := tablesCoq(ws, ign)
	out.coq = fmt.Sprintf("(%s, %s, %s, %s, %s, %s)", cfgCoq(r, pres, dec), ht, it, w0.coq, res0.coq(), hx.List(steps))
	out.nt = len(steps) > 0 && w0.nodes >= 4
	out.tags = tags
	return out, nil
}

// ---------- generation ----------

type gen struct {
	r interface {
		Intn(int) int
	}
}

func (g *gen) pick(xs []string) string { return xs[g.r.Intn(len(xs))] }

var plainNames = []string{"a", "b", "c", "d1", "d2", "file", "ignored", "ign-x", "keep", "x y", "z.txt", "\xc3\xa9t\xc3\xa9", "sub", "lib", "run.sh", ".hidden"}
var badNames = []string{"bad\xff", "\xfe\xfe", "\xc3\x28x", "a\xe2\x82", "\xed\xa0\x80s", "n\xf5"}
var tempNames = []string{".mutagen-temporary-abc", ".mutagen-temporary-", ".mutagen-temporary-staging-1"}
var nearTempNames = []string{".mutagen-temporar", ".mutagen-temporaryx", "x.mutagen-temporary-"}
var targets = []string{"a", "file", "../a", "../../x", "../../../../etc/passwd", "/etc/passwd", "sub/../b", "a//b", ".", "..", "dir/", "c:\\x", "a\\b", "with:colon", "./a/./b", strings.Repeat("long/", 50) + "x", "nonexistent", "a/../../b"}
var modes = []uint32{0o644, 0o755, 0o600, 0o700, 0o444, 0o640, 0o711, 0o4755, 0o2644, 0o1777, 0o400, 0o010, 0o001}

func (g *gen) content() string {
	n := g.r.Intn(5)
	switch n {
	case 0:
		return ""
	case 1:
		return g.pick([]string{"hello", "world", "same", "#!/bin/sh\necho hi\n"})
	}
	l := g.r.Intn(40)
	bs := make([]byte, l)
	for i := range bs {
		if g.r.Intn(25) == 0 {
			bs[i] = byte(g.r.Intn(256))
		} else {
			bs[i] = byte('a' + g.r.Intn(26))
		}
	}
	return string(bs)
}

func (g *gen) name(used map[string]bool) string {
	for {
		var n string
		switch x := g.r.Intn(20); {
		case x == 0:
			n = g.pick(badNames)
		case x == 1:
			n = g.pick(tempNames)
		case x == 2:
			n = g.pick(nearTempNames)
		default:
			n = g.pick(plainNames)
			if g.r.Intn(4) == 0 {
				n += fmt.Sprint(g.r.Intn(3))
			}
		}
		if !used[n] {
			used[n] = true
			return n
		}
	}
}

func (g *gen) leaf(name string) *Spec {
	switch x := g.r.Intn(20); {
	case x < 11:
		return &Spec{Kind: "file", Name: HS(name), Mode: modes[g.r.Intn(len(modes))], Data: HS(g.content())}
	case x < 16:
		return &Spec{Kind: "link", Name: HS(name), Target: HS(g.pick(targets))}
	case x < 18:
		return &Spec{Kind: "fifo", Name: HS(name)}
	case x < 19:
		return &Spec{Kind: "sock", Name: HS(name)}
	default:
		return &Spec{Kind: "chr", Name: HS(name)}
	}
}

func (g *gen) dir(name string, depth int, budget *int) *Spec {
	d := &Spec{Kind: "dir", Name: HS(name)}
	if g.r.Intn(6) == 0 {
		d.Mode = []uint32{0o700, 0o755, 0o750}[g.r.Intn(3)]
	}
	n := g.r.Intn(5)
	if depth == 0 {
		n = 1 + g.r.Intn(6)
	}
	used := map[string]bool{}
	for i := 0; i < n && *budget > 0; i++ {
		*budget--
		nm := g.name(used)
		if depth < 3 && g.r.Intn(3) == 0 {
			d.Kids = append(d.Kids, g.dir(nm, depth+1, budget))
		} else {
			d.Kids = append(d.Kids, g.leaf(nm))
		}
	}
	return d
}

func (g *gen) tree() *Spec {
	switch g.r.Intn(30) {
	case 0:
		return nil
	case 1:
		return &Spec{Kind: "file", Mode: modes[g.r.Intn(len(modes))], Data: HS(g.content())}
	case 2:
		return &Spec{Kind: "link", Target: "elsewhere"}
	case 3:
		// a FIFO root is not generated: filesystem.Open blocks on it until a
		// writer appears (observed; outside the quantifier of C12)
		return &Spec{Kind: "sock"}
	}
	budget := 3 + g.r.Intn(16)
	return g.dir("", 0, &budget)
}

func (g *gen) ignores() (string, []string) {
	syntax := "mutagen"
	if g.r.Intn(2) == 0 {
		syntax = "docker"
	}
	var pats []string
	pool := []string{"ignored", "ign-*", "!ign-x", "sub/", "*.txt", "!z.txt", "d1/**", "!d1/keep", "lib", "!lib/keep", "**/c", "a", "!a", "/b", "d2", "!d2/sub/file", "x y", ".hidden"}
	for i, n := 0, g.r.Intn(5); i < n; i++ {
		pats = append(pats, g.pick(pool))
	}
	if _, err := newIgnorer(syntax, pats); err != nil {
		return syntax, nil
	}
	return syntax, pats
}

func allRuns() []Run {
	var rs []Run
	for sym := 1; sym <= 3; sym++ {
		for perm := 1; perm <= 2; perm++ {
			rs = append(rs, Run{Sym: sym, Perm: perm})
		}
	}
	rs = append(rs, Run{Sym: 2, Perm: 1, NoPreserve: true}, Run{Sym: 3, Perm: 2, NoPreserve: true})
	return rs
}

func join(dir, name string) string {
	if dir == "" {
		return name
	}
	return dir + "/" + name
}

// batch generates a random edit batch against the current state of the real
// tree (obtained by walking it) and applies nothing itself.
func (g *gen) batch(root string, pre []string) (Batch, error) {
	w, err := walk(root)
	if err != nil {
		return Batch{}, err
	}
	var dirs, files, all, empties []string
	for _, o := range w.objs {
		if o.path != "" {
			all = append(all, o.path)
		}
		switch o.kind {
		case "dir":
			dirs = append(dirs, o.path)
		case "file":
			if o.path != "" {
				files = append(files, o.path)
			}
		}
	}
	for _, d := range dirs {
		if d == "" {
			continue
		}
		if es, err := os.ReadDir(rel(root, HS(d))); err == nil && len(es) == 0 {
			empties = append(empties, d)
		}
	}
	var bt Batch
	touched := map[string]bool{}
	for _, p := range pre {
		touched[p] = true
		bt.Recheck = append(bt.Recheck, HS(p))
	}
	under := func(p string) bool {
		for t := range touched {
			if p == t || strings.HasPrefix(p, t+"/") || strings.HasPrefix(t, p+"/") {
				return true
			}
		}
		return false
	}
	n := 1 + g.r.Intn(3)
	for i := 0; i < n; i++ {
		switch x := g.r.Intn(12); {
		case x < 2 && len(files) > 0: // rewrite content
			p := g.pick(files)
			if under(p) {
				continue
			}
			touched[p] = true
			bt.Ops = append(bt.Ops, Op{Op: "write", Path: HS(p), Data: HS(g.content())})
			bt.Recheck = append(bt.Recheck, HS(p))
		case x < 3 && len(files) > 0:
			p := g.pick(files)
			if under(p) {
				continue
			}
			touched[p] = true
			old, err := os.ReadFile(rel(root, HS(p)))
			if err == nil && len(old) > 0 && g.r.Intn(2) == 0 {
				// same size, same mtime, new inode: only the file id tells
				nd := append([]byte{}, old...)
				nd[g.r.Intn(len(nd))] ^= 0x5a
				bt.Ops = append(bt.Ops, Op{Op: "replacekeep", Path: HS(p), Data: HS(nd)})
			} else {
				bt.Ops = append(bt.Ops, Op{Op: "replace", Path: HS(p), Data: HS(g.content())})
			}
			bt.Recheck = append(bt.Recheck, HS(p))
		case x < 4 && len(files) > 0:
			p := g.pick(files)
			if under(p) {
				continue
			}
			touched[p] = true
			bt.Ops = append(bt.Ops, Op{Op: "chmod", Path: HS(p), Mode: modes[g.r.Intn(len(modes))]})
			bt.Recheck = append(bt.Recheck, HS(p))
		case x < 5 && len(files) > 0:
			p := g.pick(files)
			if under(p) {
				continue
			}
			touched[p] = true
			old, err := os.ReadFile(rel(root, HS(p)))
			if err == nil && len(old) > 0 && g.r.Intn(2) == 0 {
				// same inode, same size, other content, OLDER mtime (cp -p, rsync -t, tar)
				nd := append([]byte{}, old...)
				nd[g.r.Intn(len(nd))] ^= 0x33
				bt.Ops = append(bt.Ops, Op{Op: "writeolder", Path: HS(p), Data: HS(nd)})
			} else {
				bt.Ops = append(bt.Ops, Op{Op: "touch", Path: HS(p)})
			}
			bt.Recheck = append(bt.Recheck, HS(p))
		case x < 8 && len(dirs) > 0: // create
			d := g.pick(dirs)
			nm := g.pick(plainNames) + fmt.Sprint("n", g.r.Intn(50))
			p := join(d, nm)
			if under(p) || under(d) {
				continue
			}
			if _, err := os.Lstat(rel(root, HS(p))); err == nil {
				continue
			}
			touched[p] = true
			var node *Spec
			if g.r.Intn(3) == 0 {
				budget := 1 + g.r.Intn(5)
				node = g.dir(nm, 2, &budget)
			} else {
				node = g.leaf(nm)
			}
			bt.Ops = append(bt.Ops, Op{Op: "create", Path: HS(p), Node: node})
			bt.Recheck = append(bt.Recheck, HS(p))
		case x < 10 && len(all) > 0: // remove or change type
			p := g.pick(all)
			if under(p) {
				continue
			}
			touched[p] = true
			bt.Ops = append(bt.Ops, Op{Op: "remove", Path: HS(p)})
			if g.r.Intn(2) == 0 {
				nm := filepath.Base(p)
				var node *Spec
				if g.r.Intn(3) == 0 {
					budget := 1 + g.r.Intn(4)
					node = g.dir(nm, 2, &budget)
				} else {
					node = g.leaf(nm)
				}
				bt.Ops = append(bt.Ops, Op{Op: "create", Path: HS(p), Node: node})
			}
			bt.Recheck = append(bt.Recheck, HS(p))
		case x < 11 && len(all) > 0 && len(dirs) > 0: // rename
			p := g.pick(all)
			d := g.pick(dirs)
			to := join(d, "moved"+fmt.Sprint(g.r.Intn(50)))
			if under(p) || under(to) || under(d) || d == p || strings.HasPrefix(d, p+"/") {
				continue
			}
			if _, err := os.Lstat(rel(root, HS(to))); err == nil {
				continue
			}
			touched[p] = true
			touched[to] = true
			bt.Ops = append(bt.Ops, Op{Op: "rename", Path: HS(p), To: HS(to)})
			bt.Recheck = append(bt.Recheck, HS(p), HS(to))
		case len(empties) > 0 && len(dirs) > 1: // empty directory replaced by another directory: only the parent is reported
			e := g.pick(empties)
			var src string
			for _, d := range dirs {
				if d != "" && d != e && !strings.HasPrefix(e, d+"/") && !strings.HasPrefix(d, e+"/") {
					src = d
				}
			}
			if src == "" || under(e) || under(src) {
				continue
			}
			touched[e] = true
			touched[src] = true
			bt.Ops = append(bt.Ops, Op{Op: "swapdir", Path: HS(e), To: HS(src)})
			parent := filepath.Dir(e)
			if parent == "." {
				parent = ""
			}
			bt.Recheck = append(bt.Recheck, HS(parent), HS(src))
		}
	}
	// sometimes extra paths: existing unchanged ones and nonexistent ones
	for g.r.Intn(3) == 0 {
		if len(all) > 0 && g.r.Intn(2) == 0 {
			bt.Recheck = append(bt.Recheck, HS(g.pick(all)))
		} else {
			bt.Recheck = append(bt.Recheck, HS(join(g.pick(dirs), "nothing-here")))
		}
	}
	return bt, nil
}

// genC13 builds the case incrementally on a scratch copy of the tree so that
// every batch refers to objects that exist when it is applied.
func (g *gen) genC13() (Case, error) {
	c := Case{Prop: "C13", Abort: g.r.Intn(8) == 0}
	for c.Root == nil || c.Root.Kind != "dir" {
		c.Root = g.tree()
	}
	c.Syntax, c.Patterns = g.ignores()
	runs := allRuns()
	c.Runs = []Run{runs[g.r.Intn(len(runs))]}
	tmp, err := os.MkdirTemp("", "verif-gen-")
	if err != nil {
		return c, err
	}
	defer os.RemoveAll(tmp)
	root := filepath.Join(tmp, "root")
	b := &builder{}
	spec := *c.Root
	spec.Name = HS(root)
	if err := b.create("", &spec); err != nil {
		return c, err
	}
	var pre []string
	if g.r.Intn(3) == 0 {
		// an edit that happens while the initial scan hashes the file
		if w, err := walk(root); err == nil {
			var cands []string
			for _, o := range w.objs {
				if o.kind == "file" && o.path != "" {
					if d, err := os.ReadFile(rel(root, HS(o.path))); err == nil && len(d) >= 4 && len(d) < 32*1024 {
						cands = append(cands, o.path)
					}
				}
			}
			if len(cands) > 0 {
				p := g.pick(cands)
				old, _ := os.ReadFile(rel(root, HS(p)))
				nd := append([]byte{}, old...)
				nd[g.r.Intn(len(nd))] ^= 0x21
				op := Op{Op: "write", Path: HS(p), Data: HS(nd)}
				if err := b.apply(root, op); err != nil {
					return c, err
				}
				c.MidHash = &op
				pre = []string{p}
			}
		}
	}
	for i, n := 0, 1+g.r.Intn(3); i < n; i++ {
		bt, err := g.batch(root, pre)
		pre = nil
		if err != nil {
			return c, err
		}
		for _, op := range bt.Ops {
			if err := b.apply(root, op); err != nil {
				return c, err
			}
		}
		c.Batches = append(c.Batches, bt)
		if st, err := os.Lstat(root); err != nil || !st.IsDir() {
			break
		}
	}
	return c, nil
}

const header = "From Coq Require Import List String NArith.\nImport ListNotations.\nOpen Scope string_scope.\nFrom Mv Require Import Common.Bytes Model.Entry Model.Fs Model.Scan Harness.ScanH."

func main() {
	prop := flag.String("prop", "C12", "C12|C13")
	flag.BoolVar(&fixed16, "fixed16", false, "symbolic_link.go skips empty target components (repaired C16)")
	cfg := hx.Parse()
	caseType, failFn, per := "c12case", "c12_failures", 40
	if *prop == "C13" {
		caseType, failFn, per = "c13case", "c13_failures", 25
	}
	w := hx.NewWriter(cfg, header, caseType, failFn, per)
	if *prop == "C12" {
		w.Rule = "a case = one real directory tree (independent lstat/readlink/read walk), the digest and ignore tables, and the results of core.Scan under 3 configurations drawn from 3 symlink modes x 2 permissions modes (one of them with executability preservation forced off through the behaviour cache); all scans of a case share one hasher, and in a quarter of the cases a scan of another root is first cancelled while that hasher is hashing a 64 MiB sparse file; distinct = distinct Coq terms; non-trivial = at least 4 filesystem objects"
	} else {
		w.Rule = "a case = one real directory tree, one configuration, 1-3 random edit batches (write/same-size rewrite with an older mtime/replace/replace keeping size and mtime/chmod/touch/create/remove/retype/rename/empty-directory swap) in a third of the cases (when a suitable file exists) one file is also rewritten in place while the initial scan is hashing it (through the shared hasher), its path being reported with the first batch; each batch is followed by core.Scan with the previous result as baseline + recheck paths and by a fresh core.Scan; non-trivial = at least one batch and at least 4 objects"
	}
	add := func(c Case, origin string) {
		if w.Aborted {
			return
		}
		var out outcome
		var err error
		if w.Guard(c, 20*time.Second, func() { out, err = runCase(c) }) {
			if err != nil {
				fmt.Fprintln(os.Stderr, "skipped case:", err)
				return
			}
			w.Add(hx.Case{Coq: out.coq, Replay: c, Nontrivial: out.nt, Tags: out.tags, Origin: origin})
		}
	}
	if cfg.Replay != "" {
		b, err := os.ReadFile(cfg.Replay)
		if err != nil {
			panic(err)
		}
		var wrapper struct {
			Case Case `json:"case"`
		}
		if err := json.Unmarshal(b, &wrapper); err != nil {
			panic(err)
		}
		add(wrapper.Case, "replay")
		w.Close()
		return
	}
	for _, raw := range hx.LoadCorpus(cfg.Corpus) {
		var c Case
		if json.Unmarshal(raw, &c) == nil && c.Prop == *prop {
			add(c, "corpus")
		}
	}
	g := &gen{r: cfg.Rand}
	n := 260
	if *prop == "C13" {
		n = 220
	}
	if cfg.Thorough() {
		n *= 12
	}
	for i := 0; i < n; i++ {
		if *prop == "C12" {
			all := allRuns()
			runs := []Run{all[g.r.Intn(6)], all[g.r.Intn(6)], all[6+g.r.Intn(2)]}
			c := Case{Prop: "C12", Root: g.tree(), Runs: runs, Abort: g.r.Intn(4) == 0}
			c.Syntax, c.Patterns = g.ignores()
			add(c, "random")
		} else {
			c, err := g.genC13()
			if err != nil {
				fmt.Fprintln(os.Stderr, "generation failed:", err)
				continue
			}
			add(c, "random")
		}
	}
	w.Close()
	if bigRoot != "" {
		os.RemoveAll(bigRoot)
	}
	fmt.Printf("cases %d\n", w.Total())
}
