// Harness for C40: fastpath.Less exhaustively on short strings and on random
// root-relative paths; core.SortConflicts / core.SortProblems on random lists;
// the sorting / truncation block of Manager.List observed through the real
// Manager.List (lists injected with the add-only hook VerifSetListState);
// selection by identifier / name / label selector and the creation-time order
// through the real Manager with paused sessions in a scratch
// MUTAGEN_DATA_DIRECTORY; the real (vendored Kubernetes) label selector
// against the modelled selector grammar.  Every case is emitted with the
// implementation's output as a Coq term of type Model.Selection.scase.
package main

import (
	"context"
	"crypto/rand"
	"encoding/json"
	"fmt"
	"io"
	mrand "math/rand"
	"os"
	"regexp"
	"sort"
	"strings"
	"time"

	"github.com/mutagen-io/mutagen/pkg/identifier"
	"github.com/mutagen-io/mutagen/pkg/logging"
	"github.com/mutagen-io/mutagen/pkg/selection"
	"github.com/mutagen-io/mutagen/pkg/synchronization"
	"github.com/mutagen-io/mutagen/pkg/synchronization/core"
	"github.com/mutagen-io/mutagen/pkg/synchronization/core/fastpath"
	"github.com/mutagen-io/mutagen/pkg/url"

	"verifharness/internal/coretree"
	"verifharness/internal/hx"
)

// Item is a conflict root / problem path with a tag standing for the rest.
type Item struct {
	P string `json:"p"`
	T int    `json:"t"`
}

// Req is one requirement of a label selector.
type Req struct {
	Op string   `json:"op"` // exists notexists eq eq2 neq in notin
	K  string   `json:"k"`
	V  []string `json:"v,omitempty"`
}

// Sess is a session to create.
type Sess struct {
	Name   string            `json:"name"`
	Labels map[string]string `json:"labels,omitempty"`
}

// Query is one List call.
type Query struct {
	All    bool     `json:"all,omitempty"`
	Specs  []string `json:"specs,omitempty"`
	Reqs   []Req    `json:"reqs,omitempty"`   // a label selector, printed by selText
	RawSel string   `json:"rawsel,omitempty"` // a selector text expected not to parse
	Spaced int      `json:"spaced,omitempty"` // whitespace variant of the printed selector
}

// Case is the replay form.
type Case struct {
	Kind     string            `json:"kind"` // less sort list select match
	A        string            `json:"a,omitempty"`
	B        string            `json:"b,omitempty"`
	Which    int               `json:"which,omitempty"` // sort: 0 conflicts 1 problems; list: 0..4
	Items    []Item            `json:"items,omitempty"`
	Seed     int64             `json:"seed,omitempty"`
	Sessions []Sess            `json:"sessions,omitempty"`
	Queries  []Query           `json:"queries,omitempty"`
	Reqs     []Req             `json:"reqs,omitempty"`
	Labels   map[string]string `json:"labels,omitempty"`
	Spaced   int               `json:"spaced,omitempty"`
}

func itemsCoq(items []Item) string {
	out := make([]string, len(items))
	for i, it := range items {
		out[i] = fmt.Sprintf("I %s %d", coretree.Str(it.P), it.T)
	}
	return hx.List(out)
}

func strsCoq(ss []string) string {
	out := make([]string, len(ss))
	for i, s := range ss {
		out[i] = coretree.Str(s)
	}
	return hx.List(out)
}

func labelsCoq(m map[string]string) string {
	keys := make([]string, 0, len(m))
	for k := range m {
		keys = append(keys, k)
	}
	sort.Strings(keys)
	out := make([]string, len(keys))
	for i, k := range keys {
		out[i] = fmt.Sprintf("(%s, %s)", coretree.Str(k), coretree.Str(m[k]))
	}
	return hx.List(out)
}

func reqsCoq(reqs []Req) string {
	out := make([]string, len(reqs))
	for i, r := range reqs {
		switch r.Op {
		case "exists":
			out[i] = "RExists " + coretree.Str(r.K)
		case "notexists":
			out[i] = "RNotExists " + coretree.Str(r.K)
		case "eq", "eq2":
			out[i] = fmt.Sprintf("REq %s %s", coretree.Str(r.K), coretree.Str(r.V[0]))
		case "neq":
			out[i] = fmt.Sprintf("RNeq %s %s", coretree.Str(r.K), coretree.Str(r.V[0]))
		case "in":
			out[i] = fmt.Sprintf("RIn %s %s", coretree.Str(r.K), strsCoq(r.V))
		case "notin":
			out[i] = fmt.Sprintf("RNotIn %s %s", coretree.Str(r.K), strsCoq(r.V))
		default:
			panic("unknown op " + r.Op)
		}
	}
	return hx.List(out)
}

// selText prints a selector in the grammar k | !k | k=v | k==v | k!=v |
// k in (..) | k notin (..), comma separated; spaced selects a whitespace style.
func selText(reqs []Req, spaced int) string {
	sp := ""
	if spaced%2 == 1 {
		sp = " "
	}
	parts := make([]string, len(reqs))
	for i, r := range reqs {
		switch r.Op {
		case "exists":
			parts[i] = r.K
		case "notexists":
			parts[i] = "!" + r.K
		case "eq":
			parts[i] = r.K + sp + "=" + sp + r.V[0]
		case "eq2":
			parts[i] = r.K + sp + "==" + sp + r.V[0]
		case "neq":
			parts[i] = r.K + sp + "!=" + sp + r.V[0]
		case "in":
			parts[i] = r.K + " in (" + strings.Join(r.V, ","+sp) + ")"
		case "notin":
			parts[i] = r.K + " notin (" + sp + strings.Join(r.V, sp+",") + sp + ")"
		}
	}
	sep := ","
	if spaced/2%2 == 1 {
		sep = " , "
	}
	return strings.Join(parts, sep)
}

var unmatchedRe = regexp.MustCompile(`(?s)specification "(.*)" did not match any sessions$`)

// prng is the deterministic replacement for crypto/rand.Reader while sessions
// are created (identifiers become a function of the case's seed).
type prng struct{ r *mrand.Rand }

func (p prng) Read(b []byte) (int, error) { return p.r.Read(b) }

func newManager() (*synchronization.Manager, string) {
	dir, err := os.MkdirTemp("", "verif-c40-")
	if err != nil {
		panic(err)
	}
	os.Setenv("MUTAGEN_DATA_DIRECTORY", dir)
	m, err := synchronization.NewManager(logging.NewLogger(logging.LevelDisabled, io.Discard))
	if err != nil {
		panic(err)
	}
	return m, dir
}

func createPaused(m *synchronization.Manager, name string, labels map[string]string) string {
	local := func(p string) *url.URL {
		return &url.URL{Kind: url.Kind_Synchronization, Protocol: url.Protocol_Local, Path: p}
	}
	id, err := m.Create(context.Background(), local("/verif/alpha"), local("/verif/beta"),
		&synchronization.Configuration{}, &synchronization.Configuration{}, &synchronization.Configuration{},
		name, labels, true, "")
	if err != nil {
		panic(fmt.Sprintf("harness: Manager.Create failed: %v", err))
	}
	return id
}

func mkConflicts(items []Item) []*core.Conflict {
	out := make([]*core.Conflict, len(items))
	for i, it := range items {
		tag := fmt.Sprintf("t%d", it.T)
		out[i] = &core.Conflict{Root: it.P,
			AlphaChanges: []*core.Change{{Path: tag}}, BetaChanges: []*core.Change{{Path: tag}}}
	}
	return out
}

func mkProblems(items []Item) []*core.Problem {
	out := make([]*core.Problem, len(items))
	for i, it := range items {
		out[i] = &core.Problem{Path: it.P, Error: fmt.Sprintf("t%d", it.T)}
	}
	return out
}

func tagOf(s string) int {
	var t int
	fmt.Sscanf(s, "t%d", &t)
	return t
}

func conflictsItems(cs []*core.Conflict) []Item {
	out := make([]Item, len(cs))
	for i, c := range cs {
		out[i] = Item{c.Root, tagOf(c.AlphaChanges[0].Path)}
	}
	return out
}

func problemsItems(ps []*core.Problem) []Item {
	out := make([]Item, len(ps))
	for i, p := range ps {
		out[i] = Item{p.Path, tagOf(p.Error)}
	}
	return out
}

// the manager used for the list cases (one session whose state is replaced)
var listManager *synchronization.Manager
var listDir, listID string

func runCase(c Case) (coq string, nontrivial bool, tags []string) {
	tags = append(tags, "kind:"+c.Kind)
	switch c.Kind {
	case "less":
		r := fastpath.Less(c.A, c.B)
		coq = fmt.Sprintf("CLess %s %s %v", coretree.Str(c.A), coretree.Str(c.B), r)
		nontrivial = strings.Contains(c.A, "/") || strings.Contains(c.B, "/")
	case "sort":
		var out []Item
		if c.Which == 0 {
			l := mkConflicts(c.Items)
			core.SortConflicts(l)
			out = conflictsItems(l)
			tags = append(tags, "sort:conflicts")
		} else {
			l := mkProblems(c.Items)
			core.SortProblems(l)
			out = problemsItems(l)
			tags = append(tags, "sort:problems")
		}
		coq = fmt.Sprintf("CSort %s %s", itemsCoq(c.Items), itemsCoq(out))
		nontrivial = len(c.Items) > 2
	case "list":
		if listManager == nil {
			listManager, listDir = newManager()
			listID = createPaused(listManager, "list", nil)
		}
		var cf []*core.Conflict
		ps := make([][]*core.Problem, 4)
		if c.Which == 0 {
			cf = mkConflicts(c.Items)
		} else {
			ps[c.Which-1] = mkProblems(c.Items)
		}
		if !listManager.VerifSetListState(listID, cf, ps[0], ps[1], ps[2], ps[3]) {
			panic("harness: the list session disappeared")
		}
		_, states, err := listManager.List(context.Background(), &selection.Selection{All: true}, 0)
		if err != nil || len(states) != 1 {
			panic(fmt.Sprintf("harness: Manager.List failed: %v (%d states)", err, len(states)))
		}
		st := states[0]
		var out []Item
		var ex uint64
		switch c.Which {
		case 0:
			out, ex = conflictsItems(st.Conflicts), st.ExcludedConflicts
		case 1:
			out, ex = problemsItems(st.AlphaState.ScanProblems), st.AlphaState.ExcludedScanProblems
		case 2:
			out, ex = problemsItems(st.AlphaState.TransitionProblems), st.AlphaState.ExcludedTransitionProblems
		case 3:
			out, ex = problemsItems(st.BetaState.ScanProblems), st.BetaState.ExcludedScanProblems
		case 4:
			out, ex = problemsItems(st.BetaState.TransitionProblems), st.BetaState.ExcludedTransitionProblems
		}
		coq = fmt.Sprintf("CList %s %s %d%%N", itemsCoq(c.Items), itemsCoq(out), ex)
		tags = append(tags, fmt.Sprintf("list:%d", c.Which), fmt.Sprintf("len:%d", len(c.Items)/5*5))
		nontrivial = len(c.Items) > 10
	case "select":
		m, dir := newManager()
		defer os.RemoveAll(dir)
		defer m.Shutdown()
		saved := rand.Reader
		rand.Reader = prng{mrand.New(mrand.NewSource(c.Seed))}
		ids := make([]string, len(c.Sessions))
		for i, s := range c.Sessions {
			ids[i] = createPaused(m, s.Name, s.Labels)
		}
		rand.Reader = saved
		// creation times, from an unfiltered listing
		_, states, err := m.List(context.Background(), &selection.Selection{All: true}, 0)
		if err != nil {
			panic(err)
		}
		ctime := map[string]string{}
		for _, st := range states {
			t := st.Session.CreationTime
			ctime[st.Session.Identifier] = fmt.Sprintf("%d", t.Seconds*1000000000+int64(t.Nanos))
		}
		ss := make([]string, len(c.Sessions))
		for i, s := range c.Sessions {
			ss[i] = fmt.Sprintf("S4 %s %s %s %s%%N", coretree.Str(ids[i]), coretree.Str(s.Name), labelsCoq(s.Labels), ctime[ids[i]])
		}
		qs := make([]string, len(c.Queries))
		for i, q := range c.Queries {
			sel := &selection.Selection{}
			var qc string
			switch {
			case q.All:
				sel.All = true
				qc = "QAll"
				tags = append(tags, "query:all")
			case len(q.Specs) > 0:
				sel.Specifications = q.Specs
				qc = "QSpecs " + strsCoq(q.Specs)
				tags = append(tags, "query:specs")
			case q.RawSel != "":
				sel.LabelSelector = q.RawSel
				qc = "QLabel None"
				tags = append(tags, "query:bad-selector")
			default:
				sel.LabelSelector = selText(q.Reqs, q.Spaced)
				qc = "QLabel (Some " + reqsCoq(q.Reqs) + ")"
				tags = append(tags, "query:label")
			}
			_, states, err := m.List(context.Background(), sel, 0)
			var rc string
			if err == nil {
				got := make([]string, len(states))
				for j, st := range states {
					got[j] = st.Session.Identifier
				}
				rc = "QOk " + strsCoq(got)
				if len(got) > 0 && len(got) < len(ids) {
					nontrivial = true
				}
			} else if sub := unmatchedRe.FindStringSubmatch(err.Error()); sub != nil {
				rc = "QErr (Some " + coretree.Str(sub[1]) + ")"
				tags = append(tags, "result:unmatched")
				nontrivial = true
			} else {
				rc = "QErr None"
				tags = append(tags, "result:error")
			}
			qs[i] = fmt.Sprintf("(%s, %s)", qc, rc)
		}
		coq = fmt.Sprintf("CSelect %s %s", hx.List(ss), hx.List(qs))
		tags = append(tags, fmt.Sprintf("sessions:%d", len(c.Sessions)))
	case "match":
		text := selText(c.Reqs, c.Spaced)
		s, err := selection.ParseLabelSelector(text)
		if err != nil {
			panic(fmt.Sprintf("harness: selector %q printed from the grammar does not parse: %v", text, err))
		}
		r := s.Matches(c.Labels)
		coq = fmt.Sprintf("CMatch %s %s %v", reqsCoq(c.Reqs), labelsCoq(c.Labels), r)
		for _, q := range c.Reqs {
			tags = append(tags, "op:"+q.Op)
		}
		nontrivial = len(c.Reqs) > 0
	default:
		panic("unknown kind " + c.Kind)
	}
	return
}

const header = "From Coq Require Import List Bool Arith String NArith.\nImport ListNotations.\nFrom Mv Require Import Common.Bytes Model.Entry Model.Selection Harness.SelectionH.\nOpen Scope string_scope."

func main() {
	cfg := hx.Parse()
	w := hx.NewWriter(cfg, header, "scase", "selection_failures", 300)
	w.Rule = "a case = fastpath.Less(a,b) / core.SortConflicts|SortProblems(list) / Manager.List on a session holding the list (sorted, truncated list and Excluded counter) / a real Manager with paused sessions answering List queries (all, specifications, label selector) / the real label selector's Matches; distinct = distinct Coq terms (creation times make select cases distinct); non-trivial = a path with a '/', a list of more than 2 (sort) or more than 10 (list) elements, a query selecting a proper non-empty subset or failing on an unmatched specification, a selector with at least one requirement"
	add := func(c Case, origin string) {
		if w.Aborted {
			return
		}
		var coq string
		var nt bool
		var tags []string
		if w.Guard(c, 20*time.Second, func() { coq, nt, tags = runCase(c) }) {
			w.Add(hx.Case{Coq: coq, Replay: c, Nontrivial: nt, Tags: tags, Origin: origin})
		}
	}
	defer func() {
		if listManager != nil {
			listManager.Shutdown()
			os.RemoveAll(listDir)
		}
	}()

	if cfg.Replay != "" {
		b, err := os.ReadFile(cfg.Replay)
		if err != nil {
			panic(err)
		}
		var wrapper struct {
			Case Case `json:"case"`
		}
		if err := json.Unmarshal(b, &wrapper); err != nil {
			panic(err)
		}
		add(wrapper.Case, "replay")
		w.Close()
		return
	}

	for _, raw := range hx.LoadCorpus(cfg.Corpus) {
		var c Case
		if json.Unmarshal(raw, &c) == nil && c.Kind != "" {
			add(c, "corpus")
		}
	}

	r := cfg.Rand

	// ---- fastpath.Less, exhaustively on short strings over {'.', '/', 'a'} ----
	maxl := 3
	if cfg.Thorough() {
		maxl = 4
	}
	alpha := []byte{'.', '/', 'a'} // a byte below '/', '/', a byte above
	var short []string
	short = append(short, "")
	for l := 1; l <= maxl; l++ {
		total := 1
		for i := 0; i < l; i++ {
			total *= 3
		}
		for v := 0; v < total; v++ {
			s := make([]byte, l)
			x := v
			for i := range s {
				s[i] = alpha[x%3]
				x /= 3
			}
			short = append(short, string(s))
		}
	}
	for _, a := range short {
		for _, b := range short {
			add(Case{Kind: "less", A: a, B: b}, "exhaustive")
		}
	}
	w.Extra["exhaustive_scope"] = fmt.Sprintf("fastpath.Less on all %d x %d pairs of strings of length 0..%d over {'.', '/', 'a'} (valid and invalid root-relative paths)", len(short), len(short), maxl)

	// ---- random ----
	scale := 1
	if cfg.Thorough() {
		scale = 10
	}
	comps := []string{"a", "ab", "a.b", "a-b", "a b", "b", "A", "z", "0", "\xc3\xa9", "a\x00", "~"}
	randPath := func() string {
		n := r.Intn(4)
		if r.Intn(12) == 0 {
			n = 4 + r.Intn(3)
		}
		parts := make([]string, n)
		for i := range parts {
			parts[i] = comps[r.Intn(len(comps))]
		}
		return strings.Join(parts, "/")
	}
	for i := 0; i < 500*scale; i++ {
		add(Case{Kind: "less", A: randPath(), B: randPath()}, "random")
	}
	randItems := func() []Item {
		n := r.Intn(8)
		switch r.Intn(4) {
		case 0:
			n = 9 + r.Intn(4) // around the maximum
		case 1:
			n = 11 + r.Intn(20)
		}
		items := make([]Item, n)
		for i := range items {
			items[i] = Item{randPath(), i}
		}
		return items
	}
	for i := 0; i < 200*scale; i++ {
		add(Case{Kind: "sort", Which: i % 2, Items: randItems()}, "random")
	}
	for i := 0; i < 400*scale; i++ {
		add(Case{Kind: "list", Which: i % 5, Items: randItems()}, "random")
	}

	// ---- the label selector against the grammar model ----
	keys := []string{"env", "tier", "app", "a.b/c", "x-y_z", "k8s.io/name", "E", "in2"}
	vals := []string{"prod", "dev", "1", "", "a.b", "x_y-z", "Prod"}
	randReq := func() Req {
		q := Req{K: keys[r.Intn(len(keys))]}
		switch r.Intn(7) {
		case 0:
			q.Op = "exists"
		case 1:
			q.Op = "notexists"
		case 2:
			q.Op, q.V = "eq", []string{vals[r.Intn(len(vals))]}
		case 3:
			q.Op, q.V = "eq2", []string{vals[r.Intn(len(vals))]}
		case 4:
			q.Op, q.V = "neq", []string{vals[r.Intn(len(vals))]}
		default:
			q.Op = []string{"in", "notin"}[r.Intn(2)]
			for k := 1 + r.Intn(3); k > 0; k-- {
				v := vals[r.Intn(len(vals))]
				if v != "" {
					q.V = append(q.V, v)
				}
			}
			if len(q.V) == 0 {
				q.V = []string{"prod"}
			}
		}
		return q
	}
	randReqs := func() []Req {
		reqs := make([]Req, 1+r.Intn(3))
		for i := range reqs {
			reqs[i] = randReq()
		}
		return reqs
	}
	randLabels := func() map[string]string {
		m := map[string]string{}
		for k := r.Intn(4); k > 0; k-- {
			m[keys[r.Intn(len(keys))]] = vals[r.Intn(len(vals))]
		}
		if len(m) == 0 && r.Intn(2) == 0 {
			return nil
		}
		return m
	}
	for i := 0; i < 600*scale; i++ {
		add(Case{Kind: "match", Reqs: randReqs(), Labels: randLabels(), Spaced: r.Intn(4)}, "random")
	}

	// ---- selection through the real Manager ----
	names := []string{"", "web", "db", "web", "cache", "Web", "a-b", "defaults2"}
	badSelectors := []string{"=", ",", "a in (b", "a in b)", "a in", "a=b=c", "!", "a notin", "a b", "(a)"}
	nSel := 120 * scale
	if nSel > 1500 {
		nSel = 1500
	}
	for i := 0; i < nSel; i++ {
		seed := r.Int63()
		n := 1 + r.Intn(6)
		sessions := make([]Sess, n)
		for j := range sessions {
			sessions[j] = Sess{Name: names[r.Intn(len(names))], Labels: randLabels()}
		}
		// the identifiers the sessions will get (same PRNG, same order)
		saved := rand.Reader
		rand.Reader = prng{mrand.New(mrand.NewSource(seed))}
		ids := make([]string, n)
		for j := range ids {
			ids[j], _ = identifier.New(identifier.PrefixSynchronization)
		}
		rand.Reader = saved
		randSpec := func() string {
			switch r.Intn(8) {
			case 0, 1, 2:
				return ids[r.Intn(n)]
			case 3, 4:
				return sessions[r.Intn(n)].Name
			case 5:
				return identifier.Truncated(ids[r.Intn(n)]) // a prefix must not match
			case 6:
				return names[r.Intn(len(names))]
			default:
				return "nope" + fmt.Sprint(r.Intn(3))
			}
		}
		queries := []Query{{All: true}}
		for k := 2 + r.Intn(5); k > 0; k-- {
			switch r.Intn(6) {
			case 0, 1, 2:
				specs := make([]string, 1+r.Intn(3))
				for j := range specs {
					specs[j] = randSpec()
					if specs[j] == "" && r.Intn(2) == 0 {
						specs[j] = ids[0]
					}
				}
				queries = append(queries, Query{Specs: specs})
			case 3, 4:
				// mostly requirements about labels some session carries
				reqs := randReqs()
				for j := range reqs {
					s := sessions[r.Intn(n)]
					if len(s.Labels) == 0 || r.Intn(4) == 0 {
						continue
					}
					lk := make([]string, 0, len(s.Labels))
					for k := range s.Labels {
						lk = append(lk, k)
					}
					sort.Strings(lk)
					k := lk[r.Intn(len(lk))]
					reqs[j].K = k
					if len(reqs[j].V) > 0 && s.Labels[k] != "" && r.Intn(3) != 0 {
						reqs[j].V[0] = s.Labels[k]
					}
				}
				queries = append(queries, Query{Reqs: reqs, Spaced: r.Intn(4)})
			default:
				queries = append(queries, Query{RawSel: badSelectors[r.Intn(len(badSelectors))]})
			}
		}
		add(Case{Kind: "select", Seed: seed, Sessions: sessions, Queries: queries}, "random")
	}
	w.Close()
	fmt.Println(strings.TrimSpace(fmt.Sprintf("cases %d", w.Total())))
}
