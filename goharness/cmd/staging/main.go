// Harness for C10: a real local endpoint (local.NewEndpoint: the real
// staging.Stager / store.Store, the real rsync receiver returned by Stage, and
// core.Transition behind Transition) is given a plan of files to create or
// replace; the data for them is delivered as arbitrary transmission streams
// (intact, corrupt, truncated, swapped between paths, without Done, with block
// operations that do not fit the base, aborted after any call, finalized or
// not), or found locally by rename/copy detection (with the local copy changed
// after the scan), or pre-staged by an earlier interrupted round. After
// Transition the root is re-read and re-hashed independently. Everything is
// emitted as a Coq term for Harness/StagingH.v.
package main

import (
	"context"
	"encoding/json"
	"fmt"
	"os"
	"os/signal"
	"path/filepath"
	"sort"
	"strings"
	"sync"
	"syscall"
	"time"

	"github.com/mutagen-io/mutagen/pkg/synchronization"
	"github.com/mutagen-io/mutagen/pkg/synchronization/core"
	"github.com/mutagen-io/mutagen/pkg/synchronization/rsync"

	"verifharness/internal/coretree"
	"verifharness/internal/hx"
	"verifharness/internal/lepx"
)

// Plan is one planned file. Kind: create (a path that does not exist at scan
// time, in an existing directory), replace (an existing file), dir (a file
// inside a directory that the transition creates). Stream says how its data
// is delivered if Stage still needs it; PreStream how the earlier,
// interrupted round delivered it ("" = not at all).
type Plan struct {
	Path      string `json:"p"`
	Content   string `json:"c"`
	Kind      string `json:"k"`
	Stream    string `json:"s"`
	PreStream string `json:"pre,omitempty"`
	Exec      bool   `json:"x,omitempty"` // the planned entry is executable
}

// Edit is an external modification of the root: Content nil = remove.
type Edit struct {
	Path    string  `json:"p"`
	Content *string `json:"c"`
	// InPlace: the file is rewritten in place with different bytes of the same
	// length and its modification time is restored (same size, mtime, inode:
	// invisible to a comparison of scan-cache metadata).
	InPlace bool `json:"inplace,omitempty"`
}

// Case is one scenario.
type Case struct {
	// XDev: the root is placed on another device than the staging directory
	// and the Transition's context is cancelled as soon as the cross-device
	// copy of the (huge) planned file has begun.
	XDev          bool              `json:"xdev,omitempty"`
	// FlushFault: the final flush of the staged file for the (single) planned
	// path fails (file size limit): its Commit must not store anything.
	FlushFault    bool              `json:"flushfault,omitempty"`
	InitExec      map[string]bool   `json:"init_exec,omitempty"`
	Init          map[string]string `json:"init"`
	MaxSize       uint64            `json:"maxsize,omitempty"`
	Plans         []Plan            `json:"plans"`
	Pre           bool              `json:"pre,omitempty"`
	EditsStage    []Edit            `json:"edits_stage,omitempty"`
	EditsTrans    []Edit            `json:"edits_trans,omitempty"`
	Swap          bool              `json:"swap,omitempty"`
	AbortAt       int               `json:"abort_at,omitempty"` // 0 = never; k = stop after k Receive calls
	Finalize      bool              `json:"finalize"`
	ExtraAtEnd    int               `json:"extra,omitempty"`
	SkipSecondary bool              `json:"skip2,omitempty"`
}

type result struct {
	skip  string
	coq   string
	nt    bool
	tags  []string
	panic string
}

var (
	scratch *lepx.Scratch
	seq     int
	seqMu   sync.Mutex
)

func nextSession() string {
	seqMu.Lock()
	defer seqMu.Unlock()
	seq++
	return fmt.Sprintf("t%06d", seq)
}

func bigContent(tag string) string {
	var sb strings.Builder
	for i := 0; sb.Len() < 2100; i++ {
		fmt.Fprintf(&sb, "%s%04d,", tag, i)
	}
	return sb.String()[:2100]
}

var (
	hugeMu    sync.Mutex
	hugeCache = map[string]string{}
)

func expand(c string) string {
	if strings.HasPrefix(c, "HUGE:") { // 40 MiB: more than one preemption interval (32 MiB) of the cross-device copy
		hugeMu.Lock()
		defer hugeMu.Unlock()
		if v, ok := hugeCache[c]; ok {
			return v
		}
		b := make([]byte, 40<<20)
		copy(b, c)
		hugeCache[c] = string(b)
		return hugeCache[c]
	}
	if strings.HasPrefix(c, "BIG:") {
		return bigContent(c[4:])
	}
	if strings.HasPrefix(c, "BIG+:") { // a big content followed by a suffix
		return bigContent(c[5:]) + "+tail"
	}
	return c
}

func writeFile(root, rel string, content []byte, tmpdir string) {
	writeFileMode(root, rel, content, tmpdir, 0o644)
}

func writeFileMode(root, rel string, content []byte, tmpdir string, mode os.FileMode) {
	full := filepath.Join(root, filepath.FromSlash(rel))
	if err := os.MkdirAll(filepath.Dir(full), 0o755); err != nil {
		return
	}
	if st, err := os.Lstat(full); err == nil && st.IsDir() {
		return
	}
	tmp, err := os.CreateTemp(tmpdir, "w")
	if err != nil {
		panic(err)
	}
	if len(content) > 1<<20 {
		// huge contents are a short header followed by zeros: write them sparsely
		end := len(content)
		for end > 0 && content[end-1] == 0 {
			end--
		}
		tmp.Write(content[:end])
		tmp.Truncate(int64(len(content)))
	} else {
		tmp.Write(content)
	}
	tmp.Close()
	os.Chmod(tmp.Name(), mode)
	if err := os.Rename(tmp.Name(), full); err != nil {
		os.Remove(tmp.Name())
	}
}

// tx is one transmission.
type tx struct {
	done         bool
	data         []byte
	start, count uint64
}

func (t tx) coq() string {
	if t.done {
		return "Dn"
	}
	return fmt.Sprintf("Op %s %d %d", coretree.Str(string(t.data)), t.start, t.count)
}

func chunks(b []byte) []tx {
	if len(b) == 0 {
		return nil
	}
	if len(b) < 4 {
		return []tx{{data: b}}
	}
	k := len(b) / 2
	return []tx{{data: b[:k]}, {data: b[k:]}}
}

// streamFor builds the transmissions for one file.
func streamFor(mode string, target []byte, base []byte, sig *rsync.Signature) []tx {
	switch mode {
	case "ok":
		return append(chunks(target), tx{done: true})
	case "corrupt":
		c := append([]byte(nil), target...)
		if len(c) == 0 {
			c = []byte("x")
		} else {
			c[len(c)/2] ^= 1
		}
		return append(chunks(c), tx{done: true})
	case "truncate":
		cs := chunks(target)
		if len(cs) > 0 {
			cs = cs[:len(cs)-1]
		}
		return append(cs, tx{done: true})
	case "nodone":
		return chunks(target)
	case "empty":
		return []tx{{done: true}}
	case "reorder":
		cs := chunks(target)
		for i, j := 0, len(cs)-1; i < j; i, j = i+1, j-1 {
			cs[i], cs[j] = cs[j], cs[i]
		}
		return append(cs, tx{done: true})
	case "zero":
		return append(append([]tx{{}}, chunks(target)...), tx{done: true})
	case "block":
		// the whole base, then whatever the target has beyond it
		n := uint64(len(sig.Hashes))
		if n == 0 || len(target) < len(base) || string(target[:len(base)]) != string(base) {
			return append(chunks(target), tx{done: true})
		}
		out := []tx{{start: 0, count: n}}
		out = append(out, chunks(target[len(base):])...)
		return append(out, tx{done: true})
	case "blocksplit":
		n := uint64(len(sig.Hashes))
		if n < 2 || len(target) < len(base) || string(target[:len(base)]) != string(base) {
			return append(chunks(target), tx{done: true})
		}
		out := []tx{{start: 0, count: 1}, {start: 1, count: n - 1}}
		out = append(out, chunks(target[len(base):])...)
		return append(out, tx{done: true})
	case "blockbad":
		n := uint64(len(sig.Hashes))
		return append([]tx{{data: []byte("pre")}, {start: n, count: 1}}, append(chunks(target), tx{done: true})...)
	case "blockover":
		n := uint64(len(sig.Hashes))
		return append([]tx{{start: 0, count: n + 1}}, append(chunks(target), tx{done: true})...)
	}
	return append(chunks(target), tx{done: true})
}

// cname prints a content: literally, or (huge contents) by a short symbolic
// name that is injective through the SHA-1 digest and the length.
func cname(b []byte) string {
	if len(b) <= 8192 {
		return string(b)
	}
	return fmt.Sprintf("HUGE:%x:%d", lepx.Sha1(b)[:8], len(b))
}

func otherDevice(than string) string {
	var a, b syscall.Stat_t
	if syscall.Stat(than, &a) != nil {
		return ""
	}
	for _, cand := range []string{"/tmp", "/var/tmp", "/verif/.work", "."} {
		if syscall.Stat(cand, &b) == nil && b.Dev != a.Dev {
			if d, err := os.MkdirTemp(cand, "verif-xdev-"); err == nil {
				return d
			}
		}
	}
	return ""
}

func optStr(s *string) string {
	if s == nil {
		return "None"
	}
	return "(Some " + coretree.Str(*s) + ")"
}

func coqFiles(d lepx.Disk) string {
	items := make([]string, 0, len(d.Files))
	for _, p := range d.Paths() {
		items = append(items, fmt.Sprintf("(%s, %s)", coretree.Str(p), coretree.Str(cname(d.Files[p]))))
	}
	return hx.List(items)
}

func runCase(c Case) (res result) {
	defer func() {
		if r := recover(); r != nil {
			res.panic = fmt.Sprint(r)
		}
	}()
	t00 := time.Now()
	dbg := func(what string) {
		if os.Getenv("VERIF_DEBUG") != "" {
			fmt.Fprintf(os.Stderr, "%6dms %s\n", time.Since(t00).Milliseconds(), what)
		}
	}
	ids := lepx.NewIds()
	known := map[string]string{} // printed content -> digest identifier: the hash table
	note := func(b []byte) {
		k := cname(b)
		if _, ok := known[k]; !ok {
			known[k] = ids.Content(b)
		}
	}
	note(nil)
	session := nextSession()
	base := scratch.Dir(session)
	defer os.RemoveAll(base)
	root := filepath.Join(base, "root")
	tmpdir := filepath.Join(base, "tmp")
	if c.XDev {
		other := otherDevice(base)
		if other == "" {
			res.skip = "no second filesystem"
			return
		}
		defer os.RemoveAll(other)
		root = filepath.Join(other, "root")
		tmpdir = filepath.Join(other, "tmp")
	}
	os.MkdirAll(root, 0o755)
	os.MkdirAll(tmpdir, 0o755)
	init := map[string][]byte{}
	for p, content := range c.Init {
		init[p] = []byte(expand(content))
		mode := os.FileMode(0o644)
		if c.InitExec[p] {
			mode = 0o755
		}
		writeFileMode(root, p, init[p], tmpdir, mode)
		note(init[p])
	}
	cfg := &synchronization.Configuration{
		WatchMode:              synchronization.WatchMode_WatchModeNoWatch,
		StageMode:              synchronization.StageMode_StageModeMutagen,
		MaximumStagingFileSize: c.MaxSize,
	}
	ep := lepx.NewEndpoint(nil, root, session, cfg, false)
	defer ep.Shutdown()
	stagingDir := filepath.Join(os.Getenv("MUTAGEN_DATA_DIRECTORY"), "staging", session+"-beta")
	noteStaged := func() {
		filepath.Walk(stagingDir, func(p string, info os.FileInfo, err error) error {
			if err == nil && info.Mode().IsRegular() {
				if b, err := os.ReadFile(p); err == nil {
					note(b)
				}
			}
			return nil
		})
	}
	ctx := context.Background()
	disk0 := lepx.Walk(root)
	var hops []string
	tags := []string{}

	scan := func() *core.Entry {
		snap, err, _ := ep.Scan(ctx, nil, false)
		if err != nil {
			panic("Scan: " + err.Error())
		}
		return snap.Content
	}
	scanRoot := map[string][]byte{} // root files as of the last scan
	doScan := func() *core.Entry {
		s := scan()
		d := lepx.Walk(root)
		scanRoot = d.Files
		return s
	}
	dbg("init written")
	snapshot := doScan()
	dbg("scanned")

	applyEdits := func(es []Edit) {
		for _, e := range es {
			full := filepath.Join(root, filepath.FromSlash(e.Path))
			if e.InPlace {
				st, err := os.Lstat(full)
				old, rerr := os.ReadFile(full)
				if err != nil || rerr != nil || !st.Mode().IsRegular() || len(old) == 0 {
					continue
				}
				nw := append([]byte(nil), old...)
				if nw[0] == '#' {
					nw[0] = '%'
				} else {
					nw[0] = '#'
				}
				f, err := os.OpenFile(full, os.O_WRONLY, 0)
				if err != nil {
					continue
				}
				f.WriteAt(nw, 0)
				f.Close()
				os.Chtimes(full, st.ModTime(), st.ModTime())
				note(nw)
				hops = append(hops, fmt.Sprintf("HEdit %s (Some %s)", coretree.Str(e.Path), coretree.Str(cname(nw))))
				tags = append(tags, "edit:inplace")
				continue
			}
			if e.Content == nil {
				if st, err := os.Lstat(full); err == nil && !st.IsDir() {
					os.Remove(full)
				}
				hops = append(hops, fmt.Sprintf("HEdit %s None", coretree.Str(e.Path)))
			} else {
				content := expand(*e.Content)
				if st, err := os.Lstat(full); err == nil && st.IsDir() {
					continue
				}
				if _, err := os.Lstat(filepath.Dir(full)); err != nil {
					continue
				}
				writeFile(root, e.Path, []byte(content), tmpdir)
				note([]byte(content))
				hops = append(hops, fmt.Sprintf("HEdit %s (Some %s)", coretree.Str(e.Path), coretree.Str(content)))
			}
			tags = append(tags, "edit")
		}
	}

	// one Stage + stream round; streamOf gives the delivery mode per plan
	round := func(streamOf func(Plan) string, abortAt int, finalize bool, swap bool, extra int) {
		paths := make([]string, len(c.Plans))
		digests := make([][]byte, len(c.Plans))
		req := make([]string, len(c.Plans))
		srcs := make([]string, len(c.Plans))
		target := map[string][]byte{}
		for i, pl := range c.Plans {
			content := []byte(expand(pl.Content))
			note(content)
			paths[i] = pl.Path
			digests[i] = lepx.Sha1(content)
			target[pl.Path] = content
			req[i] = fmt.Sprintf("(%s, %s)", coretree.Str(pl.Path), coretree.Str(ids.Content(content)))
			// reverse lookup: the scan-time root file with this content
			srcs[i] = "None"
			var cands []string
			for q, b := range scanRoot {
				if string(b) == string(content) {
					cands = append(cands, q)
				}
			}
			if len(cands) == 1 {
				srcs[i] = "(Some " + coretree.Str(cands[0]) + ")"
			} else if len(cands) > 1 {
				panic("harness: ambiguous local copy")
			}
		}
		fp, sigs, receiver, err := ep.Stage(append([]string(nil), paths...), digests)
		if err != nil {
			panic("Stage: " + err.Error())
		}
		fp = append([]string(nil), fp...)
		noteStaged()
		sg := make([]string, len(sigs))
		for i, s := range sigs {
			sg[i] = fmt.Sprintf("Sg %d %d %d", s.BlockSize, s.LastBlockSize, len(s.Hashes))
		}
		needed := make([]string, len(fp))
		for i, p := range fp {
			needed[i] = coretree.Str(p)
		}
		hops = append(hops, fmt.Sprintf("HStage %s %s %s (Some %s)", hx.List(req), hx.List(srcs), hx.List(sg), hx.List(needed)))
		if len(fp) < len(paths) {
			tags = append(tags, "stage:omitted")
		}
		if receiver == nil {
			return
		}
		// build the transmissions
		planOf := map[string]Plan{}
		for _, pl := range c.Plans {
			planOf[pl.Path] = pl
		}
		var stream []tx
		for i, p := range fp {
			mode := streamOf(planOf[p])
			tgt := target[p]
			if swap && len(fp) >= 2 {
				if i == 0 {
					tgt = target[fp[1]]
				} else if i == 1 {
					tgt = target[fp[0]]
				}
			}
			var baseContent []byte
			if b, err := os.ReadFile(filepath.Join(root, filepath.FromSlash(p))); err == nil {
				baseContent = b
			}
			tags = append(tags, "stream:"+mode)
			stream = append(stream, streamFor(mode, tgt, baseContent, sigs[i])...)
		}
		for i := 0; i < extra; i++ {
			stream = append(stream, tx{data: []byte("extra")}, tx{done: true})
		}
		for i, t := range stream {
			if abortAt > 0 && i >= abortAt {
				tags = append(tags, "aborted")
				break
			}
			tr := &rsync.Transmission{Done: t.done}
			if !t.done {
				tr.Operation = &rsync.Operation{Data: t.data, Start: t.start, Count: t.count}
			}
			faulty := c.FlushFault && t.done
			var saved syscall.Rlimit
			if faulty {
				// the flush in Commit writes more than the limit allows
				syscall.Getrlimit(syscall.RLIMIT_FSIZE, &saved)
				syscall.Setrlimit(syscall.RLIMIT_FSIZE, &syscall.Rlimit{Cur: 4096, Max: saved.Max})
			}
			err := receiver.Receive(tr)
			if faulty {
				syscall.Setrlimit(syscall.RLIMIT_FSIZE, &saved)
				tags = append(tags, "flushfault")
			}
			noteStaged()
			obs := "RvOk"
			if err != nil {
				if strings.Contains(err.Error(), "unexpected file transmission") {
					obs = "RvUnexpected"
				} else {
					panic("Receive: " + err.Error())
				}
			}
			if faulty {
				hops = append(hops, fmt.Sprintf("HRecvF (%s) %s", t.coq(), obs))
			} else {
				hops = append(hops, fmt.Sprintf("HRecv (%s) %s", t.coq(), obs))
			}
		}
		if finalize {
			if err := rsync.Transmit(root, nil, nil, receiver); err != nil {
				panic("finalize: " + err.Error())
			}
			noteStaged()
			hops = append(hops, "HFinal")
		} else {
			tags = append(tags, "not-finalized")
		}
	}

	if c.Pre {
		tags = append(tags, "pre-staged")
		round(func(p Plan) string {
			if p.PreStream == "" {
				return "empty"
			}
			return p.PreStream
		}, 0, true, false, 0)
		snapshot = doScan()
	}
	applyEdits(c.EditsStage)
	round(func(p Plan) string { return p.Stream }, c.AbortAt, c.Finalize, c.Swap, c.ExtraAtEnd)
	dbg("staged")
	applyEdits(c.EditsTrans)

	// the transition
	var changes []*core.Change
	type ref struct {
		idx  int
		name string
	}
	refs := make([]ref, len(c.Plans))
	dirIdx := map[string]int{}
	var items []string
	for i, pl := range c.Plans {
		content := []byte(expand(pl.Content))
		d := lepx.Sha1(content)
		entry := &core.Entry{Kind: core.EntryKind_File, Digest: d, Executable: pl.Exec}
		old := "None"
		switch pl.Kind {
		case "dir":
			dir, name := filepath.Dir(pl.Path), filepath.Base(pl.Path)
			k, ok := dirIdx[dir]
			if !ok {
				k = len(changes)
				dirIdx[dir] = k
				changes = append(changes, &core.Change{Path: dir, New: &core.Entry{
					Kind: core.EntryKind_Directory, Contents: map[string]*core.Entry{}}})
			}
			changes[k].New.Contents[name] = entry
			refs[i] = ref{k, name}
		case "replace":
			oldEntry := lepx.At(snapshot, pl.Path)
			if oldEntry == nil || oldEntry.Kind != core.EntryKind_File {
				panic("harness: replace of a path that is not a file in the snapshot")
			}
			old = "(Some " + coretree.Str(ids.Digest(oldEntry.Digest)) + ")"
			refs[i] = ref{len(changes), ""}
			changes = append(changes, &core.Change{Path: pl.Path, Old: oldEntry, New: entry})
		default:
			refs[i] = ref{len(changes), ""}
			changes = append(changes, &core.Change{Path: pl.Path, New: entry})
		}
		items = append(items, fmt.Sprintf("It %s %s %s", coretree.Str(pl.Path), coretree.Str(ids.Content(content)), old))
	}
	before := lepx.Walk(root)
	dbg("walked before")
	tctx, tcancel := context.WithCancel(ctx)
	stopWatch := make(chan struct{})
	if c.XDev {
		// cancel as soon as the cross-device copy has created its temporary file
		go func() {
			for {
				select {
				case <-stopWatch:
					return
				default:
				}
				if ents, err := os.ReadDir(root); err == nil {
					for _, e := range ents {
						if strings.HasPrefix(e.Name(), ".mutagen-temporary-cross-device-rename") {
							tcancel()
							return
						}
					}
				}
				time.Sleep(50 * time.Microsecond)
			}
		}()
	}
	results, problems, missing, err := ep.Transition(tctx, changes)
	close(stopWatch)
	tcancel()
	dbg("transitioned")
	if err != nil {
		panic("Transition: " + err.Error())
	}
	after := lepx.Walk(root)
	installed := make([]string, len(c.Plans))
	nInstalled := 0
	problemAt := map[string]bool{}
	for _, pb := range problems {
		problemAt[pb.Path] = true
	}
	for i, pl := range c.Plans {
		r := results[refs[i].idx]
		ok := false
		if refs[i].name != "" {
			ok = r != nil && r.Contents[refs[i].name] != nil
		} else {
			ok = r != nil && r.Kind == core.EntryKind_File &&
				string(r.Digest) == string(lepx.Sha1([]byte(expand(pl.Content))))
		}
		// a result equal to the new entry with a problem at the path is a
		// failed swap between entries of equal digest
		ok = ok && !problemAt[pl.Path]
		installed[i] = fmt.Sprint(ok)
		if ok {
			nInstalled++
		}
	}
	for _, b := range before.Files {
		note(b)
	}
	for _, b := range after.Files {
		note(b)
	}
	// a cancellation that took effect during the cross-device copy is a
	// fault of the rename step: the staged file was there, nothing is installed
	faults := make([]string, len(c.Plans))
	for i := range faults {
		faults[i] = "FNone"
		if c.XDev && installed[i] == "false" && !missing {
			faults[i] = "FRename"
			tags = append(tags, "xdev:preempted")
		}
	}
	if c.XDev {
		tags = append(tags, "xdev")
	}
	hops = append(hops, fmt.Sprintf("HTransF %s %s %s %s %s %v %d", hx.List(items), hx.List(faults), coqFiles(before), coqFiles(after),
		hx.List(installed), missing, len(problems)))
	if missing {
		tags = append(tags, "missing")
	}
	if nInstalled > 0 {
		tags = append(tags, "installed")
	}
	if len(problems) > 0 {
		tags = append(tags, "problems")
	}

	dbg("hops done")
	// the hash table
	keys := make([]string, 0, len(known))
	for k := range known {
		keys = append(keys, k)
	}
	sort.Strings(keys)
	tab := make([]string, len(keys))
	for i, k := range keys {
		tab[i] = fmt.Sprintf("(%s, %s)", coretree.Str(k), coretree.Str(known[k]))
	}
	mx := "None"
	if c.MaxSize != 0 {
		mx = fmt.Sprintf("(Some %d)", c.MaxSize)
		tags = append(tags, "maxsize")
	}
	res.coq = fmt.Sprintf("(%s, %s, %s,\n  %s)", hx.List(tab), mx, coqFiles(disk0), hx.List(hops))
	res.nt = nInstalled > 0 && (missing || len(problems) > 0)
	res.tags = tags
	return
}

// ---------- generation ----------

var smallContents = []string{"", "A", "hello", "hello world", "0123456789abcdef", "another file content"}
var streams = []string{"ok", "ok", "ok", "ok", "corrupt", "truncate", "nodone", "empty", "reorder", "zero",
	"block", "blocksplit", "blockbad", "blockover"}

func genCase(r interface{ Intn(int) int }) Case {
	c := Case{Init: map[string]string{}, InitExec: map[string]bool{}, Finalize: r.Intn(6) != 0}
	big := r.Intn(10) == 0
	// initial root: some files in the root directory and in d/
	initPaths := []string{"a", "b", "d/x", "d/y"}
	for _, p := range initPaths {
		if r.Intn(3) != 0 {
			c.Init[p] = fmt.Sprintf("init-%s-%d", p, r.Intn(3))
		}
	}
	if _, ok := c.Init["d/x"]; !ok {
		c.Init["d/x"] = "keeps d alive"
	}
	if big {
		c.Init["a"] = "BIG:a"
	}
	used := map[string]bool{}
	content := func(i int) string {
		for {
			s := fmt.Sprintf("%s#%d", smallContents[r.Intn(len(smallContents))], r.Intn(4))
			if r.Intn(8) == 0 {
				s = smallContents[r.Intn(len(smallContents))]
			}
			if !used[s] {
				used[s] = true
				return s
			}
		}
	}
	n := 1 + r.Intn(4)
	newNames := []string{"n1", "n2", "d/n3", "n4"}
	dirNames := []string{"nd/f1", "nd/f2", "nd/sub", "nd2/g"}
	usedPath := map[string]bool{}
	for i := 0; i < n; i++ {
		pl := Plan{Stream: streams[r.Intn(len(streams))]}
		switch r.Intn(6) {
		case 0, 1:
			pl.Kind = "create"
			pl.Path = newNames[r.Intn(len(newNames))]
		case 2, 3:
			pl.Kind = "replace"
			var ps []string
			for p := range c.Init {
				ps = append(ps, p)
			}
			sort.Strings(ps)
			pl.Path = ps[r.Intn(len(ps))]
		default:
			pl.Kind = "dir"
			pl.Path = dirNames[r.Intn(len(dirNames))]
		}
		if usedPath[pl.Path] {
			continue
		}
		usedPath[pl.Path] = true
		pl.Content = content(i)
		if pl.Kind == "replace" {
			switch r.Intn(5) {
			case 0: // base plus a tail, so that block operations reconstruct it
				if big && pl.Path == "a" {
					pl.Content = "BIG+:a"
				} else {
					pl.Content = c.Init[pl.Path] + "+tail"
				}
				pl.Stream = []string{"block", "blocksplit", "ok", "blockover"}[r.Intn(4)]
			case 1: // same content as before (permissions only)
				if r.Intn(3) == 0 {
					pl.Content = c.Init[pl.Path]
				}
			}
		}
		if r.Intn(5) == 0 {
			pl.PreStream = []string{"ok", "ok", "corrupt", "nodone"}[r.Intn(4)]
		}
		// executability: a replaced file often changes content AND the bit
		if pl.Kind == "replace" {
			if r.Intn(3) == 0 {
				c.InitExec[pl.Path] = true
			}
			pl.Exec = c.InitExec[pl.Path]
			if r.Intn(3) == 0 {
				pl.Exec = !pl.Exec
			}
		} else if r.Intn(6) == 0 {
			pl.Exec = true
		}
		c.Plans = append(c.Plans, pl)
	}
	if len(c.Plans) == 0 {
		c.Plans = append(c.Plans, Plan{Kind: "create", Path: "n1", Content: content(0), Stream: "ok"})
	}
	// local copies: a root file (not itself planned) holding a planned content
	copyNames := []string{"k1", "k2", "d/k3"}
	for i := range c.Plans {
		if r.Intn(4) == 0 && c.Plans[i].Kind != "replace" || r.Intn(10) == 0 {
			name := copyNames[r.Intn(len(copyNames))]
			if _, taken := c.Init[name]; !taken {
				dup := false
				for _, v := range c.Init {
					if v == c.Plans[i].Content {
						dup = true
					}
				}
				if !dup {
					c.Init[name] = c.Plans[i].Content
					// sometimes the copy changes after the scan
					switch r.Intn(4) {
					case 0:
						s := "changed after scan"
						c.EditsStage = append(c.EditsStage, Edit{Path: name, Content: &s})
					case 1:
						c.EditsStage = append(c.EditsStage, Edit{Path: name})
					case 2:
						c.EditsStage = append(c.EditsStage, Edit{Path: name, InPlace: true})
					}
				}
			}
		}
	}
	// every content in the root must be unique (unambiguous reverse lookup)
	seen := map[string]string{}
	var initKeys []string
	for p := range c.Init {
		initKeys = append(initKeys, p)
	}
	sort.Strings(initKeys)
	for _, p := range initKeys {
		v := c.Init[p]
		if q, dup := seen[expand(v)]; dup {
			c.Init[p] = v + "/" + p + q
		}
		seen[expand(c.Init[p])] = p
	}
	c.Pre = r.Intn(5) == 0
	if r.Intn(6) == 0 {
		c.AbortAt = 1 + r.Intn(6)
	}
	c.Swap = r.Intn(8) == 0
	if r.Intn(10) == 0 {
		c.ExtraAtEnd = 1
	}
	if r.Intn(12) == 0 {
		c.MaxSize = uint64(4 + r.Intn(20))
	}
	// conflicts just before the transition
	for _, pl := range c.Plans {
		if r.Intn(7) == 0 && pl.Kind != "dir" {
			if pl.Kind == "replace" && r.Intn(2) == 0 {
				c.EditsTrans = append(c.EditsTrans, Edit{Path: pl.Path})
			} else {
				s := fmt.Sprintf("conflicting content at %s", pl.Path)
				c.EditsTrans = append(c.EditsTrans, Edit{Path: pl.Path, Content: &s})
			}
		}
	}
	return c
}

const header = "From Coq Require Import List Bool NArith String.\nImport ListNotations.\nFrom Mv Require Import Common.Bytes Model.Staging Harness.StagingH.\nLocal Open Scope string_scope."

func main() {
	cfg := hx.Parse()
	signal.Ignore(syscall.SIGXFSZ)
	scratch = lepx.NewScratch()
	defer scratch.Remove()
	w := hx.NewWriter(cfg, header, "scase", "staging_failures", 150)
	w.Rule = "a case = (SHA-1 table of every content written or found, maximum staging file size, initial root, history: external edits, Stage, each transmission fed to the real receiver with its result, finalization, Transition with the independently re-read root before and after); distinct = distinct Coq terms; non-trivial = at least one planned file installed and at least one not installed (missing files or a problem)"
	skipped := map[string]int{}
	emit := func(c Case, origin string, r result) {
		if w.Aborted {
			return
		}
		if r.skip != "" && r.panic == "" {
			skipped[r.skip]++
			return
		}
		if w.Guard(c, 5*time.Second, func() {
			if r.panic != "" {
				panic(r.panic)
			}
		}) {
			w.Add(hx.Case{Coq: r.coq, Replay: c, Nontrivial: r.nt, Tags: r.tags, Origin: origin})
		}
	}
	runAll := func(cases []Case, origin string) {
		results := make([]result, len(cases))
		var wg sync.WaitGroup
		sem := make(chan struct{}, 16)
		for i := range cases {
			wg.Add(1)
			sem <- struct{}{}
			go func(i int) {
				defer wg.Done()
				defer func() { <-sem }()
				done := make(chan result, 1)
				go func() { done <- runCase(cases[i]) }()
				select {
				case r := <-done:
					results[i] = r
				case <-time.After(30 * time.Second):
					results[i] = result{panic: "hang: no return within 30s"}
				}
			}(i)
		}
		wg.Wait()
		for i := range cases {
			emit(cases[i], origin, results[i])
		}
	}
	if cfg.Replay != "" {
		b, err := os.ReadFile(cfg.Replay)
		if err != nil {
			panic(err)
		}
		var wrapper struct {
			Case Case `json:"case"`
		}
		if err := json.Unmarshal(b, &wrapper); err != nil {
			panic(err)
		}
		runAll([]Case{wrapper.Case}, "replay")
		w.Close()
		return
	}
	var corpus []Case
	for _, raw := range hx.LoadCorpus(cfg.Corpus) {
		var c Case
		if json.Unmarshal(raw, &c) == nil && len(c.Plans) > 0 {
			corpus = append(corpus, c)
		}
	}
	runAll(corpus, "corpus")
	// cross-device relocation of a huge file with the context cancelled mid-copy
	nx := 3
	if cfg.Thorough() {
		nx = 12
	}
	xdev := make([]Case, nx)
	for i := range xdev {
		tag := fmt.Sprintf("HUGE:%d", i)
		xdev[i] = Case{XDev: true, Finalize: true, Init: map[string]string{"bigsrc": tag, "a": "small"},
			Plans: []Plan{{Path: "bigdst", Content: tag, Kind: "create", Stream: "ok"}}}
	}
	runAll(xdev, "xdev")
	// the final flush of a staged file fails (one at a time: the file size
	// limit that provokes it is process-wide)
	nf := 3
	if cfg.Thorough() {
		nf = 10
	}
	for i := 0; i < nf; i++ {
		content := strings.Repeat(fmt.Sprintf("flush-fault-%d ", i), 400)[:5000]
		runAll([]Case{{FlushFault: true, Finalize: true, Init: map[string]string{"a": "small"},
			Plans: []Plan{{Path: "n1", Content: content, Kind: "create", Stream: "ok"}}}}, "flushfault")
	}
	n := 1800
	if cfg.Thorough() {
		n = 30000
	}
	for done := 0; done < n; {
		k := 2000
		if n-done < k {
			k = n - done
		}
		batch := make([]Case, k)
		for i := range batch {
			batch[i] = genCase(cfg.Rand)
		}
		runAll(batch, "random")
		done += k
	}
	w.Extra["skipped"] = skipped
	w.Close()
	fmt.Printf("cases %d skipped %v\n", w.Total(), skipped)
}
